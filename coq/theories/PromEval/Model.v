(* C27 — PromQL evaluation and reductions.
   Model of: internal/promql/functions.go (aggregateAt0, funcSum/Min/Max/Avg/Count/Group/StdVar/Quantile,
             funcTopK + evaluator.weight, window.moveOneLeft/setValueAtRight/fillPrefixWith, overTimeCall,
             func*OverTime), internal/promql/reductions.go (evalReductionRules, reduce*, reduceWhat),
             internal/promql/engine.go (NewEvaluator's reduction pass, buildSeriesQuery's what/grouping,
             eval of Paren/Matrix/Subquery/Call/Aggregate, exec's empty-series removal and trimming),
             value.go (SeriesTags.hash grouping by/without), and the series-query contract of the storage
             (internal/api/promql.go QuerySeries: per time slot rows are merged per group, tsValues.value).
   Values are [option Q]: None is NaN / NilValue (a missing point).
   [fixed : bool] selects the faithful variant (false: the code as it is) or the repaired one (true);
   see Props/C27.v for the findings the two variants differ on. *)
From Coq Require Import ZArith QArith Qround List Bool.
Import ListNotations.
Open Scope Z_scope.

Definition val := option Q.

Definition qlt (a b : Q) : bool := negb (Qle_bool b a).
Definition present (l : list val) : list Q :=
  flat_map (fun v => match v with Some x => [x] | None => [] end) l.
Definition is_some {A} (o : option A) : bool := match o with Some _ => true | None => false end.
Definition qsum (l : list Q) : Q := fold_right Qplus 0%Q l.
Definition zlen {A} (l : list A) : Z := Z.of_nat (length l).

(* ------------------------------------------------------------------ *)
(* Per-timestamp kernels: transcriptions of the loops of func* (one column = the values of the series of
   one group at one timestamp; for *_over_time: the values of one series inside the window).            *)

(* funcSum: res=NaN, nan=true; skip NaN; first value assigns, others add *)
Definition step_sum (acc v : val) : val :=
  match v with None => acc | Some x => match acc with None => Some x | Some a => Some (a + x)%Q end end.
Definition f_sum (l : list val) : val := fold_left step_sum l None.

(* funcMax / funcMin: "if nan || res < v" / "if nan || v < res" *)
Definition step_max (acc v : val) : val :=
  match v with None => acc | Some x => match acc with None => Some x | Some a => if qlt a x then Some x else Some a end end.
Definition f_max (l : list val) : val := fold_left step_max l None.
Definition step_min (acc v : val) : val :=
  match v with None => acc | Some x => match acc with None => Some x | Some a => if qlt x a then Some x else Some a end end.
Definition f_min (l : list val) : val := fold_left step_min l None.

(* (sum, cnt) accumulation shared by funcAvg / funcStdVar / func{Avg,StdVar}OverTime *)
Definition step_sc (acc : Q * Z) (v : val) : Q * Z :=
  match v with None => acc | Some x => ((fst acc + x)%Q, snd acc + 1) end.
Definition sum_cnt (l : list val) : Q * Z := fold_left step_sc l (0%Q, 0).

Definition f_avg (l : list val) : val :=
  let '(s, c) := sum_cnt l in if c =? 0 then None else Some (s / inject_Z c)%Q.
Definition f_count (l : list val) : val := Some (inject_Z (snd (sum_cnt l))).
Definition f_group (l : list val) : val := Some 1%Q.

(* funcStdVar: mean := sum/cnt; res += d*d/cnt.  With cnt = 0 the mean is NaN, the second loop adds nothing: 0 *)
Definition step_var (mean : Q) (c : Z) (acc : Q) (v : val) : Q :=
  match v with None => acc | Some x => (acc + (x - mean) * (x - mean) / inject_Z c)%Q end.
Definition f_stdvar (l : list val) : val :=
  let '(s, c) := sum_cnt l in
  Some (fold_left (step_var (s / inject_Z c)%Q c) l 0%Q).

(* funcLastOverTime *)
Definition f_last (l : list val) : val :=
  fold_left (fun acc v => match v with None => acc | Some x => Some x end) l None.

(* funcQuantile.  Go: x (a permutation of the series indices, kept ACROSS timestamps) is sorted with
   sort.Slice by "<" on the values at this timestamp; NaN compares false with everything.  For n <= 12
   sort.Slice is insertionSortLessFunc, transcribed here ([rp] is the sorted prefix, reversed).          *)
Definition vlt (a b : val) : bool := match a, b with Some x, Some y => qlt x y | _, _ => false end.
Definition getv (col : list val) (i : nat) : val := nth i col None.
Fixpoint ins_idx (col : list val) (e : nat) (rp : list nat) : list nat :=
  match rp with
  | [] => [e]
  | p :: rest => if vlt (getv col e) (getv col p) then p :: ins_idx col e rest else e :: rp
  end.
Definition isort_idx (col : list val) (x : list nat) : list nat :=
  rev (fold_left (fun acc e => ins_idx col e acc) x []).

Definition vmul (a : val) (w : Q) : val := match a with Some x => Some (x * w)%Q | None => None end.
Definition vadd (a b : val) : val := match a, b with Some x, Some y => Some (x + y)%Q | _, _ => None end.

(* ix = q*(n-1); i1 = floor ix; i2 = min(n-1, i1+1); w1 = i2-ix; w2 = 1-w1; v[i1]*w1 + v[i2]*w2 *)
Definition interp (q : Q) (n : Z) (at_ : Z -> val) : val :=
  let ix := (q * inject_Z (n - 1))%Q in
  let i1 := Qfloor ix in
  let i2 := Z.min (n - 1) (i1 + 1) in
  let w1 := (inject_Z i2 - ix)%Q in
  let w2 := (1 - w1)%Q in
  vadd (vmul (at_ i1) w1) (vmul (at_ i2) w2).

(* faithful: NaNs take part (as values that poison the sum: NaN*0 = NaN) *)
Definition quantile_faithful (q : Q) (x : list nat) (col : list val) : list nat * val :=
  let x' := isort_idx col x in
  (x', interp q (zlen col) (fun i => getv col (nth (Z.to_nat i) x' O))).

Fixpoint ins_q (e : Q) (l : list Q) : list Q :=
  match l with [] => [e] | p :: r => if qlt e p then e :: l else p :: ins_q e r end.
Definition sort_q (l : list Q) : list Q := fold_right ins_q [] l.
(* repaired: missing points excluded *)
Definition quantile_def (q : Q) (col : list val) : val :=
  let s := sort_q (present col) in
  match s with [] => None | _ => interp q (zlen s) (fun i => Some (nth (Z.to_nat i) s 0%Q)) end.

(* ------------------------------------------------------------------ *)
(* Series, grouping (SeriesTags.hash with on/tags; FNV collisions not modelled) *)
Definition tags := list (nat * Z).                (* (tag index, value), ascending index *)
Definition series := (tags * list val)%type.

Definition memn (i : nat) (l : list nat) : bool := existsb (Nat.eqb i) l.
Definition group_key (without : bool) (g : list nat) (t : tags) : tags :=
  filter (fun p => if without then negb (memn (fst p) g) else memn (fst p) g) t.
Definition tag_eqb (a b : nat * Z) : bool := Nat.eqb (fst a) (fst b) && (snd a =? snd b).
Fixpoint tags_eqb (a b : tags) : bool :=
  match a, b with
  | [], [] => true
  | x :: a', y :: b' => tag_eqb x y && tags_eqb a' b'
  | _, _ => false
  end.

Fixpoint add_to_group (k : tags) (s : list val) (gs : list (tags * list (list val))) : list (tags * list (list val)) :=
  match gs with
  | [] => [(k, [s])]
  | (k', ss) :: r => if tags_eqb k k' then (k', ss ++ [s]) :: r else (k', ss) :: add_to_group k s r
  end.
Definition group_series (without : bool) (g : list nat) (l : list series) : list (tags * list (list val)) :=
  fold_left (fun gs s => add_to_group (group_key without g (fst s)) (snd s) gs) l [].

Definition column (i : nat) (ds : list (list val)) : list val := map (fun s => nth i s None) ds.
Definition npoints (ds : list (list val)) : nat := match ds with [] => O | d :: _ => length d end.

Inductive aggop := ASum | AMin | AMax | AAvg | ACount | AGroup | AStdVar | AQuantile.

Definition kernel (op : aggop) : list val -> val :=
  match op with
  | ASum => f_sum | AMin => f_min | AMax => f_max | AAvg => f_avg | ACount => f_count
  | AGroup => f_group | AStdVar => f_stdvar | AQuantile => f_group (* not used *)
  end.

(* quantile over the timestamps, threading the index permutation *)
Fixpoint quantile_run (q : Q) (x : list nat) (cols : list (list val)) : list val :=
  match cols with
  | [] => []
  | c :: r => let '(x', v) := quantile_faithful q x c in v :: quantile_run q x' r
  end.

Definition agg_group (fixed : bool) (op : aggop) (q : Q) (ds : list (list val)) : list val :=
  let cols := map (fun i => column i ds) (seq 0 (npoints ds)) in
  match op with
  | AQuantile => if fixed then map (quantile_def q) cols else quantile_run q (seq 0 (length ds)) cols
  | _ => map (kernel op) cols
  end.

Definition aggregate (fixed : bool) (op : aggop) (q : Q) (without : bool) (g : list nat) (l : list series) : list series :=
  map (fun kg => (fst kg, agg_group fixed op q (snd kg))) (group_series without g l).

(* ------------------------------------------------------------------ *)
(* window.moveOneLeft / overTimeCall.  t = time axis, v = values (mutated: v[r] receives the result).  *)
Record wnd := { w_l : Z; w_r : Z; w_n : Z; w_s : Z; w_done : bool }.
Definition zn {A} (l : list A) (d : A) (i : Z) : A := nth (Z.to_nat i) l d.
Definition vpresent (v : list val) (i : Z) : bool := is_some (zn v None i).

(* the "for !found && 0 < l" loop; returns (l, n, found) *)
Fixpoint extend (fuel : nat) (t : list Z) (v : list val) (w s : Z) (strict : bool) (r l n : Z) (found : bool) : Z * Z * bool :=
  match fuel with
  | O => (l, n, found)
  | S f =>
    if found || negb (0 <? l) then (l, n, found)
    else
      let found' := (w <=? zn t 0 r - zn t 0 l + s) || (strict && (w <? zn t 0 r - zn t 0 (l - 1) + s)) in
      if found' then (l, n, true)
      else let l' := l - 1 in
           extend f t v w s strict r l' (if vpresent v l' then n + 1 else n) false
  end.

(* one moveOneLeft; None = returned false.  The new state is returned in both cases (done flag). *)
Definition move (t : list Z) (v : list val) (w : Z) (strict : bool) (st : wnd) : wnd * bool :=
  if w_done st then (st, false)
  else
    let n0 := if (0 <? w_n st) && vpresent v (w_r st) then w_n st - 1 else w_n st in
    let r := w_r st - 1 in
    let '(l1, n1) := if r <? w_l st
                     then (r, if negb (vpresent v r) || (strict && (w <? w_s st)) then 0 else 1)
                     else (w_l st, n0) in
    let found0 := (w <=? 0) && (l1 =? r) in
    let '(l, n, found) := extend (length t) t v w (w_s st) strict r l1 n1 found0 in
    if l <=? 0 then
      if found then ({| w_l := l; w_r := r; w_n := n; w_s := w_s st; w_done := true |}, true)
      else ({| w_l := w_l st; w_r := w_r st; w_n := w_n st; w_s := w_s st; w_done := true |}, false)
    else ({| w_l := l; w_r := r; w_n := n; w_s := zn t 0 r - zn t 0 (r - 1); w_done := false |}, true).

Fixpoint set_nth {A} (i : nat) (x : A) (l : list A) : list A :=
  match l, i with
  | [], _ => []
  | _ :: r, O => x :: r
  | a :: r, S j => a :: set_nth j x r
  end.
Definition slice {A} (l : list A) (lo hi : Z) : list A :=    (* l[lo : hi+1] *)
  firstn (Z.to_nat (hi - lo + 1)) (skipn (Z.to_nat lo) l).

Inductive otfn := OAvg | OMin | OMax | OSum | OCount | OStdVar | OLast.
Definition ot_kernel (fn : otfn) : list val -> val :=
  match fn with
  | OAvg => f_avg | OMin => f_min | OMax => f_max | OSum => f_sum | OCount => f_count
  | OStdVar => f_stdvar | OLast => f_last
  end.
Definition ot_strict (fn : otfn) : bool := match fn with OSum | OCount | OStdVar => true | _ => false end.
Definition ot_nil (fn : otfn) : val := match fn with OCount => Some 0%Q | _ => None end.

(* setValueAtRight's bookkeeping of n *)
Definition set_right (v : list val) (st : wnd) (x : val) : list val * wnd :=
  let was := vpresent v (w_r st) in
  let n := if negb was && is_some x then w_n st + 1 else if was && negb (is_some x) then w_n st - 1 else w_n st in
  (set_nth (Z.to_nat (w_r st)) x v,
   {| w_l := w_l st; w_r := w_r st; w_n := n; w_s := w_s st; w_done := w_done st |}).

Fixpoint ot_loop (fuel : nat) (kern : list val -> val) (strict : bool) (nilv : val) (t : list Z) (w : Z) (v : list val) (st : wnd)
  : list val * wnd :=
  match fuel with
  | O => (v, st)
  | S f =>
    let '(st1, okm) := move t v w strict st in
    if okm then
      let x := if negb (w_n st1 =? 0) then kern (slice v (w_l st1) (w_r st1)) else nilv in
      let '(v2, st2) := set_right v st1 x in
      ot_loop f kern strict nilv t w v2 st2
    else (v, st1)
  end.

(* the window loop shared by overTimeCall and funcQuantileOverTime; step = LOD step of the last LOD (ev.newWindow) *)
Definition over_time_gen (kern : list val -> val) (strict : bool) (nilv : val) (t : list Z) (w step : Z) (v : list val) : list val :=
  let n := zlen t in
  let st0 := {| w_l := n; w_r := n; w_n := 0; w_s := step; w_done := (n =? 0) |} in
  let '(v', st) := ot_loop (S (length t)) kern strict nilv t w v st0 in
  (* fillPrefixWith(NilValue): indices [0, r) *)
  map (fun iv => if (Z.of_nat (fst iv) <? w_r st) then None else snd iv) (combine (seq 0 (length v')) v').

(* overTimeCall on one series *)
Definition over_time (fn : otfn) (t : list Z) (w step : Z) (v : list val) : list val :=
  over_time_gen (ot_kernel fn) (ot_strict fn) (ot_nil fn) t w step v.

(* funcQuantileOverTime (0 <= q <= 1): strict window; the present points of the window are COPIED
   (getCopyOfValues), sorted, interpolated *)
Definition quantile_over_time (q : Q) (t : list Z) (w step : Z) (v : list val) : list val :=
  over_time_gen (quantile_def q) true None t w step v.

(* funcPresentOverTime.  Faithful: "if p || lastSeen < t-ev.r { 1 } else { NilValue }" — a missing point gets 1
   when NO point was seen within the range, and NilValue when one was.  Repaired: the comparison the other way. *)
Fixpoint present_run (fixed : bool) (t : list Z) (v : list val) (r : Z) (last : option Z) : list val :=
  match t, v with
  | ti :: t', x :: v' =>
      let p := is_some x in
      let far := match last with None => true | Some ls => ls <? ti - r end in
      let one := p || (if fixed then negb far else far) in
      (if one then Some 1%Q else None) :: present_run fixed t' v' r (if p then Some ti else last)
  | _, _ => []
  end.

(* ------------------------------------------------------------------ *)
(* Storage contract (QuerySeries): raw rows = per raw series, per time slot, the list of recorded events.
   Rows of one slot whose tags agree on the group-by tags are merged (count/sum/min/max/sumsquare add up =
   the events are concatenated); the value selected by "what" is computed from the merged row.          *)
Inductive what := WNone | WAvg | WCount | WCountSec | WMin | WMax | WSum | WSumSec | WStdVar.

Record raw := { r_tags : list Z; r_slots : list (list Z) }.

Definition qmax (a b : Q) : Q := if qlt a b then b else a.
Definition row_value (w : what) (qstep lodstep : Z) (ev : list Z) : val :=
  match ev with
  | [] => None
  | e0 :: _ =>
    let evq := map inject_Z ev in
    let cnt := inject_Z (zlen ev) in
    let sm := qsum evq in
    match w with
    | WNone => None
    | WAvg => Some (sm / cnt)%Q
    | WCount => Some (cnt * inject_Z qstep / inject_Z lodstep)%Q
    | WCountSec => Some (cnt / inject_Z lodstep)%Q
    | WSum => Some (sm * inject_Z qstep / inject_Z lodstep)%Q
    | WSumSec => Some (sm / inject_Z lodstep)%Q
    | WMin => Some (inject_Z (fold_left Z.min ev e0))
    | WMax => Some (inject_Z (fold_left Z.max ev e0))
    | WStdVar => if zlen ev <? 2 then Some 0%Q
                 else Some (qmax ((qsum (map (fun x => x * x)%Q evq) - sm * sm / cnt) / (cnt - 1)) 0)%Q
    end
  end.

Definition raw_tags (r : raw) : tags := combine (seq 0 (length (r_tags r))) (r_tags r).
(* group-by tag indices of the storage query -> key *)
Definition skey (gb : list nat) (r : raw) : tags := filter (fun p => memn (fst p) gb) (raw_tags r).

Fixpoint zip_app (a b : list (list Z)) : list (list Z) :=
  match a, b with
  | x :: a', y :: b' => (x ++ y) :: zip_app a' b'
  | [], _ => b
  | _, [] => a
  end.
Fixpoint add_raw (k : tags) (sl : list (list Z)) (gs : list (tags * list (list Z))) :=
  match gs with
  | [] => [(k, sl)]
  | (k', s') :: r => if tags_eqb k k' then (k', zip_app s' sl) :: r else (k', s') :: add_raw k sl r
  end.
(* range = SeriesQuery.Range, tsstep = Timescale.Step, lodsteps = LOD step of every point of the axis:
   queryStep is Range, else Timescale.Step, else the row's own LOD step (copyRowValuesAt) *)
Definition storage (w : what) (gb : list nat) (range tsstep : Z) (lodsteps : list Z) (data : list raw) : list series :=
  let gs := fold_left (fun gs r => add_raw (skey gb r) (r_slots r) gs) data [] in
  (* a series exists only if it has a row in some slot *)
  filter (fun s => existsb is_some (snd s))
         (map (fun g => (fst g, map (fun p : Z * list Z =>
                                      let ls := fst p in
                                      let qs := if range =? 0 then (if tsstep =? 0 then ls else tsstep) else range in
                                      row_value w qs ls (snd p)) (combine lodsteps (snd g)))) gs).

(* ------------------------------------------------------------------ *)
(* Expressions: a selector wrapped by a chain of unary nodes (innermost first). *)
Inductive node :=
| NParen
| NMatrix (range : Z)                                   (* sel[R]          *)
| NSubquery (range : Z)                                 (* expr[R:]        *)
| NAgg (op : aggop) (q : Q) (without : bool) (g : list nat)
| NCall (fn : otfn)                                     (* fn_over_time(.) *)
| NCallQ (q : Q)                                        (* quantile_over_time(q, .) *)
| NPresent                                              (* present_over_time(.) *)
| NCmp (gt : bool) (c : Z).                             (* (. > c) / (. <= c): filtering comparison with a scalar *)

Record sel := { s_what : what;                 (* explicit __what__ matcher, WNone if absent *)
                s_by : option (list nat) }.    (* explicit __by__ matcher (Some [] is __by__=""): the selector carries its own
                                                  grouping (GroupBy != nil), reductions leave it alone *)

(* reduceWhat *)
Definition what_eqb (a b : what) : bool :=
  match a, b with
  | WNone, WNone | WAvg, WAvg | WCount, WCount | WCountSec, WCountSec | WMin, WMin | WMax, WMax
  | WSum, WSum | WSumSec, WSumSec | WStdVar, WStdVar => true
  | _, _ => false
  end.
Definition reduce_what (a b : what) : what * bool :=
  if what_eqb a WNone || (what_eqb a WSumSec && what_eqb b WSum) || (what_eqb a WCountSec && what_eqb b WCount) then (b, true)
  else if what_eqb a b || (what_eqb a WSum && what_eqb b WSumSec) || (what_eqb a WCount && what_eqb b WCountSec) then (a, true)
  else (a, false).

Record red := { rd_rule : nat; rd_what : what; rd_step : Z; rd_grouped : bool; rd_by : list nat;
                rd_without : bool; rd_used : nat (* chain nodes replaced by the selector *) }.

Inductive rfn := RAgg | RMatrix | RSubq | ROver.
Definition rules : list (list rfn) :=
  [ [RAgg]; [RMatrix; ROver]; [RMatrix; ROver; RAgg]; [RAgg; RSubq; ROver] ].

Definition upd (r : red) (w : what) (st : Z) (gr : bool) (by_ : list nat) (wo : bool) : red :=
  {| rd_rule := rd_rule r; rd_what := w; rd_step := st; rd_grouped := gr; rd_by := by_; rd_without := wo; rd_used := rd_used r |}.

(* what an aggregate needs the selector's "what" to be for the merge of rows to equal the aggregate *)
Definition additive (w : what) : bool := match w with WSum | WSumSec | WCount | WCountSec => true | _ => false end.

(* Faithful (fixed = false): reduce*Expr as written.
   Repaired (fixed = true): rd_what is the selector's effective what and is never changed; a step of a rule
   applies only where pushing it down preserves the result (see Props/C27.v). *)
Definition apply_rfn (fixed : bool) (f : rfn) (r : red) (e : node) (step : Z) : option red :=
  match f, e with
  | RMatrix, NMatrix range | RSubq, NSubquery range =>
      if step <? range then None else Some (upd r (rd_what r) range (rd_grouped r) (rd_by r) (rd_without r))
  | ROver, NCall fn =>
      if fixed then
        match fn with
        | OAvg | OMin | OMax | OSum => if rd_step r =? step then Some r else None
        | _ => None
        end
      else
      let ow := match fn with
                | OAvg => Some WAvg | OMin => Some WMin | OMax => Some WMax
                | OSum => Some WSum
                | OCount => Some WCount
                | OStdVar => if rd_step r =? step then Some WStdVar else None
                | OLast => None
                end in
      match ow with
      | None => None
      | Some w => let '(w', ok) := reduce_what (rd_what r) w in
                  if ok then Some (upd r w' (rd_step r) (rd_grouped r) (rd_by r) (rd_without r)) else None
      end
  | RAgg, NAgg op _ wo g =>
      if fixed then
        let okw := match op with
                   | ASum => additive (rd_what r) | AMin => what_eqb (rd_what r) WMin | AMax => what_eqb (rd_what r) WMax
                   | _ => false
                   end in
        if okw then Some (upd r (rd_what r) (rd_step r) true g wo) else None
      else
      let ow := match op with
                | AAvg => Some WAvg
                | AMin => Some WMin | AMax => Some WMax | ASum => Some WSumSec
                | ACount => Some WCountSec
                | _ => None
                end in
      match ow with
      | None => None
      | Some w => let '(w', ok) := reduce_what (rd_what r) w in
                  if ok then Some (upd r w' (rd_step r) true g wo) else None
      end
  | _, _ => None
  end.

(* one level of evalReductionRules: e = next non-paren node, used = chain nodes up to and including e *)
Definition red_level (fixed : bool) (depth : nat) (e : node) (used : nat) (step : Z) (curr : list red) (res : option red)
  : list red * option red :=
  fold_left (fun (acc : list red * option red) r =>
    let s := nth (rd_rule r) rules [] in
    match nth_error s depth with
    | None => acc
    | Some f =>
      match apply_rfn fixed f r e step with
      | None => acc
      | Some r' =>
        let r'' := {| rd_rule := rd_rule r'; rd_what := rd_what r'; rd_step := rd_step r'; rd_grouped := rd_grouped r';
                      rd_by := rd_by r'; rd_without := rd_without r'; rd_used := used |} in
        if Nat.eqb (length s) (S depth) then (fst acc, Some r'') else (fst acc ++ [r''], snd acc)
      end
    end) curr ([], res).

Fixpoint red_walk (fixed : bool) (depth used : nat) (chain : list node) (step : Z) (curr : list red) (res : option red) : option red :=
  match curr with
  | [] => res
  | _ =>
    match chain with
    | [] => res
    | NParen :: rest => red_walk fixed depth (S used) rest step curr res
    | e :: rest =>
      let '(next, res') := red_level fixed depth e (S used) step curr res in
      red_walk fixed (S depth) (S used) rest step next res'
    end
  end.

(* evalReductionRules.  Faithful: the starting "what" is sel.What, a field nothing ever sets, i.e. WNone
   even when the selector carries __what__.  Repaired: the effective what (explicit __what__, else the metric's default). *)
Definition eval_reduction (fixed : bool) (eff : what) (chain : list node) (step : Z) : option red :=
  let w0 := if fixed then eff else WNone in
  red_walk fixed 0 0 chain step
    (map (fun i => {| rd_rule := i; rd_what := w0; rd_step := 0; rd_grouped := false; rd_by := []; rd_without := false; rd_used := O |})
         (seq 0 (length rules))) None.

(* the storage query issued for the selector: (what, group-by tag indices, Range) and the chain left to evaluate *)
Definition default_what (counter : bool) : what := if counter then WCount else WAvg.
Definition all_tags (ntags : nat) : list nat := seq 0 ntags.

Definition plan (fixed counter : bool) (ntags : nat) (s : sel) (chain : list node) (step : Z)
  : what * list nat * Z * list node :=
  let explicit := if what_eqb (s_what s) WNone then default_what counter else s_what s in
  match s_by s with
  | Some g => (explicit, filter (fun i => memn i g) (all_tags ntags), 0, chain)   (* GroupBy != nil: no reduction *)
  | None =>
       match eval_reduction fixed explicit chain step with
       | None => (explicit, all_tags ntags, 0, chain)           (* GroupByAll *)
       | Some r =>
         (* faithful: s.What = ar.what is never read by buildSeriesQuery (it reads s.Whats); repaired: unchanged *)
         let w := explicit in
         let gb := if rd_grouped r
                   then (if rd_without r then filter (fun i => negb (memn i (rd_by r))) (all_tags ntags)
                         else filter (fun i => memn i (rd_by r)) (all_tags ntags))
                   else all_tags ntags in
         (w, gb, rd_step r, skipn (rd_used r) chain)
       end
  end.

(* eval of the remaining chain; evr = ev.r *)
Fixpoint eval_chain (fixed : bool) (t : list Z) (lodstep : Z) (chain : list node) (evr : Z) (l : list series) : list series :=
  match chain with
  | [] => l
  | NParen :: rest => eval_chain fixed t lodstep rest evr l
  | NMatrix r :: rest | NSubquery r :: rest => eval_chain fixed t lodstep rest r l
  | NCall fn :: rest =>
      eval_chain fixed t lodstep rest 0 (map (fun s => (fst s, over_time fn t evr lodstep (snd s))) l)
  | NCallQ q :: rest =>
      eval_chain fixed t lodstep rest 0 (map (fun s => (fst s, quantile_over_time q t evr lodstep (snd s))) l)
  | NPresent :: rest =>
      eval_chain fixed t lodstep rest 0 (map (fun s => (fst s, present_run fixed t (snd s) evr None)) l)
  | NCmp gt c :: rest =>
      (* sliceScalarFilterGreater: "if v <= c { NilValue }", sliceScalarFilterLessOrEqual: "if v > c { NilValue }" *)
      eval_chain fixed t lodstep rest evr
        (map (fun s => (fst s, map (fun v => match v with
                                            | Some x => if Bool.eqb (qlt (inject_Z c) x) gt then Some x else None
                                            | None => None end) (snd s))) l)
  | NAgg op q wo g :: rest =>
      eval_chain fixed t lodstep rest evr (aggregate fixed op q wo g l)
  end.

(* evaluator.exec for a range query: drop series empty inside the view, trim to [startX:] *)
Definition finish (startx vs ve : Z) (l : list series) : list series :=
  map (fun s => (fst s, skipn (Z.to_nat startx) (snd s)))
      (filter (fun s => existsb is_some (slice (snd s) vs (ve - 1))) l).

Record query := { q_counter : bool; q_ntags : nat; q_t : list Z;
                  q_step : Z;                 (* Timescale.Step (the step requested) *)
                  q_lods : list (Z * nat);    (* Timescale.LODs: (step, number of points), coarsest first *)
                  q_startx : Z; q_vs : Z; q_ve : Z }.
Definition lodsteps (qy : query) : list Z := flat_map (fun l => repeat (fst l) (snd l)) (q_lods qy).
(* ev.t.LODs[len-1].Step: the threshold of the reduction rules and the initial step of every window *)
Definition stepmin (qy : query) : Z := fst (last (q_lods qy) (q_step qy, O)).

Definition exec (fixed : bool) (qy : query) (data : list raw) (s : sel) (chain : list node) : list series :=
  let '(w, gb, range, rest) := plan fixed (q_counter qy) (q_ntags qy) s chain (stepmin qy) in
  finish (q_startx qy) (q_vs qy) (q_ve qy)
         (eval_chain fixed (q_t qy) (stepmin qy) rest 0 (storage w gb range (q_step qy) (lodsteps qy) data)).

(* ------------------------------------------------------------------ *)
(* funcTopK (outermost, single offset): weights and the admissible choices *)
Definition weight_sq (steps : list Z) (vs ve : Z) (v : list val) : Q :=
  qsum (map (fun p : Z * val => match snd p with Some x => (x * x * inject_Z (fst p))%Q | None => 0%Q end)
            (slice (combine steps v) vs (ve - 1))).
Fixpoint nondec (prev : option Q) (l : list Q) : bool :=
  match l with
  | [] => true
  | x :: r => match prev with Some p => if qlt x p then false else nondec (Some x) r | None => nondec (Some x) r end
  end.
(* last present value scanning from ViewEndX-1 down to index 0 (sic) *)
Definition last_upto (ve : Z) (v : list val) : val := f_last (slice v 0 (ve - 1)).
Definition weights (steps : list Z) (vs ve : Z) (ds : list (list val)) : list val :=
  if forallb (fun v => nondec None (present (slice v vs (ve - 1)))) ds
  then map (last_upto ve) ds                    (* None stands for -MaxFloat64 *)
  else map (fun v => Some (weight_sq steps vs ve v)) ds.
(* a <= b with None = -MaxFloat64 *)
Definition wle (a b : val) : bool :=
  match a, b with None, _ => true | Some _, None => false | Some x, Some y => Qle_bool x y end.
