(* C03, codec part: every reader of Insert.Model inverts the corresponding writer (for all well-formed rows,
   whatever follows in the body), the whole body decodes back to the list of rows, and the argMin/argMax column
   reader as it is does not (finding F-C03b). *)
From Coq Require Import ZArith Lia List Bool.
From SH Require Import Common.Wrap Gen.TransferConsts Gen.AggConsts Agg.Model Transfer.Model Insert.Model.
Import ListNotations.
Open Scope Z_scope.

(* ---------- primitives ---------- *)

Lemma take_app (a r : list Z) : take (length a) (a ++ r) = Some (a, r).
Proof.
  unfold take. rewrite app_length.
  destruct (Nat.ltb_spec (length a + length r) (length a)); [lia|].
  rewrite firstn_app, Nat.sub_diag, firstn_all, skipn_app, skipn_all, Nat.sub_diag. simpl.
  rewrite app_nil_r. reflexivity.
Qed.

Lemma le_length n x : length (le n x) = n.
Proof. revert x. induction n; intros; simpl; [reflexivity | rewrite IHn; reflexivity]. Qed.

Lemma unle_le n : forall x, 0 <= x < 256 ^ Z.of_nat n -> unle (le n x) = x.
Proof.
  induction n; intros x H.
  - simpl in *. lia.
  - rewrite Nat2Z.inj_succ, Z.pow_succ_r in H by lia. cbn [le unle].
    rewrite IHn.
    + pose proof (Z.div_mod x 256 ltac:(lia)). lia.
    + split; [apply Z.div_pos; lia | apply Z.div_lt_upper_bound; lia].
Qed.

Lemma rd_le n x r : 0 <= x < 256 ^ Z.of_nat n -> rd n (le n x ++ r) = Some (x, r).
Proof.
  intros H. unfold rd. pose proof (take_app (le n x) r) as T. rewrite le_length in T. rewrite T.
  rewrite unle_le by exact H. reflexivity.
Qed.

Lemma rd4 x r : 0 <= x < two32 -> rd 4 (le 4 x ++ r) = Some (x, r).
Proof. intros; apply rd_le. unfold two32 in *. simpl. lia. Qed.
Lemma rd8 x r : 0 <= x < two64 -> rd 8 (le 8 x ++ r) = Some (x, r).
Proof. intros; apply rd_le. unfold two64 in *. simpl. lia. Qed.

Lemma read_uvarint_enc : forall f x r, 0 <= x < 128 ^ Z.of_nat (S f) ->
  read_uvarint f (uvarint f x ++ r) = Some (x, r).
Proof.
  induction f; intros x r H.
  - simpl in *. rewrite Z.mod_small by lia. destruct (Z.ltb_spec x 128); [reflexivity | lia].
  - rewrite Nat2Z.inj_succ, Z.pow_succ_r in H by lia.
    cbn [uvarint]. destruct (Z.ltb_spec x 128) as [L | G].
    + simpl. destruct (Z.ltb_spec x 128); [reflexivity | lia].
    + cbn [app read_uvarint].
      pose proof (Z.mod_pos_bound x 128 ltac:(lia)).
      destruct (Z.ltb_spec (x mod 128 + 128) 128); [lia|].
      rewrite IHf.
      * f_equal. f_equal. pose proof (Z.div_mod x 128 ltac:(lia)). lia.
      * split; [apply Z.div_pos; lia | apply Z.div_lt_upper_bound; lia].
Qed.

Lemma uv x r : 0 <= x < two32 -> read_uvarint vfuel (uvarint vfuel x ++ r) = Some (x, r).
Proof. intros H. apply read_uvarint_enc. unfold two32 in H. simpl. lia. Qed.

Lemma zlen_nonneg {A} (l : list A) : 0 <= zlen l.
Proof. unfold zlen. lia. Qed.

Lemma dec_str_enc s r : zlen s < two32 -> dec_str (enc_str s ++ r) = Some (s, r).
Proof.
  intros H. unfold dec_str, enc_str. rewrite <- app_assoc, uv by (pose proof (zlen_nonneg s); lia).
  destruct (Z.ltb_spec (zlen (s ++ r)) (zlen s)) as [C|_]; [unfold zlen in C; rewrite app_length in C; lia|].
  unfold zlen. rewrite Nat2Z.id. apply take_app.
Qed.

Lemma rd_many_flat {A} (f : list Z -> option (A * list Z)) (enc : A -> list Z) (P : A -> Prop) :
  (forall a r, P a -> f (enc a ++ r) = Some (a, r)) ->
  forall l r, Forall P l -> rd_many f (length l) (flat_map enc l ++ r) = Some (l, r).
Proof.
  intros H. induction l as [|a l IH]; intros r F; simpl; [reflexivity|].
  inversion F; subst. rewrite <- app_assoc, H by assumption. rewrite IH by assumption. reflexivity.
Qed.

(* ---------- well-formed values ---------- *)

Definition wf_u32 (x : Z) : Prop := 0 <= x < two32.
Definition wf_tag (t : Z * list Z) : Prop := wf_u32 (fst t) /\ zlen (snd t) < two32.
Definition wf_cent (c : Z * Z) : Prop := wf_u32 (fst c) /\ wf_u32 (snd c).
(* a host state as appendArgMinMaxTag writes it: an int tag is non-zero, a string tag non-empty *)
Definition wf_arg (a : argmm) : Prop :=
  match a with
  | AEmpty => True
  | AInt i v => wf_u32 i /\ i <> 0 /\ wf_u32 v
  | AStr s v => s <> [] /\ zlen s + 2 < two32 - 1 /\ wf_u32 v
  end.

Lemma dec_tag_enc t r : wf_tag t -> dec_tag (enc_tag t ++ r) = Some (t, r).
Proof.
  intros [A B]. unfold dec_tag, enc_tag. rewrite <- app_assoc, rd4 by exact A.
  rewrite dec_str_enc by exact B. destruct t; reflexivity.
Qed.

Lemma dec_cent_enc c r : wf_cent c -> dec_cent ((le 4 (fst c) ++ le 4 (snd c)) ++ r) = Some (c, r).
Proof.
  intros [A B]. unfold dec_cent. rewrite <- app_assoc, rd4 by exact A. rewrite rd4 by exact B.
  destruct c; reflexivity.
Qed.

Lemma cents_length (cs : list (Z * Z)) :
  length (flat_map (fun c => le 4 (fst c) ++ le 4 (snd c)) cs) = (8 * length cs)%nat.
Proof.
  induction cs as [|c cs IH]; [reflexivity|]. cbn [flat_map]. rewrite !app_length, !le_length, IH. cbn [length]. lia.
Qed.

(* "percentile centroids … are decoded … into the same values" *)
Lemma dec_cents_enc cs r : zlen cs < two32 -> Forall wf_cent cs ->
  dec_cents (enc_cents cs ++ r) = Some (cs, r).
Proof.
  intros L F. unfold dec_cents, enc_cents. rewrite <- app_assoc, uv by (pose proof (zlen_nonneg cs); lia).
  match goal with |- context [zlen ?x <? zlen cs] => destruct (Z.ltb_spec (zlen x) (zlen cs)) as [C|_] end;
    [unfold zlen in C; rewrite app_length, cents_length in C; lia|].
  unfold zlen. rewrite Nat2Z.id.
  apply (rd_many_flat dec_cent (fun c => le 4 (fst c) ++ le 4 (snd c)) wf_cent); [apply dec_cent_enc | exact F].
Qed.

(* "The unique-value state … decoded … into the same values" (wire level: skip degree, count, hashes) *)
Lemma dec_uniq_enc skip items r : zlen items <= uniques_max_size -> Forall wf_u32 items ->
  dec_uniq (enc_uniq skip (zlen items) items ++ r) = Some ((skip, zlen items, items), r).
Proof.
  intros L F. unfold dec_uniq, enc_uniq. cbn [app].
  rewrite <- app_assoc, uv by (pose proof (zlen_nonneg items); unfold uniques_max_size, two32 in *; lia).
  destruct (Z.ltb_spec uniques_max_size (zlen items)); [lia|].
  unfold zlen at 1. rewrite Nat2Z.id.
  rewrite (rd_many_flat (rd 4) (le 4) wf_u32); [reflexivity | intros; apply rd4; assumption | exact F].
Qed.

(* ---------- the argMin/argMax(String, Float32) reader ---------- *)

Lemma unle_ff : unle [255; 255; 255; 255] = 4294967295.
Proof. reflexivity. Qed.

(* the repaired reader returns what was written, whatever the receiver held *)
Lemma arg_read_fixed prev a r : wf_arg a -> arg_read true prev (enc_arg a ++ r) = Some (to_arg3 a, r).
Proof.
  destruct a as [| i v | s v]; intros W; unfold arg_read.
  - reflexivity.
  - destruct W as (Wi & _ & Wv). unfold enc_arg. rewrite <- !app_assoc.
    rewrite rd4 by (unfold two32; lia).
    change ((6 =? 4294967295) || (6 =? 0)) with false. cbv iota. cbn [app].
    change (0 =? 1) with false. cbv iota.
    rewrite rd4 by exact Wi.
    rewrite Z.min_l by (unfold zlen; cbn [length]; lia).
    change (Z.to_nat (6 - 5)) with 1%nat. cbn [skipn app].
    unfold arg_value. change (1 =? 0) with false. cbv iota.
    rewrite rd4 by exact Wv. reflexivity.
  - destruct W as (Ws & Wl & Wv). unfold enc_arg. rewrite <- !app_assoc.
    pose proof (zlen_nonneg s) as N.
    rewrite rd4 by (unfold two32 in *; lia).
    destruct (Z.eqb_spec (zlen s + 2) 4294967295); [unfold two32 in *; lia|].
    destruct (Z.eqb_spec (zlen s + 2) 0); [lia|]. cbn [orb app].
    change (1 =? 1) with true. cbv iota.
    destruct (Z.ltb_spec (zlen s + 2) 2); [lia|].
    replace (zlen s + 2 - 2) with (zlen s) by lia. cbn [orb].
    match goal with |- context [zlen ?x <? zlen s] => destruct (Z.ltb_spec (zlen x) (zlen s)) as [C|_] end;
      [unfold zlen in C; rewrite app_length in C; lia|].
    unfold zlen. rewrite Nat2Z.id, take_app.
    change (0 =? 0) with true. cbv iota.
    unfold arg_value. change (1 =? 0) with false. cbv iota. rewrite rd4 by exact Wv. reflexivity.
Qed.

Lemma arg_read_fresh a r : wf_arg a -> arg_read false arg0 (enc_arg a ++ r) = Some (to_arg3 a, r).
Proof. intros W. rewrite <- (arg_read_fixed arg0 a r W). reflexivity. Qed.

Lemma of_to_arg3 a : wf_arg a -> of_arg3 (to_arg3 a) = a.
Proof.
  destruct a as [| i v | s v]; simpl; intros W; [reflexivity | |].
  - destruct W as (_ & Wi & _). unfold of_arg3; simpl. destruct (Z.eqb_spec i 0); [contradiction | reflexivity].
  - destruct W as (Ws & _). unfold of_arg3; simpl. destruct s; [contradiction | reflexivity].
Qed.

Lemma dec_arg_enc a r : wf_arg a -> dec_arg (enc_arg a ++ r) = Some (a, r).
Proof. intros W. unfold dec_arg. rewrite arg_read_fixed by exact W. rewrite of_to_arg3 by exact W. reflexivity. Qed.

(* the reader as it is: a row read into a receiver that still holds the previous block's row *)
Lemma arg_read_faithful_refuted :
  exists prev a, wf_arg a /\ arg_read false prev (enc_arg a) <> Some (to_arg3 a, []).
Proof.
  exists (to_arg3 (AStr [104] 1073741824)), AEmpty. split; [exact I|]. vm_compute. discriminate.
Qed.

(* ---------- rows and bodies ---------- *)

Record wf_row (r : brow) : Prop := {
  w_metric : wf_u32 (b_metric r);
  w_time : wf_u32 (b_time r);
  w_ntags : length (b_tags r) = Z.to_nat max_tags;
  w_tags : Forall wf_tag (b_tags r);
  w_nagg : length (b_agg r) = 6%nat;
  w_agg : Forall (fun x => 0 <= x < two64) (b_agg r);
  w_ncents : zlen (b_cents r) < two32;
  w_cents : Forall wf_cent (b_cents r);
  w_ucnt : b_ucnt r = zlen (b_uitems r);
  w_umax : zlen (b_uitems r) <= uniques_max_size;
  w_uitems : Forall wf_u32 (b_uitems r);
  w_h1 : wf_arg (b_minh r); w_h2 : wf_arg (b_maxh r); w_h3 : wf_arg (b_mch r)
}.

Local Opaque le uvarint rd rd_many dec_tag dec_cents dec_uniq dec_arg enc_cents enc_uniq enc_arg enc_tag Z.to_nat.
Theorem dec_row_enc r rest : wf_row r -> dec_row (enc_row r ++ rest) = Some (r, rest).
Proof.
  intros W. destruct W. destruct r as [metric time tags agg cents uskip ucnt uitems h1 h2 h3]. simpl in *.
  unfold dec_row, enc_row. cbn [b_metric b_time b_tags b_agg b_cents b_uskip b_ucnt b_uitems b_minh b_maxh b_mch].
  cbn [app]. cbv beta iota. rewrite <- !app_assoc.
  rewrite rd4 by assumption. rewrite rd4 by assumption.
  rewrite <- w_ntags0.
  rewrite (rd_many_flat dec_tag enc_tag wf_tag) by (auto using dec_tag_enc).
  replace (rd_many (rd 8) 6) with (rd_many (rd 8) (length agg)) by (rewrite w_nagg0; reflexivity).
  rewrite (rd_many_flat (rd 8) (le 8) (fun x => 0 <= x < two64)) by (auto using rd8).
  rewrite dec_cents_enc by assumption.
  subst ucnt. rewrite dec_uniq_enc by assumption.
  rewrite dec_arg_enc by assumption. rewrite dec_arg_enc by assumption. rewrite dec_arg_enc by assumption.
  reflexivity.
Qed.

Local Transparent le uvarint rd rd_many dec_tag dec_cents dec_uniq dec_arg enc_cents enc_uniq enc_arg enc_tag Z.to_nat.
Definition enc_body (rs : list brow) : list Z := flat_map enc_row rs.

Theorem dec_body_enc : forall rs fuel, Forall wf_row rs -> (length rs <= fuel)%nat ->
  dec_body fuel (enc_body rs) = Some rs.
Proof.
  induction rs as [|r rs IH]; intros fuel F L.
  - destruct fuel; reflexivity.
  - inversion F; subst. destruct fuel; [simpl in L; lia|].
    unfold enc_body. cbn [flat_map]. fold (enc_body rs).
    assert (E : exists b t, enc_row r ++ enc_body rs = b :: t) by (unfold enc_row; cbn [app]; eauto).
    destruct E as (b & t & E). cbn [dec_body]. rewrite E, <- E.
    rewrite dec_row_enc by assumption. rewrite IH by (try assumption; simpl in L; lia). reflexivity.
Qed.
