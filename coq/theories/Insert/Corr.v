(* Correspondence cases for C03: what the real insert encoder, the real chutil column readers and the real
   handler + rowDataMarshalAppendPositions did, replayed through Insert.Model.
   The argMin/argMax column reader is dual (finding F-C03b): [CBlocks] is accepted when the observation agrees
   with the code as it is or with the repaired reader. *)
From Coq Require Import ZArith QArith List Bool.
From SH Require Import Common.Wrap Common.Corr Gen.TransferConsts Gen.AggConsts Agg.Model Transfer.Model Transfer.Corr Insert.Model.
Import ListNotations.
Open Scope Z_scope.

(* run-length encoded bytes *)
Inductive seg := R (n b : Z) | L (l : list Z).
Definition expand (ss : list seg) : list Z :=
  flat_map (fun s => match s with R n b => repeat b (Z.to_nat n) | L l => l end) ss.

Definition str_of (strs : list (list Z)) (i : Z) : list Z :=
  if i <=? 0 then [] else nth (Z.to_nat (i - 1)) strs [].

Definition arg3_of (p : list Z * Z * Z) : arg3 :=
  let '(s, i, v) := p in {| as_str := s; as_int := i; as_val := v |}.
Definition arg3_eqb (a b : arg3) : bool :=
  zl_eqb (as_str a) (as_str b) && (as_int a =? as_int b) && (as_val a =? as_val b).

Definition wire_eqb (a b : Z * Z * list Z) : bool :=
  let '(s1, c1, i1) := a in let '(s2, c2, i2) := b in (s1 =? s2) && (c1 =? c2) && zl_eqb i1 i2.

(* one row of an agent bucket: key, Tail, Top in the order it was sent, HasPercentiles, bucket time, agent host *)
Inductive ctr := CT (ts metric : Z) (tags stags : list (Z * Z)) (tail : mvs) (top : list (Z * mvs)) (hasp : bool) (bt ah : Z).

Definition contrib_of (fxs : bool) (c : ctr) : contrib :=
  let 'CT ts metric tags stags tail top hasp bt ah := c in
  let it := {| mi_key := {| k_ts := ts; k_metric := metric; k_tags := arr_of tags; k_stags := arr_of stags |};
               mi_tail := of_mvs tail; mi_top := map (fun kv => (fst kv, of_mvs (snd kv))) top;
               mi_sf := 1; mi_hasp := hasp |} in
  {| c_item := keep_f fxs it bt; c_bt := bt; c_ah := ah; c_ds := [] |}.

(* sorting of (mean, weight) bit patterns: the digest hands its centroids out sorted by mean *)
Definition pair_leb (a b : Z * Z) : bool := (fst a <? fst b) || ((fst a =? fst b) && (snd a <=? snd b)).
Fixpoint ins_pair (x : Z * Z) (l : list (Z * Z)) : list (Z * Z) :=
  match l with [] => [x] | y :: r => if pair_leb x y then x :: l else y :: ins_pair x r end.
Definition sort_pairs (l : list (Z * Z)) : list (Z * Z) := fold_right ins_pair [] l.
Fixpoint pairs_eqb (a b : list (Z * Z)) : bool :=
  match a, b with
  | [], [] => true
  | x :: a', y :: b' => (fst x =? fst y) && (snd x =? snd y) && pairs_eqb a' b'
  | _, _ => false
  end.

Definition tag_eqb (a b : Z * list Z) : bool := (fst a =? fst b) && zl_eqb (snd a) (snd b).
Fixpoint tags_eqb (a b : list (Z * list Z)) : bool :=
  match a, b with
  | [], [] => true
  | x :: a', y :: b' => tag_eqb x y && tags_eqb a' b'
  | _, _ => false
  end.
(* the tag of a host state, ignoring the (randomly skewed) value *)
Definition arg_tag_eqb (a b : argmm) : bool :=
  match a, b with
  | AEmpty, AEmpty => true
  | AInt i _, AInt j _ => i =? j
  | AStr s _, AStr t _ => zl_eqb s t
  | _, _ => false
  end.

(* a decoded body row carries the model's row: key, aggregates, centroids (as a multiset), unique state, min/max
   host tags; the max-count host is chosen by rng draws of the handler and is not compared *)
Definition row_matches (want got : brow) : bool :=
  (b_metric want =? b_metric got) && (b_time want =? b_time got) && tags_eqb (b_tags want) (b_tags got) &&
  zl_eqb (b_agg want) (b_agg got) &&
  pairs_eqb (sort_pairs (b_cents want)) (sort_pairs (b_cents got)) &&
  wire_eqb (b_uskip want, b_ucnt want, b_uitems want) (b_uskip got, b_ucnt got, b_uitems got) &&
  arg_tag_eqb (b_minh want) (b_minh got) && arg_tag_eqb (b_maxh want) (b_maxh got).

Definition no_skips : skips := skips0.
(* the harness' metric storage: metric 100+i (i = 1..7) has skip_max_host = bit 0, skip_min_host = bit 1,
   skip_sum_square = bit 2 of i; no other metric has skip flags *)
Definition skips_of_metric (m : Z) : skips :=
  if (101 <=? m) && (m <=? 107)
  then {| sk_max := Z.testbit (m - 100) 0; sk_min := Z.testbit (m - 100) 1; sk_sq := Z.testbit (m - 100) 2 |}
  else no_skips.

(* one block of a column: row i is read into the receiver the previous block left at index i *)
Fixpoint read_rows (fx : bool) (prevs : list arg3) (n : nat) (bs : list Z) : option (list arg3) :=
  match n with
  | O => match bs with [] => Some [] | _ => None end
  | S k => match arg_read fx (hd arg0 prevs) bs with
           | Some (a, r) => match read_rows fx (tl prevs) k r with Some l => Some (a :: l) | None => None end
           | None => None
           end
  end.
Fixpoint args_eqb (a : list arg3) (b : list (list Z * Z * Z)) : bool :=
  match a, b with
  | [], [] => true
  | x :: a', y :: b' => arg3_eqb x (arg3_of y) && args_eqb a' b'
  | _, _ => false
  end.
(* DecodeColumn keeps the backing array only when it is large enough; Reset keeps the array *)
Definition blocks_ok (fx : bool) (rows1 rows2 : list argmm) (o1 o2 : list (list Z * Z * Z)) : bool :=
  match read_rows fx [] (length rows1) (flat_map enc_arg rows1) with
  | Some s1 =>
      args_eqb s1 o1 &&
      match read_rows fx (if (length rows2 <=? length rows1)%nat then s1 else []) (length rows2) (flat_map enc_arg rows2) with
      | Some s2 => args_eqb s2 o2
      | None => false
      end
  | None => false
  end.

Inductive case :=
(* the real appendKeys + multiValueMarshal on one MultiValue; o_bytes = what they wrote; o_utable = the sketch the
   real ColUnique reader built from those bytes, re-marshalled (table order); o_min/o_max = what the real
   ColArgMin/ColArgMax readers returned *)
| CRow (strs : list (list Z)) (ts metric : Z) (tags stags : list (Z * Z)) (top : Z) (v : mvs) (sf : Q)
       (lookups : list (Z * mres)) (hv : Z * Z * Z)   (* lookups: the metrics the insert's cache served, this row's last *)
       (o_bytes : list seg) (o_utable : Z * Z * list Z) (o_min o_max : list Z * Z * Z)
(* requests of several agents through the real handler, then the real rowDataMarshalAppendPositions *)
| CBody (strs : list (list Z)) (cs : list ctr) (o_body : list seg)
(* two one-row blocks through one argMin/argMax column object (Reset + DecodeColumn, as ch-go does) *)
| CBlocks (first second : argmm) (o1 o2 : list Z * Z * Z)
(* two blocks of several rows through one column object; o1 = the rows of the first block as the API holds them
   after the second block was decoded, o2 = the rows of the second block *)
| CBlockRows (rows1 rows2 : list argmm) (o1 o2 : list (list Z * Z * Z))
| CNone.

Definition body_ok (fxs : bool) (strs : list (list Z)) (cs : list ctr) (o_body : list seg) : bool :=
  match shard_merge_all false [] (map (contrib_of fxs) cs) with
  | Some (m, errs) =>
      forallb (fun e => e =? 0) errs &&
      match dec_body (length (expand o_body)) (expand o_body) with
      | Some rows =>
          let user := filter (fun r => i32 (b_metric r) >=? 0) rows in
          let want := body_rows m in
          (zlen want =? zlen user) &&
          forallb (fun w => let '(k, top, v) := w in
                            match mk_row (str_of strs) (skips_of_metric (k_metric k)) k top v 1 (0, 0, 0) with
                            | Some r => existsb (row_matches r) user
                            | None => false
                            end) want
      | None => false
      end
  | None => false
  end.

Definition F (a b c : bool) : mres := MFound {| sk_max := a; sk_min := b; sk_sq := c |}.
Definition D (a b c : bool) : mres := MDirect {| sk_max := a; sk_min := b; sk_sq := c |}.
Definition U : mres := MUnknown.

Definition row_ok (fx : bool) (c : case) : bool :=
  match c with
  | CRow strs ts metric tags stags top v sf lookups hv o_bytes o_utable o_min o_max =>
      let k := {| k_ts := ts; k_metric := metric; k_tags := arr_of tags; k_stags := arr_of stags |} in
      let bytes := expand o_bytes in
      match mk_row (str_of strs) (mc_run fx mcache0 lookups) k top (of_mvs v) sf hv with
      | Some r =>
          zl_eqb (enc_row r) bytes &&
          match dec_row bytes with
          | Some (r', []) => zl_eqb (enc_row r') bytes
          | _ => false
          end &&
          wire_eqb (t_wire (uniq_table (b_uskip r, b_ucnt r, b_uitems r))) o_utable &&
          match arg_read false arg0 (enc_arg (b_minh r)), arg_read false arg0 (enc_arg (b_maxh r)) with
          | Some (x, []), Some (y, []) => arg3_eqb x (arg3_of o_min) && arg3_eqb y (arg3_of o_max)
          | _, _ => false
          end
      | None => false
      end
  | _ => false
  end.

Definition ok (c : case) : bool :=
  match c with
  | CRow _ _ _ _ _ _ _ _ _ _ _ _ _ _ => row_ok false c || row_ok true c
  | CBody strs cs o_body => body_ok false strs cs o_body || body_ok true strs cs o_body
  | CBlocks first second o1 o2 =>
      match arg_read false arg0 (enc_arg first) with
      | Some (s1, []) =>
          arg3_eqb s1 (arg3_of o1) &&
          (match arg_read false s1 (enc_arg second) with Some (s2, []) => arg3_eqb s2 (arg3_of o2) | _ => false end ||
           match arg_read true s1 (enc_arg second) with Some (s2, []) => arg3_eqb s2 (arg3_of o2) | _ => false end)
      | _ => false
      end
  | CBlockRows rows1 rows2 o1 o2 => blocks_ok false rows1 rows2 o1 o2 || blocks_ok true rows1 rows2 o1 o2
  | CNone => true
  end.

Definition mism := mismatches ok.
