(* C03 — inserted rows equal the merge of all contributions and read back intact.
   Model of: internal/aggregator/aggregator_handlers.go (handleSendSourceBucket: per-key aggregation shards,
               GetOrCreateMultiItem + MergeWithTLMultiItem),
             internal/aggregator/aggregator_insert.go (appendKeys, appendAggregates, multiValueMarshal, appendHosts,
               appendArgMinMaxTag, the row loop of rowDataMarshalAppendPositions/insertItem when the sampler keeps
               every item with SF = 1 and FinishStringTop has nothing to fold),
             internal/vkgo/kittenhouseclient/rowbinary (AppendString, AppendCentroids, AppendEmptyUnique,
               AppendArgMinMaxStringEmpty), internal/chutil (AppendArgMinMaxBytesFloat32, ColUnique / ColTDigest /
               ColArgMin|MaxStringFloat32.DecodeColumn), internal/data_model (ChUnique.MarshallAppend / ReadFrom,
               ArgMinMaxStringFloat32.ReadFrom).
   MultiValue / ChUnique are the models of C04 (Agg/Model.v); MergeWithTLMultiItem and the TL item are C02's
   (Transfer/Model.v).  Aggregates are exact rationals; their float64/float32 bit patterns are computed by
   [f64bits]/[f32bits] (exact dyadic values only).  Bytes are Z in [0,256).
   [fx] selects the variant of the column reader: false = the code as it is, true = repaired (finding F-C03b).
   Executable definitions only. *)
From Coq Require Import ZArith QArith Qreduction List Bool.
From SH Require Import Common.Wrap Gen.TransferConsts Gen.AggConsts Agg.Model Transfer.Model.
Import ListNotations.
Open Scope Z_scope.

(* ------------------------------------------------------------------------------------------ *)
(* 1. byte primitives                                                                           *)

Fixpoint le (n : nat) (x : Z) : list Z :=
  match n with O => [] | S k => x mod 256 :: le k (x / 256) end.
Fixpoint unle (bs : list Z) : Z :=
  match bs with [] => 0 | b :: r => b + 256 * unle r end.

Definition take (n : nat) (bs : list Z) : option (list Z * list Z) :=
  if (length bs <? n)%nat then None else Some (firstn n bs, skipn n bs).
Definition rd (n : nat) (bs : list Z) : option (Z * list Z) :=
  match take n bs with Some (a, r) => Some (unle a, r) | None => None end.

(* binary.PutUvarint / binary.ReadUvarint (values below 2^63: the overflow branch is not reachable) *)
Fixpoint uvarint (fuel : nat) (x : Z) : list Z :=
  match fuel with
  | O => [x mod 128]
  | S f => if x <? 128 then [x] else (x mod 128 + 128) :: uvarint f (x / 128)
  end.
Fixpoint read_uvarint (fuel : nat) (bs : list Z) : option (Z * list Z) :=
  match bs with
  | [] => None
  | b :: r =>
      if b <? 128 then Some (b, r)
      else match fuel with
           | O => None
           | S f => match read_uvarint f r with
                    | Some (v, r') => Some (b - 128 + 128 * v, r')
                    | None => None
                    end
           end
  end.
Definition vfuel : nat := 9.

(* rowbinary.AppendString and its reader *)
Definition enc_str (s : list Z) : list Z := uvarint vfuel (zlen s) ++ s.
Definition dec_str (bs : list Z) : option (list Z * list Z) :=
  match read_uvarint vfuel bs with
  | Some (n, r) => if zlen r <? n then None else take (Z.to_nat n) r
  | None => None
  end.

(* ------------------------------------------------------------------------------------------ *)
(* 2. float bit patterns of exact dyadic rationals (math.Float64bits / math.Float32bits)        *)

(* [fbits mant ebits q]: sign | biased exponent (ebits wide) | mantissa (mant bits), None when q is not a
   normal number of that format (zero is) *)
Definition is_pow2 (p : positive) : bool := Zpos p =? 2 ^ Z.log2 (Zpos p).
Definition fbits (mant ebits : Z) (q : Q) : option Z :=
  let r := Qred q in
  let n := Qnum r in
  let d := Qden r in
  if n =? 0 then Some 0
  else if negb (is_pow2 d) then None
  else
    let a := Z.abs n in
    let L := Z.log2 a in
    let D := Z.log2 (Zpos d) in
    let bias := Z.shiftl 1 (ebits - 1) - 1 in
    let e := L - D + bias in
    let M := if L <=? mant then Some (Z.shiftl a (mant - L))
             else if Z.land a (Z.ones (L - mant)) =? 0 then Some (Z.shiftr a (L - mant)) else None in
    match M with
    | None => None
    | Some M =>
        if (e <? 1) || (Z.shiftl 1 ebits - 2 <? e) then None
        else Some ((if n <? 0 then Z.shiftl 1 (mant + ebits) else 0) + Z.shiftl e mant + (M - Z.shiftl 1 mant))
    end.
Definition fval (mant ebits : Z) (b : Z) : option Q :=
  let s := Z.shiftr b (mant + ebits) in
  let e := Z.land (Z.shiftr b mant) (Z.ones ebits) in
  let f := Z.land b (Z.ones mant) in
  let bias := Z.shiftl 1 (ebits - 1) - 1 in
  if e =? 0 then (if f =? 0 then Some 0%Q else None)
  else if e =? Z.ones ebits then None
  else
    let M := Z.shiftl 1 mant + f in
    let x := e - bias - mant in
    let v := if 0 <=? x then inject_Z (M * 2 ^ x) else Qmake M (Z.to_pos (2 ^ (- x))) in
    Some (if s =? 0 then v else (- v)%Q).
Definition f64bits := fbits 52 11.
Definition f32bits := fbits 23 8.
Definition f64val := fval 52 11.
Definition f32val := fval 23 8.

(* ------------------------------------------------------------------------------------------ *)
(* 3. the row as RowBinary bytes                                                                *)

(* argMin/argMax(String, Float32) state written by appendArgMinMaxTag; v = the float32 bit pattern *)
Inductive argmm := AEmpty | AInt (i v : Z) | AStr (s : list Z) (v : Z).

Record brow := {
  b_metric : Z; b_time : Z;               (* uint32 *)
  b_tags : list (Z * list Z);             (* tag0,stag0 .. tag46,stag46, then the string top: 48 pairs *)
  b_agg : list Z;                         (* count,max_count,min,max,sum,sumsquare as float64 bit patterns *)
  b_cents : list (Z * Z);                 (* percentiles: (mean, weight) float32 bit patterns *)
  b_uskip : Z; b_ucnt : Z; b_uitems : list Z;   (* uniq_state: ChUnique.MarshallAppend *)
  b_minh : argmm; b_maxh : argmm; b_mch : argmm
}.

Definition enc_tag (t : Z * list Z) : list Z := le 4 (fst t) ++ enc_str (snd t).
Definition enc_cents (cs : list (Z * Z)) : list Z :=
  uvarint vfuel (zlen cs) ++ flat_map (fun c => le 4 (fst c) ++ le 4 (snd c)) cs.
Definition enc_uniq (skip cnt : Z) (items : list Z) : list Z :=
  [skip] ++ uvarint vfuel cnt ++ flat_map (le 4) items.
(* AppendArgMinMaxStringEmpty / appendArgMinMaxTag + AppendArgMinMaxBytesFloat32 *)
Definition enc_arg (a : argmm) : list Z :=
  match a with
  | AEmpty => [255; 255; 255; 255; 0]
  | AInt i v => le 4 6 ++ [0] ++ le 4 i ++ [0; 1] ++ le 4 v
  | AStr s v => le 4 (zlen s + 2) ++ [1] ++ s ++ [0; 1] ++ le 4 v
  end.

Definition enc_row (r : brow) : list Z :=
  [0] ++ le 4 (b_metric r) ++ le 4 (b_time r) ++ flat_map enc_tag (b_tags r) ++
  flat_map (le 8) (b_agg r) ++ enc_cents (b_cents r) ++ enc_uniq (b_uskip r) (b_ucnt r) (b_uitems r) ++
  enc_arg (b_minh r) ++ enc_arg (b_maxh r) ++ enc_arg (b_mch r).

(* ---- readers ---- *)

Fixpoint rd_many {A} (f : list Z -> option (A * list Z)) (n : nat) (bs : list Z) : option (list A * list Z) :=
  match n with
  | O => Some ([], bs)
  | S k => match f bs with
           | Some (a, r) => match rd_many f k r with Some (l, r') => Some (a :: l, r') | None => None end
           | None => None
           end
  end.

Definition dec_tag (bs : list Z) : option ((Z * list Z) * list Z) :=
  match rd 4 bs with
  | Some (i, r) => match dec_str r with Some (s, r') => Some ((i, s), r') | None => None end
  | None => None
  end.

(* chutil.ColTDigest.DecodeColumn, one row: the centroids handed to tdigest.AddCentroid *)
Definition dec_cent (bs : list Z) : option ((Z * Z) * list Z) :=
  match rd 4 bs with
  | Some (m, r) => match rd 4 r with Some (w, r') => Some ((m, w), r') | None => None end
  | None => None
  end.
Definition dec_cents (bs : list Z) : option (list (Z * Z) * list Z) :=
  match read_uvarint vfuel bs with
  | Some (n, r) => if zlen r <? n then None else rd_many dec_cent (Z.to_nat n) r
  | None => None
  end.

(* data_model.ChUnique.ReadFrom (= chutil.ColUnique.DecodeColumn, one row): the wire image it accepts *)
Definition dec_uniq (bs : list Z) : option ((Z * Z * list Z) * list Z) :=
  match bs with
  | [] => None
  | sd :: r =>
      match read_uvarint vfuel r with
      | Some (ic, r1) =>
          if uniques_max_size <? ic then None
          else match rd_many (rd 4) (Z.to_nat ic) r1 with
               | Some (items, r2) => Some ((sd, ic, items), r2)
               | None => None
               end
      | None => None
      end
  end.
(* …and the table it builds (C04's model of the same loop) *)
Definition uniq_table (w : Z * Z * list Z) : tsk := t_unmarshal w.

(* data_model.ArgMinMaxStringFloat32 {AsString, AsInt32 (as uint32 bits), Val (float32 bits)} *)
Record arg3 := { as_str : list Z; as_int : Z; as_val : Z }.
Definition arg0 : arg3 := {| as_str := []; as_int := 0; as_val := 0 |}.

(* ArgMinMaxStringFloat32.ReadFrom(r, buf) on a receiver holding [st].  ColArgMin|MaxStringFloat32.Reset keeps the
   backing array and DecodeColumn re-reads into it: the receiver of a row is whatever the previous block left
   there.  The code never clears the receiver ([fx] = false); the repaired reader starts from the zero value. *)
Definition arg_value (st : arg3) (bs : list Z) : option (arg3 * list Z) :=
  match bs with
  | [] => None
  | vf :: r =>
      if vf =? 0 then Some (st, r)
      else match rd 4 r with
           | Some (v, r') => Some ({| as_str := as_str st; as_int := as_int st; as_val := v |}, r')
           | None => None
           end
  end.
Definition arg_read (fx : bool) (prev : arg3) (bs : list Z) : option (arg3 * list Z) :=
  let st := if fx then arg0 else prev in
  match rd 4 bs with
  | None => None
  | Some (len, r) =>
      if (len =? 4294967295) || (len =? 0) then arg_value st r
      else match r with
           | [] => None
           | flag :: r1 =>
               if flag =? 1 then
                 if (len <? 2) || (zlen r1 <? len - 2) then None   (* len -= 2 wraps: not produced by the encoder *)
                 else match take (Z.to_nat (len - 2)) r1 with
                      | Some (s, t :: r3) =>
                          if t =? 0 then arg_value {| as_str := s; as_int := as_int st; as_val := as_val st |} r3
                          else None
                      | _ => None
                      end
               else match rd 4 r1 with
                    | Some (i, r2) =>
                        arg_value {| as_str := as_str st; as_int := i; as_val := as_val st |}
                                  (skipn (Z.to_nat (Z.min (len - 5) (zlen r2))) r2)
                    | None => None
                    end
           end
  end.

(* what a state means to the API (tsValues: AsString first, then AsInt32) *)
Definition of_arg3 (a : arg3) : argmm :=
  match as_str a with
  | _ :: _ => AStr (as_str a) (as_val a)
  | [] => if as_int a =? 0 then AEmpty else AInt (as_int a) (as_val a)
  end.
Definition to_arg3 (a : argmm) : arg3 :=
  match a with
  | AEmpty => arg0
  | AInt i v => {| as_str := []; as_int := i; as_val := v |}
  | AStr s v => {| as_str := s; as_int := 0; as_val := v |}
  end.

Definition dec_arg (bs : list Z) : option (argmm * list Z) :=
  match arg_read true arg0 bs with Some (a, r) => Some (of_arg3 a, r) | None => None end.

(* one row of statshouse_v3_incoming in the column order of getTableDesc *)
Definition dec_row (bs : list Z) : option (brow * list Z) :=
  match bs with
  | 0 :: r0 =>
    match rd 4 r0 with None => None | Some (metric, r1) =>
    match rd 4 r1 with None => None | Some (time, r2) =>
    match rd_many dec_tag (Z.to_nat max_tags) r2 with None => None | Some (tags, r3) =>
    match rd_many (rd 8) 6 r3 with None => None | Some (agg, r4) =>
    match dec_cents r4 with None => None | Some (cents, r5) =>
    match dec_uniq r5 with None => None | Some ((sd, ic, items), r6) =>
    match dec_arg r6 with None => None | Some (h1, r7) =>
    match dec_arg r7 with None => None | Some (h2, r8) =>
    match dec_arg r8 with None => None | Some (h3, r9) =>
      Some ({| b_metric := metric; b_time := time; b_tags := tags; b_agg := agg; b_cents := cents;
               b_uskip := sd; b_ucnt := ic; b_uitems := items; b_minh := h1; b_maxh := h2; b_mch := h3 |}, r9)
    end end end end end end end end end
  | _ => None
  end.

Fixpoint dec_body (fuel : nat) (bs : list Z) : option (list brow) :=
  match bs with
  | [] => Some []
  | _ => match fuel with
         | O => None
         | S f => match dec_row bs with
                  | Some (r, rest) => match dec_body f rest with Some l => Some (r :: l) | None => None end
                  | None => None
                  end
         end
  end.

(* ------------------------------------------------------------------------------------------ *)
(* 4. from a MultiValue to the row (multiValueMarshal, appendHosts, appendKeys)                  *)

(* appendTag(S, I): "if we somehow have both I and S, we prefer I" — (int, string id) as written *)
Definition wtag (i s : Z) : Z * Z := if negb (i =? 0) || (s =? 0) then (i, 0) else (0, s).

Fixpoint combine0 (a b : list Z) : list (Z * Z) :=
  match a, b with
  | x :: a', y :: b' => wtag x y :: combine0 a' b'
  | x :: a', [] => wtag x 0 :: combine0 a' []
  | [], _ => []
  end.
(* the written key of a row: time, metric, slots 0..46 of the key (slot 47 is skipped), then the string top *)
Definition wkey (k : key) (top : Z) : Z * Z * list (Z * Z) :=
  (k_ts k, k_metric k,
   firstn (Z.to_nat max_tags - 1) (combine0 (k_tags k) (k_stags k)) ++ [wtag (h_int top) (h_str top)]).

(* strings are interned in Transfer.Model; [st] gives the bytes of a string id (st 0 = []) *)
Definition btags (st : Z -> list Z) (l : list (Z * Z)) : list (Z * list Z) :=
  map (fun p => (u32 (fst p), st (snd p))) l.

Definition opt_all {A} (l : list (option A)) : option (list A) :=
  fold_right (fun o acc => match o, acc with Some x, Some r => Some (x :: r) | _, _ => None end) (Some []) l.

(* appendArgMinMaxTag(tag, value) *)
Definition host_arg (st : Z -> list Z) (h v : Z) : argmm :=
  if h =? 0 then AEmpty
  else if negb (h_int h =? 0) then AInt (u32 (h_int h)) v else AStr (st (h_str h)) v.

Record skips := { sk_max : bool; sk_min : bool; sk_sq : bool }.
Definition skips0 : skips := {| sk_max := false; sk_min := false; sk_sq := false |}.

(* metricIndexCache (one per insert): skips(metricID) via metric(metricID).
   What a lookup of an id finds: the ingestion-status metric is answered from its own record without touching the
   cache; a built-in or journal metric fills the cache; an id known to neither leaves the cached flags alone and
   answers "no flags" — but the id is remembered, so the next lookup of the same id answers from the cache.
   [fx] = false: the code as it is; true: repaired (a miss clears the cached flags) — finding F-C03c. *)
Inductive mres := MDirect (f : skips) | MFound (f : skips) | MUnknown.
Record mcache := { mc_last : Z; mc_flags : skips }.
Definition mcache0 : mcache := {| mc_last := 0; mc_flags := skips0 |}.
Definition mc_skips (fx : bool) (c : mcache) (id : Z) (res : mres) : mcache * skips :=
  match res with
  | MDirect f => (c, f)
  | _ =>
      if id =? mc_last c then (c, mc_flags c)
      else match res with
           | MFound f => ({| mc_last := id; mc_flags := f |}, f)
           | _ => ({| mc_last := id; mc_flags := if fx then skips0 else mc_flags c |}, skips0)
           end
  end.
(* the flags the last lookup of a sequence gets *)
Fixpoint mc_run (fx : bool) (c : mcache) (l : list (Z * mres)) : skips :=
  match l with
  | [] => skips0
  | [(id, res)] => snd (mc_skips fx c id res)
  | (id, res) :: l' => mc_run fx (fst (mc_skips fx c id res)) l'
  end.

(* multiValueMarshal(rng, metricID, res, value, sf, ctx): everything after the key.
   hv = the three float32 bit patterns the skew functions produced (rng: inputs) *)
Definition value_cols (st : Z -> list Z) (sk : skips) (v : mvalue) (sf : Q) (hv : Z * Z * Z)
  : option (list Z * list (Z * Z) * (Z * Z * list Z) * (argmm * argmm * argmm)) :=
  let iv := mv_v v in
  let counter := (c_cnt (v_c iv) * sf)%Q in
  let aggq := if v_set iv
              then [counter; counter; v_min iv; v_max iv; (v_sum iv * sf)%Q;
                    if sk_sq sk then 0%Q else (v_sumsq iv * sf)%Q]
              else [counter; counter; 0%Q; 0%Q; 0%Q; 0%Q] in
  let cents := match mv_dig v with
               | None => Some []
               | Some cs => opt_all (map (fun c => match f32bits (ce_mean c), f32bits (ce_w c * sf)%Q with
                                                   | Some m, Some w => Some (m, w)
                                                   | _, _ => None
                                                   end) cs)
               end in
  let '(hmin, hmax, hmc) := hv in
  match opt_all (map f64bits aggq), cents with
  | Some agg, Some cs =>
      Some (agg, cs, t_wire (mv_hll v),
            (if v_set iv && negb (sk_min sk) then host_arg st (v_minh iv) hmin else AEmpty,
             if v_set iv && negb (sk_max sk) then host_arg st (v_maxh iv) hmax else AEmpty,
             host_arg st (c_host (v_c iv)) hmc))
  | _, _ => None
  end.

Definition mk_row (st : Z -> list Z) (sk : skips) (k : key) (top : Z) (v : mvalue) (sf : Q) (hv : Z * Z * Z)
  : option brow :=
  match value_cols st sk v sf hv with
  | Some (agg, cs, (sd, ic, items), (h1, h2, h3)) =>
      let '(ts, metric, tags) := wkey k top in
      Some {| b_metric := u32 metric; b_time := ts; b_tags := btags st tags; b_agg := agg; b_cents := cs;
              b_uskip := sd; b_ucnt := ic; b_uitems := items; b_minh := h1; b_maxh := h2; b_mch := h3 |}
  | None => None
  end.

(* ------------------------------------------------------------------------------------------ *)
(* 5. aggregation shards and the rows of a bucket                                               *)

(* one row of an agent bucket as the handler sees it: the TL item, the bucket time of the request,
   the sending agent's host tag, the rng draws its merges consume *)
Record contrib := { c_item : tlitem; c_bt : Z; c_ah : Z; c_ds : list Z }.

Fixpoint zl_eqb (a b : list Z) : bool :=
  match a, b with
  | [], [] => true
  | x :: a', y :: b' => (x =? y) && zl_eqb a' b'
  | _, _ => false
  end.
Definition key_eqb (a b : key) : bool :=
  (k_ts a =? k_ts b) && (k_metric a =? k_metric b) &&
  zl_eqb (k_tags a) (k_tags b) && zl_eqb (k_stags a) (k_stags b).

(* all shards of a bucket as one association list (a key lives in exactly one shard: hash % shards) *)
Definition shards := list (key * aitem).

Fixpoint sh_find (k : key) (m : shards) : option aitem :=
  match m with [] => None | (k', a) :: r => if key_eqb k k' then Some a else sh_find k r end.
Fixpoint sh_set (k : key) (a : aitem) (m : shards) : shards :=
  match m with
  | [] => [(k, a)]
  | (k', a') :: r => if key_eqb k k' then (k, a) :: r else (k', a') :: sh_set k a r
  end.

(* the body of the handler's loop for one item: KeyFromStatshouseMultiItem, GetOrCreateMultiItem,
   MergeWithTLMultiItem.  None = the string top is full (random resampling: outside the model).
   Result: shards, ingestion status of the item *)
Definition shard_merge (ufix : bool) (m : shards) (c : contrib) : option (shards * Z) :=
  let k := fst (key_from (c_item c) (c_bt c)) in
  let cur := match sh_find k m with Some a => a | None => aitem0 end in
  match merge_item ufix agg_string_top_capacity cur (c_item c) (c_ah c) (c_ds c) with
  | Some (a, e, _) => Some (sh_set k a m, e)
  | None => None
  end.

Fixpoint shard_merge_all (ufix : bool) (m : shards) (cs : list contrib) : option (shards * list Z) :=
  match cs with
  | [] => Some (m, [])
  | c :: cs' =>
      match shard_merge ufix m c with
      | Some (m', e) => match shard_merge_all ufix m' cs' with
                        | Some (m'', es) => Some (m'', e :: es)
                        | None => None
                        end
      | None => None
      end
  end.

(* MultiValue.Empty(): Value.Count() <= 0 *)
Definition mv_empty (v : mvalue) : bool := Qle_bool (c_cnt (v_c (mv_v v))) 0.

(* insertItem: the Tail row (empty top) when the Tail is not empty, then one row per non-empty Top entry.
   (FinishStringTop folds nothing when the Top has at most StringTopCountInsert entries; the sampler keeps
   the item with SF = 1 when the budget does not bind.) *)
Definition item_rows (k : key) (a : aitem) : list (key * Z * mvalue) :=
  (if mv_empty (ai_tail a) then [] else [(k, 0, ai_tail a)]) ++
  map (fun kv => (k, fst kv, snd kv)) (filter (fun kv => negb (mv_empty (snd kv))) (ai_top a)).
Definition body_rows (m : shards) : list (key * Z * mvalue) :=
  flat_map (fun ka => item_rows (fst ka) (snd ka)) m.

(* a cell of the bucket: the MultiValue under (key, top); top 0 = the Tail *)
Definition cell (m : shards) (k : key) (top : Z) : mvalue :=
  match sh_find k m with
  | None => mvalue0
  | Some a => if top =? 0 then ai_tail a
              else match top_find top (ai_top a) with Some v => v | None => mvalue0 end
  end.

(* the (key, top) cells a contribution addresses, in the order MergeWithTLMultiItem visits them:
   every Top element (an empty tag means the Tail), then the Tail *)
Definition targets (c : contrib) : list (key * Z * (tlval * Z * Z)) :=
  let k := fst (key_from (c_item c) (c_bt c)) in
  map (fun t => (k, mk_host (tt_tag t) (tt_stag t), (tt_val t, tt_mask t, c_ah c))) (ti_top (c_item c)) ++
  [(k, 0, (ti_tail (c_item c), ti_mask (c_item c), c_ah c))].

(* what MergeWithTL2 takes from one TL value when it reports no ingestion error *)
Definition accepted (t : tlval) (mask ah : Z) : ivalue :=
  let counter := if isset mask bit_counter_eq_1 then 1%Q else tl_counter t in
  if Qeq_bool counter 0 then ivalue0
  else
    let has_max := isset mask bit_max_host_tag || isset mask bit_max_host_stag in
    let maxh_i := if has_max then tl_maxh t else h_int ah in
    let maxh_s := if has_max then tl_maxhs t else h_str ah in
    let has_min := isset mask bit_min_host_tag || isset mask bit_min_host_stag in
    let minh_i := if has_min then tl_minh t else maxh_i in
    let minh_s := if has_min then tl_minhs t else maxh_s in
    let has_mc := isset mask bit_max_counter_host_tag || isset mask bit_max_counter_host_stag in
    let mch_i := if has_mc then tl_mch t else maxh_i in
    let mch_s := if has_mc then tl_mchs t else maxh_s in
    let cn := {| c_cnt := counter; c_host := mk_host mch_i mch_s |} in
    if negb (isset mask bit_value_set) then with_counter ivalue0 cn
    else
      let hm := isset mask bit_value_max in
      let sm := if hm then tl_sum t else (tl_min t * counter)%Q in
      {| v_c := cn; v_min := tl_min t; v_max := if hm then tl_max t else tl_min t;
         v_sum := sm; v_sumsq := if hm then tl_sumsq t else (sm * tl_min t)%Q;
         v_minh := mk_host minh_i minh_s; v_maxh := mk_host maxh_i maxh_s; v_set := true |}.
