(* C03, merge part: what a cell (key, string-top) of an aggregator bucket holds after any sequence of accepted
   contributions, in terms of C04's specifications of count / sum / sum of squares / min / max;
   the unique sketch stays exact below its limit; the written key of a row (finding F-C03a). *)
From Coq Require Import ZArith QArith Lia Lqa List Bool MSets.MSetPositive.
From SH Require Import Common.Wrap Gen.TransferConsts Gen.AggConsts Agg.Model Agg.ProofsValue Agg.ProofsUnique
  Transfer.Model Insert.Model.
Import ListNotations.
Open Scope Z_scope.

(* ---------- MergeWithTL2 is ItemValue.Merge with the accepted part of the TL value ---------- *)

Lemma with_counter_self v : with_counter v (v_c v) = v.
Proof. destruct v; reflexivity. Qed.

Lemma merge_with_tl2_value ufix s t mask ah ds s' ds' :
  merge_with_tl2 ufix s t mask ah ds = (s', 0, ds') ->
  merge_value (mv_v s) (accepted t mask ah) ds = (mv_v s', ds').
Proof.
  unfold merge_with_tl2, accepted. cbv zeta.
  set (counter := if isset mask bit_counter_eq_1 then 1%Q else tl_counter t).
  destruct (Qeq_bool counter 0) eqn:E0.
  { intros H. inversion H; subst. unfold merge_value, merge_counter. simpl.
    rewrite with_counter_self. reflexivity. }
  destruct (negb (validate_counter counter =? 0)) eqn:Ec.
  { intros H. inversion H; subst. rewrite H2 in Ec. discriminate. }
  set (cnr := {| c_cnt := counter; c_host := _ |}).
  unfold add_counter_host.
  fold cnr.
  destruct (merge_counter (v_c (mv_v s)) cnr ds) as [cn ds1] eqn:Em.
  destruct (negb (isset mask bit_value_set)) eqn:Es.
  { intros H. inversion H; subst. unfold merge_value. simpl. fold cnr. rewrite Em. reflexivity. }
  destruct (negb (validate_value (tl_min t) =? 0)) eqn:E1.
  { intros H. inversion H; subst. rewrite H2 in E1. discriminate. }
  destruct (negb (validate_value (tl_max t) =? 0)) eqn:E2.
  { intros H. inversion H; subst. rewrite H2 in E2. discriminate. }
  destruct (negb (validate_value (tl_sum t) =? 0)) eqn:E3.
  { intros H. inversion H; subst. rewrite H2 in E3. discriminate. }
  match goal with |- context [if is_nil (tl_centroids t) then ?a else ?b] => destruct (if is_nil (tl_centroids t) then a else b) as [d1 e] end.
  destruct (negb (e =? 0)) eqn:Ee.
  { intros H. inversion H; subst. discriminate. }
  intros H. inversion H; subst. unfold merge_value. cbn [mv_v v_c v_set]. fold cnr. rewrite Em.
  cbn [negb]. reflexivity.
Qed.

(* a cell's history: the TL values merged into it, in arrival order *)
Fixpoint cell_fold (ufix : bool) (s : mvalue) (l : list (tlval * Z * Z * list Z)) : option mvalue :=
  match l with
  | [] => Some s
  | (t, mask, ah, ds) :: l' =>
      let '(s', e, _) := merge_with_tl2 ufix s t mask ah ds in
      if e =? 0 then cell_fold ufix s' l' else None
  end.

Definition accepted_of (x : tlval * Z * Z * list Z) : ivalue := let '(t, mask, ah, _) := x in accepted t mask ah.

Open Scope Q_scope.

(* "count, min, max, sum and sum-of-squares equal to the merge of every contribution received for that key":
   C04's specifications of the merge, over the accepted values of the cell's whole history *)
Definition cell_spec (ls : list ivalue) (r : ivalue) : Prop :=
  sums_spec ls r /\ min_spec ls r /\ max_spec ls r.

Lemma cell_spec_leaf a : cell_spec [a] a.
Proof.
  split; [|split; [apply leaf_min | apply leaf_max]].
  intros W. inversion W; subst. unfold cnt. simpl.
  split; [assumption|]. split; [lra|]. split; [lra|]. split; [lra|]. rewrite orb_false_r. reflexivity.
Qed.

Lemma cell_spec_step la a b ds r ds' :
  cell_spec la a -> merge_value a b ds = (r, ds') -> cell_spec (la ++ [b]) r.
Proof.
  intros (S1 & S2 & S3) H. destruct (cell_spec_leaf b) as (L1 & L2 & L3).
  split; [eapply merge_value_sums; eauto | split; [eapply merge_value_min; eauto | eapply merge_value_max; eauto]].
Qed.

Theorem cell_fold_spec ufix : forall l s0 pre r,
  cell_spec pre (mv_v s0) -> cell_fold ufix s0 l = Some r ->
  cell_spec (pre ++ map accepted_of l) (mv_v r).
Proof.
  induction l as [|[[[t mask] ah] ds] l IH]; intros s0 pre r P H; simpl in *.
  - inversion H; subst. rewrite app_nil_r. exact P.
  - destruct (merge_with_tl2 ufix s0 t mask ah ds) as [[s' e] ds'] eqn:E.
    destruct (Z.eqb_spec e 0); [subst e | discriminate].
    apply merge_with_tl2_value in E.
    change (pre ++ accepted t mask ah :: map accepted_of l) with (pre ++ [accepted t mask ah] ++ map accepted_of l).
    rewrite app_assoc. eapply IH; [|exact H]. eapply cell_spec_step; eauto.
Qed.

(* from an empty cell *)
Lemma cell_spec_nil : cell_spec [] ivalue0.
Proof.
  split; [|split].
  - intros _. unfold wfv, cnt. simpl. repeat split; try lra; reflexivity.
  - split; [reflexivity | intros; discriminate].
  - split; [reflexivity | intros; discriminate].
Qed.

Theorem cell_from_empty ufix l r :
  cell_fold ufix mvalue0 l = Some r -> cell_spec (map accepted_of l) (mv_v r).
Proof. intros H. apply (cell_fold_spec ufix l mvalue0 [] r cell_spec_nil H). Qed.

(* the result does not depend on the arrival order: two histories with the same accepted values *)
Theorem cell_order_irrelevant ufix l1 l2 r1 r2 :
  Permutation.Permutation (map accepted_of l1) (map accepted_of l2) ->
  Forall wfv (map accepted_of l1) ->
  cell_fold ufix mvalue0 l1 = Some r1 -> cell_fold ufix mvalue0 l2 = Some r2 ->
  cnt (mv_v r1) == cnt (mv_v r2) /\ v_sum (mv_v r1) == v_sum (mv_v r2) /\ v_sumsq (mv_v r1) == v_sumsq (mv_v r2) /\
  v_set (mv_v r1) = v_set (mv_v r2) /\
  (v_set (mv_v r1) = true -> v_min (mv_v r1) == v_min (mv_v r2) /\ v_max (mv_v r1) == v_max (mv_v r2)).
Proof.
  intros P W H1 H2.
  destruct (cell_from_empty _ _ _ H1) as (A1 & B1 & C1). destruct (cell_from_empty _ _ _ H2) as (A2 & B2 & C2).
  assert (W2 : Forall wfv (map accepted_of l2)) by (eapply Permutation.Permutation_Forall; eauto).
  destruct (A1 W) as (_ & a1 & a2 & a3 & a4). destruct (A2 W2) as (_ & b1 & b2 & b3 & b4).
  rewrite (sumQ_perm cnt _ _ P) in a1. rewrite (sumQ_perm v_sum _ _ P) in a2. rewrite (sumQ_perm v_sumsq _ _ P) in a3.
  assert (E : existsb v_set (map accepted_of l1) = existsb v_set (map accepted_of l2)).
  { apply eq_true_iff_eq. rewrite !existsb_exists. split; intros (x & I & S); exists x; split; auto.
    - eapply Permutation.Permutation_in; eauto.
    - eapply Permutation.Permutation_in; [apply Permutation.Permutation_sym|]; eauto. }
  split; [lra|]. split; [lra|]. split; [lra|]. split; [congruence|].
  intros S1. assert (S2 : v_set (mv_v r2) = true) by congruence.
  destruct B1 as (_ & B1). destruct (B1 S1) as ((x1 & I1 & Sx1 & M1 & _) & L1).
  destruct B2 as (_ & B2). destruct (B2 S2) as ((x2 & I2 & Sx2 & M2 & _) & L2).
  destruct C1 as (_ & C1). destruct (C1 S1) as ((y1 & J1 & Sy1 & N1 & _) & U1).
  destruct C2 as (_ & C2). destruct (C2 S2) as ((y2 & J2 & Sy2 & N2 & _) & U2).
  pose proof (L1 x2 (Permutation.Permutation_in _ (Permutation.Permutation_sym P) I2) Sx2).
  pose proof (L2 x1 (Permutation.Permutation_in _ P I1) Sx1).
  pose proof (U1 y2 (Permutation.Permutation_in _ (Permutation.Permutation_sym P) J2) Sy2).
  pose proof (U2 y1 (Permutation.Permutation_in _ P J1) Sy1).
  split; lra.
Qed.

(* ---------- the unique sketch below its exact-mode limit (set level of C04's model) ---------- *)
Open Scope Z_scope.

Definition exact_inv (s : sk) : Prop := s_skip s = 0 /\ s_cnt s = card (s_elems s) + b2z (s_zero s).

Lemma good0 h : good 0 h = true.
Proof. unfold good, lowbits. simpl. rewrite Z.land_0_r. reflexivity. Qed.

Lemma insert_impl_exact s h : exact_inv s ->
  exact_inv (s_insert_impl s h) /\ s_cnt s <= s_cnt (s_insert_impl s h) <= s_cnt s + 1 /\
  (forall p, PS.In p (s_elems (s_insert_impl s h)) <-> PS.In p (s_elems s) \/ h = Zpos p) /\
  s_zero (s_insert_impl s h) = s_zero s || (h <=? 0).
Proof.
  intros [I1 I2].
  assert (NP : forall (b : bool) z, z <= 0 -> s_zero s = b ->
     let r := if b then s else {| s_skip := s_skip s; s_elems := s_elems s; s_zero := true; s_cnt := s_cnt s + 1 |} in
     exact_inv r /\ s_cnt s <= s_cnt r <= s_cnt s + 1 /\
     (forall p, PS.In p (s_elems r) <-> PS.In p (s_elems s) \/ z = Zpos p) /\ s_zero r = s_zero s || true).
  { intros b z Hz Hb. destruct b; cbn zeta.
    - split; [split; assumption|]. split; [lia|]. split; [|rewrite Hb; reflexivity].
      intros p. split; [auto | intros [H|H]; [exact H | lia]].
    - split; [split; [exact I1 | simpl; rewrite I2, Hb; simpl; lia]|]. split; [simpl; lia|].
      split; [|simpl; rewrite orb_true_r; reflexivity].
      intros p. simpl. split; [auto | intros [H|H]; [exact H | lia]]. }
  unfold s_insert_impl. destruct h as [|p|p].
  - replace (0 <=? 0) with true by reflexivity. apply (NP (s_zero s) 0); [lia | reflexivity].
  - replace (Z.pos p <=? 0) with false by reflexivity. rewrite orb_false_r.
    destruct (PS.mem p (s_elems s)) eqn:Mm.
    + split; [split; assumption|]. split; [lia|]. split; [|reflexivity].
      intros q. split; [auto | intros [H|H]; [exact H | inversion H; subst; apply PS.mem_spec; exact Mm]].
    + assert (N : ~ PS.In p (s_elems s)) by (intros C; apply PS.mem_spec in C; congruence).
      split; [split; [exact I1 | simpl; rewrite card_add by exact N; lia]|]. split; [simpl; lia|]. split; [|reflexivity].
      intros q. simpl. rewrite PS.add_spec. split.
      * intros [H|H]; [right; subst; reflexivity | left; exact H].
      * intros [H|H]; [right; exact H | left; inversion H; reflexivity].
  - replace (Z.neg p <=? 0) with true by reflexivity. apply (NP (s_zero s) (Z.neg p)); [lia | reflexivity].
Qed.

(* "unique-count estimates are exact while a row holds fewer … values than the sketch's exact-mode limit":
   while at most M hashes went into the sketch, its skip degree stays 0, it holds exactly the hashes
   inserted, and its size is the number of distinct ones *)
Theorem unique_exact_below_limit M : forall hs s,
  exact_inv s -> s_cnt s + Z.of_nat (length hs) <= M ->
  let r := fold_left (s_insert_hash M) hs s in
  exact_inv r /\
  (forall p, PS.In p (s_elems r) <-> PS.In p (s_elems s) \/ In (Zpos p) hs) /\
  s_zero r = s_zero s || existsb (fun h => h <=? 0) hs /\
  s_size_as_is r = card (s_elems r) + b2z (s_zero r).
Proof.
  induction hs as [|h hs IH]; intros s I L; cbn [fold_left].
  - split; [exact I|]. split; [intros; simpl; tauto|]. split; [simpl; rewrite orb_false_r; reflexivity|].
    destruct I as [I1 I2]. unfold s_size_as_is. rewrite I1. simpl. exact I2.
  - destruct (insert_impl_exact s h I) as (J & B & E & Z).
    assert (S1 : s_insert_hash M s h = s_insert_impl s h).
    { unfold s_insert_hash. destruct I as [I1 _]. rewrite I1, good0. simpl.
      apply shrink_id. cbn [length] in L. lia. }
    rewrite S1. cbn [length] in L.
    destruct (IH (s_insert_impl s h) J ltac:(lia)) as (K1 & K2 & K3 & K4).
    split; [exact K1|]. split; [|split; [|exact K4]].
    + intros p. rewrite K2, E. simpl. split.
      * intros [[H|H]|H]; auto.
      * intros [H|[H|H]]; auto.
    + rewrite K3, Z. simpl. rewrite orb_assoc. reflexivity.
Qed.

(* ---------- the written key (finding F-C03a) ---------- *)

(* appendKeys writes slots 0..46 and the string top; two different aggregation keys can be written alike *)
Definition key47 (x : Z) : key :=
  {| k_ts := 100; k_metric := 1; k_tags := repeat 0 47 ++ [x]; k_stags := repeat 0 48 |}.

Lemma written_key_not_injective :
  exists k1 k2 top, key_eqb k1 k2 = false /\ wkey k1 top = wkey k2 top.
Proof. exists (key47 1), (key47 2), 0. split; vm_compute; reflexivity. Qed.

(* ---------- the per-insert metric cache (finding F-C03c) ---------- *)

Definition res_flags (r : mres) : skips := match r with MDirect f | MFound f => f | MUnknown => skips0 end.

Section Cache.
  Variable resolve : Z -> mres.                       (* what a lookup of an id finds: built-ins and the journal *)
  Hypothesis zero_plain : res_flags (resolve 0) = skips0.   (* the cache starts as "metric 0, no flags" *)

  Definition cache_inv (c : mcache) : Prop := mc_flags c = res_flags (resolve (mc_last c)).

  Lemma mc_skips_fixed c id : cache_inv c ->
    cache_inv (fst (mc_skips true c id (resolve id))) /\ snd (mc_skips true c id (resolve id)) = res_flags (resolve id).
  Proof.
    intros I. unfold mc_skips. destruct (resolve id) eqn:R.
    - simpl. split; [exact I | reflexivity].
    - destruct (Z.eqb_spec id (mc_last c)) as [E|N]; simpl.
      + split; [exact I|]. rewrite I, <- E, R. reflexivity.
      + unfold cache_inv. simpl. rewrite R. split; reflexivity.
    - destruct (Z.eqb_spec id (mc_last c)) as [E|N]; simpl.
      + split; [exact I|]. rewrite I, <- E, R. reflexivity.
      + unfold cache_inv. simpl. rewrite R. split; reflexivity.
  Qed.

  (* the repaired cache answers every lookup, after any sequence of earlier lookups, with the flags of that metric *)
  Theorem cache_fixed_exact : forall ids c id,
    cache_inv c -> mc_run true c (map (fun i => (i, resolve i)) (ids ++ [id])) = res_flags (resolve id).
  Proof.
    induction ids as [|a ids IH]; intros c id I.
    - simpl. apply mc_skips_fixed. exact I.
    - cbn [app map]. destruct (mc_skips_fixed c a I) as [I' _].
      specialize (IH _ id I').
      destruct (map (fun i => (i, resolve i)) (ids ++ [id])) eqn:M.
      + destruct ids; discriminate.
      + cbn [mc_run]. exact IH.
  Qed.

  Lemma cache0_inv : cache_inv mcache0.
  Proof. unfold cache_inv. simpl. symmetry. exact zero_plain. Qed.
End Cache.

(* the cache as it is: a metric known to neither the built-ins nor the journal, looked up twice in a row after a
   metric with skip flags, gets that metric's flags on the second lookup *)
Definition ex_resolve (i : Z) : mres :=
  if i =? 107 then MFound {| sk_max := true; sk_min := true; sk_sq := true |} else MUnknown.
Lemma cache_faithful_refuted :
  exists resolve ids id, res_flags (resolve 0) = skips0 /\
    mc_run false mcache0 (map (fun i => (i, resolve i)) (ids ++ [id])) <> res_flags (resolve id).
Proof. exists ex_resolve, [107; 1], 1. split; [reflexivity | vm_compute; discriminate]. Qed.
