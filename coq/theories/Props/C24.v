(* C24 — The API points cache never serves rows older than an invalidation.
   Only the property theorems (closed by [exact]) and non-vacuity examples. The model
   (PointsCache/Model.v) describes internal/api/pcache.go as atomic steps: OLookup = loadCached,
   OLoadStart = the loadedAtNano clock read of get, OStore = the locked section of get (eviction
   loop + insertion), ODrop = get returning without storing, OInvalidate = invalidate. Every value
   returned by c.now() is a field of the step; histories are arbitrary lists of steps, so every
   interleaving of concurrent get/invalidate calls at critical-section granularity is included.
   [events h] = all (moment, second) pairs invalidated in h; [purge_stamps h] = the clock values
   from which invalidate computed its purge thresholds. *)
From Coq Require Import ZArith List Bool.
From SH Require Import Common.Wrap PointsCache.Model PointsCache.ProofsCheck PointsCache.ProofsHist PointsCache.ProofsSize.
Import ListNotations.
Open Scope Z_scope.

(* "Within the mutable window, a cached point-query result for a range is served only if no second
   in that range was invalidated at or after the moment its load started (allowing the replication
   linger)".  Premises: the clock did not run backwards between an earlier invalidate's purge and
   this lookup (monotone clock — the purge of invalidateLocked relies on it), and moment + linger
   fits int64 (clock before year 2262). The seconds considered are those of [from,to] that are
   inside the mutable window at the lookup: sec >= unix(t_chk - 48h). *)
Theorem C24_served_implies_no_later_invalidation :
  forall c h s rs vg k from to t_lru t_chk s' r cr,
    run c init h = (s, rs) ->
    step c s (OLookup vg k from to t_lru t_chk) = (s', r) ->
    r_found r = Some cr -> r_valid r = true ->
    Forall (fun tp => tp <= t_chk) (purge_stamps h) ->
    stamps_fit_int64 (events h) ->
    t_chk + invalidateFromNs <= to * nanos ->
    forall at_ sec, In (at_, sec) (events h) ->
      Z.max from (unix_of (t_chk + invalidateFromNs)) <= sec <= to ->
      at_ + lingerNs < cr_loadAt cr.
Proof. exact served_implies_no_later_invalidation. Qed.

(* "…the moment its load started": the rows found under (key, range) and the load moment compared
   above are those of one get of exactly that key and range: its OLoadStart read the clock
   (cr_loadAt), and its OStore later put these rows (cr_rid, cr_n) into the cache — a load of
   another range or key never refreshes them (per-range load time) *)
Theorem C24_served_rows_provenance :
  forall c h s rs vg k from to t_lru t_chk s' r cr,
    run c init h = (s, rs) ->
    step c s (OLookup vg k from to t_lru t_chk) = (s', r) ->
    r_found r = Some cr ->
    exists id tl vs h1 h2 h3,
      h = h1 ++ OLoadStart id k from to (cr_loadAt cr) :: h2 ++ OStore id (cr_n cr) (cr_rid cr) tl vs :: h3.
Proof. exact served_rows_provenance. Qed.

(* "otherwise it is reloaded": loadCached answers false, so get goes on to the loader (that get
   serves from the cache iff this flag is true is part of the correspondence check) *)
Theorem C24_invalidated_is_not_served :
  forall c h s rs vg k from to t_lru t_chk s' r cr at_ sec,
    run c init h = (s, rs) ->
    step c s (OLookup vg k from to t_lru t_chk) = (s', r) ->
    r_found r = Some cr ->
    Forall (fun tp => tp <= t_chk) (purge_stamps h) ->
    stamps_fit_int64 (events h) ->
    t_chk + invalidateFromNs <= to * nanos ->
    In (at_, sec) (events h) ->
    Z.max from (unix_of (t_chk + invalidateFromNs)) <= sec <= to ->
    cr_loadAt cr <= at_ + lingerNs ->
    r_valid r = false.
Proof. exact invalidated_is_not_served. Qed.

(* "Outside the mutable window cached results are served as loaded" (from any state whatsoever) *)
Theorem C24_immutable_window_served_as_loaded :
  forall c s vg k from to t_lru t_chk s' r cr,
    step c s (OLookup vg k from to t_lru t_chk) = (s', r) ->
    r_found r = Some cr ->
    to * nanos < t_chk + invalidateFromNs ->
    r_valid r = true.
Proof. exact immutable_window_served_as_loaded. Qed.

(* the check is not trivially "false": while nothing has been invalidated everything cached is served *)
Theorem C24_uninvalidated_is_served :
  forall c h s rs vg k from to t_lru t_chk s' r cr,
    run c init h = (s, rs) -> events h = [] ->
    step c s (OLookup vg k from to t_lru t_chk) = (s', r) ->
    r_found r = Some cr -> r_valid r = true.
Proof. exact uninvalidated_is_served. Qed.

(* "the cache stays within its size bound regardless of the sequence of requests" — accounting:
   c.size = sum over entries of (rowsSize + number of ranges), and it dominates what is stored.
   Premise: len(rows) >= 0 in every store. *)
Theorem C24_size_invariant :
  forall c h s rs, Forall nonneg_store h -> run c init h = (s, rs) ->
    s_size s = wsum (s_cache s) /\
    stored_rows (s_cache s) + stored_ranges (s_cache s) <= s_size s.
Proof. exact size_invariant. Qed.

(* — the bound: approxMaxSize + 1 + (largest single load result), for the accounted size plus the
   number of entries and hence for rows + ranges + entries really held. Premise [r_acc]: the
   recorded eviction victims are ones evictLocked can pick and the loop ran to its end. *)
Theorem C24_bounded_after_get :
  forall c maxn h s rs,
    0 <= c_max c + 1 + maxn ->
    Forall (store_le maxn) h ->
    run c init h = (s, rs) -> Forall (fun r => r_acc r = true) rs ->
    s_size s + zlen (s_cache s) <= c_max c + 1 + maxn /\
    stored_rows (s_cache s) + stored_ranges (s_cache s) + zlen (s_cache s) <= c_max c + 1 + maxn.
Proof. exact bounded_after_get. Qed.

(* — and the eviction loop of get ends when approxMaxSize >= 1: from every state satisfying the
   accounting invariant there are at most len(cache) victims, each acceptable to evictLocked, after
   which size + len(cache) < approxMaxSize *)
Theorem C24_evict_loop_terminates :
  forall max n cache size,
    1 <= max -> length cache = n ->
    size = wsum cache -> Forall (fun ke => entry_ok (snd ke)) cache -> NoDup (map fst cache) ->
    exists victims, (length victims <= n)%nat /\
      exists c1 z1, evict_loop max victims cache size = (c1, z1, true).
Proof. exact evict_loop_terminates. Qed.

(* remark (not a claim of the property): with approxMaxSize <= 0 the loop has no accepted run on
   an empty cache — the Go loop spins; newPointsCache is only called with a positive constant *)
Remark C24_remark_evict_loop_spins_when_max_not_positive :
  forall max victims, max <= 0 -> exists c1 z1, evict_loop max victims [] 0 = (c1, z1, false).
Proof. exact evict_loop_spins_when_max_not_positive. Qed.

(* ---- non-vacuity ---- *)
Definition ex_c := {| c_max := 100; c_off := 0 |}.
Definition ex_F := 1699999000.
Definition ex_T := 1699999300.
Definition ex_t0 := 1700000000000000000.
Definition ex_t1 := 1700000001000000000.
Definition ex_t2 := 1700000016000000001.   (* t1 + linger + 1ns *)
Definition ex_t3 := 1700000020000000000.
(* load, invalidate a second of the range, (lookup refused), reload later than the linger, lookup served *)
Definition ex_h1 := [OLoadStart 0 1 ex_F ex_T ex_t0; OStore 0 2 7 ex_t0 []; OInvalidate [ex_F + 5] ex_t1 ex_t1 [] [] []].
Definition ex_h2 := ex_h1 ++ [OLoadStart 1 1 ex_F ex_T ex_t2; OStore 1 3 8 ex_t2 []].

Example C24_nonvacuous_refused :
  snd (step ex_c (fst (run ex_c init ex_h1)) (OLookup false 1 ex_F ex_T ex_t1 ex_t1)) =
    {| r_found := Some {| cr_rid := 7; cr_n := 2; cr_loadAt := ex_t0 |}; r_valid := false; r_nclk := 2; r_acc := true |}
  /\ events ex_h1 = [(ex_t1, ex_F + 5)].
Proof. vm_compute. split; reflexivity. Qed.

Example C24_nonvacuous_served :
  snd (step ex_c (fst (run ex_c init ex_h2)) (OLookup false 1 ex_F ex_T ex_t3 ex_t3)) =
    {| r_found := Some {| cr_rid := 8; cr_n := 3; cr_loadAt := ex_t2 |}; r_valid := true; r_nclk := 2; r_acc := true |}
  /\ events ex_h2 = [(ex_t1, ex_F + 5)] /\ purge_stamps ex_h2 = [ex_t1]
  /\ ex_t1 <= ex_t3 /\ ex_t3 + invalidateFromNs <= ex_T * nanos
  /\ Z.max ex_F (unix_of (ex_t3 + invalidateFromNs)) <= ex_F + 5 <= ex_T
  /\ ex_t1 + lingerNs < ex_t2.
Proof. vm_compute. repeat split; try reflexivity; intro; discriminate. Qed.

(* an immutable range (older than 48h at the lookup) is served although one of its seconds was invalidated *)
Example C24_nonvacuous_immutable :
  let t := ex_t1 + 172800000000000 + 400000000000 in
  snd (step ex_c (fst (run ex_c init ex_h1)) (OLookup false 1 ex_F ex_T t t)) =
    {| r_found := Some {| cr_rid := 7; cr_n := 2; cr_loadAt := ex_t0 |}; r_valid := true; r_nclk := 2; r_acc := true |}
  /\ ex_T * nanos < t + invalidateFromNs.
Proof. vm_compute. split; reflexivity. Qed.

(* eviction with approxMaxSize = 3: the second store evicts key 1; all steps accepted, bound respected *)
Definition ex_c3 := {| c_max := 3; c_off := 0 |}.
Definition ex_h3 := [OLoadStart 0 1 ex_F ex_T ex_t0; OStore 0 1 7 ex_t0 [];
                     OLoadStart 1 2 ex_F ex_T ex_t1; OStore 1 1 8 ex_t1 [1]].
Example C24_nonvacuous_bound :
  map r_acc (snd (run ex_c3 init ex_h3)) = [true; true; true; true] /\
  s_size (fst (run ex_c3 init ex_h3)) = 2 /\ map fst (s_cache (fst (run ex_c3 init ex_h3))) = [2] /\
  Forall (store_le 1) ex_h3.
Proof. split; [vm_compute; reflexivity|]. split; [vm_compute; reflexivity|]. split; [vm_compute; reflexivity|].
  repeat constructor; simpl; try exact I; intro; discriminate. Qed.
