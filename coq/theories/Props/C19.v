(* C19 — Tag mappings form a stable bijection and creation obeys flood limits.
   Only the property theorems (closed by [exact]) and non-vacuity examples; model: Metadata/Model.v
   (binlog_event.go: getOrCreateMapping/putMapping, dbv2.go: deleteMappingsByIdBatched/ResetFlood/calcBudget/roundTime). *)
From Coq Require Import ZArith List Bool.
From SH Require Import Common.Wrap Metadata.Model Metadata.Proofs Metadata.ProofsC19.
Import ListNotations.
Open Scope Z_scope.

(* "A string is mapped to at most one ... id and an id to at most one string": in every state reachable by any
   history of get-or-create, put, delete, reset (and entity) requests *)
Theorem C19_mapping_injective_both_ways :
  forall v c ops, let s := run v c empty ops in
  NoDup (map fst (maps s)) /\ NoDup (map snd (maps s)) /\
  (forall id k1 k2, In (id, k1) (maps s) -> In (id, k2) (maps s) -> k1 = k2) /\
  (forall k id1 id2, In (id1, k) (maps s) -> In (id2, k) (maps s) -> id1 = id2).
Proof. exact mapping_injective_both_ways. Qed.

(* "repeated get-or-create calls return the same id" (for any metric and clock) and change nothing *)
Theorem C19_get_or_create_idempotent :
  forall c s m k now g s' evs, goc c s m k now = (g, s', evs) -> forall i, goc_id g = Some i ->
  forall m2 now2, goc c s' m2 k now2 = (GFound i, s', []).
Proof. exact get_or_create_idempotent. Qed.

(* "once created, a mapping never changes until it is explicitly deleted" (or overwritten by put) *)
Theorem C19_mapping_stable_until_put_or_delete :
  forall v c s o k id, (forall kvs, o <> OPut kvs) -> (forall ids, o <> ODel ids) ->
  map_by_key (maps s) k = Some id -> map_by_key (maps (step_st v c s o)) k = Some id.
Proof. exact mapping_stable_until_put_or_delete. Qed.

(* "at most one positive id ... deleted ids are never handed out again": an id present in ANY earlier state
   (deleted since or not, also one written by put) is smaller than every id created later, which is positive.
   Hypothesis: the AUTOINCREMENT mark stays below 2^31 (the response id is an int32). *)
Theorem C19_deleted_ids_never_reissued :
  forall v c s1 ops p m k now i s3 evs, wf s1 -> In p (maps s1) ->
  let s2 := run v c s1 ops in
  mseq s2 + 1 < two31 ->
  goc c s2 m k now = (GCreated i, s3, evs) -> fst p < i /\ 0 < i.
Proof. exact deleted_ids_never_reissued. Qed.

(* "Once the global budget is exhausted, the number of new mappings a metric can create in any time span is at most
   its remaining budget ... plus the per-step bonus times the number of elapsed steps": every creation lowers the
   potential budget + bonus*floor((T-last)/step) by at least one (for every horizon T, monotone clock, no uint32 wrap) *)
Theorem C19_flood_step :
  forall c s m k now t cnt i s' evs T,
  0 < c_step c -> 0 <= c_bonus c -> flood_active c s -> fl_get (flood s) m = Some (t, cnt) ->
  let pred := round_time now (c_step c) in
  0 <= t <= pred -> 0 <= now < two32 -> pred <= T ->
  goc c s m k now = (GCreated i, s', evs) ->
  exists cnt', fl_get (flood s') m = Some (pred, cnt') /\ 0 <= cnt' /\
    cnt' + c_bonus c * ((T - pred) / c_step c) <= cnt + c_bonus c * ((T - t) / c_step c) - 1.
Proof. exact flood_step. Qed.

(* ... hence n consecutive successful creations of one metric at non-decreasing times up to T need
   n <= budget + bonus * floor((T - last)/step).  PARTIAL: stated for runs of that metric's creations (operations on
   other keys/metrics in between do not touch its flood row; that frame fact is covered by the correspondence and
   the harness oracle, not by this theorem) and with the global bypass configured off (GlobalBudget <= 0). *)
Theorem C19_flood_bound_partial :
  forall c m T, 0 < c_step c -> 0 <= c_bonus c -> c_global c <= 0 ->
  forall reqs s t cnt s',
  flood_active c s -> fl_get (flood s) m = Some (t, cnt) -> 0 <= cnt -> 0 <= t <= T -> times_ok (c_step c) t T reqs ->
  run_creates c s m reqs = Some s' ->
  Z.of_nat (length reqs) <= cnt + c_bonus c * ((T - t) / c_step c).
Proof. exact flood_bound_sum. Qed.

(* a metric without a flood row starts at the maximum budget *)
Theorem C19_flood_first_creation :
  forall c s m k now i s' evs, fl_get (flood s) m = None -> goc c s m k now = (GCreated i, s', evs) ->
  fl_get (flood s') m = Some (round_time now (c_step c), c_max c - 1).
Proof. exact flood_first. Qed.

(* "requests beyond that fail with a flood-limit error" *)
Theorem C19_flood_error_iff :
  forall c s m k now, map_by_key (maps s) k = None -> flood_active c s ->
  forall t cnt, fl_get (flood s) m = Some (t, cnt) ->
  (fst (fst (goc c s m k now)) = GFlood <->
   calc_budget cnt 1 (u32 t) (round_time now (c_step c)) (c_max c) (c_bonus c) (c_step c) < 0).
Proof. exact flood_error_iff. Qed.

(* "(the maximum budget, or the value set by a flood reset)" — REFUTED for the code as it is (finding F-C19a): after
   ResetFlood(metric, 1) at time 61 (step 60, bonus 1, max 3) two creations succeed in the same step *)
Theorem C19_flood_bound_after_reset_refuted :
  exists c ops limit, c_global c = 0 /\ ops = reset_witness /\ limit = 1 /\
    map (step_res faithful c (step_st faithful c empty (OReset 1 limit 61))) [OGoc 1 1 62] = [RGoc (GCreated 1)] /\
    results faithful c empty ops = [RReset 3 1; RGoc (GCreated 1); RGoc (GCreated 2)].
Proof. exact flood_bound_after_reset_refuted. Qed.

(* the repaired variant (ResetFlood stores the rounded time) refuses the second creation; C19_flood_step then applies
   to rows written by a reset as well, because their time is a rounded time <= every later rounded time *)
Theorem C19_flood_bound_after_reset_repaired :
  results (Var false false false true) (Cfg 3 60 1 0) empty reset_witness = [RReset 3 1; RGoc (GCreated 1); RGoc GFlood].
Proof. exact flood_bound_after_reset_repaired. Qed.

(* non-vacuity: budget 2, bonus 1 per 60 s: two creations, a refusal, one more a step later; ids never reused after delete *)
Example C19_nonvacuous :
  results faithful (Cfg 2 60 1 0) empty
    [OGoc 1 1 100; OGoc 1 2 100; OGoc 1 3 110; OGoc 1 3 121; ODel [2]; OGoc 1 2 200; OGoc 2 1 200]
  = [RGoc (GCreated 1); RGoc (GCreated 2); RGoc GFlood; RGoc (GCreated 3); RCount 1; RGoc (GCreated 4); RGoc (GFound 1)].
Proof. vm_compute. reflexivity. Qed.
Example C19_nonvacuous_sum :
  run_creates (Cfg 2 60 1 0) (step_st faithful (Cfg 2 60 1 0) empty (OGoc 1 9 100)) 1 [(1, 100); (2, 130)] <> None /\
  times_ok 60 60 180 [(1, 100); (2, 130)].
Proof. vm_compute. split; [discriminate|intuition discriminate]. Qed.
