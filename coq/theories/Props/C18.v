(* C18 — fsbinlog replays exactly what was appended, across rotation and damage.
   Only the property theorems (closed by [exact]) and non-vacuity examples.  Model: FsBinlog/Model.v (byte level; writer
   putLevToBuffer incl. levCrc32 / levRotateTo / levRotateFrom, reader readAllFromPosition / readUncompressedFile /
   readAndUpdateCRCIfNeed / directory scan, the harness engine's framing, CRC-32 concrete).
   What is proved for ALL inputs is the record/stream level inside one chunk, the checksum algebra and the commit protocol;
   the composition over several chunk files (scan, sort, index by position, seek by snapshot meta), truncation and the
   writer->stream relation are tied by the correspondence check and the Go-side oracles only (named _partial). *)
From Coq Require Import ZArith List Bool.
From SH Require Import Common.Wrap FsBinlog.Model FsBinlog.Proofs.
Import ListNotations.
Open Scope Z_scope.

(* "A reader replaying a binlog delivers exactly the appended events in order, each at the offset the writer returned":
   for ANY list of appended events and interleaved levCrc32 records of one chunk, encoded by the writer with its running
   crc, the reader started in front of them (engine and reader agree on the position) ends without error at the end of
   the data, has delivered exactly those events at exactly their positions, and its position and crc equal the writer's.
   _partial: one chunk file; the relation "w_append produces enc_items" and the walk over rotated files are not proved. *)
Theorem C18_replay_exact_one_chunk_partial :
  forall fx u items st, user_magic_ok u -> Forall item_ok items ->
  r_eoff st = r_pos st -> 0 <= r_crc st < two32 ->
  let '(st', e) := read_loop fx u (S (length (enc_items u (r_crc st) items))) st (enc_items u (r_crc st) items) in
  e = ENone /\ r_pos st' = r_pos st + size_of u items /\ r_crc st' = crc_after u (r_crc st) items /\
  applies (rev (r_ev st')) = applies (rev (r_ev st)) ++ events_of u (r_pos st) items.
Proof. exact read_chunk_exact. Qed.

(* "resuming from any committed position ... delivers exactly the remaining suffix": the reader state after any prefix of
   the records is [run_items] (position, crc = the writer's at that point); reading the remaining records from ANY such
   state, whatever follows them ([rest]: end of file, a levRotateTo, damage), continues exactly like a reader that had
   read everything.  _partial: the seek itself (readAndUpdateCRCIfNeed + file choice) is covered by correspondence. *)
Theorem C18_resume_suffix_stream_partial :
  forall fx u items, user_magic_ok u -> Forall item_ok items ->
  forall f st rest, r_eoff st = r_pos st -> 0 <= r_crc st < two32 ->
  read_loop fx u (length items + f) st (enc_items u (r_crc st) items ++ rest) = read_loop fx u f (run_items u st items) rest.
Proof. exact read_loop_items. Qed.

Theorem C18_stream_events_and_offsets :
  forall u items st,
  applies (rev (r_ev (run_items u st items))) = applies (rev (r_ev st)) ++ events_of u (r_pos st) items.
Proof. exact run_items_applies. Qed.

(* every appended event, whatever follows it in the file, is handed to the engine exactly once, whole, at its offset *)
Theorem C18_event_roundtrip :
  forall fx u f st b rest, user_magic_ok u -> len b < two32 -> r_eoff st = r_pos st ->
  read_loop fx u (S f) st (fr u b ++ rest) =
  read_loop fx u f {| r_pos := r_pos st + len (fr u b); r_crc := crc_update (r_crc st) (fr u b); r_ts := r_ts st;
                      r_eoff := r_pos st + len (fr u b); r_cpos := r_cpos st; r_ev := EvApply (r_pos st) b :: r_ev st; r_rot := r_rot st |} rest.
Proof. exact read_loop_user. Qed.

(* "Commit notifications are monotone and never exceed the bytes written before the last fsync": for every interleaving
   of Append with the writer loop's steps (take+write, fsync+Commit) *)
Theorem C18_commit_monotone_le_fsynced :
  forall p es, let s := l_run (l_init p) es in
  nonincreasing (l_commits s) /\ (forall c, In c (l_commits s) -> c <= l_synced s /\ c <= l_written s /\ c <= l_buf_end s).
Proof. exact commits_monotone_le_fsynced. Qed.

(* "a truncated binlog ... never yields a partial event" — at the end of the data (fewer than 4 bytes, in particular
   none) the reader commits and stops this file without error.  _partial: that a cut inside a record classifies as
   not-enough-data is exercised by the harness on every truncation offset, not proved. *)
Theorem C18_truncated_end_of_data_partial :
  forall fx u f st rest, len rest < 4 -> read_loop fx u (S f) st rest = (do_commit st, ENone).
Proof. exact read_loop_eof. Qed.

(* "any corruption of bytes covered by a later checksum record makes replay fail with a checksum error when that record
   is reached": CRC-32 as modelled separates any two strings that differ in one byte (hence in one bit) ... *)
Theorem C18_crc_one_byte_change_detected :
  forall c pre b b' post, 0 <= c < two32 -> is_byte b -> is_byte b' -> b <> b' ->
  crc_update c (pre ++ b :: post) <> crc_update c (pre ++ b' :: post).
Proof. exact crc_one_byte_change_detected. Qed.

(* ... so a reader whose running crc is that of the bit-flipped bytes fails at the next intact levCrc32 record ... *)
Theorem C18_single_bit_flip_detected_at_next_crc :
  forall fx u f st c0 bs i k ts pos rest,
  0 <= c0 < two32 -> all_bytes bs -> (i < length bs)%nat -> 0 <= k < 8 -> 0 <= ts < two32 ->
  r_crc st = crc_update c0 (flip_byte i k bs) ->
  read_loop fx u (S f) st (enc_crc ts pos (crc_update c0 bs) ++ rest) = (st, ECrc).
Proof. exact single_bit_flip_detected_at_next_crc. Qed.

(* ... and for arbitrary damage: checksum error, or an explicit CRC-32 collision *)
Theorem C18_corruption_detected_or_crc_collision :
  forall fx u f st c0 bs bs' ts pos rest,
  0 <= c0 < two32 -> 0 <= ts < two32 -> r_crc st = crc_update c0 bs' ->
  read_loop fx u (S f) st (enc_crc ts pos (crc_update c0 bs) ++ rest) = (st, ECrc)
  \/ crc_update c0 bs' = crc_update c0 bs.
Proof. exact corruption_detected_or_crc_collision. Qed.

(* the reader's crc after any record list is the writer's crc over the same bytes (both are crc_update over the stream) *)
Theorem C18_reader_crc_is_writer_crc :
  forall u items st, r_crc (run_items u st items) = crc_after u (r_crc st) items.
Proof. exact run_items_crc. Qed.

Theorem C18_crc_composes : forall c a b, crc_update c (a ++ b) = crc_update (crc_update c a) b.
Proof. exact crc_update_app. Qed.

(* FINDING F-C18a — levRotateTo carries the writer's running crc but the code never compares it (and restarts the crc
   from the next chunk's header): damage after the last levCrc32 of a chunk is not detected by any later checksum record.
   The faithful model accepts any crc in levRotateTo: *)
Theorem C18_rotate_crc_unchecked_refuted :
  forall u f st ts pos crc h1 h2 rest, 0 <= crc < two32 -> r_eoff st = r_pos st ->
  snd (read_loop false u (S f) st (enc_rot M_ROTTO ts pos crc h1 h2 ++ rest)) = ENone.
Proof. exact read_loop_rotto_unchecked. Qed.

(* concrete witness (two appends, MaxChunkSize 1, one bit of the first body flipped): no error, damaged event delivered;
   reproduced on the real code by the harness (oracle flip_detected_at_rotate_crc) *)
Theorem C18_flip_before_rotate_undetected_refuted :
  let img := flip_files 0 52 0 (image_of ex_w) in
  rr_err (replay false false ex_u 12345 img 0 None) = ENone /\
  applies (rr_ev (replay false false ex_u 12345 img 0 None)) = [(44, [0; 2; 3; 4; 5]); (132, ex_b2)] /\
  rr_err (replay true false ex_u 12345 img 0 None) = ECrc.
Proof. exact ex_flip_before_rotate_refuted. Qed.

(* second half of F-C18a: the levRotateTo record's own bytes are covered by the NEXT chunk's levRotateFrom.Crc32 (the writer
   computes it over them) but the code never compares it with anything: a flip inside levRotateTo (witness: last byte of
   chunk 0) passes even when levRotateTo.Crc32 is verified; the repaired reader carries the crc over the record to the
   next chunk's header.  Reproduced on the real code by the harness witness F-C18a *)
Theorem C18_flip_inside_rotate_record_undetected_refuted :
  let img := flip_files 0 95 0 (image_of ex_w) in
  nth_error (map (fun f => len f) (image_of ex_w)) 0 = Some 96 /\
  rr_err (replay false false ex_u 12345 img 0 None) = ENone /\
  applies (rr_ev (replay false false ex_u 12345 img 0 None)) = [(44, ex_b1); (132, ex_b2)] /\
  rr_err (replay true false ex_u 12345 img 0 None) = ECrc /\
  applies (rr_ev (replay true false ex_u 12345 img 0 None)) = [(44, ex_b1)].
Proof. exact ex_flip_inside_rotate_record_refuted. Qed.

Theorem C18_chunk_chain_crc_checked_when_repaired :
  forall fx fe u h r from si eoff ts ev pa ca c, h_crc h <> c ->
  read_files fx true fe u (h :: r) from si eoff ts ev pa ca (Some c) = {| rr_ev := rev ev; rr_err := ECrc; rr_pos := pa; rr_crc := ca |}.
Proof. exact read_files_chain_mismatch. Qed.

(* FINDING F-C18c — residual after the committed repair of F-C18a: a flipped length bit lets the damaged event swallow the
   rest of its chunk including the levRotateTo record; the chunk-to-chunk crc comparison is skipped (no levRotateTo seen),
   every later checksum record is accepted and the damaged event is delivered without error.  Repaired variant (fx_eof):
   the crc at the end of a chunk without levRotateTo is compared with the next chunk's header as well. *)
Theorem C18_flip_swallowing_rotate_record_undetected_refuted :
  let img := flip_files 0 48 6 (image_of ex2_w) in
  map (fun f => len f) (image_of ex2_w) = [140; 152; 36] /\
  rr_err (replay4 true true false false ex_u 12345 img 0 None) = ENone /\
  map (fun e => (fst e, len (snd e))) (applies (rr_ev (replay4 true true false false ex_u 12345 img 0 None))) = [(44, 85); (176, 2); (188, 60)] /\
  rr_err (replay4 true true true false ex_u 12345 img 0 None) = ECrc /\
  rr_err (replay4 true true true false ex_u 12345 (image_of ex2_w) 0 None) = ENone.
Proof. exact ex2_swallow_refuted. Qed.

(* the repaired reader (fx_rot = true) verifies it *)
Theorem C18_rotate_crc_checked_when_repaired :
  forall u f st ts pos crc h1 h2 rest, 0 <= crc < two32 -> crc <> r_crc st ->
  read_loop true u (S f) st (enc_rot M_ROTTO ts pos crc h1 h2 ++ rest) = (st, ECrc).
Proof. exact read_loop_rotto_mismatch_fixed. Qed.

(* FINDING F-C18b — "a truncated binlog replays up to its last complete event": cut 10 bytes into the 36-byte header of
   the newest chunk, the code as it is fails the directory scan and replays NOTHING (1..3 bytes left: it panics); the
   repaired scan (fx_hdr = true) ignores the incomplete newest chunk and delivers the complete prefix *)
Theorem C18_truncated_in_chunk_header_refuted :
  let img := truncate_files (216 - 36 + 10) (files_of ex_w) in
  length img = 3%nat /\
  rr_err (replay false false ex_u 12345 img 0 None) = EScan /\ rr_ev (replay false false ex_u 12345 img 0 None) = [] /\
  rr_err (replay false true ex_u 12345 img 0 None) = ENone /\
  applies (rr_ev (replay false true ex_u 12345 img 0 None)) = [(44, ex_b1); (132, ex_b2)].
Proof. exact ex_truncated_header_refuted. Qed.

(* ---------- non-vacuity ---------- *)
Example C18_nonvacuous_magic : user_magic_ok ex_u.
Proof. exact ex_user_magic_ok. Qed.

(* the whole pipeline on a concrete history with two rotations: returned offsets, exact replay, resume with meta *)
Example C18_nonvacuous_replay_exact :
  ex_offs = [132; 216] /\
  let r := replay false false ex_u 12345 (image_of ex_w) 0 None in
  rr_err r = ENone /\ applies (rr_ev r) = [(44, ex_b1); (132, ex_b2)].
Proof. exact ex_replay_exact. Qed.

Example C18_nonvacuous_resume :
  let crc132 := crc_update 0 (takez 132 (flat_map (fun x => x) (image_of ex_w))) in
  let r := replay false false ex_u 12345 (image_of ex_w) 132 (Some (132, crc132, 7)) in
  rr_err r = ENone /\ applies (rr_ev r) = [(132, ex_b2)].
Proof. exact ex_resume_suffix. Qed.

Example C18_nonvacuous_stream :
  let items := [IUser [1; 2; 3]; ICrc 5 0; IUser []] in
  Forall item_ok items /\ events_of ex_u 44 items = [(44, [1; 2; 3]); (44 + 12 + 20, [])].
Proof.
  split; [|vm_compute; reflexivity].
  constructor; [vm_compute; reflexivity|]. constructor; [vm_compute; split; [discriminate|reflexivity]|].
  constructor; [vm_compute; reflexivity|]. constructor.
Qed.

Example C18_nonvacuous_crc : crc_update 0 [49; 50; 51; 52; 53; 54; 55; 56; 57] = 3421780262.   (* 0xCBF43926 *)
Proof. vm_compute. reflexivity. Qed.

Example C18_nonvacuous_commits :
  l_commits (l_run (l_init 44) [LAppend 16; LAppend 8; LTakeWrite; LSyncCommit; LAppend 4; LTakeWrite; LAppend 4; LSyncCommit]) = [72; 68; 44].
Proof. vm_compute. reflexivity. Qed.
