(* C27 — PromQL evaluation matches operator definitions and rewrites preserve results.
   Only the property theorems (closed by [exact]) and non-vacuity examples.
   [val = option Q]: None is a missing point (NaN / NilValue).  [present l] are the present points of one
   timestamp (aggregations: one value per series of the group; over-time functions: the points of the window). *)
From Coq Require Import ZArith QArith List Bool.
From SH Require Import PromEval.Model PromEval.Proofs.
Import ListNotations.
Open Scope Z_scope.

(* reduce the rationals of a result for display *)
Definition Corr_free_vals (l : list val) : list val := map (fun v => match v with Some x => Some (Qred x) | None => None end) l.

(* "aggregation operators (sum ...) compute their definitions at every timestamp with missing points excluded" —
   funcSum / funcSumOverTime: the sum of the present points; missing when there is none *)
Theorem C27_sum_matches_definition :
  forall l, (present l = [] -> f_sum l = None) /\
            (present l <> [] -> exists s, f_sum l = Some s /\ (s == qsum (present l))%Q).
Proof. exact (fun l => conj (f_sum_empty l) (f_sum_nonempty l)). Qed.

(* "... min ..." — a present point that is <= every present point *)
Theorem C27_min_matches_definition :
  forall l, (present l = [] -> f_min l = None) /\
            (present l <> [] -> exists m, f_min l = Some m /\ In m (present l) /\ forall x, In x (present l) -> (m <= x)%Q).
Proof. exact (fun l => conj (f_min_empty l) (f_min_nonempty l)). Qed.

(* "... max ..." *)
Theorem C27_max_matches_definition :
  forall l, (present l = [] -> f_max l = None) /\
            (present l <> [] -> exists m, f_max l = Some m /\ In m (present l) /\ forall x, In x (present l) -> (x <= m)%Q).
Proof. exact (fun l => conj (f_max_empty l) (f_max_nonempty l)). Qed.

(* "... avg ..." — sum of the present points over their number *)
Theorem C27_avg_matches_definition :
  forall l, (present l = [] -> f_avg l = None) /\
            (present l <> [] -> exists a, f_avg l = Some a /\ (a == qsum (present l) / inject_Z (zlen (present l)))%Q).
Proof. exact (fun l => conj (f_avg_empty l) (f_avg_nonempty l)). Qed.

(* "... count ..." — the number of present points (0, not missing, when there is none) *)
Theorem C27_count_matches_definition :
  forall l, f_count l = Some (inject_Z (zlen (present l))).
Proof. exact f_count_spec. Qed.

(* "... group ..." — constant 1 (also where every point is missing: the code does not look at the values) *)
Theorem C27_group_matches_definition : forall l, f_group l = Some 1%Q.
Proof. exact (fun _ => eq_refl). Qed.

(* "... stddev, stdvar ..." — population variance of the present points, sum of (x - mean)^2 / n; over no point
   the code yields 0.  stddev = sqrt(stdvar) is outside Q: checked on the implementation by the harness oracle
   stddev_is_sqrt_stdvar (bit-for-bit) *)
Theorem C27_stdvar_matches_definition :
  forall l, (present l = [] -> f_stdvar l = Some 0%Q) /\
    (present l <> [] -> exists v, f_stdvar l = Some v /\
       let n := zlen (present l) in
       let mean := (qsum (present l) / inject_Z n)%Q in
       (v == qsum (map (sqdev mean n) (present l)))%Q).
Proof. exact (fun l => conj (f_stdvar_empty l) (f_stdvar_spec l)). Qed.

(* "... quantile ..." — REFUTED for the code as it is (finding F-C27b): funcQuantile ranks over all series of the
   group including those with a missing point (NaN sorts arbitrarily and NaN*0 = NaN), so one missing point can
   make the result missing although present points exist *)
Theorem C27_quantile_missing_points_refuted : exists q col,
  present col <> [] /\ snd (quantile_faithful q (seq 0 (length col)) col) = None /\ quantile_def q col <> None.
Proof. exact quantile_refuted. Qed.

(* partial: about the repaired definition only (sorted present points, linear interpolation at q*(n-1)) we prove
   that it ignores missing points and is missing exactly without present points; that the faithful variant equals
   it on complete columns is checked by the correspondence and the agg_def/quantile oracle, not proved *)
Theorem C27_quantile_excludes_missing_partial :
  forall q col, quantile_def q col = quantile_def q (map Some (present col)) /\
                (present col = [] -> quantile_def q col = None).
Proof. exact (fun q col => conj (quantile_def_excludes_missing q col) (quantile_def_empty q col)). Qed.

(* "over-time functions compute their definitions over the selected window" — the values inside the window are
   combined by the kernels above (ot_kernel = f_avg/f_min/f_max/f_sum/f_count/f_stdvar/f_last); which window
   window.moveOneLeft selects is established only by exhaustive evaluation, hence partial: on every uniform axis of
   at most 6 points with step 1,2,3,5, every range 1..13, every presence pattern (present point i carries 2^i, so
   that a sum identifies its addends) and every function, overTimeCall equals the closed form [ot_closed]: the
   window of point i is the trailing c points, c = ceil(range/step) for avg/min/max/last, max(1, floor(range/step))
   for sum/count/stdvar (no window when range < step); a window must start at an index >= 1. *)
Theorem C27_over_time_window_bounded_partial : window_sweep = true.
Proof. exact window_sweep_ok. Qed.

(* present_over_time — REFUTED for the code as it is (finding F-C27g): funcPresentOverTime tests
   "p || lastSeen < t-range", so a missing point yields 1 exactly when NO point lies within the range and is missing
   when one does; the repaired variant (comparison the other way) gives the definition on the witness *)
Theorem C27_present_over_time_refuted :
  present_run false [0; 60; 120] [Some 5%Q; None; None] 60 None = [Some 1%Q; None; Some 1%Q] /\
  present_run true  [0; 60; 120] [Some 5%Q; None; None] 60 None = [Some 1%Q; Some 1%Q; None].
Proof. exact present_over_time_refuted. Qed.

(* "Pushing an aggregation ... down into the storage query (reduction) yields the same result as evaluating it in
   the engine over the underlying series" — sum: the storage merges the rows of a group (events concatenated) and
   selects "sumsec"; that equals funcSum over the per-series "sumsec" values, rows that do not exist being missing
   points.  partial: stated per group and time slot; the lifting through the series bookkeeping of Exec is covered
   by the correspondence and by the reduction_preserves oracle on the implementation *)
Theorem C27_reduction_preserves_sum_partial : forall q lod (evs : list (list Z)),
  veq (row_value WSumSec q lod (concat evs)) (f_sum (map (row_value WSumSec q lod) evs)).
Proof. exact merge_sum_preserves. Qed.

(* avg pushdown (finding F-C27c): sum/count of the merged rows is not the mean of the per-series averages ... *)
Theorem C27_reduction_avg_refuted : exists q lod (evs : list (list Z)),
  ~ veq (row_value WAvg q lod (concat evs)) (f_avg (map (row_value WAvg q lod) evs)).
Proof. exact merge_avg_refuted. Qed.

(* ... it is when the per-series counts are equal (two series) *)
Theorem C27_reduction_avg_equal_counts_partial : forall q lod a b : Z, forall ea eb : list Z,
  length ea = length eb ->
  veq (row_value WAvg q lod ((a :: ea) ++ (b :: eb)))
      (f_avg [row_value WAvg q lod (a :: ea); row_value WAvg q lod (b :: eb)]).
Proof. exact merge_avg_equal_counts_2. Qed.

(* count pushdown (finding F-C27d): events per second of the merged rows is not the number of series *)
Theorem C27_reduction_count_refuted : exists q lod (evs : list (list Z)),
  ~ veq (row_value WCountSec q lod (concat evs)) (f_count (map (row_value WCountSec q lod) evs)).
Proof. exact merge_count_refuted. Qed.

(* whole queries, faithful model (finding F-C27a): max(m{__what__="min"}) is pushed down although the selector's
   what is not "max" — evalReductionRules starts from sel.What, a field nothing sets (the matcher fills sel.Whats),
   and the what it computes is written back to sel.What, which buildSeriesQuery never reads *)
Theorem C27_reduction_what_refuted :
  same_result (exec false wq wdata (sel_plain WMin) [NAgg AMax 0%Q false []])
              (exec false wq wdata (sel_by WMin) [NAgg AMax 0%Q false []]) = false.
Proof. exact reduction_what_refuted. Qed.

(* quantile_over_time: strict window (as sum_over_time), the present points of the window sorted and interpolated
   with the definition [quantile_def] above; multi-LOD axes: the model's window machine takes any axis and is
   replayed against Engine.Exec on queries straddling a resolution switch (no theorem beyond the bounded sweep) *)
Example C27_nonvacuous_quantile_over_time :
  Corr_free_vals (quantile_over_time 1%Q [0; 60; 120; 180; 240] 120 60 [Some 1%Q; Some 9%Q; Some 2%Q; Some 8%Q; Some 3%Q])
  = [None; None; Some 9%Q; Some 8%Q; Some 8%Q].
Proof. vm_compute. reflexivity. Qed.

(* non-vacuity *)
Example C27_nonvacuous_kernels :
  f_sum [Some 1%Q; None; Some 2%Q] = Some (1 + 2)%Q /\ f_min [None; Some 3%Q; Some 2%Q] = Some 2%Q /\
  f_avg [None; None] = None /\ present [Some 1%Q; None; Some 2%Q] = [1%Q; 2%Q].
Proof. vm_compute. auto. Qed.
(* the faithful model applies reductions that do preserve the result on the witness data, the repaired model
   agrees with the un-reduced evaluation on all witnesses, the faithful one differs on the finding witnesses *)
Example C27_nonvacuous_reductions :
  exec false wq wdata (sel_plain WSumSec) [NAgg ASum 0%Q false [1%nat]] <> [] /\
  eval_reduction false WSumSec [NAgg ASum 0%Q false [1%nat]] 60 <> None /\
  eval_reduction true WMin [NAgg AMax 0%Q false []] 60 = None /\
  eval_reduction false WMin [NAgg AMax 0%Q false []] 60 <> None.
Proof. vm_compute. repeat split; discriminate. Qed.
Example C27_nonvacuous_dual :
  forallb (fun c : what * list node =>
     same_result (exec true wq wdata (sel_plain (fst c)) (snd c)) (exec true wq wdata (sel_by (fst c)) (snd c)))
   [ (WMin, [NAgg AMax 0%Q false []]); (WAvg, [NAgg AAvg 0%Q false []]); (WSumSec, [NAgg ASum 0%Q false [1%nat]]);
     (WSum, [NMatrix 60; NCall OSum]) ] = true.
Proof. vm_compute. reflexivity. Qed.
