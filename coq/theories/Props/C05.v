(* C05 — Sampling keeps the expected value of every row unchanged.
   Only the property theorems (closed by [exact]) and non-vacuity examples.
   Model: Sampling/Model.v (sampler.Add/Run/run/sample/sampleQuota, the partition functions, selectRandom,
   roundSampleFactor); [c_fix c = false] is the code as it is, [c_fix c = true] the variant with finding F-C05 repaired. *)
From Coq Require Import ZArith QArith List Bool Permutation.
From SH Require Import Sampling.Model Sampling.Proofs Sampling.Factor Sampling.Witness.
Import ListNotations.
Open Scope Z_scope.

(* "Every row handed to the sampler is either kept or discarded exactly once" — for every option combination,
   every budget, every RoundF, every SelectF that splits its argument and every order sort.Slice may leave rows in *)
Theorem C05_each_row_once :
  forall c ord sel rf, ord_ok ord -> sel_ok sel ->
  forall budget rows dr, Permutation (ids (run_all c ord sel rf budget rows dr)) (rids rows).
Proof. exact each_row_once. Qed.

(* the two selectors in use (selectRandom, the tests' floor selector) do split their argument *)
Theorem C05_selectors_split : (forall selu, sel_ok (sel_random selu)) /\ sel_ok sel_det.
Proof. exact (conj sel_random_ok sel_det_ok). Qed.

(* rows with Size < 1 never enter the sampler: Add discards them with SF = MaxFloat32 *)
Theorem C05_small_rows_discarded :
  forall c ord sel rf budget rows dr r,
  In r rows -> r_size r < 1 -> In (discard max_f32 r) (run_all c ord sel rf budget rows dr).
Proof. exact small_rows_discarded. Qed.

(* "a kept row carries the inverse of its keep probability as its sample factor (1 for rows kept unconditionally,
   such as whales ...)": in sampler.sample with the real selectRandom every row is either a whale (kept, SF = 1) or
   carries sf' — sf doubled exactly when whales took half the budget — and is kept exactly when its own draw
   satisfies u * sf' < 1 *)
Theorem C05_kept_factor_is_inverse_probability :
  forall c ord selu g o,
  keep_single c g = false -> fix_keeps c g = false ->
  In o (sample c ord (sel_random selu) g) ->
  (o_kept o = true /\ o_sf o = 1%Q) \/
  (o_sf o = leaf_sf' g /\
   ((1 < leaf_sf' g)%Q -> (o_kept o = true <-> (selu (o_id o) * leaf_sf' g < 1)%Q)) /\
   ((leaf_sf' g <= 1)%Q -> o_kept o = true)).
Proof. exact sample_random_spec. Qed.

(* the whales are the heaviest floor(floor(len/sf)/2) rows of the leaf and are kept with factor 1 whatever SelectF does *)
Theorem C05_whales_kept_with_factor_1 :
  forall c ord sel g r,
  keep_single c g = false -> fix_keeps c g = false -> g_items g <> [] -> 0 < leaf_pos g ->
  In r (firstn (Z.to_nat (Z.min (leaf_pos g) (zlen (g_items g)))) (ord true (g_items g))) ->
  In (keep 1 r) (sample c ord sel g).
Proof. exact whales_kept. Qed.

(* "Hence the expected inserted count, sum and sum-of-squares of each row equal its true values": for sf >= 1 the keep
   event {u : u*sf < 1} is the interval [0, 1/sf) of length 1/sf <= 1, and x * SF * P(keep) = x *)
Theorem C05_keep_event_is_interval :
  forall sf u : Q, (1 <= sf)%Q -> ((u * sf < 1)%Q <-> (u < 1 / sf)%Q).
Proof. exact keep_event_is_interval. Qed.
Theorem C05_expected_value_preserved :
  forall sf x : Q, (1 <= sf)%Q -> (0 < 1 / sf)%Q /\ (1 / sf <= 1)%Q /\ (x * sf * (1 / sf) == x)%Q.
Proof. exact expected_value_preserved. Qed.

(* The whole statement for a whole Run — every outcome is (kept, SF = 1), or SF > 1 and kept iff u_i * SF < 1, or
   (quota mode / Size < 1) discarded with MaxFloat32 — is FALSE for the code as it is (finding F-C05): with
   SampleBudgets a metric over its fixed budget makes sampler.sample keep a later metric for every draw with SF = 2/3 *)
Theorem C05_every_outcome_unbiased_refuted :
  exists c ord rf selu budget rows dr o,
  c_fix c = false /\ ord_ok ord /\ In o (run_all c ord (sel_random selu) rf budget rows dr) /\ ~ unbiased selu o.
Proof. exact kept_factor_refuted. Qed.

(* a second way into the same defect (finding F-C05b), with no fixed budget exceeded: a metric within its own fixed budget
   that is sorted after any sibling over its share goes through sampler.sample with sf = size/fixedBudget < 1 *)
Theorem C05_every_outcome_unbiased_refuted_fixed_within_budget :
  exists c ord rf selu budget rows dr o,
  c_fix c = false /\ ord_ok ord /\
  Forall (fun r => r_budget r = 0 \/ sum_size (filter (fun r' => r_metric r' =? r_metric r) rows) <= r_budget r) rows /\
  In o (run_all c ord (sel_random selu) rf budget rows dr) /\ ~ unbiased selu o.
Proof. exact kept_factor_refuted_fixed_within_budget. Qed.

(* ... and holds for all options, budgets, weights, rounders and orders once sampler.sample keeps a group that fits its
   budget with factor 1 (repaired variant of the dual model) *)
Theorem C05_every_outcome_unbiased_repaired :
  forall c ord rf selu budget rows dr, c_fix c = true ->
  Forall (unbiased selu) (run_all c ord (sel_random selu) rf budget rows dr).
Proof. exact repaired_every_outcome_unbiased. Qed.

(* For the code as it is the same holds in every leaf whose budget is below its size (the only leaves sampler.run
   reaches when no fixed per-metric budget is exceeded) — partial: that reachability claim is C06's water-filling
   lemma and is not restated here *)
Theorem C05_leaf_outcomes_unbiased_partial :
  forall c ord selu g,
  (fix_keeps c g = false -> keep_single c g = false -> g_budget g < g_denom g * g_size g) ->
  Forall (unbiased selu) (sample c ord (sel_random selu) g).
Proof. exact sample_unbiased_if_over. Qed.

(* "rows whose metric is marked not-to-sample on the agent are always kept with factor 1": a group carrying the
   flag is kept entirely by either loop of sampler.run, and metric/fair-key/fixed-budget groups carry their metric's flag *)
Theorem C05_no_sample_agent_kept :
  forall c ord sel rf rec, c_agent c = true -> c_disable_nsa c = false ->
  forall s B W dr x r, In x s -> g_nsa x = true -> In r (g_items x) ->
  In (keep 1 r) (fst (loop1 c ord sel rf rec s B W dr)) /\ In (keep 1 r) (fst (loop2 c ord sel rf rec s B W dr)).
Proof. exact (fun c ord sel rf rec Ha Hd s B W dr x r Hx Hn Hr =>
  conj (loop1_nsa_kept c ord sel rf rec Ha Hd s B W dr x r Hx Hn Hr) (loop2_nsa_kept c ord sel rf rec Ha Hd s B W dr x r Hx Hn Hr)). Qed.
Theorem C05_metric_groups_carry_flag :
  forall c d i h t, g_nsa (mk_simple KMetric d (h :: t)) = r_nsa h /\ g_nsa (mk_simple (KKey i) d (h :: t)) = r_nsa h /\
  g_nsa (mk_fixed c (h :: t)) = r_nsa h.
Proof. exact (fun c d i h t => conj (metric_group_nsa d h t) (conj (key_group_nsa i d h t) (fixed_group_nsa c h t))). Qed.

(* non-vacuity: a bucket with two namespaces, a noSampleAgent metric (kept), a fair-key metric sampled with factor 2,
   a metric with one whale and three rows carrying factor 4 (one of them kept by its draw), a row of size 0 *)
Example C05_nonvacuous_run :
  ord_ok whale_ord /\
  map (fun o => (o_id o, o_kept o)) (run_all cfg_agent whale_ord (sel_random ex_selu) rf_det 120 ex_rows []) =
  [(5, false); (4, true); (6, false); (0, true); (1, true); (2, false); (3, false)].
Proof. exact (conj whale_ord_ok ex_run). Qed.
Example C05_nonvacuous_repaired_witness :
  In (mkout 1 true 1%Q 100) (run_all (cfg_budgets true) whale_ord (sel_random (fun _ => 0%Q)) rf_det 150 fc05_rows []).
Proof. exact repaired_on_witness. Qed.
