(* C26 — User-supplied filter values cannot change the structure of storage queries.
   This file holds only the property theorems (closed by [exact]) and non-vacuity examples.
   Model: SqlFilter/Model.v (escapeReplacer, writeWhere and everything below it, a model of the ClickHouse
   lexer, a row evaluator).  [mt] is the regular-expression engine of the storage (match()), universally
   quantified: every theorem holds for any engine. *)
From Coq Require Import ZArith List Bool String.
From SH Require Import Common.Wrap SqlFilter.Model SqlFilter.ProofsLex SqlFilter.ProofsStruct SqlFilter.ProofsSem.
Import ListNotations.
Open Scope Z_scope.

(* "each user-supplied string appears only inside a single correctly escaped string literal that decodes
   back to the original string" — for ALL byte strings (any list of integers, so quotes, backslashes, NUL,
   control characters and invalid UTF-8 included): quote ++ escape s ++ quote, followed by anything that does
   not start with another quote (ClickHouse reads '' inside a literal as one quote), lexes as ONE literal
   whose content is s, and the lexer stops exactly at the closing quote. *)
Theorem C26_literal_roundtrip :
  forall s rest, not_quote_head rest ->
  lex_string ((39 :: escape s) ++ 39 :: rest) = Some (s, rest).
Proof. exact literal_roundtrip. Qed.

(* "the generated storage query is well-formed, each user-supplied string appears only inside a single …
   literal" — for every query description (any filters, any metric description, all three query modes)
   the text written by writeWhere lexes, under the ClickHouse lexer model, to exactly the token list derived
   from the condition AST: user strings are the payloads of TS tokens and nothing else.
   PARTIAL with respect to "well-formed": this is lexical well-formedness. That the token list parses as a
   condition is true by construction of [where_toks] from the AST but no parser round trip is proved in Coq;
   the harness parses and evaluates every generated clause (oracle where_well_formed). *)
Theorem C26_where_lexes_to_own_tokens :
  forall q, lex (print_where q) = Some (where_toks (build_where q)).
Proof. exact where_lexes_to_own_tokens. Qed.

(* "filter values cannot change the structure": replacing every user string by a harmless one of the same
   emptiness ("" stays "", anything else becomes "x") leaves the token structure (everything except the
   contents of the literals) unchanged. *)
Theorem C26_structure_independent_of_strings :
  forall q, skeleton (where_toks (build_where q)) = skeleton (where_toks (build_where (blank_query q))).
Proof. exact skeleton_blank. Qed.

(* "the where-clause selects exactly the rows matching the requested inclusion … filters": the OR-group written
   for a tag is true on a row iff some requested value matches the row (mapped id, string value, the empty
   value) or the regular expression matches; raw tags have no string column. *)
Theorem C26_inclusion_selects_exactly :
  forall mt c x f r,
  eval_tagcond mt r (build_tag c true x f) = filter_matches mt (is_raw c x) (tag_iv c r x) (tag_sv r x) f.
Proof. exact eval_build_tag_in. Qed.

(* "… and exclusion filters": the AND-group of an exclusion filter is exactly the complement. *)
Theorem C26_exclusion_selects_exactly :
  forall mt c x f r,
  eval_tagcond mt r (build_tag c false x f) = negb (filter_matches mt (is_raw c x) (tag_iv c r x) (tag_sv r x) f).
Proof. exact eval_build_tag_notin. Qed.

(* the whole clause: time range, primary-key prefix, metric filter, every inclusion filter matched and no
   exclusion filter matched *)
Theorem C26_where_selects_exactly :
  forall mt q r, eval_where mt r (build_where q) = row_selected mt q r.
Proof. exact where_selects_exactly. Qed.

(* [filter_matches] lets a non-empty regular expression supersede the literal comparison of string values
   (the builder writes match() INSTEAD of the IN list). That equals the plain reading whenever every listed
   string value matches the expression — which is how the PromQL front end builds such filters. *)
Theorem C26_regex_supersedes_consistently :
  forall mt raw iv sv f,
  (forall v, In v (tf_values f) -> tv_has_value v = true -> mt (tv_value v) (tf_re2 f) = true) ->
  filter_matches mt raw iv sv f = filter_matches_naive mt raw iv sv f.
Proof. exact filter_matches_naive_eq. Qed.

(* ---------- non-vacuity ---------- *)
Definition hostile : str := txt "x') OR 1=1 --\'".   (* x') OR 1=1 --\' *)
Definition ex_q : query :=
  {| q_cfg := {| c_tags := Some [(false, false); (false, false); (true, true); (true, false)];
                 c_has_prekey := false; c_prekey := -1; c_by := [2]; c_mode := 0 |};
     q_from := 100; q_to := 200; q_metric_id := 1000; q_min := []; q_mnot := [];
     q_in := [(1, {| tf_values := [{| tv_has_value := true; tv_is_mapped := true; tv_value := hostile; tv_mapped := -2 |};
                                   {| tv_has_value := true; tv_is_mapped := true; tv_value := []; tv_mapped := 0 |}];
                     tf_re2 := [] |});
              (2, {| tf_values := [{| tv_has_value := false; tv_is_mapped := true; tv_value := []; tv_mapped := 4294967301 |}]; tf_re2 := [] |})];
     q_notin := [(0, {| tf_values := []; tf_re2 := txt "^a'\" |})] |}.

Example C26_nonvacuous_text :
  print_where ex_q = txt " WHERE time>=100 AND time<200 AND index_type=0 AND pre_tag=0 AND pre_stag='' AND metric=1000 AND (tag1 IN (-2) OR stag1 IN ('x\') OR 1=1 --\\\'') OR (tag1=0 AND stag1='')) AND (_tag2 IN (4294967301)) AND (0=0 AND NOT match(stag0,'^a\'\\'))"
  /\ literals (where_toks (build_where ex_q)) = [[]; hostile; []; txt "^a'\"]
  /\ not_quote_head [41].
Proof. vm_compute. repeat split; discriminate. Qed.

Definition ex_row (i1 : Z) (s1 : string) (lo2 hi2 : Z) (s0 : string) : row :=
  {| r_int := fun k => if str_eqb k (txt "time") then 150 else if str_eqb k (txt "metric") then 1000
                       else if str_eqb k (txt "tag1") then i1 else if str_eqb k (txt "tag2") then lo2
                       else if str_eqb k (txt "tag3") then hi2 else 0;
     r_str := fun k => if str_eqb k (txt "stag1") then txt s1 else if str_eqb k (txt "stag0") then txt s0 else [] |}.
Definition never : str -> str -> bool := fun _ _ => false.
Definition always : str -> str -> bool := fun _ _ => true.

(* selected by the hostile string value, by the empty value, rejected by a near miss, by the raw64 value and
   by the exclusion regex *)
Example C26_nonvacuous_rows :
  eval_where never (ex_row 0 "x') OR 1=1 --\'" 5 1 "") (build_where ex_q) = true /\
  eval_where never (ex_row 0 "" 5 1 "") (build_where ex_q) = true /\
  eval_where never (ex_row 0 "x" 5 1 "") (build_where ex_q) = false /\
  eval_where never (ex_row (-2) "" 5 2 "") (build_where ex_q) = false /\
  eval_where always (ex_row (-2) "" 5 1 "") (build_where ex_q) = false.
Proof. vm_compute. repeat split. Qed.
