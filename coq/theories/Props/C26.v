(* C26 — User-supplied filter values cannot change the structure of storage queries.
   This file holds only the property theorems (closed by [exact]) and non-vacuity examples.
   Model: SqlFilter/Model.v (escapeReplacer, writeWhere and everything below it, a model of the ClickHouse
   lexer, a row evaluator).  [mt] is the regular-expression engine of the storage (match()), universally
   quantified: every theorem holds for any engine. *)
From Coq Require Import ZArith List Bool String.
From SH Require Import Common.Wrap SqlFilter.Model SqlFilter.ProofsLex SqlFilter.ProofsStruct SqlFilter.ProofsSem
  SqlFilter.Parser SqlFilter.ProofsParse SqlFilter.ProofsFull.
Import ListNotations.
Open Scope Z_scope.

(* "each user-supplied string appears only inside a single correctly escaped string literal that decodes
   back to the original string" — for ALL byte strings (any list of integers, so quotes, backslashes, NUL,
   control characters and invalid UTF-8 included): quote ++ escape s ++ quote, followed by anything that does
   not start with another quote (ClickHouse reads '' inside a literal as one quote), lexes as ONE literal
   whose content is s, and the lexer stops exactly at the closing quote. *)
Theorem C26_literal_roundtrip :
  forall s rest, not_quote_head rest ->
  lex_string ((39 :: escape s) ++ 39 :: rest) = Some (s, rest).
Proof. exact literal_roundtrip. Qed.

(* "the generated storage query is well-formed, each user-supplied string appears only inside a single …
   literal" — for every query description (any filters, any metric description, all three query modes)
   the text written by writeWhere lexes, under the ClickHouse lexer model, to exactly the token list derived
   from the condition AST: user strings are the payloads of TS tokens and nothing else.
   (Lexical half of "well-formed"; the grammatical half is C26_where_parses_to_own_condition below.) *)
Theorem C26_where_lexes_to_own_tokens :
  forall q, lex (print_where q) = Some (where_toks (build_where q)).
Proof. exact where_lexes_to_own_tokens. Qed.

(* "the generated storage query is well-formed" — grammatical half: a parser for the condition grammar
   (SqlFilter/Parser.v: AND/OR groups, [NOT] IN lists of numbers or literals, [NOT] match(col, literal),
   [NOT] (expr = 0 [AND col = '']), 0=0, 0!=0, raw64 bitOr expressions; whitespace-insensitive) applied to the
   token list of ANY query gives back exactly the condition the text was printed from ([syn_where] only forgets
   what a SELECT alias _tagN stands for: it prints as its name). *)
Theorem C26_tokens_parse_to_own_condition :
  forall q, p_where (strip (where_toks (build_where q))) = Some (syn_where (build_where q)).
Proof. exact parse_tokens_roundtrip. Qed.

(* lexer and parser together, on the text: for all filter strings the written clause parses back to the
   condition AST it was built from — no byte of a user string can add, remove or change a node. *)
Theorem C26_where_parses_to_own_condition :
  forall q, parse_where (print_where q) = Some (syn_where (build_where q)).
Proof. exact parse_where_roundtrip. Qed.

(* the parser is a left inverse for every canonical condition, not only for the ones of the examples:
   groups non-empty, IN lists non-empty, identifiers not starting like 0/NOT/match/bitOr, one-atom groups
   polarised by their atom, inclusion groups before exclusion groups *)
Theorem C26_parser_left_inverse :
  forall w, wcanon w = true -> p_where (strip (where_toks w)) = Some w.
Proof. exact p_where_rt. Qed.

(* the clause inside the complete series / tag-values / tag-value-ids queries. The text around the clause
   (SELECT … FROM table before; GROUP BY / HAVING / ORDER BY / LIMIT / SETTINGS after) takes NO user string: it
   is a function of the requested aggregates, group-by tag indices, sort, result limit, tag index, step and
   UTC offset, table name and settings. Its generation is not modelled (PARTIAL): the theorem says that for
   any surrounding token lists that are themselves well formed the whole text lexes to the concatenation and
   its literals are those of the surroundings plus those of the clause; the correspondence check lexes the real
   surroundings of every generated query, checks they are well formed, contain no literal at all and are
   byte-identical when the filter strings are replaced. *)
Theorem C26_full_query_lexes_partial :
  forall pre suf q q1 q2,
  chk true pre = Some q1 -> chk false suf = Some q2 ->
  lex (render (pre ++ where_toks (build_where q) ++ suf)) = Some (pre ++ where_toks (build_where q) ++ suf)
  /\ literals (pre ++ where_toks (build_where q) ++ suf)
     = literals pre ++ literals (where_toks (build_where q)) ++ literals suf.
Proof. exact full_query_lexes. Qed.

(* "filter values cannot change the structure": replacing every user string by a harmless one of the same
   emptiness ("" stays "", anything else becomes "x") leaves the token structure (everything except the
   contents of the literals) unchanged. *)
Theorem C26_structure_independent_of_strings :
  forall q, skeleton (where_toks (build_where q)) = skeleton (where_toks (build_where (blank_query q))).
Proof. exact skeleton_blank. Qed.

(* "the where-clause selects exactly the rows matching the requested inclusion … filters": the OR-group written
   for a tag is true on a row iff some requested value matches the row (mapped id, string value, the empty
   value) or the regular expression matches; raw tags have no string column. *)
Theorem C26_inclusion_selects_exactly :
  forall mt c x f r,
  eval_tagcond mt r (build_tag c true x f) = filter_matches mt (is_raw c x) (tag_iv c r x) (tag_sv r x) f.
Proof. exact eval_build_tag_in. Qed.

(* "… and exclusion filters": the AND-group of an exclusion filter is exactly the complement. *)
Theorem C26_exclusion_selects_exactly :
  forall mt c x f r,
  eval_tagcond mt r (build_tag c false x f) = negb (filter_matches mt (is_raw c x) (tag_iv c r x) (tag_sv r x) f).
Proof. exact eval_build_tag_notin. Qed.

(* the whole clause: time range, primary-key prefix, metric filter, every inclusion filter matched and no
   exclusion filter matched *)
Theorem C26_where_selects_exactly :
  forall mt q r, eval_where mt r (build_where q) = row_selected mt q r.
Proof. exact where_selects_exactly. Qed.

(* [filter_matches] lets a non-empty regular expression supersede the literal comparison of string values
   (the builder writes match() INSTEAD of the IN list). That equals the plain reading whenever every listed
   string value matches the expression — which is how the PromQL front end builds such filters. *)
Theorem C26_regex_supersedes_consistently :
  forall mt raw iv sv f,
  (forall v, In v (tf_values f) -> tv_has_value v = true -> mt (tv_value v) (tf_re2 f) = true) ->
  filter_matches mt raw iv sv f = filter_matches_naive mt raw iv sv f.
Proof. exact filter_matches_naive_eq. Qed.

(* ---------- non-vacuity ---------- *)
Definition hostile : str := txt "x') OR 1=1 --\'".   (* x') OR 1=1 --\' *)
Definition ex_q : query :=
  {| q_cfg := {| c_tags := Some [(false, false); (false, false); (true, true); (true, false)];
                 c_has_prekey := false; c_prekey := -1; c_by := [2]; c_mode := 0 |};
     q_from := 100; q_to := 200; q_metric_id := 1000; q_min := []; q_mnot := [];
     q_in := [(1, {| tf_values := [{| tv_has_value := true; tv_is_mapped := true; tv_value := hostile; tv_mapped := -2 |};
                                   {| tv_has_value := true; tv_is_mapped := true; tv_value := []; tv_mapped := 0 |}];
                     tf_re2 := [] |});
              (2, {| tf_values := [{| tv_has_value := false; tv_is_mapped := true; tv_value := []; tv_mapped := 4294967301 |}]; tf_re2 := [] |})];
     q_notin := [(0, {| tf_values := []; tf_re2 := txt "^a'\" |})] |}.

Example C26_nonvacuous_text :
  print_where ex_q = txt " WHERE time>=100 AND time<200 AND index_type=0 AND pre_tag=0 AND pre_stag='' AND metric=1000 AND (tag1 IN (-2) OR stag1 IN ('x\') OR 1=1 --\\\'') OR (tag1=0 AND stag1='')) AND (_tag2 IN (4294967301)) AND (0=0 AND NOT match(stag0,'^a\'\\'))"
  /\ literals (where_toks (build_where ex_q)) = [[]; hostile; []; txt "^a'\"]
  /\ not_quote_head [41].
Proof. vm_compute. repeat split; discriminate. Qed.

Definition ex_row (i1 : Z) (s1 : string) (lo2 hi2 : Z) (s0 : string) : row :=
  {| r_int := fun k => if str_eqb k (txt "time") then 150 else if str_eqb k (txt "metric") then 1000
                       else if str_eqb k (txt "tag1") then i1 else if str_eqb k (txt "tag2") then lo2
                       else if str_eqb k (txt "tag3") then hi2 else 0;
     r_str := fun k => if str_eqb k (txt "stag1") then txt s1 else if str_eqb k (txt "stag0") then txt s0 else [] |}.
Definition never : str -> str -> bool := fun _ _ => false.
Definition always : str -> str -> bool := fun _ _ => true.

(* selected by the hostile string value, by the empty value, rejected by a near miss, by the raw64 value and
   by the exclusion regex *)
Example C26_nonvacuous_rows :
  eval_where never (ex_row 0 "x') OR 1=1 --\'" 5 1 "") (build_where ex_q) = true /\
  eval_where never (ex_row 0 "" 5 1 "") (build_where ex_q) = true /\
  eval_where never (ex_row 0 "x" 5 1 "") (build_where ex_q) = false /\
  eval_where never (ex_row (-2) "" 5 2 "") (build_where ex_q) = false /\
  eval_where always (ex_row (-2) "" 5 1 "") (build_where ex_q) = false.
Proof. vm_compute. repeat split. Qed.

(* the hostile example parses back to its own condition: two inclusion groups (three and one atoms), one
   exclusion group with the regex, the hostile string is the payload of one AStrIn node *)
Example C26_nonvacuous_parse :
  parse_where (print_where ex_q) = Some (syn_where (build_where ex_q))
  /\ wcanon (syn_where (build_where ex_q)) = true
  /\ List.map (fun t => List.length (tc_atoms t)) (w_in (build_where ex_q)) = [3%nat; 1%nat]
  /\ List.map tc_atoms (w_notin (build_where ex_q)) = [[AConst true; AMatch true (col_str 0) (txt "^a'\")]]
  /\ nth 1 (tc_atoms (hd {| tc_or := true; tc_atoms := [] |} (w_in (build_where ex_q)))) (AConst true)
     = AStrIn false (col_str 1) [hostile].
Proof. vm_compute. repeat split. Qed.

(* a complete query around the hostile clause *)
Example C26_nonvacuous_full :
  let pre := [W "SELECT"; TSp; W "tag1"; P ","; W "stag1"; TSp; W "FROM"; TSp; W "statshouse_v6_1m_dist"] in
  let suf := [TSp; W "GROUP"; TSp; W "BY"; TSp; W "tag1"; P ","; W "stag1"; TSp; W "LIMIT"; TSp; W "6"] in
  chk true pre = Some false /\ chk false suf = Some false
  /\ literals (pre ++ where_toks (build_where ex_q) ++ suf) = [[]; hostile; []; txt "^a'\"].
Proof. vm_compute. repeat split. Qed.
