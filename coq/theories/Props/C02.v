(* C02 — Row aggregates survive agent-to-aggregator transfer unchanged.
   Only the property theorems (closed by [exact]) and non-vacuity examples.
   Model: Transfer/Model.v (MultiValueToTL, MergeWithTL2/MergeWithTLItem2, TLMultiItemFromKey,
   KeyFromStatshouseMultiItem, keepF, MergeWithTLMultiItem; ItemValue/ChUnique are C04's models), numbers over Q.
   The property is FALSE for the code as it is in two ways (findings F-C02a/c and F-C02b, both reproduced on the
   real code on every run): the full statement is proved for the repaired sender ([fx = true], sums) and, for the
   code as it is ([fx = false]), under the premises [sums_consistent] / [no_empty_next_to_max]; the refutations
   are theorems too. *)
From Coq Require Import ZArith QArith List Bool.
From SH Require Import Common.Wrap Gen.TransferConsts Agg.Model Transfer.Model Transfer.Proofs Transfer.ProofsKey.
Import ListNotations.
Open Scope Z_scope.

(* "the aggregator reconstructs the same key (tags, string tags, timestamp)" — for EVERY key layout (48 tags,
   48 string tags, any trailing zeros/empties), metric, bucket time, row content and sample factor: metric, tags
   and string tags always arrive unchanged; the timestamp arrives unchanged when it is set and inside
   [bucket time - BelieveTimestampWindow, bucket time]; a timestamp equal to the bucket's, or 0 ("not set"), is
   elided and restored as the bucket time; outside the window it is clamped to the bucket time with exactly the
   future / past warning. (String tags that the aggregator's mapping storage turns into ints are outside the model.) *)
Theorem C02_key_roundtrip :
  forall fx it bt, wf_key (mi_key it) ->
  let k := mi_key it in
  let '(k', w) := key_from (keep_f fx it bt) bt in
  k_metric k' = k_metric k /\ k_tags k' = k_tags k /\ k_stags k' = k_stags k /\
  ((k_ts k = 0 \/ k_ts k = bt) -> k_ts k' = bt /\ w = 0) /\
  (k_ts k <> 0 -> bt - believe_window <= k_ts k <= bt -> k_ts k' = k_ts k /\ w = 0) /\
  (k_ts k <> 0 -> bt < k_ts k -> k_ts k' = bt /\ w = warn_clamped_future_agg) /\
  (k_ts k <> 0 -> k_ts k < bt - believe_window -> k_ts k' = bt /\ w = warn_clamped_past).
Proof. exact key_transfer. Qed.

(* "for each of them count*sf, min, max, sum*sf, sum-of-squares*sf, the min/max/max-count host attributions, the
   unique-value set and the percentile centroids with weights*sf ... for every mix of counter-only, value,
   histogram and unique events" — for the code AS IT IS, for every MultiValue s (Tail or Top element: m0 is any
   fields mask without value bits), every sf >= 1, every agent host ah, every state of the rng:
   PARTIAL: needs [sums_consistent] (min <> max, or sum = min*count: false for rows that mix counter-only and
   value events, F-C02a) and, for the host clause, [no_empty_next_to_max] (F-C02b); [row_ok] are the guards
   (positive count, numbers inside the aggregator's ValidateCounter/ValidateValue bounds, normalised host tags,
   sumsq = min*sum for single-valued rows — see Transfer/Proofs.v). The unique sketch arrives as
   UmMarshall(Marshall(sketch)) (its set-level meaning is C04's, tied by correspondence); the digest receives
   exactly the sender's centroids with weights*sf, or the implicit centroid (min, count*sf). *)
Theorem C02_value_roundtrip_partial :
  forall ufix hasp s sf ah ds m0,
  row_ok hasp s sf ah -> no_value_bits m0 ->
  (v_set (mv_v s) = true -> sums_consistent (mv_v s)) ->
  exists r, transfer_value false ufix hasp s sf ah ds m0 = (r, 0, ds) /\
    arrives s sf ah r /\ (no_empty_next_to_max s -> hosts_arrive s ah r) /\
    mv_hll r = expected_hll s /\ dig_eq (mv_dig r) (expected_digest hasp s sf).
Proof. exact value_roundtrip_faithful. Qed.

(* the same clause at full strength (no premise on the sums) for the REPAIRED sender, which also sends
   max/sum/sumsq when min = max but sum <> min*count *)
Theorem C02_value_roundtrip_repaired :
  forall ufix hasp s sf ah ds m0,
  row_ok hasp s sf ah -> no_value_bits m0 ->
  exists r, transfer_value true ufix hasp s sf ah ds m0 = (r, 0, ds) /\
    arrives s sf ah r /\ (no_empty_next_to_max s -> hosts_arrive s ah r) /\
    mv_hll r = expected_hll s /\ dig_eq (mv_dig r) (expected_digest hasp s sf).
Proof. exact value_roundtrip_repaired. Qed.

(* REFUTED for the code as it is (F-C02a): the row built by {counter event 1; value event 7} satisfies every
   guard, and its sum 7 arrives as 14 *)
Theorem C02_value_roundtrip_refuted :
  row_ok false wit_a 1 154 /\ no_empty_next_to_max wit_a /\
  exists r, transfer_value false false false wit_a 1 154 [] 0 = (r, 0, []) /\
            (v_sum (mv_v wit_a) == 7)%Q /\ (v_sum (mv_v r) == 14)%Q /\ ~ (v_sum (mv_v r) == v_sum (mv_v wit_a) * 1)%Q.
Proof. exact wit_a_refutes. Qed.

(* REFUTED for the code as it is (F-C02b), "the min/max/max-count host attributions": the row {value 1 from the
   agent itself (no host tag); value 5 from host 5} has consistent sums, and its min host — empty, i.e. the
   sending agent 77 (encoded 154) — arrives as host 5 (encoded 10) *)
Theorem C02_hosts_roundtrip_refuted :
  row_ok false wit_b 1 154 /\ sums_consistent (mv_v wit_b) /\
  exists r, transfer_value false false false wit_b 1 154 [] 0 = (r, 0, []) /\
            v_minh (mv_v wit_b) = 0 /\ v_minh (mv_v r) = 10 /\ v_minh (mv_v r) <> subst 154 (v_minh (mv_v wit_b)).
Proof. exact wit_b_refutes. Qed.

(* "the same string-top keys, and for each of them ..." — the fields mask a Top element starts from (its tag bit)
   and the one the Tail starts from (timestamp and string-key bits of the item) carry no value bit, so the two
   theorems above apply to the Tail and to every Top element *)
Theorem C02_top_and_tail_masks :
  forall c1 c2 c, no_value_bits (setb c1 bit_item_t (setb c2 bit_item_skeys 0)) /\ no_value_bits (setb c bit_top_tag 0).
Proof. exact (fun c1 c2 c => conj (no_value_bits_key c1 c2) (no_value_bits_top c)). Qed.

(* row assembly (keepF) and MergeWithTLMultiItem for a row without string top: the aggregator item is exactly the
   Tail sent with the key's mask. PARTIAL: for rows with Top elements the composition (distinct keys land in
   distinct map slots of the empty item) is covered by the correspondence check only. *)
Theorem C02_row_roundtrip_partial :
  forall fx ufix it bt ah, mi_top it = [] ->
  let '(t, _, r) := transfer fx ufix it bt ah in
  r = (let '(v, e, ds) := transfer_value fx ufix (mi_hasp it) (mi_tail it) (mi_sf it) ah []
                            (fst (fst (fst (tl_from_key (mi_key it) bt)))) in
       Some ({| ai_tail := v; ai_top := [] |}, e, ds)).
Proof. exact row_transfer_no_top. Qed.

(* the fields-mask algebra the proofs rest on: reading a bit of a mask built by conditional SetX calls *)
Theorem C02_fields_mask_bits :
  forall l m n, Forall (fun cb : bool * Z => 0 <= snd cb) l ->
  isset (mask_of l m) n = existsb (fun cb => fst cb && (snd cb =? n)) l || isset m n.
Proof. exact isset_mask_of. Qed.

(* "the aggregator reconstructs the same key ... for each of them" across the rows of one bucket: the aggregator
   tells the rows of a second apart by the bytes of Key.MarshalAppend (k.XXHash + GetOrCreateMultiItem). Those
   bytes determine the key: for all keys of the Go type (uint32 timestamp, int32 metric and tags, 48 tags and 48
   string tags) whose string tags carry no zero byte (the aggregator drops rows with other strings:
   validateStringTag / format.ValidStringValue accept printable characters only) *)
Theorem C02_row_identity_bytes_injective :
  forall k1 k2, wf_bkey k1 -> wf_bkey k2 -> marshal_key k1 = marshal_key k2 -> k1 = k2.
Proof. exact marshal_key_injective. Qed.

(* hence rows with pairwise different keys, arriving in any order after any rows already filed, each get an entry of
   their own in the per-second map (row i of the batch is filed at position |already filed| + i, never under an
   earlier row) *)
Theorem C02_rows_keep_their_identity :
  forall ks, Forall wf_bkey ks -> NoDup ks ->
  forall seen_keys, Forall wf_bkey seen_keys -> NoDup (seen_keys ++ ks) ->
  file_rows ks (map marshal_key seen_keys) = map (fun i => zlen seen_keys + Z.of_nat i) (seq 0 (length ks)).
Proof. exact rows_keep_their_identity. Qed.

(* the guard is exactly what is needed: with a zero byte inside a string tag, {0:"a\000b"} and {0:"a",1:"b"} have the
   same bytes (such rows never reach the map: the oracle nul_string_tags_are_rejected checks the validator) *)
Theorem C02_row_identity_needs_nul_free_strings : nul_k1 <> nul_k2 /\ marshal_key nul_k1 = marshal_key nul_k2.
Proof. exact nul_collision. Qed.

(* ---- non-vacuity ---- *)

(* four well-formed keys of one second that differ only in how the text "abc" / "eu" is laid out over the string tags
   have four different byte strings and are filed as rows 0,1,2,3 *)
Definition ex_bkey (st : list (list Z)) : bkey :=
  {| b_ts := 1700000000; b_metric := 17; b_tags := 2 :: repeat 0 47; b_stags := st ++ repeat [] (48 - length st) |}.
Definition ex_bkeys : list bkey :=
  [ex_bkey [[]; [97; 98]; [99]]; ex_bkey [[]; [97]; [98; 99]]; ex_bkey [[]; [101; 117]; []; [120]]; ex_bkey [[]; []; [101; 117]; [120]]].
Example C02_nonvacuous_identity :
  file_rows ex_bkeys [] = [0; 1; 2; 3] /\ length (b_stags (ex_bkey [[]; [97; 98]; [99]])) = 48%nat /\
  marshal_key (ex_bkey [[]; [97; 98]; [99]]) = [0; 241; 83; 101; 17; 0; 0; 0; 1; 2; 0; 0; 0; 0; 97; 98; 0; 99; 0; 0] /\
  marshal_key (ex_bkey [[]; [97]; [98; 99]]) = [0; 241; 83; 101; 17; 0; 0; 0; 1; 2; 0; 0; 0; 0; 97; 0; 98; 99; 0; 0].
Proof. vm_compute. repeat split; reflexivity. Qed.


(* a percentile row mixing ApplyValues (histogram + values, count <> totalCount), a unique event and a value
   event from three hosts, sent with sf = 3: it satisfies every premise of the partial theorem, and the
   aggregator ends with count 18, min 1/2, max 1000, sum 3*(sum), its three hosts, the sketch and two centroids *)
Definition ex_row : mvalue :=
  let s := fst (apply_ops false mvalue0
                  [OValues [((5 # 2)%Q, 2%Q)] [(1 # 2)%Q; 4%Q] 2 4 10; OUnique [1000; 3] 2 11; OValue 7 2 21] [0; 0]) in
  {| mv_v := mv_v s; mv_dig := Some [{| ce_mean := 1 # 2; ce_w := 1 |}; {| ce_mean := 7; ce_w := 5 |}]; mv_hll := mv_hll s |}.
Example C02_nonvacuous_row :
  row_ok true ex_row 3 154 /\ no_empty_next_to_max ex_row /\ sums_consistent (mv_v ex_row) /\
  v_set (mv_v ex_row) = true /\ (cnt_of ex_row == 6)%Q /\
  exists r, transfer_value false false true ex_row 3 154 [] (setb true bit_item_t 0) = (r, 0, []) /\
    (c_cnt (v_c (mv_v r)) == 18)%Q /\ (v_min (mv_v r) == 1 # 2)%Q /\ (v_max (mv_v r) == 1000)%Q /\
    (v_sum (mv_v r) == v_sum (mv_v ex_row) * 3)%Q /\ v_minh (mv_v r) = 10 /\ v_maxh (mv_v r) = 11 /\
    t_cnt (mv_hll r) = 2 /\
    mv_dig r = Some [{| ce_mean := 1 # 2; ce_w := 1 * 3 |}; {| ce_mean := 7; ce_w := 5 * 3 |}].
Proof.
  split; [|split; [|split; [|split; [|split]]]].
  - unfold row_ok, in_range, hosts_valid, hvalid, single_value_sumsq. cbn.
    repeat split; try discriminate; try reflexivity;
      try (exfalso; match goal with H : (_ == _)%Q |- _ => vm_compute in H; discriminate H end).
    repeat constructor; cbn; try discriminate; reflexivity.
  - split; intros H; vm_compute in H; discriminate.
  - left. intros H. vm_compute in H. discriminate.
  - reflexivity.
  - reflexivity.
  - eexists. split; [vm_compute; reflexivity|]. repeat split; reflexivity.
Qed.

(* a key with trailing zero tags, a string tag in the last slot and a timestamp inside the window comes back
   unchanged; one second outside it is clamped with the past warning *)
Definition ex_key (ts : Z) : key :=
  {| k_ts := ts; k_metric := -5; k_tags := [3; 0; -7] ++ repeat 0 45; k_stags := repeat 0 47 ++ [9] |}.
Definition ex_item (ts : Z) : mitem :=
  {| mi_key := ex_key ts; mi_tail := ex_row; mi_top := []; mi_sf := 3; mi_hasp := true |}.
Example C02_nonvacuous_key :
  wf_key (ex_key 1699906400) /\
  key_from (keep_f false (ex_item 1699906400) 1700000000) 1700000000 = (ex_key 1699906400, 0) /\
  key_from (keep_f false (ex_item 1699906399) 1700000000) 1700000000 = (ex_key 1700000000, warn_clamped_past) /\
  ti_keys (keep_f false (ex_item 1699906400) 1700000000) = [3; 0; -7].
Proof. vm_compute. repeat split; reflexivity. Qed.
