(* C12 — Ingestion accepts only valid events and accounts for every rejected one.
   Only the property theorems (closed by [exact]) and non-vacuity examples.

   Reading guide.  [handle fixed fixb c cur m rt e] is the list of rows (metric rows and ingestion-status rows, per
   shard) that worker.HandleMetrics -> Agent.Map -> Agent.ApplyMetric leave in the agent's buckets for event [e] of an
   existing metric [m] ([c] mapping cache, [cur] the shard's current second, [rt] what Agent.shard answers).
   [fixed]/[fixb] = false is the code as it is; true is the repaired variant of finding F-C12a / F-C12b.
   [valid_event] (Ingest/Spec.v) is the property's list: counter, values, histogram entries finite and within
   +-MaxFloat32, counters non-negative, values and uniques not both present, not empty, tag names/values valid.
   Aggregates are exact rationals (float rounding is outside the model). *)
From Coq Require Import ZArith QArith List Bool.
From SH Require Import Common.Wrap Gen.TagValueUnicode TagValue.Model Gen.IngestConsts
  Ingest.Model Ingest.Spec Ingest.Proofs Ingest.ProofsApply Ingest.ProofsOk Ingest.ProofsProps.
Import ListNotations.
Open Scope Z_scope.

(* "An event contributes to its metric only if its counter, values and histogram entries are finite, within
   +/-MaxFloat32, counters are non-negative, values and uniques are not both present, the event is not empty, and
   its tag names and values are valid" — for every event, metric description, cache, routing; both variants.
   (A row of the metric exists only if the event is valid, the metric enabled and a shard was found.) *)
Theorem C12_contributes_only_if_valid :
  forall fixed fixb c cur m rt e r,
  0 < m_id m ->
  In r (handle fixed fixb c cur m rt e) -> r_metric r = m_id m ->
  m_disabled m = false /\ rt_sh1ok rt = true /\ valid_event e /\ (fixed = true -> ~ zero_weight_only e).
Proof. exact contributes_only_if_valid. Qed.

(* the header's ingestion status is 0 exactly for valid events of an enabled metric (the code as it is) *)
Theorem C12_status_zero_iff_valid :
  forall c m e, h_status (header_of false c m e) = 0 <-> m_disabled m = false /\ valid_event e.
Proof. exact status_zero_iff_valid. Qed.

(* "every other event contributes nothing but one ingestion-status record naming the reason": the rows an invalid
   (or disabled-metric) event leaves are exactly one record with count 1 in the primary shard — and the same record in
   the secondary shard once that shard has started — whose status code is an error code and names a reason that is
   true of the event ([reason_holds]). *)
Theorem C12_rejected_exactly_one_status_row :
  forall fixed fixb c cur m rt e,
  rt_sh1ok rt = true -> 0 <= cur ->
  ~ (m_disabled m = false /\ valid_event e /\ (fixed = true -> ~ zero_weight_only e)) ->
  exists tag0 code key str,
    reason_holds fixed code m e /\ code <> 0 /\ code <> st_ok_cached
    /\ handle fixed fixb c cur m rt e =
       status_record c (rt_sh1 rt) cur metric_ingestion_status [tag0; m_id m; code; key; component_agent] str
       :: match rt_sh2 rt with
          | Some s => if cur <? rt_drop rt then []
                      else [status_record c s cur metric_ingestion_status [tag0; m_id m; code; key; component_agent] str]
          | None => []
          end.
Proof. exact rejected_exactly_one_status_row. Qed.

(* ... and when no shard can be determined: exactly one record, in the no-shard status metric, naming that reason *)
Theorem C12_sharding_failed_one_status_row :
  forall fixed fixb c cur m rt e,
  rt_sh1ok rt = false -> 0 <= cur ->
  handle fixed fixb c cur m rt e =
  [status_record c (rt_sh1 rt) cur metric_ingestion_status_no_shard
     [fst (lookup (h_key (header_of fixed c m e)) 0); m_id m; st_err_sharding_failed; 0] []].
Proof. exact sharding_failed_rows. Qed.

(* accounting of accepted events: the OK record is written, and every other non-metric row is an ingestion-status
   record with count 1 whose code is OK or one of the six warnings — never an error *)
Theorem C12_accepted_records :
  forall fixed fixb c cur m rt e,
  rt_sh1ok rt = true -> 0 <= cur -> 0 < m_id m ->
  h_status (header_of fixed c m e) = 0 ->
  In (status_record c (rt_sh1 rt) cur metric_ingestion_status
        [fst (lookup (h_key (header_of fixed c m e)) 0); m_id m; st_ok_cached; h_tagkey (header_of fixed c m e); component_agent] [])
     (handle fixed fixb c cur m rt e)
  /\ forall r, In r (handle fixed fixb c cur m rt e) -> r_metric r <> m_id m ->
       r_metric r = metric_ingestion_status /\ (r_count r == 1)%Q /\ In (fst (r_key r 2)) accept_codes.
Proof. exact accepted_records. Qed.

(* ... and the primary shard holds exactly one OK record for the event (the secondary shard is a different shard: C10) *)
Theorem C12_accepted_exactly_one_ok_record :
  forall fixed fixb c cur m rt e,
  rt_sh1ok rt = true -> 0 <= cur -> 0 < m_id m ->
  h_status (header_of fixed c m e) = 0 ->
  (forall s, rt_sh2 rt = Some s -> s <> rt_sh1 rt) ->
  length (filter (is_ok_record (rt_sh1 rt)) (handle fixed fixb c cur m rt e)) = 1%nat.
Proof. exact accepted_exactly_one_ok. Qed.

(* "For accepted events, an absent counter means one event per value (or the histogram weight)" — also one per unique.
   Stated for both variants; for the code as it is ([fixed] = false) the hypothesis [~ zero_weight_only e] is NOT a
   guard of the code: see C12_counter_scales_aggregates_refuted. *)
Theorem C12_absent_counter_counts_values :
  forall fixed fixb c cur m rt e,
  rt_sh1ok rt = true -> 0 <= cur -> 0 <= e_ts e ->
  m_disabled m = false -> valid_event e -> ~ zero_weight_only e ->
  (fq (e_counter e) == 0)%Q ->
  exists r, In r (handle fixed fixb c cur m rt e) /\ r_shard r = rt_sh1 rt /\ r_metric r = m_id m
    /\ (r_count r == total_weight e)%Q
    /\ a_set (r_agg r) = true
    /\ (a_sum (r_agg r) == weighted_sum e)%Q
    /\ (a_sumsq (r_agg r) == weighted_sumsq e)%Q.
Proof. exact absent_counter_counts_values. Qed.

(* "a present counter scales the value aggregates so that count and average match the documented semantics":
   count = counter, sum = (sum of value*weight) * counter / total weight, likewise the sum of squares, so the row's
   average equals the average of the values sent. *)
Theorem C12_counter_scales_aggregates :
  forall fixed fixb c cur m rt e,
  rt_sh1ok rt = true -> 0 <= cur -> 0 <= e_ts e ->
  m_disabled m = false -> valid_event e -> ~ zero_weight_only e ->
  (0 < fq (e_counter e))%Q ->
  exists r, In r (handle fixed fixb c cur m rt e) /\ r_shard r = rt_sh1 rt /\ r_metric r = m_id m
    /\ (r_count r == fq (e_counter e))%Q
    /\ ((has_values e \/ e_uniq e <> []) ->
          a_set (r_agg r) = true
          /\ (a_sum (r_agg r) == weighted_sum e * fq (e_counter e) / total_weight e)%Q
          /\ (a_sumsq (r_agg r) == weighted_sumsq e * fq (e_counter e) / total_weight e)%Q
          /\ (a_sum (r_agg r) / r_count r == weighted_sum e / total_weight e)%Q
          /\ (a_sumsq (r_agg r) / r_count r == weighted_sumsq e / total_weight e)%Q)
    /\ (~ (has_values e \/ e_uniq e <> []) -> r_agg r = agg0).
Proof. exact counter_scales_aggregates. Qed.

(* FINDING F-C12a (the code as it is): an event that is valid by every criterion of the property and is recorded with
   status OK, with counter 5, whose only payload is a histogram of total weight 0, leaves a row counting 0 —
   "count = counter" fails.  Reproduced on the real code by the harness each run. *)
Theorem C12_counter_scales_aggregates_refuted :
  valid_event w_zero_hist /\ h_status (header_of false [] w_meta w_zero_hist) = 0
  /\ (0 < fq (e_counter w_zero_hist))%Q
  /\ forall r, In r (handle false false [] 1700000000 w_meta w_route1 w_zero_hist) -> r_metric r = m_id w_meta ->
       (r_count r == 0)%Q.
Proof. exact zero_weight_histogram_lost. Qed.

(* with F-C12a repaired (validation treats a histogram of total weight 0 as empty) "contributes" and "valid" coincide *)
Theorem C12_contributes_iff_valid :
  forall fixb c cur m rt e,
  0 < m_id m -> rt_sh1ok rt = true -> 0 <= cur -> 0 <= e_ts e ->
  ((exists r, In r (handle true fixb c cur m rt e) /\ r_metric r = m_id m)
   <-> (m_disabled m = false /\ valid_event e /\ ~ zero_weight_only e)).
Proof. exact contributes_iff_valid. Qed.

(* for the code as it is the converse direction holds outside that corner: a valid event contributes a row with a
   positive count (partial: needs [~ zero_weight_only e], which is not a guard of the code) *)
Theorem C12_valid_event_contributes_partial :
  forall fixed fixb c cur m rt e,
  rt_sh1ok rt = true -> 0 <= cur -> 0 <= e_ts e ->
  m_disabled m = false -> valid_event e -> ~ zero_weight_only e ->
  exists r, In r (handle fixed fixb c cur m rt e) /\ r_shard r = rt_sh1 rt /\ r_metric r = m_id m /\ (0 < r_count r)%Q.
Proof. exact valid_event_contributes. Qed.

(* the secondary shard (resharding), once started, receives the same contribution under the same string-top entry —
   for the variant with F-C12b repaired *)
Theorem C12_secondary_shard_same_contribution :
  forall fixed c cur m rt e s,
  rt_sh1ok rt = true -> rt_sh2 rt = Some s -> 0 <= cur -> 0 <= e_ts e ->
  m_disabled m = false -> valid_event e -> ~ zero_weight_only e ->
  rt_drop rt <= fst (clamp_ts cur (e_ts e)) ->
  exists r1 r2, In r1 (handle fixed true c cur m rt e) /\ In r2 (handle fixed true c cur m rt e)
    /\ r_shard r1 = rt_sh1 rt /\ r_shard r2 = s /\ r_metric r1 = m_id m /\ r_metric r2 = m_id m
    /\ r_top r2 = r_top r1
    /\ row_as_documented e r1 /\ row_as_documented e r2.
Proof. exact secondary_shard_same_contribution. Qed.

(* FINDING F-C12b (the code as it is): ApplyMetric hands the same *Key to the primary and then to the secondary shard;
   the first call strips the string-top tag, so the secondary shard files the event under the row's tail. *)
Theorem C12_secondary_shard_same_contribution_refuted :
  valid_event w_string_top /\ ~ zero_weight_only w_string_top
  /\ exists r1 r2, In r1 (handle false false [] 1700000000 w_meta w_route2 w_string_top)
       /\ In r2 (handle false false [] 1700000000 w_meta w_route2 w_string_top)
       /\ r_metric r1 = m_id w_meta /\ r_metric r2 = m_id w_meta /\ r_shard r1 = 0 /\ r_shard r2 = 1
       /\ r_top r1 = (0, [120]) /\ r_top r2 = tagv0.
Proof. exact secondary_shard_loses_string_top. Qed.

(* the generated constants satisfy what the proofs use: error codes are non-zero and differ from OK, the two
   ingestion-status metrics have negative ids (never a user metric), MaxFloat32 is positive *)
Theorem C12_consts_ok :
  forallb (fun c => negb (c =? 0) && negb (c =? st_ok_cached)) error_codes = true
  /\ metric_ingestion_status < 0 /\ metric_ingestion_status_no_shard < 0 /\ 0 < max_float32.
Proof. exact IngestConsts_ok. Qed.

(* ------------------------------------------------------------------ non-vacuity *)

(* a valid event with counter 6, values 1,2 and histogram (10, weight 2), tags: a mapped one, a raw one, an unknown
   name, on a metric with a secondary shard; the clamped-future timestamp adds its warning *)
Definition ex_cache : cache := [([112; 114; 111; 100], 11)].
Definition ex_event : event :=
  mkEv (Fin 6) [Fin 1; Fin 2] [(Fin 10, Fin 2)] []
       [mkTag [49] [112; 114; 111; 100] (RTag 1 KPlain false);
        mkTag [50] [45; 53] (RTag 2 KRaw false);
        mkTag [110; 111; 112; 101] [120] (RNone false)]
       1700000009 [].
Definition ex_route : route := mkRoute 2 true (Some 0) 0.

Example C12_nonvacuous_accepted :
  valid_event ex_event /\ ~ zero_weight_only ex_event /\ (0 < fq (e_counter ex_event))%Q
  /\ h_status (header_of false ex_cache w_meta ex_event) = 0
  /\ length (handle false false ex_cache 1700000000 w_meta ex_route ex_event) = 7%nat
  /\ (total_weight ex_event == 4)%Q /\ (weighted_sum ex_event == 23)%Q.
Proof.
  assert (S : h_status (header_of false ex_cache w_meta ex_event) = 0) by (vm_compute; reflexivity).
  pose proof (proj1 (header_status_zero false ex_cache w_meta ex_event) S) as (_ & V & _).
  split; [exact V|]. split.
  - intros (H & _). discriminate H.
  - split; [reflexivity|]. split; [exact S|]. split; [vm_compute; reflexivity|]. split; vm_compute; reflexivity.
Qed.

(* rejected events of every kind: NaN value, negative counter, both set, empty, bad tag value, disabled metric *)
Example C12_nonvacuous_rejected :
  let bad_value := mkEv (Fin 0) [Fin 1; NaN] [] [] [] 1700000000 [] in
  let neg := mkEv (Fin (-1 # 2)) [] [] [] [] 1700000000 [] in
  let both := mkEv (Fin 0) [Fin 1] [] [5] [] 1700000000 [] in
  let empty := mkEv (Fin 0) [] [] [] [] 1700000000 [] in
  let bad_tag := mkEv (Fin 1) [] [] [] [mkTag [49] [255] (RTag 1 KPlain false)] 1700000000 [] in
  map (fun e => h_status (header_of false [] w_meta e)) [bad_value; neg; both; empty; bad_tag]
  = [st_err_nan_inf_value; st_err_negative_counter; st_err_value_unique_both_set; st_err_zero_counter; st_err_tag_value_encoding]
  /\ h_status (header_of false [] (mkMeta 77 true false) ex_event) = st_err_metric_disabled
  /\ ~ valid_event bad_value
  /\ length (handle false false [] 1700000000 w_meta ex_route bad_value) = 2%nat.
Proof.
  cbv zeta. split; [vm_compute; reflexivity|]. split; [vm_compute; reflexivity|]. split.
  - intro V. assert (S : h_status (header_of false [] w_meta (mkEv (Fin 0) [Fin 1; NaN] [] [] [] 1700000000 [])) = 0).
    { apply header_status_zero. split; [reflexivity|]. split; [exact V|discriminate]. }
    vm_compute in S. discriminate S.
  - vm_compute. reflexivity.
Qed.
