(* C16 — Replaying the metadata binlog reproduces the primary's state.
   Only the property theorems (closed by [exact]) and non-vacuity examples. [events] is what the primary appends to
   the binlog (dbv2.go), [replay] is applyScanEvent with the apply* functions (binlog_event.go), [tables] is every
   table incl. the AUTOINCREMENT marks and flood limits (everything a reopened database can be observed on; the
   in-memory lastMappingIDToInsert is reset by every open and excluded). *)
From Coq Require Import ZArith List Bool.
From SH Require Import Common.Wrap Metadata.Model Metadata.Proofs Metadata.ProofsC16.
Import ListNotations.
Open Scope Z_scope.

(* "Reopening ... into a fresh database file ... yields exactly the same observable state as the primary had for every
   committed operation ... for every history of operations": for every variant of the dual model and every history
   whose operations are replay-safe for that variant ([safe_op]: for the repaired variant only the int32 range of
   mapping ids; for the code as it is additionally "not a rename" and "not a flood reset" — the two findings below) *)
Theorem C16_replay_equals_primary :
  forall v c ops, safe_hist v c empty ops ->
  replay v empty (events v c empty ops) = Some (tables (run v c empty ops)).
Proof. exact (fun v c ops => replay_from v c ops empty wf_empty). Qed.

(* "... or from an older snapshot ... all snapshot points from which replay starts": from the tables of the state
   after ANY prefix of the history, replaying the events of the rest gives the tables of the whole history *)
Theorem C16_replay_from_snapshot :
  forall v c ops1 ops2, let s1 := run v c empty ops1 in
  safe_hist v c s1 ops2 ->
  replay v (tables s1) (events v c s1 ops2) = Some (tables (run v c empty (ops1 ++ ops2))).
Proof. exact replay_from_snapshot. Qed.

(* for the repaired variant every operation is replay-safe as long as created mapping ids fit an int32 *)
Theorem C16_repaired_needs_only_id_range :
  forall s o, (forall m k now, o = OGoc m k now -> mseq s + 1 < two31) -> safe_op repaired s o.
Proof. exact safe_op_repaired. Qed.

(* "including renames" — REFUTED for the code as it is (F-C16a): after create n1 / rename to n2 the replayed database
   still holds name n1 at version 1 *)
Theorem C16_replay_refuted_rename :
  exists c ops s', replay faithful empty (events faithful c empty ops) = Some s' /\
    ents (run faithful c empty ops) = [R 1 (0, 2) 0 2 11 0 0 0] /\ ents s' = [R 1 (0, 1) 0 1 10 0 0 0].
Proof. exact replay_refuted_rename. Qed.

(* ... and re-creating the old name afterwards makes the replay fail (UNIQUE constraint): the database does not reopen *)
Theorem C16_replay_refuted_rename_fails :
  exists c ops, replay faithful empty (events faithful c empty ops) = None /\
    results faithful c empty ops = [RSave EOk 1 1 0; RSave EOk 1 2 0; RSave EOk 2 3 0].
Proof. exact replay_refuted_rename_fails. Qed.

(* "flood-limit budgets" — REFUTED for the code as it is (F-C16b): ResetFlood writes no event *)
Theorem C16_replay_refuted_resetflood :
  exists c ops s', replay faithful empty (events faithful c empty ops) = Some s' /\
    flood (run faithful c empty ops) = [(1, (61, 2))] /\ flood s' = [].
Proof. exact replay_refuted_resetflood. Qed.

(* non-vacuity: a history of the code as it is that is replay-safe (creates, an edit keeping the name, a delete mark,
   a predefined entity, mappings created / put / deleted) and whose replay is computed *)
Definition ex_ops : list op :=
  [OSave 0 1 0 0 0 true 0 T_NS 0 100; OSave 1 5 0 0 1 true 0 T_METRIC 0 101; OSave 1 5 2 2 2 false 105 T_METRIC 1 105;
   OSave 0 3 (-2) 0 0 false 0 T_DASH 0 106; OGoc 1 1 100; OGoc 1 2 100; OPut [(7, 9)]; ODel [1]; OGoc 2 3 200].
Example C16_nonvacuous :
  replay faithful empty (events faithful (Cfg 3 60 1 0) empty ex_ops) = Some (tables (run faithful (Cfg 3 60 1 0) empty ex_ops))
  /\ length (events faithful (Cfg 3 60 1 0) empty ex_ops) = 9%nat
  /\ safe_hist repaired (Cfg 3 60 1 0) empty (ex_ops ++ [OSave 1 6 2 3 2 false 0 T_METRIC 1 107; OReset 1 2 300]).
Proof. vm_compute. repeat split; auto; try (intros; discriminate); try reflexivity. Qed.
