(* C29 — Query admission never exceeds capacity, loses wakeups or starves users.
   Only the property theorems (closed by [exact]) and non-vacuity examples.
   [qstep false] is the code as it is, [qstep true] the repaired variant (finding F-C29: nextQueryLocked
   tests [active == max], AdjustCapacity never wakes a waiter).  One step = one critical section;
   "all schedules" = all lists of steps that respect the callers' protocol ([qenabled]/[senabled]:
   Release by a holder, non-negative capacities and weights). *)
From Coq Require Import ZArith List Bool.
From SH Require Import Admission.Model Admission.ProofsQueue Admission.ProofsSem.
Import ListNotations.
Open Scope Z_scope.

(* ------------------------------- round-robin queue ------------------------------- *)

(* "the per-user round-robin queue never has more active queries than its capacity": in the repaired
   queue every step in which an Acquire call is granted (fast path, wake-up on Release, hand-out on
   AdjustCapacity) ends with active <= max — from ANY state, so also after capacity was lowered *)
Theorem C29_grants_never_exceed_capacity :
  forall s op s' evs,
  qstep true s op = (s', evs) -> existsb is_grant evs = true -> q_active s' <= q_max s'.
Proof. exact grants_within_capacity. Qed.

(* ... the code as it is violates it once AdjustCapacity lowered the capacity below the number of
   active queries (finding F-C29a; the witness is replayed on the real Queue by the harness) *)
Theorem C29_grants_never_exceed_capacity_refuted :
  exists s op, qreach false s /\ qenabled s op /\
    existsb is_grant (snd (qstep false s op)) = true /\
    q_max (fst (qstep false s op)) < q_active (fst (qstep false s op)).
Proof. exact grants_exceed_capacity_refuted. Qed.

(* same clause, for the code as it is and the repaired one alike: no step other than a capacity change
   takes the queue from active <= max to active > max *)
Theorem C29_active_le_max :
  forall fx s op,
  is_adjust op = false -> q_active s <= q_max s ->
  q_active (fst (qstep fx s op)) <= q_max (fst (qstep fx s op)) /\ q_max (fst (qstep fx s op)) = q_max s.
Proof. exact active_le_max_step. Qed.

(* ... hence with a constant capacity m the code as it is never exceeds it, for all schedules *)
Theorem C29_active_le_max_constant_capacity :
  forall ops s, no_adjust ops = true -> q_active s <= q_max s ->
  q_active (fst (qrun false s ops)) <= q_max s /\ q_max (fst (qrun false s ops)) = q_max s.
Proof. exact (active_le_max_run false). Qed.

(* with a constant capacity the code as it is IS the repaired model (so every theorem about
   [qstep true] below speaks about the real code whenever AdjustCapacity is not used) *)
Theorem C29_constant_capacity_code_is_repaired_model :
  forall ops s, no_adjust ops = true -> q_active s <= q_max s ->
  qrun false s ops = qrun true s ops /\ (qvalid false s ops -> qvalid true s ops).
Proof. exact qrun_false_true. Qed.

(* "grants a waiting query whenever capacity frees": no reachable state (all states are quiescent: one
   step = one critical section) has a waiting user next to a free slot *)
Theorem C29_no_lost_wakeup :
  forall s, qreach true s -> q_users s <> [] -> q_max s <= q_active s.
Proof. exact no_lost_wakeup. Qed.

Theorem C29_no_lost_wakeup_constant_capacity :
  forall m ops, 0 <= m -> no_adjust ops = true -> qvalid false (qinit m) ops ->
  let s := fst (qrun false (qinit m) ops) in
  q_users s <> [] -> q_max s <= q_active s.
Proof. exact no_lost_wakeup_const. Qed.

(* ... refuted for the code as it is: AdjustCapacity raising the capacity wakes nobody (F-C29b) *)
Theorem C29_no_lost_wakeup_refuted :
  exists s, qreach false s /\ q_users s <> [] /\ q_active s < q_max s.
Proof. exact lost_wakeup_refuted. Qed.

(* "never leaks capacity through cancellations": the cancellation branch of Acquire changes neither
   active nor max, removes the query from the queue (it can never be granted later), and reports an error
   exactly when the query was still waiting (otherwise it had been granted: the isClosed branch) *)
Theorem C29_cancel_leaks_nothing :
  forall fx s q s' evs,
  qstep fx s (QCancel q) = (s', evs) ->
  q_active s' = q_active s /\ q_max s' = q_max s /\ is_waiting q (q_users s') = false /\
  (if is_waiting q (q_users s) then evs = [QCancelled q] else evs = [] /\ s' = s).
Proof. exact cancel_spec. Qed.

(* ... and over any history: active = (calls that returned nil) - (releases); calls that returned
   ctx.Err() never count *)
Theorem C29_capacity_accounting :
  forall fx ops s,
  q_active (fst (qrun fx s ops)) = q_active s + grants (concat (snd (qrun fx s ops))) - releases ops.
Proof. exact run_accounting. Qed.

(* "never grants a user twice while another user that was already waiting is still waiting": from any
   reachable state, over any schedule during which user B keeps waiting and is not served, every other
   user A is served at most once (fast path included) *)
Theorem C29_round_robin_no_double_grant :
  forall s ops A B,
  qreach true s -> qvalid true s ops -> A <> B -> waits_through true B s ops ->
  (grants_to A (concat (snd (qrun true s ops))) <= 1)%nat.
Proof. exact round_robin_no_double_grant. Qed.

Theorem C29_round_robin_constant_capacity :
  forall m ops ops2 A B,
  0 <= m -> no_adjust (ops ++ ops2) = true -> qvalid false (qinit m) (ops ++ ops2) -> A <> B ->
  let s := fst (qrun false (qinit m) ops) in
  waits_through false B s ops2 ->
  (grants_to A (concat (snd (qrun false s ops2))) <= 1)%nat.
Proof. exact round_robin_const. Qed.

(* ... refuted for the code as it is after a capacity increase: late arrivals take the fast path past
   the users that are waiting (consequence of F-C29b) *)
Theorem C29_round_robin_refuted :
  exists s ops A B, qreach false s /\ qvalid false s ops /\ A <> B /\ waits_through false B s ops /\
    grants_to A (concat (snd (qrun false s ops))) = 2%nat.
Proof. exact round_robin_refuted. Qed.

(* ------------------------------- weighted semaphore ------------------------------- *)

(* "The weighted semaphore never lets in more than its size": every step that lets in a caller (Acquire
   returning nil at once or from the waiter list, TryAcquire = true) ends with cur <= size, from any
   state — ForceAcquire and SetSize may put cur above size, but nobody is let in while it is *)
Theorem C29_sem_enters_within_size :
  forall s op s' evs,
  sstep s op = (s', evs) -> existsb is_enter evs = true -> s_cur s' <= s_size s'.
Proof. exact enter_within_size. Qed.

Theorem C29_sem_cur_le_size_without_force :
  forall n ops,
  0 <= n -> svalid (sinit n) ops -> forallb (fun op => negb (is_resize op)) ops = true ->
  s_cur (fst (srun (sinit n) ops)) <= n.
Proof. exact cur_le_size_without_force. Qed.

(* "serves waiters in FIFO order": call ids are arrival order; whoever is let in is older than every
   waiter left in the list; an entry that does not come from the list (fast path of Acquire,
   TryAcquire) happens only when the list is empty *)
Theorem C29_sem_fifo :
  forall s op s' evs,
  sreach s -> sstep s op = (s', evs) ->
  (forall w, In (SGranted w) evs -> forall p, In p (s_waiters s') -> w < fst p) /\
  (In STryOk evs -> s_waiters s = []) /\
  (forall w, In (SGranted w) evs -> (exists n, In (w, n) (s_waiters s)) \/ s_waiters s = []).
Proof. exact fifo. Qed.

(* "a cancelled waiter leaves it unchanged": Acquire that blocks, then its cancellation *)
Theorem C29_sem_cancel_restores :
  forall s n,
  sreach s -> 0 <= n -> snd (sstep s (SAcquire n)) = [] ->
  sstep (fst (sstep s (SAcquire n))) (SCancel (s_next s)) =
    ({| s_size := s_size s; s_cur := s_cur s; s_waiters := s_waiters s; s_doomed := s_doomed s;
        s_next := s_next s + 1 |}, [SCancelled (s_next s)]).
Proof. exact cancel_restores. Qed.

(* ... and the cancellation of any waiter of the list at any later time: size untouched, the waiter is
   removed and never let in, cur grows exactly by the weights of the waiters let in in its place *)
Theorem C29_sem_cancel_waiter :
  forall s w s' evs,
  sreach s -> mem w (s_doomed s) = false -> wmem w (s_waiters s) = true ->
  sstep s (SCancel w) = (s', evs) ->
  s_size s' = s_size s /\ ~ In (SGranted w) evs /\ wmem w (s_waiters s') = false /\
  exists pre, wremove w (s_waiters s) = pre ++ s_waiters s' /\ s_cur s' = s_cur s + wsum pre /\
              evs = SCancelled w :: map SGranted (map fst pre).
Proof. exact cancel_waiter. Qed.

(* ------------------------------- non-vacuity ------------------------------- *)

(* a valid schedule of the repaired queue with a capacity decrease below active, an increase that hands
   capacity to waiters, grants on Release, a cancellation; user 2 waits throughout the last three steps
   while user 1 is served once *)
Definition ex_ops := [QAcquire 1; QAcquire 2; QAcquire 1; QAcquire 2; QAcquire 3; QCancel 4; QAdjust 0; QRelease; QAdjust 2].
Example C29_nonvacuous_queue :
  qvalid true (qinit 2) ex_ops /\
  snd (qrun true (qinit 2) ex_ops) =
    [[QGranted 1 0]; [QGranted 2 1]; []; []; []; [QCancelled 4]; []; []; [QGranted 1 2]] /\
  q_users (fst (qrun true (qinit 2) ex_ops)) = [{| u_tok := 2; u_ord := 3; u_qs := [3] |}] /\
  q_active (fst (qrun true (qinit 2) ex_ops)) = 2.
Proof. vm_compute. intuition congruence. Qed.

Example C29_nonvacuous_round_robin :
  let s := fst (qrun true (qinit 1) [QAcquire 1; QAcquire 1; QAcquire 2; QAcquire 1]) in
  qvalid true s [QRelease; QAcquire 3] /\ waits_through true 2 s [QRelease; QAcquire 3] /\
  grants_to 1 (concat (snd (qrun true s [QRelease; QAcquire 3]))) = 1%nat.
Proof.
  vm_compute. repeat split; try (intuition congruence);
    exists {| u_tok := 2; u_ord := 2; u_qs := [2] |}; (split; [tauto|reflexivity]).
Qed.

(* constant capacity, the code as it is: a history with waiting, a grant on Release and a cancel *)
Example C29_nonvacuous_constant :
  no_adjust [QAcquire 1; QAcquire 2; QAcquire 3; QCancel 1; QRelease] = true /\
  qvalid false (qinit 1) [QAcquire 1; QAcquire 2; QAcquire 3; QCancel 1; QRelease] /\
  snd (qrun false (qinit 1) [QAcquire 1; QAcquire 2; QAcquire 3; QCancel 1; QRelease]) =
    [[QGranted 1 0]; []; []; [QCancelled 1]; [QGranted 3 2]].
Proof. vm_compute. intuition congruence. Qed.

(* semaphore: FIFO blocks a small request behind a large one; cancelling the front lets in the next;
   SetSize below cur and ForceAcquire keep later callers out *)
Definition ex_sops := [SAcquire 2; SAcquire 2; SAcquire 1; STry 1; SCancel 1; SForce 3; SAcquire 1; SSetSize 9].
Example C29_nonvacuous_sem :
  svalid (sinit 3) ex_sops /\
  snd (srun (sinit 3) ex_sops) =
    [[SGranted 0]; []; []; [STryFail]; [SCancelled 1; SGranted 2]; []; []; [SGranted 3]] /\
  s_cur (fst (srun (sinit 3) ex_sops)) = 7.
Proof. vm_compute. intuition congruence. Qed.

Example C29_nonvacuous_sem_cancel :
  snd (sstep (fst (srun (sinit 3) [SAcquire 2])) (SAcquire 2)) = [] /\
  sreach (fst (srun (sinit 3) [SAcquire 2])).
Proof.
  split; [vm_compute; reflexivity|].
  change (fst (srun (sinit 3) [SAcquire 2])) with (fst (sstep (sinit 3) (SAcquire 2))).
  apply sreach_step; [constructor|simpl; discriminate].
Qed.
