(* C29 — Query admission never exceeds capacity, loses wakeups or starves users.
   Only the property theorems (closed by [exact]) and non-vacuity examples.
   [qstep true] is the CURRENT code: nextQueryLocked tests [active >= max] (fix 7e41ac88) and AdjustCapacity
   hands free slots to waiting queries (fix 2748241c).  [qstep false] is the variant BEFORE those fixes
   (finding F-C29a/b); it appears only in the [_refuted] theorems, which record what was wrong, and in the
   [_constant_capacity] ones, which record that the defect needed AdjustCapacity to show.
   One step = one critical section;
   "all schedules" = all lists of steps that respect the callers' protocol ([qenabled]/[senabled]:
   Release by a holder, non-negative capacities and weights). *)
From Coq Require Import ZArith List Bool.
From SH Require Import Admission.Model Admission.ProofsQueue Admission.ProofsQueue2 Admission.ProofsSem.
Import ListNotations.
Open Scope Z_scope.

(* ------------------------------- round-robin queue ------------------------------- *)

(* "the per-user round-robin queue never has more active queries than its capacity": in the current
   code every step in which an Acquire call is granted (fast path, wake-up on Release, hand-out on
   AdjustCapacity) ends with active <= max — from ANY state, for all schedules including capacity
   changes, so also after the capacity was lowered below the number of active queries *)
Theorem C29_grants_never_exceed_capacity :
  forall s op s' evs,
  qstep true s op = (s', evs) -> existsb is_grant evs = true -> q_active s' <= q_max s'.
Proof. exact grants_within_capacity. Qed.

(* ... the variant before fix 7e41ac88 violated it once AdjustCapacity lowered the capacity below the
   number of active queries (finding F-C29a; the harness replays the witness on the real Queue: "gone") *)
Theorem C29_grants_never_exceed_capacity_refuted :
  exists s op, qreach false s /\ qenabled s op /\
    existsb is_grant (snd (qstep false s op)) = true /\
    q_max (fst (qstep false s op)) < q_active (fst (qstep false s op)).
Proof. exact grants_exceed_capacity_refuted. Qed.

(* same clause, for the current code and the pre-fix variant alike: no step other than a capacity change
   takes the queue from active <= max to active > max *)
Theorem C29_active_le_max :
  forall fx s op,
  is_adjust op = false -> q_active s <= q_max s ->
  q_active (fst (qstep fx s op)) <= q_max (fst (qstep fx s op)) /\ q_max (fst (qstep fx s op)) = q_max s.
Proof. exact active_le_max_step. Qed.

(* ... hence with a constant capacity even the pre-fix variant never exceeded it, for all schedules *)
Theorem C29_active_le_max_constant_capacity :
  forall ops s, no_adjust ops = true -> q_active s <= q_max s ->
  q_active (fst (qrun false s ops)) <= q_max s /\ q_max (fst (qrun false s ops)) = q_max s.
Proof. exact (active_le_max_run false). Qed.

(* with a constant capacity the pre-fix variant and the current code are the same function: F-C29a/b
   needed AdjustCapacity to show *)
Theorem C29_constant_capacity_code_is_repaired_model :
  forall ops s, no_adjust ops = true -> q_active s <= q_max s ->
  qrun false s ops = qrun true s ops /\ (qvalid false s ops -> qvalid true s ops).
Proof. exact qrun_false_true. Qed.

(* "grants a waiting query whenever capacity frees": in the current code no reachable state (all states
   are quiescent: one step = one critical section; all schedules, AdjustCapacity included) has a waiting
   user next to a free slot *)
Theorem C29_no_lost_wakeup :
  forall s, qreach true s -> q_users s <> [] -> q_max s <= q_active s.
Proof. exact no_lost_wakeup. Qed.

Theorem C29_no_lost_wakeup_constant_capacity :
  forall m ops, 0 <= m -> no_adjust ops = true -> qvalid false (qinit m) ops ->
  let s := fst (qrun false (qinit m) ops) in
  q_users s <> [] -> q_max s <= q_active s.
Proof. exact no_lost_wakeup_const. Qed.

(* ... refuted for the variant before fix 2748241c: AdjustCapacity raising the capacity woke nobody (F-C29b) *)
Theorem C29_no_lost_wakeup_refuted :
  exists s, qreach false s /\ q_users s <> [] /\ q_active s < q_max s.
Proof. exact lost_wakeup_refuted. Qed.

(* "never leaks capacity through cancellations": the cancellation branch of Acquire changes neither
   active nor max, removes the query from the queue (it can never be granted later), and reports an error
   exactly when the query was still waiting (otherwise it had been granted: the isClosed branch) *)
Theorem C29_cancel_leaks_nothing :
  forall fx s q s' evs,
  qstep fx s (QCancel q) = (s', evs) ->
  q_active s' = q_active s /\ q_max s' = q_max s /\ is_waiting q (q_users s') = false /\
  (if is_waiting q (q_users s) then evs = [QCancelled q] else evs = [] /\ s' = s).
Proof. exact cancel_spec. Qed.

(* ... and over any history: active = (calls that returned nil) - (releases); calls that returned
   ctx.Err() never count *)
Theorem C29_capacity_accounting :
  forall fx ops s,
  q_active (fst (qrun fx s ops)) = q_active s + grants (concat (snd (qrun fx s ops))) - releases ops.
Proof. exact run_accounting. Qed.

(* "never grants a user twice while another user that was already waiting is still waiting": in the
   current code, from any reachable state, over any schedule (AdjustCapacity included) during which user
   B keeps waiting and is not served, every other user A is served at most once (fast path included) *)
Theorem C29_round_robin_no_double_grant :
  forall s ops A B,
  qreach true s -> qvalid true s ops -> A <> B -> waits_through true B s ops ->
  (grants_to A (concat (snd (qrun true s ops))) <= 1)%nat.
Proof. exact round_robin_no_double_grant. Qed.

Theorem C29_round_robin_constant_capacity :
  forall m ops ops2 A B,
  0 <= m -> no_adjust (ops ++ ops2) = true -> qvalid false (qinit m) (ops ++ ops2) -> A <> B ->
  let s := fst (qrun false (qinit m) ops) in
  waits_through false B s ops2 ->
  (grants_to A (concat (snd (qrun false s ops2))) <= 1)%nat.
Proof. exact round_robin_const. Qed.

(* ... refuted for the pre-fix variant after a capacity increase: late arrivals took the fast path past
   the users that were waiting (consequence of F-C29b) *)
Theorem C29_round_robin_refuted :
  exists s ops A B, qreach false s /\ qvalid false s ops /\ A <> B /\ waits_through false B s ops /\
    grants_to A (concat (snd (qrun false s ops))) = 2%nat.
Proof. exact round_robin_refuted. Qed.


(* the model's AdjustCapacity for the current code is the committed loop
     for q.activeQuery < q.maxActiveQuery && q.waitingUsersByPriority.Len() > 0 { q.nextQueryLocked() }
   ([adjust_loop], run with the number of waiting queries as fuel), and that fuel suffices: at the end the
   loop condition is false *)
Theorem C29_adjust_capacity_is_committed_loop :
  forall s n, qreach true s ->
  let s1 := {| q_active := q_active s; q_max := n; q_users := q_users s; q_order := q_order s; q_next := q_next s |} in
  qstep true s (QAdjust n) = adjust_loop (waiting_count (q_users s)) s1 /\
  (0 <= n -> adjust_cond (fst (qstep true s (QAdjust n))) = false).
Proof. exact adjust_is_committed_loop. Qed.

(* "never leaks capacity through cancellations", the part about whole histories: every Acquire call gets
   at most one outcome — over any history from the empty queue the calls that returned (nil or error)
   are pairwise different: a query is granted at most once, a cancelled query is never granted (before or
   afterwards), never both error and grant.  Any schedule, protocol respected or not, either variant. *)
Theorem C29_one_outcome_per_call :
  forall fx m ops, NoDup (oids (concat (snd (qrun fx (qinit m) ops)))).
Proof. exact one_outcome_per_call. Qed.

Theorem C29_outcomes_exclusive :
  forall fx m ops,
  let es := concat (snd (qrun fx (qinit m) ops)) in
  (forall t q, In (QGranted t q) es -> ~ In (QCancelled q) es) /\
  (forall t t' q l1 l2, es = l1 ++ QGranted t q :: l2 -> ~ In (QGranted t' q) l1 /\ ~ In (QGranted t' q) l2).
Proof. exact outcomes_exclusive. Qed.

(* round-robin fairness as a bound (starvation freedom): with constant capacity (active <= max at the
   start, only Acquire and Release steps: no AdjustCapacity, no cancellations) a user B that keeps waiting
   unserved sees at most [rank B s] releases, the number of waiting users of other tokens whose order is
   not after B's — after that many releases the next one serves B *)
Theorem C29_starvation_bound :
  forall s ops B,
  qreach true s -> q_active s <= q_max s -> qvalid true s ops -> forallb acq_or_rel ops = true ->
  waits_through true B s ops -> releases ops <= Z.of_nat (rank B s).
Proof. exact starvation_bound. Qed.

(* ------------------------------- weighted semaphore ------------------------------- *)

(* "The weighted semaphore never lets in more than its size": every step that lets in a caller (Acquire
   returning nil at once or from the waiter list, TryAcquire = true) ends with cur <= size, from any
   state — ForceAcquire and SetSize may put cur above size, but nobody is let in while it is *)
Theorem C29_sem_enters_within_size :
  forall s op s' evs,
  sstep s op = (s', evs) -> existsb is_enter evs = true -> s_cur s' <= s_size s'.
Proof. exact enter_within_size. Qed.

Theorem C29_sem_cur_le_size_without_force :
  forall n ops,
  0 <= n -> svalid (sinit n) ops -> forallb (fun op => negb (is_resize op)) ops = true ->
  s_cur (fst (srun (sinit n) ops)) <= n.
Proof. exact cur_le_size_without_force. Qed.

(* "serves waiters in FIFO order": call ids are arrival order; whoever is let in is older than every
   waiter left in the list; an entry that does not come from the list (fast path of Acquire,
   TryAcquire) happens only when the list is empty *)
Theorem C29_sem_fifo :
  forall s op s' evs,
  sreach s -> sstep s op = (s', evs) ->
  (forall w, In (SGranted w) evs -> forall p, In p (s_waiters s') -> w < fst p) /\
  (In STryOk evs -> s_waiters s = []) /\
  (forall w, In (SGranted w) evs -> (exists n, In (w, n) (s_waiters s)) \/ s_waiters s = []).
Proof. exact fifo. Qed.

(* "a cancelled waiter leaves it unchanged": Acquire that blocks, then its cancellation *)
Theorem C29_sem_cancel_restores :
  forall s n,
  sreach s -> 0 <= n -> snd (sstep s (SAcquire n)) = [] ->
  sstep (fst (sstep s (SAcquire n))) (SCancel (s_next s)) =
    ({| s_size := s_size s; s_cur := s_cur s; s_waiters := s_waiters s; s_doomed := s_doomed s;
        s_next := s_next s + 1 |}, [SCancelled (s_next s)]).
Proof. exact cancel_restores. Qed.

(* ... and the cancellation of any waiter of the list at any later time: size untouched, the waiter is
   removed and never let in, cur grows exactly by the weights of the waiters let in in its place *)
Theorem C29_sem_cancel_waiter :
  forall s w s' evs,
  sreach s -> mem w (s_doomed s) = false -> wmem w (s_waiters s) = true ->
  sstep s (SCancel w) = (s', evs) ->
  s_size s' = s_size s /\ ~ In (SGranted w) evs /\ wmem w (s_waiters s') = false /\
  exists pre, wremove w (s_waiters s) = pre ++ s_waiters s' /\ s_cur s' = s_cur s + wsum pre /\
              evs = SCancelled w :: map SGranted (map fst pre).
Proof. exact cancel_waiter. Qed.


(* no lost wake-up in the semaphore, for positive weights: in every reachable state the front waiter does
   not fit (so FIFO never leaves a servable front waiter blocked).  Weight 0 is the one exception, see the
   remark below. *)
Theorem C29_sem_no_lost_wakeup_positive :
  forall s, sreach s ->
  match s_waiters s with (_, n) :: _ => 0 < n -> s_size s - s_cur s < n | [] => True end.
Proof. exact sem_no_lost_wakeup. Qed.

(* REMARK (not a finding): a zero-weight call queued behind a waiter that is cancelled while cur = size
   stays in the list although it fits; the three semaphore clauses of the property still hold there
   (nothing is let in over size, nobody is served out of order, the cancellation changes neither cur
   nor size nor the other waiters), which is why this is recorded as a remark. *)
Example C29_remark_zero_weight_waiter :
  let ops := [SAcquire 1; SAcquire 1; SAcquire 0; SCancel 1] in
  svalid (sinit 1) ops /\
  snd (srun (sinit 1) ops) = [[SGranted 0]; []; []; [SCancelled 1]] /\
  s_waiters (fst (srun (sinit 1) ops)) = [(2, 0)] /\
  s_size (fst (srun (sinit 1) ops)) - s_cur (fst (srun (sinit 1) ops)) = 0.
Proof. exact zero_weight_waiter_can_stay. Qed.

(* ------------------------------- non-vacuity ------------------------------- *)

(* a valid schedule of the repaired queue with a capacity decrease below active, an increase that hands
   capacity to waiters, grants on Release, a cancellation; user 2 waits throughout the last three steps
   while user 1 is served once *)
Definition ex_ops := [QAcquire 1; QAcquire 2; QAcquire 1; QAcquire 2; QAcquire 3; QCancel 4; QAdjust 0; QRelease; QAdjust 2].
Example C29_nonvacuous_queue :
  qvalid true (qinit 2) ex_ops /\
  snd (qrun true (qinit 2) ex_ops) =
    [[QGranted 1 0]; [QGranted 2 1]; []; []; []; [QCancelled 4]; []; []; [QGranted 1 2]] /\
  q_users (fst (qrun true (qinit 2) ex_ops)) = [{| u_tok := 2; u_ord := 3; u_qs := [3] |}] /\
  q_active (fst (qrun true (qinit 2) ex_ops)) = 2.
Proof. vm_compute. intuition congruence. Qed.

Example C29_nonvacuous_round_robin :
  let s := fst (qrun true (qinit 1) [QAcquire 1; QAcquire 1; QAcquire 2; QAcquire 1]) in
  qvalid true s [QRelease; QAcquire 3] /\ waits_through true 2 s [QRelease; QAcquire 3] /\
  grants_to 1 (concat (snd (qrun true s [QRelease; QAcquire 3]))) = 1%nat.
Proof.
  vm_compute. repeat split; try (intuition congruence);
    exists {| u_tok := 2; u_ord := 2; u_qs := [2] |}; (split; [tauto|reflexivity]).
Qed.

(* constant capacity, the code as it is: a history with waiting, a grant on Release and a cancel *)
Example C29_nonvacuous_constant :
  no_adjust [QAcquire 1; QAcquire 2; QAcquire 3; QCancel 1; QRelease] = true /\
  qvalid false (qinit 1) [QAcquire 1; QAcquire 2; QAcquire 3; QCancel 1; QRelease] /\
  snd (qrun false (qinit 1) [QAcquire 1; QAcquire 2; QAcquire 3; QCancel 1; QRelease]) =
    [[QGranted 1 0]; []; []; [QCancelled 1]; [QGranted 3 2]].
Proof. vm_compute. intuition congruence. Qed.

(* semaphore: FIFO blocks a small request behind a large one; cancelling the front lets in the next;
   SetSize below cur and ForceAcquire keep later callers out *)
Definition ex_sops := [SAcquire 2; SAcquire 2; SAcquire 1; STry 1; SCancel 1; SForce 3; SAcquire 1; SSetSize 9].
Example C29_nonvacuous_sem :
  svalid (sinit 3) ex_sops /\
  snd (srun (sinit 3) ex_sops) =
    [[SGranted 0]; []; []; [STryFail]; [SCancelled 1; SGranted 2]; []; []; [SGranted 3]] /\
  s_cur (fst (srun (sinit 3) ex_sops)) = 7.
Proof. vm_compute. intuition congruence. Qed.

Example C29_nonvacuous_sem_cancel :
  snd (sstep (fst (srun (sinit 3) [SAcquire 2])) (SAcquire 2)) = [] /\
  sreach (fst (srun (sinit 3) [SAcquire 2])).
Proof.
  split; [vm_compute; reflexivity|].
  change (fst (srun (sinit 3) [SAcquire 2])) with (fst (sstep (sinit 3) (SAcquire 2))).
  apply sreach_step; [constructor|simpl; discriminate].
Qed.

(* starvation bound: capacity 1 held by user 1, users 2, 3, 4 waiting in that order: user 4 has two users
   ahead, waits through two releases (user 2 re-queues meanwhile, behind it), the third one serves it *)
Example C29_nonvacuous_starvation_bound :
  let s := fst (qrun true (qinit 1) [QAcquire 1; QAcquire 2; QAcquire 3; QAcquire 4]) in
  let ops := [QRelease; QAcquire 2; QRelease] in
  rank 4 s = 2%nat /\ q_active s <= q_max s /\ qvalid true s ops /\ waits_through true 4 s ops /\ releases ops = 2 /\
  snd (qstep true (fst (qrun true s ops)) QRelease) = [QGranted 4 3].
Proof.
  vm_compute. repeat split; try (intuition congruence);
    exists {| u_tok := 4; u_ord := 3; u_qs := [3] |}; (split; [tauto|reflexivity]).
Qed.

(* one outcome per call on a history with a cancel, grants and a capacity change *)
Example C29_nonvacuous_outcomes :
  oids (concat (snd (qrun true (qinit 2) ex_ops))) = [0; 1; 4; 2].
Proof. vm_compute. reflexivity. Qed.
