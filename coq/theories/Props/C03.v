(* C03 — Inserted rows equal the merge of all contributions and read back intact.
   Only the property theorems (closed by [exact]) and non-vacuity examples.
   Models: Insert/Model.v (RowBinary row writer of aggregator_insert.go, the chutil column readers, the handler's
   aggregation shards) on top of C04's MultiValue/ChUnique and C02's MergeWithTLMultiItem. *)
From Coq Require Import ZArith QArith Lia List Bool Permutation MSets.MSetPositive.
From SH Require Import Common.Wrap Gen.TransferConsts Gen.AggConsts Agg.Model Agg.ProofsValue Agg.ProofsUnique
  Transfer.Model Insert.Model Insert.Proofs Insert.ProofsMerge.
Import ListNotations.
Open Scope Z_scope.

(* "…with count, min, max, sum and sum-of-squares equal to the merge of every contribution received for that key."
   The handler's MergeWithTL2, whenever it reports no ingestion error, is ItemValue.Merge (C04's model) with the
   accepted part of the incoming TL value: *)
Theorem C03_handler_merge_is_value_merge :
  forall ufix s t mask ah ds s' ds',
  merge_with_tl2 ufix s t mask ah ds = (s', 0, ds') ->
  merge_value (mv_v s) (accepted t mask ah) ds = (mv_v s', ds').
Proof. exact merge_with_tl2_value. Qed.

(* …so a cell (key, string-top) that started empty and took any sequence of TL values, for any rng draws, holds:
   count / sum / sumsq = the totals of the accepted values, min / max = their least / greatest value, with the
   host that contributed it (C04's sums_spec, min_spec, max_spec over the whole history).
   PARTIAL: that the handler routes every contribution to the cell of its (key, top) — GetOrCreateMultiItem and
   the Top map — is modelled (shard_merge, targets) and checked against the real handler on every run, but the
   refinement "shard fold = per-cell folds" is not mechanised. *)
Theorem C03_body_values_are_merge_partial :
  forall ufix l r,
  cell_fold ufix mvalue0 l = Some r -> cell_spec (map accepted_of l) (mv_v r).
Proof. exact cell_from_empty. Qed.

(* "…the merge of every contribution" does not depend on the order in which the contributions arrived *)
Theorem C03_merge_order_irrelevant :
  forall ufix l1 l2 r1 r2,
  Permutation (map accepted_of l1) (map accepted_of l2) ->
  Forall wfv (map accepted_of l1) ->
  cell_fold ufix mvalue0 l1 = Some r1 -> cell_fold ufix mvalue0 l2 = Some r2 ->
  (cnt (mv_v r1) == cnt (mv_v r2) /\ v_sum (mv_v r1) == v_sum (mv_v r2) /\ v_sumsq (mv_v r1) == v_sumsq (mv_v r2) /\
   v_set (mv_v r1) = v_set (mv_v r2) /\
   (v_set (mv_v r1) = true -> v_min (mv_v r1) == v_min (mv_v r2) /\ v_max (mv_v r1) == v_max (mv_v r2)))%Q.
Proof. exact cell_order_irrelevant. Qed.

(* "…contains each (time, metric, tags, string-top) key exactly once" — REFUTED for arbitrary keys (F-C03a): the row
   writer drops slot 47 of the key, so two different aggregation keys are written with the same row key.  (Real agents
   clear slot 47; the aggregator does not check it.  Reproduced on the real handler + insert encoder every run.)
   The positive statement for keys with an empty slot 47 and no slot holding both an int and a string is checked by
   the correspondence (body level) and the Go-side oracle body_duplicate_key, not mechanised. *)
Theorem C03_body_keys_unique_refuted :
  exists k1 k2 top, key_eqb k1 k2 = false /\ wkey k1 top = wkey k2 top.
Proof. exact written_key_not_injective. Qed.

(* "The unique-value state … it writes [is] decoded by the API's column readers into the same values":
   ChUnique.ReadFrom accepts exactly the (skip degree, count, hashes) MarshallAppend wrote, whatever follows *)
Theorem C03_unique_state_roundtrip :
  forall skip items rest, zlen items <= uniques_max_size -> Forall wf_u32 items ->
  dec_uniq (enc_uniq skip (zlen items) items ++ rest) = Some ((skip, zlen items, items), rest).
Proof. exact dec_uniq_enc. Qed.

(* "…percentile centroids…": ColTDigest.DecodeColumn hands tdigest.AddCentroid exactly the pairs AppendCentroids wrote *)
Theorem C03_centroids_roundtrip :
  forall cs rest, zlen cs < two32 -> Forall wf_cent cs -> dec_cents (enc_cents cs ++ rest) = Some (cs, rest).
Proof. exact dec_cents_enc. Qed.

(* "…and min/max host arguments": the repaired column reader returns the written tag and value whatever the
   receiver held; the reader as it is does so for a fresh receiver (first block of a result) … *)
Theorem C03_argminmax_roundtrip_repaired :
  forall prev a rest, wf_arg a -> arg_read true prev (enc_arg a ++ rest) = Some (to_arg3 a, rest).
Proof. exact arg_read_fixed. Qed.
Theorem C03_argminmax_roundtrip_first_block :
  forall a rest, wf_arg a -> arg_read false arg0 (enc_arg a ++ rest) = Some (to_arg3 a, rest).
Proof. exact arg_read_fresh. Qed.
(* … and REFUTED for the reader as it is on a reused column (F-C03b): ReadFrom never clears its receiver and Reset
   keeps the rows of the previous block *)
Theorem C03_argminmax_roundtrip_refuted :
  exists prev a, wf_arg a /\ arg_read false prev (enc_arg a) <> Some (to_arg3 a, []).
Proof. exact arg_read_faithful_refuted. Qed.

(* the whole row and the whole insert body read back intact (RowBinary reader for the column list of getTableDesc) *)
Theorem C03_row_roundtrip :
  forall r rest, wf_row r -> dec_row (enc_row r ++ rest) = Some (r, rest).
Proof. exact dec_row_enc. Qed.
Theorem C03_body_roundtrip :
  forall rs fuel, Forall wf_row rs -> (length rs <= fuel)%nat -> dec_body fuel (enc_body rs) = Some rs.
Proof. exact dec_body_enc. Qed.

(* "unique-count estimates are exact while a row holds fewer distinct values than the sketch's exact-mode limit"
   PARTIAL: the bound is on the number of hashes that went into the sketch (M = uniquesHashMaxSize), which bounds
   the number of distinct ones from above; set level of C04's model (tied to the table level by correspondence). *)
Theorem C03_unique_exact_below_limit_partial :
  forall M hs s,
  exact_inv s -> s_cnt s + Z.of_nat (length hs) <= M ->
  let r := fold_left (s_insert_hash M) hs s in
  exact_inv r /\
  (forall p, PS.In p (s_elems r) <-> PS.In p (s_elems s) \/ In (Zpos p) hs) /\
  s_zero r = s_zero s || existsb (fun h => h <=? 0) hs /\
  s_size_as_is r = card (s_elems r) + b2z (s_zero r).
Proof. exact unique_exact_below_limit. Qed.

(* "…with count, min, max, sum and sum-of-squares equal to the merge…" also depends on the skip flags the row writer
   takes from its per-insert metric cache: the repaired cache answers every lookup, after any earlier lookups, with the
   flags of that very metric (built-in, journal or unknown) … *)
Theorem C03_skip_flags_are_the_metrics_own_repaired :
  forall resolve, res_flags (resolve 0) = skips0 ->
  forall ids id, mc_run true mcache0 (map (fun i => (i, resolve i)) (ids ++ [id])) = res_flags (resolve id).
Proof. intros resolve Z ids id. exact (cache_fixed_exact resolve ids mcache0 id (cache0_inv resolve Z)). Qed.
(* … REFUTED for the cache as it is (F-C03c): a metric unknown to the journal, written twice in a row after a metric
   with skip flags, loses its sum of squares / min / max host on the second row *)
Theorem C03_skip_flags_are_the_metrics_own_refuted :
  exists resolve ids id, res_flags (resolve 0) = skips0 /\
    mc_run false mcache0 (map (fun i => (i, resolve i)) (ids ++ [id])) <> res_flags (resolve id).
Proof. exact cache_faithful_refuted. Qed.

(* ---------- non-vacuity ---------- *)

Definition ex_row : brow :=
  {| b_metric := 7; b_time := 1700000000;
     b_tags := (5, []) :: (0, [115; 49]) :: repeat (0, []) 45 ++ [(0, [116; 111; 112])];
     b_agg := [4611686018427387904; 4611686018427387904; 0; 4607182418800017408; 4607182418800017408; 4607182418800017408];
     b_cents := [(1065353216, 1073741824)];
     b_uskip := 0; b_ucnt := 2; b_uitems := [0; 12345];
     b_minh := AInt 9 1065353216; b_maxh := AStr [104] 1065353216; b_mch := AEmpty |}.

Lemma ex_row_wf : wf_row ex_row.
Proof.
  constructor; cbn [ex_row b_metric b_time b_tags b_agg b_cents b_uskip b_ucnt b_uitems b_minh b_maxh b_mch].
  - unfold wf_u32, two32; lia.
  - unfold wf_u32, two32; lia.
  - reflexivity.
  - apply Forall_forall. intros x H. cbn [In repeat app] in H.
    repeat (destruct H as [H|H]; [subst x; unfold wf_tag, wf_u32, zlen, two32; simpl; lia|]). contradiction.
  - reflexivity.
  - repeat apply Forall_cons; try apply Forall_nil; unfold two64; lia.
  - unfold zlen, two32; simpl; lia.
  - repeat apply Forall_cons; try apply Forall_nil; unfold wf_cent, wf_u32, two32; simpl; lia.
  - reflexivity.
  - unfold zlen, uniques_max_size; simpl; lia.
  - repeat apply Forall_cons; try apply Forall_nil; unfold wf_u32, two32; lia.
  - unfold wf_arg, wf_u32, two32. lia.
  - unfold wf_arg, wf_u32, two32, zlen. simpl. split; [discriminate | lia].
  - exact I.
Qed.

Example C03_nonvacuous_row : wf_row ex_row /\ dec_body 5 (enc_body [ex_row; ex_row]) = Some [ex_row; ex_row].
Proof. split; [exact ex_row_wf | vm_compute; reflexivity]. Qed.

(* a cell that took a counter contribution and a value contribution from two agents *)
Definition ex_t1 : tlval := {| tl_counter := 2; tl_min := 0; tl_max := 0; tl_sum := 0; tl_sumsq := 0; tl_uniques := None;
  tl_centroids := []; tl_maxh := 0; tl_minh := 0; tl_mch := 0; tl_maxhs := 0; tl_minhs := 0; tl_mchs := 0 |}.
Definition ex_t2 : tlval := {| tl_counter := 3; tl_min := 5; tl_max := 9; tl_sum := 21; tl_sumsq := 155; tl_uniques := None;
  tl_centroids := []; tl_maxh := 0; tl_minh := 0; tl_mch := 0; tl_maxhs := 0; tl_minhs := 0; tl_mchs := 0 |}.
Definition ex_hist : list (tlval * Z * Z * list Z) :=
  [(ex_t1, Z.setbit 0 bit_counter, 14, []);
   (ex_t2, Z.setbit (Z.setbit (Z.setbit (Z.setbit 0 bit_counter) bit_value_set) bit_value_min) bit_value_max, 16, [0])].

Example C03_nonvacuous_cell :
  exists r, cell_fold false mvalue0 ex_hist = Some r /\
            Qeq_bool (c_cnt (v_c (mv_v r))) 5 = true /\ Qeq_bool (v_sum (mv_v r)) 21 = true /\
            Qeq_bool (v_min (mv_v r)) 5 = true /\ v_set (mv_v r) = true /\
            Forall wfv (map accepted_of ex_hist).
Proof.
  eexists. split; [vm_compute; reflexivity|]. repeat split; try (vm_compute; reflexivity).
  repeat constructor; vm_compute; intuition discriminate.
Qed.

Example C03_nonvacuous_cache :
  res_flags (ex_resolve 0) = skips0 /\
  mc_run true mcache0 (map (fun i => (i, ex_resolve i)) ([5; 107] ++ [107])) = {| sk_max := true; sk_min := true; sk_sq := true |}.
Proof. split; reflexivity. Qed.

Example C03_nonvacuous_unique :
  let r := fold_left (s_insert_hash uniques_max_size) [5; 0; 5; 77] sk0 in
  exact_inv sk0 /\ s_cnt sk0 + 4 <= uniques_max_size /\ s_size_as_is r = 3 /\ s_skip r = 0.
Proof. vm_compute. repeat split; discriminate. Qed.
