(* C28 — PromQL expressions print to text that parses back to the same expression.
   Only the property theorems (closed by [exact]) and non-vacuity examples.

   Model: PromParse.Lexer (lex.go + number/duration/string conversion), PromParse.Parser (grammar of parse.y as a
   precedence-climbing parser + the actions of parse.go), PromParse.Printer (printer.go; DUAL: [print false] = the
   source as it is, [print true] = repaired), PromParse.Wf ([wf] = shape of the trees the parser produces,
   [norm] = the tree with matchers in printing order). [rx] = which regex matcher values compile (foreign code). *)
From Coq Require Import ZArith List Bool String.
From SH Require Import PromParse.Syntax Gen.PromParse PromParse.Lexer PromParse.Parser PromParse.Printer PromParse.Wf
  PromParse.Proofs PromParse.Refuted PromParse.Faithful PromParse.LexD PromParse.LexE PromParse.LexF PromParse.LexNum PromParse.Text.
Import ListNotations.
Open Scope string_scope.

(* "For every expression the parser accepts, printing it and parsing the printed text yields an equivalent syntax
   tree (same operators, operands, grouping, matchers, ranges, offsets and StatsHouse extensions)".
   PARTIAL in three respects, each covered by the correspondence run instead of a proof:
   (1) token level: the theorem is about the token sequence [toks e] of the printed text; that the printed text
       lexes to exactly these tokens is checked by computation on every accepted case ([lex (print true e) = Some (toks e)]);
   (2) "the parser accepts" is replaced by [wf], which every tree returned by ParseExpr and by the model parser is
       checked to satisfy on every case;
   (3) it is about the REPAIRED printer ([print true]); for the printer in the source see the _refuted theorems.
   Full grammar: literals, parentheses, unary/binary operators with bool/on/ignoring/group_left/group_right,
   selectors with matchers (incl. @what-style and bind matchers), ranges, @, offset, offset lists, subqueries,
   calls, aggregations with by/without and parameters. *)
Theorem C28_parse_print_tokens_partial :
  forall rx e, wf rx e = true -> ptop rx (toks e) = Some (norm e).
Proof. exact ptop_toks. Qed.

Theorem C28_parse_print_partial :
  forall rx e, wf rx e = true -> lex (print true e) = Some (toks e) -> parse rx (print true e) = Some (norm e).
Proof. exact parse_print. Qed.

(* printing is injective up to normalisation: two well-formed trees with the same printed text are equivalent *)
Theorem C28_print_injective_on_norm_partial :
  forall rx e1 e2, wf rx e1 = true -> wf rx e2 = true ->
  lex (print true e1) = Some (toks e1) -> lex (print true e2) = Some (toks e2) ->
  print true e1 = print true e2 -> norm e1 = norm e2.
Proof. exact print_injective_on_norm. Qed.


(* ---- string level (the token/text boundary) -------------------------------------------------------------------
   "printing it and parsing the printed text": the printed text of a tree scans to exactly the token sequence the
   token-level theorem is about. [wfs] is the lexical side of well-formedness: metric names, labels and the
   function name are words, matcher names are alphanumeric, offset lists do not start with a negative entry (the
   scanner rejects "[-"), and every duration / number literal / @ timestamp is one whose printed text scans back
   ([dur_rt], [durb_rt], [num_rt], [ms_rt]: proved below for all non-zero durations below 2^33 s and for NaN and
   +-Inf; for decimal literals and @ timestamps the condition stays a premise and is checked by computation on
   every correspondence case). Proved for all trees: words, keywords, operators, brackets, braces, commas, quoted
   strings (strconv.Quote read back by the Unquote model, all 256 byte values), separators between adjacent
   tokens, the scanner's brace / bracket / colon / parenthesis state. *)
Theorem C28_lex_print : forall e, wfs e -> lex (print true e) = Some (toks e).
Proof. exact lex_print. Qed.

(* the round trip through the text: no lexing premise any more *)
Theorem C28_parse_print_text :
  forall rx e, wf rx e = true -> wfs e -> parse rx (print true e) = Some (norm e).
Proof. exact parse_print_text. Qed.

(* the conditions on durations hold for every non-zero duration below 2^33 seconds (272 years) *)
Theorem C28_durations_scan_back :
  (forall d, d <> 0%Z -> (Z.abs d < 2 ^ 33)%Z -> dur_rt d) /\ (forall d, (0 < d < 2 ^ 33)%Z -> durb_rt d).
Proof. exact (conj dur_rt_ok durb_rt_ok). Qed.
Theorem C28_special_numbers_scan_back : num_rt (mkNum false MNaN) /\ (forall ng, num_rt (mkNum ng MInf)).
Proof. exact (conj num_rt_nan num_rt_inf). Qed.

(* ---- the printer AS IT IS in the source ----------------------------------------------------------------------
   [finding_free e]: e contains none of the shapes of F-C28a..g (instant selector with offset, subquery, offset
   list, group modifier after empty ignoring(), zero range, selector printing as "", and - conservatively for
   F-C28g - no positive-infinity literal). On such trees printer.go and the repaired printer produce the same text,
   so the round trip holds for the code as it is. *)
Theorem C28_faithful_printer_outside_findings :
  forall e, finding_free e = true -> print false e = print true e.
Proof. exact faithful_is_repaired. Qed.

Theorem C28_parse_print_faithful :
  forall rx e, finding_free e = true -> wf rx e = true -> wfs e -> parse rx (print false e) = Some (norm e).
Proof. exact parse_print_faithful. Qed.

(* REFUTED for the printer as it is in the source ([print false], the faithful variant of the dual model); every
   witness is replayed on the real ParseExpr/String by the harness each run (findings F-C28a..f), and the repaired
   variant round-trips on the same witness. *)

(* F-C28a: "…offsets": an instant selector's offset is printed without a unit *)
Theorem C28_roundtrip_vector_offset_refuted : breaks false "foo offset 5m".
Proof. exact vector_offset_breaks. Qed.
(* F-C28b: "…ranges": a subquery's range/step are printed without units *)
Theorem C28_roundtrip_subquery_refuted : breaks false "rate(foo[5m])[10m:1m]".
Proof. exact subquery_breaks. Qed.
(* F-C28c: "…StatsHouse extensions": the offset list is not printed at all *)
Theorem C28_roundtrip_offset_list_refuted : breaks false "foo offset [1m, 2m]".
Proof. exact offset_list_breaks. Qed.
(* F-C28d: "…grouping": group_left/group_right after an empty ignoring() is not printed *)
Theorem C28_roundtrip_group_modifier_refuted : breaks false "a + ignoring() group_left(x) b".
Proof. exact group_modifier_breaks. Qed.
(* F-C28e: "…ranges": a range that rounds to zero seconds prints as 0s, which is rejected *)
Theorem C28_roundtrip_zero_range_refuted : breaks false "foo[0s499ms]".
Proof. exact zero_range_breaks. Qed.
(* F-C28f: "…matchers": a selector without name and printable matchers prints as the empty string *)
Theorem C28_roundtrip_empty_selector_refuted : breaks false "{}".
Proof. exact empty_selector_breaks. Qed.

(* F-C28g: "…operands": the literal +Inf is printed with its sign, which is parsed back as a unary operator over
   the whole power expression / subquery it starts *)
Theorem C28_roundtrip_pos_inf_refuted : breaks false "Inf ^ 2".
Proof. exact pos_inf_breaks. Qed.

(* the repaired printer on the same witnesses *)
Theorem C28_repaired_on_witnesses :
  holds true "foo offset 5m" /\ holds true "rate(foo[5m])[10m:1m]" /\ holds true "foo offset [1m, 2m]" /\
  holds true "a + ignoring() group_left(x) b" /\ holds true "foo[0s499ms]" /\ holds true "{}" /\ holds true "Inf ^ 2".
Proof.
  exact (conj vector_offset_repaired (conj subquery_repaired (conj offset_list_repaired
        (conj group_modifier_repaired (conj zero_range_repaired (conj empty_selector_repaired pos_inf_repaired)))))).
Qed.

(* non-vacuity: a tree using most of the grammar is well-formed, its printed text lexes to [toks], and the
   conclusion is not trivial (normalisation reorders the matchers) *)
Definition sample : string :=
  "sum without (job, by) (rate(http_requests_total{job=~""api.*"",@what=""count"",env!=""dev""}[5m] offset -1h @ 1700000000.5)) / on (instance) group_left (x) -topk(3, (a + b) ^ 2 ^ c[10m:1m] offset [1m, 2m]) or sum:x{a:$v} @ end() > bool 1.5e+06".
Example C28_nonvacuous_sample :
  exists e, parse rx_all sample = Some e /\ wf rx_all e = true /\ lex (print true e) = Some (toks e) /\
            parse rx_all (print true e) = Some (norm e) /\ norm e <> e.
Proof. eexists. split; [vm_compute; reflexivity|]. split; [vm_compute; reflexivity|]. split; [vm_compute; reflexivity|]. split; [vm_compute; reflexivity|]. vm_compute. congruence. Qed.

(* non-vacuity of the text-level theorems: a tree with an aggregation, a call, a range selector with regex matcher,
   @ end(), a negative offset, a binary operator with bool / on / group_left and a unary operand satisfies every
   premise ([wf], [wfs] - established from the lemmas, not by scanning its text - and [finding_free]), so both the
   repaired and the unmodified printer round-trip on it *)
Example C28_nonvacuous_text :
  wf rx_all sample_tree = true /\ wfs sample_tree /\ finding_free sample_tree = true /\
  parse rx_all (print false sample_tree) = Some (norm sample_tree).
Proof.
  split; [vm_compute; reflexivity|]. split; [exact sample_wfs|]. split; [vm_compute; reflexivity|].
  apply parse_print_faithful; [vm_compute; reflexivity | vm_compute; reflexivity | exact sample_wfs].
Qed.
