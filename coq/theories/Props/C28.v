(* C28 — PromQL expressions print to text that parses back to the same expression.
   Only the property theorems (closed by [exact]) and non-vacuity examples. *)
From Coq Require Import ZArith List Bool String.
From SH Require Import PromParse.Syntax Gen.PromParse PromParse.Lexer PromParse.Parser PromParse.Printer PromParse.Refuted.
Open Scope string_scope.

(* "For every expression the parser accepts, printing it and parsing the printed text yields an equivalent
   syntax tree (… ranges, offsets and StatsHouse extensions)" — REFUTED for the printer as it is in the source
   ([print false], the faithful variant of the dual model); every witness is replayed on the real code. *)

(* F-C28a: an instant selector's offset is printed without a unit *)
Theorem C28_roundtrip_vector_offset_refuted : breaks false "foo offset 5m".
Proof. exact vector_offset_breaks. Qed.
(* F-C28b: a subquery's range/step are printed without units *)
Theorem C28_roundtrip_subquery_refuted : breaks false "rate(foo[5m])[10m:1m]".
Proof. exact subquery_breaks. Qed.
(* F-C28c: the StatsHouse offset list is not printed at all *)
Theorem C28_roundtrip_offset_list_refuted : breaks false "foo offset [1m, 2m]".
Proof. exact offset_list_breaks. Qed.
(* F-C28d: group_left/group_right after an empty ignoring() is not printed *)
Theorem C28_roundtrip_group_modifier_refuted : breaks false "a + ignoring() group_left(x) b".
Proof. exact group_modifier_breaks. Qed.
(* F-C28e: a range that rounds to zero seconds prints as 0s *)
Theorem C28_roundtrip_zero_range_refuted : breaks false "foo[0s499ms]".
Proof. exact zero_range_breaks. Qed.
(* F-C28f: a selector without name and printable matchers prints as the empty string *)
Theorem C28_roundtrip_empty_selector_refuted : breaks false "{}".
Proof. exact empty_selector_breaks. Qed.
