(* C10 — Shard and replica routing is deterministic and consistent end to end.
   This file holds only the property theorems (closed by [exact]) and non-vacuity examples. *)
From Coq Require Import ZArith List Bool.
From SH Require Import Common.Wrap Routing.Model Routing.Proofs Gen.Filing Routing.GenTie.
Open Scope Z_scope.

(* "the shard an agent writes to is within the configured shard count … a secondary shard, when
   configured, differs from the primary" *)
Theorem C10_shard_in_range_and_secondary_differs :
  forall km kh m cnt ns n ok s2,
  wf_meta m -> is_u64 kh -> is_u32 cnt -> 0 < cnt -> 0 < ns ->
  agent_shard km kh m cnt ns = (n, ok, s2) ->
  0 <= n < ns /\ (forall n2, s2 = Some n2 -> 0 <= n2 < ns /\ n2 <> n).
Proof. exact agent_shard_in_range. Qed.

(* "…for fixed or by-metric sharding equals the shard the API reads that metric from" *)
Theorem C10_agent_api_agree :
  forall km kh m cnt ns n s2,
  wf_meta m -> is_u32 cnt -> 0 < cnt -> km = m_metric_id m ->
  api_sharded m = true ->
  agent_shard km kh m cnt ns = (n, true, s2) ->
  api_shard m cnt = n.
Proof. exact agent_api_agree. Qed.

(* tags-hash sharding stays inside the shard count for every 64-bit hash *)
Theorem C10_hash_shard_in_range :
  forall h n, is_u64 h -> is_u32 n -> 0 < n -> 0 <= shard_by_mapped_tags h n < n.
Proof. exact shard_by_mapped_tags_range. Qed.

(* "Each second goes to one primary replica, its spare is always a different replica" — including
   the uint32 wrap of timestamp+1+timestamp%2 *)
Theorem C10_spare_differs_from_primary :
  forall t, is_u32 t -> spare_shift t <> primary_shift t.
Proof. exact spare_differs_from_primary. Qed.

Theorem C10_replica_choice :
  forall alive t r sp, is_u32 t -> replica_for_second alive t = Some (r, sp) ->
  alive r = true /\ 0 <= r < 3 /\
  (sp = false -> r = primary_shift t) /\
  (sp = true -> alive (primary_shift t) = false /\ r = spare_shift t /\ r <> primary_shift t).
Proof. exact replica_for_second_spec. Qed.

(* "the two remaining replicas share spare traffic": the two seconds of any six-second period that
   have the same primary use the two different other replicas as spares *)
Theorem C10_spares_cover_other_two :
  forall t, 0 <= t -> t + 5 < two32 ->
  primary_shift (t + 3) = primary_shift t /\
  spare_shift (t + 3) <> spare_shift t /\
  spare_shift t <> primary_shift t /\ spare_shift (t + 3) <> primary_shift t.
Proof. exact spares_cover_other_two. Qed.

(* "the aggregator files every accepted second into a bucket it will itself insert at most two seconds
   later, or into its historic queue" *)
Theorem C10_filed_bucket_inserted_by_self :
  forall historic t oldest newest hw rk f,
  0 <= t -> t + 2 < two32 -> 1 <= rk <= 3 ->
  file_bucket historic t oldest newest hw rk = Some f ->
  match f with
  | FRecent r => r mod 3 = rk - 1 /\ t <= r <= t + 2 /\ oldest <= r <= newest
  | FHistoric t' => historic = true /\ t' = t
  | FKeep => historic = false
  | FDiscard => True
  end.
Proof. exact file_bucket_spec. Qed.

Theorem C10_rounding_total :
  forall t rk, 0 <= t -> t + 2 < two32 -> 1 <= rk <= 3 ->
  exists r, round_to_our_time 3 t rk = Some r /\ r mod 3 = rk - 1 /\ t <= r <= t + 2.
Proof. exact round_to_our_time_total. Qed.

(* a second filed into the recent window is one the insert ticker of this replica hands to the inserter *)
Theorem C10_filed_recent_is_sent_by_ticker :
  forall historic t oldest newest hw rk r,
  0 <= t -> t + 2 < two32 -> 1 <= rk <= 3 ->
  file_bucket historic t oldest newest hw rk = Some (FRecent r) -> ticker_inserts r rk = true.
Proof. exact filed_recent_is_sent_by_ticker. Qed.

(* The model of the rounding loop, of the filing decision and of the ticker filter IS what the source
   says: Gen/Filing.v is re-generated from aggregator_handlers.go / aggregator.go on every run. *)
Theorem C10_model_is_handler_source_round :
  forall t r rk, gen_round_init t = t /\ gen_round_continue r rk = negb (r mod 3 =? u32 (rk - 1)) /\ gen_round_step r = u32 (r + 1).
Proof. exact gen_round_tie. Qed.

Theorem C10_model_is_handler_source_filing :
  forall h t r oldest newest hw, is_u32 r -> is_u32 oldest ->
  gen_file h t r oldest newest hw = file_decision h t r oldest newest hw.
Proof. exact gen_file_tie. Qed.

Theorem C10_model_is_ticker_source :
  forall bt rk, gen_ticker_skip bt rk = negb (ticker_inserts bt rk).
Proof. exact gen_ticker_tie. Qed.

(* non-vacuity: concrete configurations satisfying the premises, with non-trivial outcomes *)
Definition ex_meta := {| m_metric_id := -1001; m_fixed_key := 0; m_fixed_key2 := 3; m_strategy := SByMetricID; m_shard_num := 0 |}.
Example C10_nonvacuous_shard :
  wf_meta ex_meta /\ agent_shard (-1001) 0 ex_meta 16 16 = (7, true, Some 2) /\ api_shard ex_meta 16 = 7.
Proof. unfold wf_meta, is_i32, is_u32, two31, two32. vm_compute. intuition congruence. Qed.
Example C10_nonvacuous_file :
  file_bucket false 1000 999 1006 86400 3 = Some (FRecent 1001) /\
  file_bucket true 1000 1003 1009 86400 1 = Some (FHistoric 1000) /\
  replica_for_second (fun r => negb (r =? 1)) 1000 = Some (2, true).
Proof. vm_compute. auto. Qed.
