(* C01 — Accepted metric data is never silently lost between agent and storage.
   Only the property theorems (closed by [exact]) and non-vacuity examples. *)
From Coq Require Import ZArith List Bool.
From SH Require Import Common.Wrap Routing.Model Gen.PipelineConsts Pipeline.Model Pipeline.ProofsAgent Pipeline.ProofsAgg Pipeline.Proofs Pipeline.ProofsLive.
Import ListNotations.
Open Scope Z_scope.

(* "An agent forgets a buffered second (in memory or on disk) only after an aggregator acknowledged it"
   For EVERY history of the agent shard (any interleaving of sendToSenders, goSendRecent, the historic senders, the
   eraser, any answers/errors, any restarts): an accepted second that is in none of the sender goroutines' hands,
   historicBucketsToSend and the disk cache has a logged exit: a consumed discard response, or one of the drops the
   code performs on purpose and reports (left the historic window; memory limit while not on disk; disk size limit;
   no data and no disk; process restart while in memory only).  Nothing else removes a second. *)
Theorem C01_forget_only_after_ack :
  forall disk_on ops a ev k,
  arun (agent_init disk_on) ops = (a, ev) -> In (EvAccept k) ev ->
  present a k \/ In (EvAck k) ev \/ exists r, In (EvDrop k r) ev.
Proof. exact forget_only_after_ack. Qed.

(* "...only after an aggregator acknowledged it": the acknowledgement is logged by exactly the two steps that consume
   a response carrying the discard bit (sendRecent returning true, sendHistoric seeing IsSetDiscard) *)
Theorem C01_ack_is_a_discard_response :
  forall a o a' ev ob k, astep a o = (a', ev, ob) -> In (EvAck k) ev ->
  (exists now dok over, o = ORecentFinish k now ADiscard dok over) \/ (exists now hw, o = OHistIter k now hw ADiscard).
Proof. exact ack_needs_discard. Qed.

(* "an aggregator acknowledges a second only after an insert containing that second's rows succeeded or after it
   deliberately rejected the second"
   For EVERY history of an aggregator replica (requests, ticks with any conveyor state, inserts that fail or succeed,
   client disconnects, shutdown, restarts): a discard answer that is not a rejection (GvReject carries its reason:
   undecodable, wrong shard, outdated agent, too far in the future, beyond the historic window — at once or after
   waiting in the historic queue) is preceded in the event order by a successful INSERT whose body contains the
   bucket this second was merged into. *)
Theorem C01_ack_only_after_insert_or_reject :
  forall now sw rk ops g ev,
  grun (agg_init now sw rk) ops = (g, ev) ->
  forall e1 r e2, ev = e1 ++ GvAck r :: e2 ->
  exists f1 ks f2, e1 = f1 ++ GvInsert true ks :: f2 /\ In (r_key r) ks.
Proof. exact ack_only_after_insert_or_reject. Qed.

(* the answers the model gives outside the filing decision are the ones in the source (Gen/PipelineConsts.v is
   re-generated from aggregator.go / aggregator_handlers.go on every run): discard := (sendErr == nil) after the
   insert, stale historic buckets discard, conveyor-full answers carry no discard, undecodable / old agent / wrong
   shard discard, shutdown hijacks without answering *)
Theorem C01_model_answers_are_source_answers :
  forall ok r,
  insert_answer ok r = (if ok then GvAck r else GvError r) /\ full_answer r = GvKeep r /\
  gen_stale_discard ok = true /\
  forallb (fun x => x) gen_undecodable_discard = true /\ gen_old_agent_discard = true /\ gen_wrong_shard_discard = true /\
  gen_shutdown_discard = false /\ gen_shutdown_hijacks = true.
Proof. exact gen_answers_tie. Qed.

(* the agent-visible answer after a FAILED insert is an rpc error whatever discard bit the aggregator wrote into the
   response body (goInsert passes sendErr to SendLongpollResponse; the rpc layer then sends the error instead of the
   body): a change of that bit alone (e.g. SetDiscard(true)) is harmless, and the check stays green on it *)
Theorem C01_failed_insert_answer_is_error_whatever_discard_bit :
  forall (flag : bool -> bool) r,
  (if negb false && gen_insert_sends_err then GvError r else if flag false then GvAck r else GvKeep r) = GvError r.
Proof. exact failed_insert_is_error_whatever_flag. Qed.

(* Both clauses together, over all interleavings of one agent shard with the three replicas of its aggregator shard,
   "under any sequence of insert failures, lost responses, aggregator restarts and replica failover": an accepted
   second is still buffered by the agent, or its rows were in a successful INSERT, or it was deliberately rejected
   (with the reason), or deliberately dropped by the agent (with the reason). *)
Theorem C01_no_silent_loss :
  forall disk_on now sw s k,
  sreach (sys_init disk_on now sw) s -> In (EvAccept k) (s_alog s) ->
  present (s_agent s) k
  \/ In k (store_of (s_glog s))
  \/ (exists r j, r_key r = k /\ In (GvReject r j) (s_glog s))
  \/ (exists x, In (EvDrop k x) (s_alog s)).
Proof. exact no_silent_loss. Qed.

(* "every second that stays inside the historic window is eventually inserted at least once" — PARTIAL (bounded form).
   From EVERY reachable state of the composed system, for the second the historic conveyor holds (popped, in a sender's
   hands), any replica i that is up: the fault-free continuation [round_ops] (the replica's clock passes its window,
   the request arrives, the clock passes the fresh window, the inserters work through the conveyor with every INSERT
   succeeding, the answer arrives) is a sequence of real steps of the system, of explicit length
   [round_len g sw] = 4 + (buckets on the conveyor + buckets of the recent window + ShortWindow + FutureWindow),
   and ends with the second's rows in the store and the acknowledgement consumed by the agent.  Premises: the second is
   not in the replica's future, stays inside the historic window for the length of the round (margin of
   ShortWindow + 4 s), has its data (memory or disk), no uint32 wrap of the clocks.
   NOT proved: the same for a second that is not the oldest one (it needs one round per older buffered second:
   [drain] for n > 1), and that real schedules are fair. *)
Theorem C01_inserted_within_one_round_partial :
  forall disk_on now0 sw0 s i g it now sw hw,
  sreach (sys_init disk_on now0 sw0) s ->
  nth_error (s_aggs s) i = Some g -> g_down g = false -> 1 <= g_rk g <= 3 ->
  find_item (it_key it) (a_out (s_agent s)) = Some it ->
  out_of_window now (it_time it) hw = false -> (it_data it = true \/ a_disk_on (s_agent s) = true) ->
  0 <= sw -> 0 <= it_time it -> sw <= flush_time g sw -> flush_time g sw + sw + 8 < two32 ->
  it_time it + 2 <= flush_time g sw + 3 ->
  flush_time g sw + 4 <= it_time it + hw ->
  let s' := srun s (round_ops s i it now sw hw) in
  sreach (sys_init disk_on now0 sw0) s' /\ In (it_key it) (store_of (s_glog s')) /\ In (EvAck (it_key it)) (s_alog s') /\
  length (round_ops s i it now sw hw) = round_len g sw.
Proof. exact drain_round_progress. Qed.

(* the executable continuation [drain : sys -> clock -> ShortWindow -> HistoricWindow -> rounds -> sys] (primary replica
   of each second, all replicas up), first round *)
Theorem C01_drain_first_round_partial :
  forall disk_on now0 sw0 s g it rest clock sw hw,
  sreach (sys_init disk_on now0 sw0) s ->
  a_out (s_agent s) = it :: rest ->
  nth_error (s_aggs s) (Z.to_nat (primary_shift (it_time it))) = Some g -> g_down g = false -> 1 <= g_rk g <= 3 ->
  out_of_window (clock O) (it_time it) hw = false -> (it_data it = true \/ a_disk_on (s_agent s) = true) ->
  0 <= sw -> 0 <= it_time it -> sw <= flush_time g sw -> flush_time g sw + sw + 8 < two32 ->
  it_time it + 2 <= flush_time g sw + 3 ->
  flush_time g sw + 4 <= it_time it + hw ->
  let s' := drain s clock sw hw 1 in
  sreach (sys_init disk_on now0 sw0) s' /\ In (it_key it) (store_of (s_glog s')) /\ In (EvAck (it_key it)) (s_alog s').
Proof. exact drain_first_round. Qed.

(* the unbounded statement, under [fair] (ProofsLive.v): a run in which every buffered second eventually gets one
   fault-free round while it is inside the window inserts every buffered second.  [fair] is a hypothesis about the
   schedule and the environment ("faults eventually stop" for the length of a round); it is not derived from the code. *)
Theorem C01_fair_runs_deliver_partial :
  forall disk_on now0 sw0 ru, is_run (sys_init disk_on now0 sw0) ru -> fair ru ->
  forall n k, present (s_agent (ru n)) k -> exists m', In k (store_of (s_glog (ru m'))).
Proof. exact fair_runs_deliver. Qed.

(* ---- non-vacuity ---- *)
(* agent: second 0 (t=1000) is saved before sending, the recent send fails (lost response), it goes through the
   historic queue, gets "keep" once, then discard: acknowledged and gone.  Second 1 is lost by a restart while in
   memory only (disk write refused), second 2 survives the restart on disk and is re-read. *)
Definition ex_agent_ops : list aop :=
  [ ORecentBegin 0%nat 1000 true true; ORecentFinish 0%nat 1003 AError true false;
    ORecentBegin 1%nat 1001 false false; ORecentFinish 1%nat 1003 AKeep false false;
    OAcceptFull 2%nat 1002 true false;
    OPop 1010; OHistIter 0%nat 1010 86400 AKeep; OHistIter 0%nat 1011 86400 ADiscard;
    ORestart 48%nat ].
Example C01_nonvacuous_agent :
  arun (agent_init true) ex_agent_ops =
  ({| a_mem := []; a_hist := [{| it_key := 2%nat; it_time := 1002; it_id := 1; it_data := false |}]; a_out := [];
      a_disk := [{| d_key := 2%nat; d_time := 1002; d_id := 1 |}]; a_next := 1; a_disk_on := true |},
   [EvAccept 0%nat; EvSent 0%nat false; EvAccept 1%nat; EvSent 1%nat false; EvAccept 2%nat; EvSent 0%nat true;
    EvSent 0%nat true; EvAck 0%nat; EvDrop 1%nat XCrash]).
Proof. vm_compute. reflexivity. Qed.

(* aggregator (replica 1, clock 1000000, ShortWindow 5): a recent second is filed, its insert FAILS (error, no ack);
   the agent's historic resend is filed into the historic queue and inserted with the next own bucket: ack after a
   successful insert whose body has the second; a late recent send gets "keep"; a stale one is rejected *)
Definition ex_req (id : nat) (k : key) (t : Z) (h : bool) : req := {| r_id := id; r_key := k; r_time := t; r_hist := h |}.
Definition ex_flags := {| f_decodable := true; f_shard_ok := true; f_old_agent := false |}.
Definition ex_agg_ops : list gop :=
  [ GRecv (ex_req 1%nat 7%nat 999996 false) ex_flags true 86400;
    GTick 1000002 5 [true];
    GInsert false 1%nat 86400;
    GRecv (ex_req 2%nat 7%nat 999996 true) ex_flags true 86400;
    GRecv (ex_req 3%nat 8%nat 999990 false) ex_flags true 86400;
    GRecv (ex_req 4%nat 9%nat 100 true) ex_flags true 86400;
    GTick 1000005 5 [true];
    GInsert true 1%nat 86400 ].
Example C01_nonvacuous_agg :
  let '(g, ev) := grun (agg_init 1000000 5 1) ex_agg_ops in
  ev = [ GvInsert false [7%nat]; GvError (ex_req 1%nat 7%nat 999996 false);
         GvKeep (ex_req 3%nat 8%nat 999990 false);
         GvReject (ex_req 4%nat 9%nat 100 true) JBeyondWindow;
         GvInsert true [7%nat]; GvAck (ex_req 2%nat 7%nat 999996 true) ]
  /\ store_of ev = [7%nat].
Proof. vm_compute. split; reflexivity. Qed.

(* the composed system makes steps: an agent step justified by an aggregator's answer *)
Example C01_nonvacuous_sys :
  exists s, sreach (sys_init true 1000 5) s /\ In (EvAccept 0%nat) (s_alog s).
Proof.
  eexists. split.
  - eapply SR_step; [apply SR_init|]. eapply (SS_agent _ (ORecentBegin 0%nat 1000 true true)); [exact I|reflexivity].
  - simpl. left. reflexivity.
Qed.

(* the progress theorem's premises are satisfiable: after an accept, a failed recent send and a pop, one round of the
   continuation on replica 1 (index 0) puts the second into the store *)
Definition ex_live_s : sys :=
  srun (sys_init true 1000000 5)
    [SAgent (ORecentBegin 0%nat 999996 true true); SAgent (ORecentFinish 0%nat 999999 AError true false); SAgent (OPop 1000001)].
Definition ex_live_it : item := {| it_key := 0%nat; it_time := 999996; it_id := 1; it_data := true |}.
Example C01_nonvacuous_round :
  a_out (s_agent ex_live_s) = [ex_live_it] /\
  option_map (fun g => (g_down g, flush_time g 5, round_len g 5)) (nth_error (s_aggs ex_live_s) 0) = Some (false, 1000009, 22%nat) /\
  (let s' := srun ex_live_s (round_ops ex_live_s 0 ex_live_it 1000002 5 86400) in
   (store_of (s_glog s'), s_alog s', length (round_ops ex_live_s 0 ex_live_it 1000002 5 86400)))
  = ([0%nat], [EvAccept 0%nat; EvSent 0%nat false; EvSent 0%nat true; EvAck 0%nat], 22%nat).
Proof. vm_compute. repeat split; reflexivity. Qed.
