(* C01 — Accepted metric data is never silently lost between agent and storage.
   Only the property theorems (closed by [exact]) and non-vacuity examples. *)
From Coq Require Import ZArith List Bool.
From SH Require Import Common.Wrap Routing.Model Gen.PipelineConsts Pipeline.Model Pipeline.ProofsAgent Pipeline.ProofsAgg Pipeline.Proofs.
Import ListNotations.
Open Scope Z_scope.

(* "An agent forgets a buffered second (in memory or on disk) only after an aggregator acknowledged it"
   For EVERY history of the agent shard (any interleaving of sendToSenders, goSendRecent, the historic senders, the
   eraser, any answers/errors, any restarts): an accepted second that is in none of the sender goroutines' hands,
   historicBucketsToSend and the disk cache has a logged exit: a consumed discard response, or one of the drops the
   code performs on purpose and reports (left the historic window; memory limit while not on disk; disk size limit;
   no data and no disk; process restart while in memory only).  Nothing else removes a second. *)
Theorem C01_forget_only_after_ack :
  forall disk_on ops a ev k,
  arun (agent_init disk_on) ops = (a, ev) -> In (EvAccept k) ev ->
  present a k \/ In (EvAck k) ev \/ exists r, In (EvDrop k r) ev.
Proof. exact forget_only_after_ack. Qed.

(* "...only after an aggregator acknowledged it": the acknowledgement is logged by exactly the two steps that consume
   a response carrying the discard bit (sendRecent returning true, sendHistoric seeing IsSetDiscard) *)
Theorem C01_ack_is_a_discard_response :
  forall a o a' ev ob k, astep a o = (a', ev, ob) -> In (EvAck k) ev ->
  (exists now dok over, o = ORecentFinish k now ADiscard dok over) \/ (exists now hw, o = OHistIter k now hw ADiscard).
Proof. exact ack_needs_discard. Qed.

(* "an aggregator acknowledges a second only after an insert containing that second's rows succeeded or after it
   deliberately rejected the second"
   For EVERY history of an aggregator replica (requests, ticks with any conveyor state, inserts that fail or succeed,
   client disconnects, shutdown, restarts): a discard answer that is not a rejection (GvReject carries its reason:
   undecodable, wrong shard, outdated agent, too far in the future, beyond the historic window — at once or after
   waiting in the historic queue) is preceded in the event order by a successful INSERT whose body contains the
   bucket this second was merged into. *)
Theorem C01_ack_only_after_insert_or_reject :
  forall now sw rk ops g ev,
  grun (agg_init now sw rk) ops = (g, ev) ->
  forall e1 r e2, ev = e1 ++ GvAck r :: e2 ->
  exists f1 ks f2, e1 = f1 ++ GvInsert true ks :: f2 /\ In (r_key r) ks.
Proof. exact ack_only_after_insert_or_reject. Qed.

(* the answers the model gives outside the filing decision are the ones in the source (Gen/PipelineConsts.v is
   re-generated from aggregator.go / aggregator_handlers.go on every run): discard := (sendErr == nil) after the
   insert, stale historic buckets discard, conveyor-full answers carry no discard, undecodable / old agent / wrong
   shard discard, shutdown hijacks without answering *)
Theorem C01_model_answers_are_source_answers :
  forall ok,
  gen_insert_discard ok = ok /\ gen_stale_discard ok = true /\ gen_full_discard ok = false /\
  forallb (fun x => x) gen_undecodable_discard = true /\ gen_old_agent_discard = true /\ gen_wrong_shard_discard = true /\
  gen_shutdown_discard = false /\ gen_shutdown_hijacks = true.
Proof. exact gen_answers_tie. Qed.

(* Both clauses together, over all interleavings of one agent shard with the three replicas of its aggregator shard,
   "under any sequence of insert failures, lost responses, aggregator restarts and replica failover": an accepted
   second is still buffered by the agent, or its rows were in a successful INSERT, or it was deliberately rejected
   (with the reason), or deliberately dropped by the agent (with the reason). *)
Theorem C01_no_silent_loss :
  forall disk_on now sw s k,
  sreach (sys_init disk_on now sw) s -> In (EvAccept k) (s_alog s) ->
  present (s_agent s) k
  \/ In k (store_of (s_glog s))
  \/ (exists r j, r_key r = k /\ In (GvReject r j) (s_glog s))
  \/ (exists x, In (EvDrop k x) (s_alog s)).
Proof. exact no_silent_loss. Qed.

(* "every second that stays inside the historic window is eventually inserted at least once" — PARTIAL.
   Proved: one step of progress on the aggregator side (a request waiting in the bucket at the head of the insert queue
   is acknowledged, with its second in the store, by one insert step whose INSERT succeeds).  Together with the safety
   theorem above (a buffered second is never dropped while inside the window and resources suffice, so it is re-sent)
   this is "no loss, and progress whenever an insert succeeds".  NOT proved: the unconditional "eventually" over
   infinite fair runs (it needs fairness of the senders/ticker and "faults eventually stop"); see the check's notes. *)
Theorem C01_inserted_at_least_once_partial :
  forall g b q r n hw g' ev,
  g_queue g = b :: q -> In r (b_contrib b) -> binv b -> ginsert g true n hw = (g', ev) ->
  In (r_key r) (store_of ev) /\ In (GvAck r) ev.
Proof. exact queue_head_inserted. Qed.

(* ---- non-vacuity ---- *)
(* agent: second 0 (t=1000) is saved before sending, the recent send fails (lost response), it goes through the
   historic queue, gets "keep" once, then discard: acknowledged and gone.  Second 1 is lost by a restart while in
   memory only (disk write refused), second 2 survives the restart on disk and is re-read. *)
Definition ex_agent_ops : list aop :=
  [ ORecentBegin 0%nat 1000 true true; ORecentFinish 0%nat 1003 AError true false;
    ORecentBegin 1%nat 1001 false false; ORecentFinish 1%nat 1003 AKeep false false;
    OAcceptFull 2%nat 1002 true false;
    OPop 1010; OHistIter 0%nat 1010 86400 AKeep; OHistIter 0%nat 1011 86400 ADiscard;
    ORestart 48%nat ].
Example C01_nonvacuous_agent :
  arun (agent_init true) ex_agent_ops =
  ({| a_mem := []; a_hist := [{| it_key := 2%nat; it_time := 1002; it_id := 1; it_data := false |}]; a_out := [];
      a_disk := [{| d_key := 2%nat; d_time := 1002; d_id := 1 |}]; a_next := 1; a_disk_on := true |},
   [EvAccept 0%nat; EvSent 0%nat false; EvAccept 1%nat; EvSent 1%nat false; EvAccept 2%nat; EvSent 0%nat true;
    EvSent 0%nat true; EvAck 0%nat; EvDrop 1%nat XCrash]).
Proof. vm_compute. reflexivity. Qed.

(* aggregator (replica 1, clock 1000000, ShortWindow 5): a recent second is filed, its insert FAILS (error, no ack);
   the agent's historic resend is filed into the historic queue and inserted with the next own bucket: ack after a
   successful insert whose body has the second; a late recent send gets "keep"; a stale one is rejected *)
Definition ex_req (id : nat) (k : key) (t : Z) (h : bool) : req := {| r_id := id; r_key := k; r_time := t; r_hist := h |}.
Definition ex_flags := {| f_decodable := true; f_shard_ok := true; f_old_agent := false |}.
Definition ex_agg_ops : list gop :=
  [ GRecv (ex_req 1%nat 7%nat 999996 false) ex_flags true 86400;
    GTick 1000002 5 [true];
    GInsert false 1%nat 86400;
    GRecv (ex_req 2%nat 7%nat 999996 true) ex_flags true 86400;
    GRecv (ex_req 3%nat 8%nat 999990 false) ex_flags true 86400;
    GRecv (ex_req 4%nat 9%nat 100 true) ex_flags true 86400;
    GTick 1000005 5 [true];
    GInsert true 1%nat 86400 ].
Example C01_nonvacuous_agg :
  let '(g, ev) := grun (agg_init 1000000 5 1) ex_agg_ops in
  ev = [ GvInsert false [7%nat]; GvError (ex_req 1%nat 7%nat 999996 false);
         GvKeep (ex_req 3%nat 8%nat 999990 false);
         GvReject (ex_req 4%nat 9%nat 100 true) JBeyondWindow;
         GvInsert true [7%nat]; GvAck (ex_req 2%nat 7%nat 999996 true) ]
  /\ store_of ev = [7%nat].
Proof. vm_compute. split; reflexivity. Qed.

(* the composed system makes steps: an agent step justified by an aggregator's answer *)
Example C01_nonvacuous_sys :
  exists s, sreach (sys_init true 1000 5) s /\ In (EvAccept 0%nat) (s_alog s).
Proof.
  eexists. split.
  - eapply SR_step; [apply SR_init|]. eapply (SS_agent _ (ORecentBegin 0%nat 1000 true true)); [exact I|reflexivity].
  - simpl. left. reflexivity.
Qed.
