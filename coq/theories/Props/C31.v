(* C31  The balancer forwards every accepted packet upstream promptly and in order.
   Model: Balancer/Model.v (pktBuffer + sender position, tcpPool.writeLocked, reportWouldBlockIfAny, time);
   "all schedules" = all lists of steps accepted by app_step, from the initial pool.
   fxT / fxR select the repaired variants (timer signals the condition variable / the packet whose write
   failed is retried); the code as it is = (false, false). *)
From Coq Require Import ZArith List Bool.
From SH Require Import Balancer.Model Balancer.Proofs Balancer.Proofs2.
Import ListNotations.
Open Scope Z_scope.

(* "Every packet the balancer accepts is written upstream ... in acceptance order per connection":
   for each of the two connections, at every moment and under every schedule, the packets accepted into its
   buffer are exactly, in order: those that left it (written completely, or skipped after a write error),
   those waiting on the read side, those on the write side. *)
Theorem C31_fifo_exact : forall fxT fxR c tr s a,
  run fxT fxR c pool0 tr = Some s ->
  gacc (getb a s) = map fst (gdone (getb a s)) ++ pending (getb a s) ++ bw (getb a s).
Proof. exact fifo_exact. Qed.

(* "... in acceptance order per connection": what was written is a subsequence of what was accepted *)
Theorem C31_written_in_acceptance_order : forall fxT fxR c tr s a,
  run fxT fxR c pool0 tr = Some s -> subseq (written (getb a s)) (gacc (getb a s)).
Proof. exact written_in_acceptance_order. Qed.

(* "written upstream byte-for-byte with its length frame": a length-prefix reader splits the stream of one
   connection into exactly the accepted bodies *)
Theorem C31_frames_roundtrip : forall bodies,
  Forall (fun b => Z.of_nat (length b) < 4294967296) bodies ->
  parse_frames (length bodies) (concat (map frame bodies)) = Some bodies.
Proof. exact frames_roundtrip. Qed.

(* "Every packet the balancer accepts is written upstream": PARTIAL for the code as it is - a third exit
   exists (the packet whose write failed is skipped).  Only a write error skips, and at most one packet. *)
Theorem C31_skipped_only_on_write_error_partial : forall fxT fxR c st s s' x,
  app_step fxT fxR c st s = Some s' -> (forall a k, st <> WriteErr a k) ->
  skipped (getb x s') = skipped (getb x s).
Proof. exact skipped_only_on_write_error. Qed.

Theorem C31_write_error_skips_at_most_one_partial : forall fxT fxR c a k s s',
  app_step fxT fxR c (WriteErr a k) s = Some s' ->
  (length (skipped (getb a s')) <= length (skipped (getb a s)) + 1)%nat /\
  skipped (getb (negb a) s') = skipped (getb (negb a) s) /\
  (fxR = true -> skipped (getb a s') = skipped (getb a s)).
Proof. exact write_error_skips_at_most_one. Qed.

(* the full clause holds for the repaired variant: accepted = written ++ still buffered *)
Theorem C31_no_loss_repaired : forall fxT c tr s a,
  run fxT true c pool0 tr = Some s ->
  gacc (getb a s) = written (getb a s) ++ pending (getb a s) ++ bw (getb a s).
Proof. exact no_loss_repaired. Qed.

(* ... and is refuted for the code as it is (finding F-C31b): packet 1 is accepted (forwarded = 1,
   dropped = 0), its write fails, and it is in no buffer and was never written *)
Theorem C31_accepted_packet_lost_refuted : forall fxT,
  exists s, run fxT false real_cfg pool0 loss_trace = Some s /\
    fwd s = 1 /\ drp s = 0 /\ gacc (pa s) = [1] /\
    written (pa s) = [] /\ pending (pa s) = [] /\ bw (pa s) = [] /\ skipped (pa s) = [1].
Proof. exact accepted_packet_lost_refuted. Qed.

(* "a packet is dropped only when both send buffers are full, and every drop is counted" *)
Theorem C31_drop_only_when_both_full_and_counted : forall c p len s,
  pclosed s = false ->
  let s' := write_locked c p len s in
  (both_full c s /\ drp s' = drp s + 1 /\ fwd s' = fwd s /\ wbb s' = wbb s + len /\
   gdropped s' = gdropped s ++ [(p, len)] /\ gacc (pa s') = gacc (pa s) /\ gacc (pb s') = gacc (pb s))
  \/
  (~ both_full c s /\ drp s' = drp s /\ fwd s' = fwd s + 1 /\ wbb s' = wbb s /\ gdropped s' = gdropped s /\
   exists a, gacc (getb a s') = gacc (getb a s) ++ [p] /\ gacc (getb (negb a) s') = gacc (getb (negb a) s)).
Proof. exact drop_only_when_both_full_and_counted. Qed.

(* after Egress.Close every packet is refused and counted *)
Theorem C31_drop_when_closed_counted : forall c p len s,
  pclosed s = true ->
  let s' := write_locked c p len s in
  drp s' = drp s + 1 /\ fwd s' = fwd s /\ gcdrops s' = gcdrops s + 1 /\ pa s' = pa s /\ pb s' = pb s /\ wbb s' = wbb s.
Proof. exact drop_when_closed_counted. Qed.

(* "every drop is counted and reported upstream": under every schedule the dropped counter equals the number
   of refused packets and every refused byte is in wouldBlockBytes or was handed to a report.
   PARTIAL: a report whose conn.Write fails is gone (entries (n, false) of greported). *)
Theorem C31_drops_counted_and_reported_partial : forall fxT fxR c tr s,
  run fxT fxR c pool0 tr = Some s ->
  drp s = Z.of_nat (length (gdropped s)) + gcdrops s /\
  sumlen (gdropped s) = wbb s + sumrep (greported s).
Proof. exact drops_counted_and_reported. Qed.

(* "within a bounded delay (about one second plus reconnection time) even if no further packets arrive":
   repaired timer; time spent outside the batch wait (writing, reconnecting) is not bounded by the model. *)
Theorem C31_bounded_delay_repaired : forall fxR c tr s x post t0 f w tr' s',
  0 <= cMax c ->
  run true fxR c pool0 tr = Some s ->
  bst (getb x s) = SWait post t0 f w ->
  run true fxR c s tr' = Some s' ->
  t0 + cMax c < now s' ->
  bclosed (getb x s') = false ->
  Z.of_nat (length (gacc (getb x s))) <= handed (getb x s').
Proof. exact bounded_delay_repaired. Qed.

(* the same clause for the code as it is: refuted (finding F-C31).  After
   [PopBegin; Write 1; Wake; Tick swapWaitMax; TimerFire] the sender waits with timeout = true, packet 1 is in
   the buffer, time advances by any amount, and no schedule without a further packet delivers it. *)
Theorem C31_bounded_delay_refuted : forall fxR,
  exists s,
    run false fxR real_cfg pool0 stuck_trace = Some s /\
    bst (pa s) = SWait false 0 true false /\ gacc (pa s) = [1] /\ now s = 0 + cMax real_cfg /\
    (forall d, 0 < d -> exists s', app_step false fxR real_cfg (Tick d) s = Some s' /\ now s' = now s + d) /\
    (forall tr' s', Forall quiet tr' -> run false fxR real_cfg s tr' = Some s' ->
       bclosed (pa s') = false /\ handed (pa s') < Z.of_nat (length (gacc (pa s)))).
Proof. exact bounded_delay_refuted. Qed.

(* "about one second plus reconnection time": reconnect attempts rotate over the sender's address pool, so
   every address is tried within len(pool) attempts (PARTIAL: dialing itself and its timeouts are not modelled) *)
Theorem C31_rotation_visits_every_address_partial : forall p i,
  (ap_head p < length (ap_addrs p))%nat -> (i < length (ap_addrs p))%nat ->
  exists j, (j < length (ap_addrs p))%nat /\
            nth j (picks (length (ap_addrs p)) p) 0 = nth i (ap_addrs p) 0.
Proof. exact rotation_visits_every_address. Qed.

(* ---------- non-vacuity ---------- *)
Example C31_nonvacuous_rotation : picks 3 (mkAp [7; 8; 9] 1) = [8; 9; 7].
Proof. vm_compute. reflexivity. Qed.

Definition nv_trace : list step :=
  [PopBegin true; Write 1 16; Wake true; Write 2 20; Wake true; Tick 1000; TimerFire true; Wake true;
   Write 3 16; WriteErr true 1; PopBegin true; WriteOk true].

(* the premises of the trace theorems are satisfiable on a history with a wait, a timer, a write error and a
   retry; in the repaired variant packet 1 is retried and written *)
Example C31_nonvacuous_run :
  match run true true real_cfg pool0 nv_trace with
  | Some s => written (pa s) = [1; 2] /\ bw (pa s) = [3] /\ gacc (pa s) = [1; 2; 3]
  | None => False
  end.
Proof. vm_compute. repeat split. Qed.

(* the premises of C31_bounded_delay_repaired: a sender waiting since t0 = 0 with a packet, a later state past
   t0 + swapWaitMax, buffer open; the conclusion 1 <= handed is met because the timer woke the sender *)
Example C31_nonvacuous_delay :
  match run true false real_cfg pool0 [PopBegin true; Write 1 16; Wake true] with
  | Some s =>
      bst (pa s) = SWait false 0 false false /\
      match run true false real_cfg s [Tick 1000; TimerFire true; Wake true; Tick 5] with
      | Some s' => 0 + cMax real_cfg < now s' /\ bclosed (pa s') = false /\ handed (pa s') = 1
      | None => False
      end
  | None => False
  end.
Proof. vm_compute. repeat split. Qed.

(* both buffers full: the third packet of this pool (bufferLen = 1) is dropped and counted *)
Example C31_nonvacuous_drop :
  let c := mkCfg 1 1 1000 in
  match run false false c pool0 [Write 1 10; Write 2 10; Write 3 10] with
  | Some s => both_full c s /\ drp s = 1 /\ fwd s = 2 /\ wbb s = 10 /\ primA s = false
  | None => False
  end.
Proof. vm_compute. repeat split; discriminate. Qed.

Example C31_nonvacuous_frames :
  parse_frames 2 (frame [7; 8; 9] ++ frame [1]) = Some [[7; 8; 9]; [1]].
Proof. vm_compute. reflexivity. Qed.
