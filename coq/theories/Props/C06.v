(* C06 — Sampling is fair: groups within their share are never sampled.
   Only the property theorems (closed by [exact]) and non-vacuity examples. Model: Sampling/Model.v. *)
From Coq Require Import ZArith QArith List Bool Permutation Sorted.
From SH Require Import Sampling.Model Sampling.Proofs Sampling.Factor Sampling.Fair Sampling.Witness.
Import ListNotations.
Open Scope Z_scope.

(* "At every level of the hierarchy (namespace, group, metric, fair key) a partition whose size does not exceed its
   weight-proportional share of the budget available to its parent is kept entirely with factor 1": [g] is any group
   at any depth, [s] its partition, [W] the sum of the effective weights. Partial: requires that no sibling is a
   fixed-budget metric ([plain]); that is every level when SampleBudgets is off and every level below the first
   otherwise. No int64 overflow (Z arithmetic). *)
Theorem C06_within_share_kept_partial :
  forall c ord sel rf fuel g dr s W x r,
  partition c g = (s, W) -> W = sum_weight s -> Forall plain s ->
  In x s -> g_size x * W <= g_budget g * g_weight x -> In r (g_items x) ->
  In (keep 1 r) (fst (run c ord sel rf (S fuel) g dr)).
Proof. exact run_within_share. Qed.

(* with a fixed-budget sibling the clause is FALSE for the code as it is (finding F-C06b): metric 1 over its fixed
   budget breaks the first loop, metric 2 (size 100, share 150) then goes through sampler.sample *)
Theorem C06_within_share_kept_refuted :
  exists c ord sel rf fuel g dr s W x r,
  c_fix c = false /\ partition c g = (s, W) /\ In x s /\ g_fixed x = false /\ 0 < g_weight x /\
  g_size x * W <= g_budget g * g_weight x /\ In r (g_items x) /\
  ~ In (keep 1 r) (fst (run c ord sel rf (S fuel) g dr)).
Proof. exact within_share_kept_refuted. Qed.

(* a metric with a fixed per-metric budget that is within that budget is its own partition with share = its budget; it is
   NOT always kept entirely either (finding F-C06c, same root cause): metric 1 (size 10, fixed budget 15) is sorted after
   metric 2, which is over its share of the bucket budget 2, and goes through sampler.sample *)
Theorem C06_fixed_metric_within_budget_kept_refuted :
  exists c ord sel rf budget rows dr r,
  c_fix c = false /\ c_budgets c = true /\ In r rows /\ 0 < r_budget r /\
  sum_size (filter (fun r' => r_metric r' =? r_metric r) rows) <= r_budget r /\
  ~ In (keep 1 r) (run_all c ord sel rf budget rows dr).
Proof. exact fixed_within_budget_kept_refuted. Qed.

(* the partitions really are [plain] with W the sum of their weights whenever SampleBudgets is off *)
Theorem C06_partitions_plain :
  forall c k d items, rows_ok items ->
  Forall plain (fst (part_simple c k d items)) /\ snd (part_simple c k d items) = sum_weight (fst (part_simple c k d items)).
Proof. exact (fun c k d items H => conj (part_simple_plain c k d items H) (part_simple_sumw c k d items)). Qed.
Theorem C06_no_budget_split_without_option :
  forall c g, c_budgets c = false -> exists k, partition c g = part_simple c k (g_depth g) (g_items g).
Proof. exact partition_no_budget. Qed.

(* the water-filling order: sort.Slice (insertion sort model) leaves the siblings sorted by the exact rational
   comparison size_a * w_b <= size_b * w_a *)
Theorem C06_siblings_sorted_by_ratio :
  forall s, Forall plain s -> StronglySorted le_ratio (isort less_ratio s).
Proof. exact isort_ratio_sorted. Qed.

(* "if the whole bucket fits the budget nothing is sampled" (no fixed per-metric budgets in play, metric weights
   positive, rows of Size >= 1) — for every SelectF, RoundF and order *)
Theorem C06_fits_budget_nothing_sampled :
  forall c ord sel rf budget rows dr o,
  c_budgets c = false -> rows_ok rows -> sum_size rows <= budget ->
  In o (run_all c ord sel rf budget rows dr) -> o_kept o = true /\ o_sf o = 1%Q.
Proof. exact fits_budget_nothing_sampled. Qed.
(* the same at any level of the hierarchy *)
Theorem C06_fits_level_nothing_sampled :
  forall c ord sel rf fuel g dr s W o,
  partition c g = (s, W) -> W = sum_weight s -> Forall plain s -> sum_gsize s <= g_budget g ->
  In o (fst (run c ord sel rf (S fuel) g dr)) -> o_kept o = true /\ o_sf o = 1%Q.
Proof. exact run_fits. Qed.

(* "With deterministic selection the kept size never exceeds the budget" is FALSE (finding F-C06): whales and
   selected rows are counted, not sized: sizes 3,3,3,100, the heavy row a whale, budget 55, kept size 100.
   (The equal-size case, the only one TestSampling generates, is checked by the harness oracle
   det_kept_size_le_budget_equal_sizes and not proved.) *)
Theorem C06_det_kept_size_le_budget_refuted :
  exists c budget rows,
  c_budgets c = false /\ rows_ok rows /\ 0 <= budget /\
  budget < sum_kept (run_all c whale_ord sel_det rf_det budget rows []).
Proof. exact det_kept_size_le_budget_refuted. Qed.

(* "a partition with a larger size-to-weight ratio never gets a smaller sample factor than one with a smaller ratio":
   the siblings that reach the second loop of one level share B and W, their factor is (size/w)*(W/B) *)
Theorem C06_sf_monotone_in_ratio :
  forall x y B W, 0 < B -> 0 < W -> 0 < g_weight x -> 0 < g_weight y -> le_ratio x y ->
  (sib_sf x B W <= sib_sf y B W)%Q.
Proof. exact sf_monotone_in_ratio. Qed.
Theorem C06_sib_sf_is_the_factor_of_sample :
  forall x B W, g_fixed x = false -> 1 <= W * g_size x -> 1 <= B * g_weight x ->
  leaf_sf (budgeted x B W) = sib_sf x B W.
Proof. exact sib_sf_is_leaf_sf. Qed.

(* "quota-mode budgets handed back to agents are proportional to reported sizes and sum to at most the total budget"
   (sampleQuota; the "x2 for metrics that fit" bonus of calcHostMetricBudgets is outside the sum claim) *)
Theorem C06_quota_proportional :
  forall g r, 0 < g_denom g * g_size g -> 0 <= g_budget g * r_size r ->
  quota_of g r = g_budget g * r_size r / (g_denom g * g_size g).
Proof. exact quota_proportional. Qed.
Theorem C06_quota_monotone :
  forall g r1 r2, 0 < g_denom g * g_size g -> 0 <= g_budget g -> 0 <= r_size r1 <= r_size r2 ->
  quota_of g r1 <= quota_of g r2.
Proof. exact quota_monotone. Qed.
Theorem C06_quota_sum_le_budget :
  forall g, 0 < g_denom g -> 0 < g_size g -> 0 <= g_budget g ->
  g_size g = sum_size (g_items g) -> Forall (fun r => 0 <= r_size r) (g_items g) ->
  sum_quota g (g_items g) * g_denom g <= g_budget g.
Proof. exact quota_sum_le_budget. Qed.

(* non-vacuity: a level with three plain partitions (sizes 160,30,20, weights 1,3,1) under budget 120, and quotas
   16,33,50 of sizes 10,20,30 under budget 100 *)
Example C06_nonvacuous_level :
  Forall plain (fst (partition cfg_agent ex_top)) /\ snd (partition cfg_agent ex_top) = sum_weight (fst (partition cfg_agent ex_top)) /\
  map (fun x => (g_size x, g_weight x)) (fst (partition cfg_agent ex_top)) = [(160, 1); (30, 3); (20, 1)].
Proof. exact ex_partition_plain. Qed.
Example C06_nonvacuous_quota :
  map (quota_of (mkgrp false 3 100 1 false 1 60 [])) [row_sz 0 10 0 1 0; row_sz 1 20 0 1 0; row_sz 2 30 0 1 0] = [16; 33; 50].
Proof. exact ex_quota. Qed.
