(* C22 — Query time axes are aligned, gap-free and bounded.
   This file holds only the property theorems (closed by [exact]) and non-vacuity examples.
   The theorems named C22_range_* / C22_errors_only_when_out_of_range are stated on the RESULT of the model's
   GetTimescale ([get_timescale false] = the current code, "lod.Len < 0"), for every input with a fixed (non-monthly)
   step, in the three axis modes (range, instant, tags).  Point queries return the two end points only and monthly
   steps depend on the calendar parameter: for those the clauses are evaluated by the Go-side oracles and the
   correspondence only (checks/C22.json). *)
From Coq Require Import ZArith List Bool Sorted Lia.
From SH Require Import Gen.TimescaleLod Timescale.Model Timescale.Proofs Timescale.Loop Timescale.Result.
Import ListNotations.
Open Scope Z_scope.

(* "time rounding: roundTime/mathDiv" — mathDiv is floor division for every positive step *)
Theorem C22_math_div_is_floor : forall a b, 0 < b -> math_div a b = a / b.
Proof. exact math_div_floor. Qed.

(* "every point is aligned to its step in the configured time zone" — the first point of an axis (startOfLOD of a fixed
   step) is aligned and is the last aligned instant not after t *)
Theorem C22_round_time_aligned :
  forall t step utc, 0 < step ->
  (round_time t step utc + utc) mod step = 0 /\ round_time t step utc <= t < round_time t step utc + step.
Proof. exact round_time_spec. Qed.

(* "...time zone, week start": with the offset computed by calcUTCOffset, an instant aligned to the 7-day step is local
   midnight of the configured first day of the week (zone offset as of the epoch; fixed-offset zones) *)
Theorem C22_week_aligned_is_week_start :
  forall zo ws t, 0 <= ws <= 6 -> (t + calc_utc_offset zo ws) mod 604800 = 0 ->
  (t + zo) mod 86400 = 0 /\ ((t + zo) / 86400 + 4) mod 7 = ws.
Proof. exact week_aligned_is_week_start. Qed.

(* endOfLOD: the loop of the code equals the closed form the model runs, for every fixed step and enough fuel *)
Theorem C22_end_of_lod_loop_closed_form :
  forall c le step e, step <> month_step -> 0 < step ->
  forall fuel start n, e - start < Z.of_nat fuel ->
  end_of_lod_loop c fuel start step e le n =
  (fst (end_of_lod_closed start step e le), n + snd (end_of_lod_closed start step e le)).
Proof. exact eol_loop_closed. Qed.

(* endOfLOD returns start + n*step, the first such instant at or after the end (le = false: "gap-free ... the requested
   range is covered") or the last one not after it (le = true, point queries) *)
Theorem C22_end_of_lod_spec :
  forall start step e le, 0 < step -> start < e ->
  let '(x, k) := end_of_lod_closed start step e le in
  x = start + k * step /\ 0 <= k /\
  (le = false -> e <= x < e + step /\ 0 < k) /\ (le = true -> x <= e < x + step).
Proof. exact eol_closed_spec. Qed.

(* "consecutive points differ by exactly their level-of-detail step" — PARTIAL: stated for the time-generation loop of
   GetTimescale (gen_time) over any LOD list with fixed (non-monthly) steps; chain t pts steps tl = pts starts at t and
   each next point is the previous plus the step of the LOD the previous point lies in *)
Theorem C22_consecutive_diff_is_lod_step_partial :
  forall c lods, Forall (fun sl => fst sl <> month_step) lods ->
  forall t, chain t (fst (gen_time c t lods)) (steps_of lods) (snd (gen_time c t lods)).
Proof. exact gen_time_chain. Qed.

(* "the returned time points strictly increase" — for any chain with positive steps, including the point appended
   for Extend (tl) *)
Theorem C22_time_strictly_increasing_partial :
  forall t pts sts tl, chain t pts sts tl -> Forall (fun s => 0 < s) sts -> StronglySorted Z.lt (pts ++ [tl]).
Proof. exact chain_sorted. Qed.

(* "every point is aligned to its step" — a chain whose first point is aligned to the first step and whose steps each
   divide the previous one is aligned point by point *)
Theorem C22_points_aligned_partial :
  forall utc t pts sts tl, chain t pts sts tl -> dchain sts ->
  match sts with s :: _ => (s | t + utc) | [] => True end ->
  Forall2 (fun p s => (s | p + utc)) pts sts.
Proof. exact chain_aligned. Qed.

(* "each level's step is one of the table resolutions" — for every input, every LOD the selection loop returns has a
   step that is a key of LODTables, a positive step and a positive length (both LOD tables, both model variants) *)
Theorem C22_lod_steps_in_table :
  forall c utc e minstep width point now strict start rl,
  (outer c utc e minstep width point now strict lod_levels start 0 0 [] = inr rl \/
   outer c utc e minstep width point now strict lod_levels_monthly start 0 0 [] = inr rl) ->
  Forall (lod_ok lod_table_steps) rl.
Proof. exact lods_ok_fixed_tables. Qed.

(* "levels get finer toward the present" — side condition on the generated tables: inside every level each step is
   smaller than and divides the one before it *)
Theorem C22_level_steps_divide : forall lv, In lv lod_levels -> dchain (snd lv).
Proof. exact levels_divide. Qed.

(* ---------- theorems about the result of GetTimescale (fixed steps, all inputs) ---------- *)

(* "consecutive points differ by exactly their level-of-detail step ... every point is aligned to its step ... each
   level's step is one of the table resolutions and levels get finer toward the present": the returned Time is exactly
   the concatenation of the per-LOD arithmetic progressions [progs t0 LODs]; every LOD has a step from the fixed-step
   table, a positive length; steps strictly decrease and each divides the previous; the first point is aligned; the
   LOD lengths sum to the number of points *)
Theorem C22_range_time_is_lod_progressions :
  forall c a ts, a_step a <> month_step -> is_point (a_mode a) = false -> get_timescale false c a = ROk ts ->
  exists t0,
    ts_time ts = progs t0 (ts_lods ts) /\
    Forall (lod_ok fixed_all) (ts_lods ts) /\ StronglySorted gt_fst (ts_lods ts) /\ lods_div (ts_lods ts) /\
    match ts_lods ts with (s, _) :: _ => aligned (a_utc a) t0 s | [] => True end /\
    zlen (ts_time ts) = lsum (ts_lods ts).
Proof. exact range_time_is_progressions. Qed.

(* the fixed-step table is part of LODTables *)
Theorem C22_fixed_steps_in_table : incl fixed_all lod_table_steps.
Proof. exact fixed_all_in_table. Qed.

(* "the returned time points strictly increase, consecutive points differ by exactly their level-of-detail step, every
   point is aligned to its step in the configured time zone" *)
Theorem C22_range_time_increasing_gapfree_aligned :
  forall c a ts, a_step a <> month_step -> is_point (a_mode a) = false -> get_timescale false c a = ROk ts ->
  StronglySorted Z.lt (ts_time ts) /\
  (exists t0 tl, chain t0 (ts_time ts) (steps_of (ts_lods ts)) tl) /\
  Forall2 (fun p s => (p + a_utc a) mod s = 0) (ts_time ts) (steps_of (ts_lods ts)).
Proof. exact range_time_increasing_gapfree_aligned. Qed.

(* "the number of points stays within the limit" *)
Theorem C22_range_point_count_bounded :
  forall c a ts, a_step a <> month_step -> is_point (a_mode a) = false -> get_timescale false c a = ROk ts ->
  zlen (ts_time ts) <= max_points + 3.
Proof. exact range_point_count_bounded. Qed.

(* "the requested range is covered starting at the reported start index": StartX = 1, ViewStartX = 1 + Extend; the
   point just before ViewStartX lies before the requested start and the next aligned instant does not; the last point
   is the last aligned instant before the end, followed by exactly one more point when Extend is set *)
Theorem C22_range_covered :
  forall c a ts, a_step a <> month_step -> is_point (a_mode a) = false -> get_timescale false c a = ROk ts ->
  ts_time ts <> [] ->
  let s0 := fst (hd (0, 0) (ts_lods ts)) in
  let sk := fst (last (ts_lods ts) (0, 0)) in
  let p := nth (Z.to_nat (ts_vstartx ts - 1)) (ts_time ts) 0 in
  let q := last (ts_time ts) 0 in
  ts_startx ts = 1 /\ ts_vstartx ts = 1 + (if a_extend a then 1 else 0) /\
  p < a_start a <= p + s0 /\
  (if a_extend a then q - sk < a_end a <= q else q < a_end a <= q + sk).
Proof. exact range_covered. Qed.

(* "The per-level ranges handed to the storage layer are contiguous and match those points": for offset 0 and every
   metric offset, Timescale.GetLODs returns [ranges (t0 - off) LODs] for the same t0 with Time = progs t0 LODs ... *)
Theorem C22_range_lods_match_time :
  forall c a ts, a_step a <> month_step -> is_point (a_mode a) = false -> get_timescale false c a = ROk ts ->
  forall off, ts_time ts <> [] -> (off = 0 \/ In off (map fst (a_metrics a))) ->
  exists t0, ts_time ts = progs t0 (ts_lods ts) /\
             ts_get_lods c (a_utc a) ts off = ranges (t0 - off) (ts_lods ts).
Proof. exact range_get_lods. Qed.
(* ... [ranges] are contiguous (each starts where the previous ends) ... *)
Theorem C22_ranges_contiguous : forall lods t, contig t (ranges t lods) (t + span lods).
Proof. exact ranges_contig. Qed.
(* ... and range k is (first point of progression k, that + Len*Step, Step): the points are the ranges walked step by step *)
Theorem C22_ranges_are_the_progressions :
  forall lods t,
  progs t lods = flat_map (fun x => seg (Z.to_nat (snd (snd x))) (fst (fst (fst x))) (fst (snd x))) (combine (ranges t lods) lods)
  /\ Forall2 (fun rg sl => snd rg = fst sl /\ snd (fst rg) = fst (fst rg) + snd sl * fst sl) (ranges t lods) lods.
Proof. exact ranges_progs. Qed.

(* errors only when out of range (all modes): the current code fails only with "exceeded maximum resolution" — not a
   point query and even the coarsest step needs more than maxPoints points — or with an offset that is not a multiple
   of the first LOD step; the internal "LOD out of range" never happens *)
Theorem C22_errors_only_when_out_of_range :
  forall c a er, a_step a <> month_step -> get_timescale false c a = RErr er ->
  (er = EOutOfRange /\ is_point (a_mode a) = false /\
   exists lv, In lv lod_levels /\
     max_points < cnt (round_time (a_start a - q_moff a) (hd 0 (snd lv)) (a_utc a)) (hd 0 (snd lv)) (a_end a - q_moff a)) \/
  (er = EOffset /\ exists s0 m, In s0 fixed_all /\ In m (a_metrics a) /\ Z.rem (fst m) s0 <> 0).
Proof. exact errors_only_when_out_of_range. Qed.
(* every level starts with the same coarsest step, and [cnt] is endOfLOD's point count *)
Theorem C22_coarsest_step : forall lv, In lv lod_levels -> hd 0 (snd lv) = hd 0 fixed_all.
Proof. exact coarsest_step. Qed.
Theorem C22_cnt_spec :
  forall start step e, 0 < step ->
  (e <= start /\ cnt start step e = 0) \/
  (start < e /\ 0 < cnt start step e /\ e <= start + cnt start step e * step < e + step).
Proof. exact cnt_spec. Qed.

(* the invariant of the level loop, for all inputs (both modes): see Loop.v, [outer_spec] *)
Theorem C22_level_tables_well_formed : lv_wf fixed_all lod_levels.
Proof. exact lod_levels_wf. Qed.


(* FINDING F-C22a (fixed in /repo by commit 2fe72361; strict = true is the code before that commit): it answers "LOD out of range" to a 10-hour query that is not out
   of range: its start lies exactly on a LOD switch and is aligned to that level's finest step; the repaired variant
   (an empty level is skipped) returns the 7201-point axis *)
Theorem C22_errors_only_when_out_of_range_refuted :
  exists a, a_start a < a_end a /\ 0 <= a_step a /\ a_end a - a_start a <= 36000 /\ a_start a <= a_now a /\
  get_timescale true (table_cal []) a = RErr ELod /\
  exists ts, get_timescale false (table_cal []) a = ROk ts /\ zlen (ts_time ts) = 7201.
Proof. exact lod_error_refuted. Qed.

(* FINDING F-C22c: monthly step with a metric offset of one "month" (_1M seconds): a month start inside the requested
   range is missing from the returned axis *)
Theorem C22_range_covered_monthly_offset_refuted :
  exists a tbl ts p, a_step a = month_step /\ a_start a <= p < a_end a /\ month_start (table_cal tbl) p = p /\
  get_timescale true (table_cal tbl) a = ROk ts /\ ts_time ts <> [] /\ ~ In p (ts_time ts).
Proof. exact monthly_offset_refuted. Qed.

(* non-vacuity *)
Example C22_nonvacuous_axis :
  exists ts, get_timescale true (table_cal [])
     {| a_start := 1700000000; a_end := 1700000000 + 35 * 86400; a_step := 1; a_now := 1700000000 + 35 * 86400; a_width := 0;
        a_mode := MRange; a_extend := true; a_metrics := [(604800, 15)]; a_utc := 259200 |} = ROk ts /\
  map fst (ts_lods ts) = [3600; 900] /\ ts_startx ts = 1 /\ ts_vstartx ts = 2 /\ zlen (ts_time ts) = 2712 /\ 2712 <= max_points + 3.
Proof. eexists. split; [vm_compute; reflexivity|]. vm_compute. intuition congruence. Qed.
Example C22_nonvacuous_chain :
  chain 10 (fst (gen_time (table_cal []) 10 [(5, 2); (1, 3)])) [5; 5; 1; 1; 1] 23 /\ dchain [604800; 86400; 3600] /\
  end_of_lod_closed 3 5 14 false = (18, 3) /\ round_time (-7) 5 2 = -7 /\ math_div (-7) 2 = -4.
Proof. split; [repeat constructor|]. split; [repeat constructor; apply Z.mod_divide; try lia; reflexivity|]. vm_compute. auto. Qed.

Definition ex_args : args :=
  {| a_start := 1700000000; a_end := 1700000000 + 35 * 86400; a_step := 1; a_now := 1700000000 + 35 * 86400; a_width := 0;
     a_mode := MRange; a_extend := true; a_metrics := [(604800, 15)]; a_utc := 259200 |}.
Example C22_nonvacuous_range_result :
  a_step ex_args <> month_step /\ is_point (a_mode ex_args) = false /\
  exists ts, get_timescale false (table_cal []) ex_args = ROk ts /\ ts_lods ts = [(3600, 218); (900, 2494)] /\
             zlen (ts_time ts) = 2712 /\ ts_time ts <> [] /\
             ts_get_lods (table_cal []) (a_utc ex_args) ts 604800 = [(1699390800, 1700175600, 3600); (1700175600, 1702420200, 900)].
Proof.
  split; [vm_compute; congruence|]. split; [reflexivity|]. eexists. split; [vm_compute; reflexivity|].
  split; [reflexivity|]. split; [reflexivity|]. split; [discriminate|]. vm_compute. reflexivity.
Qed.
Example C22_nonvacuous_errors :
  get_timescale false (table_cal [])
    {| a_start := 0; a_end := 5000000000; a_step := 60; a_now := 5000000000; a_width := 0; a_mode := MRange; a_extend := false;
       a_metrics := []; a_utc := 0 |} = RErr EOutOfRange /\
  get_timescale false (table_cal [])
    {| a_start := 1700000000; a_end := 1700100000; a_step := 60; a_now := 1700100000; a_width := 0; a_mode := MRange; a_extend := false;
       a_metrics := [(30, 1)]; a_utc := 0 |} = RErr EOffset.
Proof. split; vm_compute; reflexivity. Qed.
