(* C22 — Query time axes are aligned, gap-free and bounded.
   This file holds only the property theorems (closed by [exact]) and non-vacuity examples.
   What is proved here is PARTIAL with respect to the property text: the helpers (mathDiv, roundTime, endOfLOD,
   calcUTCOffset), the time-generation loop (gen_time) and the LOD-selection loop's output steps are proved for all
   inputs; the point-count bound, the coverage clause and the link "GetTimescale result = gen_time of the loop's LODs
   with an aligned first point" are checked by the Go-side oracles and the correspondence only (see checks/C22.json). *)
From Coq Require Import ZArith List Bool Sorted Lia.
From SH Require Import Gen.TimescaleLod Timescale.Model Timescale.Proofs.
Import ListNotations.
Open Scope Z_scope.

(* "time rounding: roundTime/mathDiv" — mathDiv is floor division for every positive step *)
Theorem C22_math_div_is_floor : forall a b, 0 < b -> math_div a b = a / b.
Proof. exact math_div_floor. Qed.

(* "every point is aligned to its step in the configured time zone" — the first point of an axis (startOfLOD of a fixed
   step) is aligned and is the last aligned instant not after t *)
Theorem C22_round_time_aligned :
  forall t step utc, 0 < step ->
  (round_time t step utc + utc) mod step = 0 /\ round_time t step utc <= t < round_time t step utc + step.
Proof. exact round_time_spec. Qed.

(* "...time zone, week start": with the offset computed by calcUTCOffset, an instant aligned to the 7-day step is local
   midnight of the configured first day of the week (zone offset as of the epoch; fixed-offset zones) *)
Theorem C22_week_aligned_is_week_start :
  forall zo ws t, 0 <= ws <= 6 -> (t + calc_utc_offset zo ws) mod 604800 = 0 ->
  (t + zo) mod 86400 = 0 /\ ((t + zo) / 86400 + 4) mod 7 = ws.
Proof. exact week_aligned_is_week_start. Qed.

(* endOfLOD: the loop of the code equals the closed form the model runs, for every fixed step and enough fuel *)
Theorem C22_end_of_lod_loop_closed_form :
  forall c le step e, step <> month_step -> 0 < step ->
  forall fuel start n, e - start < Z.of_nat fuel ->
  end_of_lod_loop c fuel start step e le n =
  (fst (end_of_lod_closed start step e le), n + snd (end_of_lod_closed start step e le)).
Proof. exact eol_loop_closed. Qed.

(* endOfLOD returns start + n*step, the first such instant at or after the end (le = false: "gap-free ... the requested
   range is covered") or the last one not after it (le = true, point queries) *)
Theorem C22_end_of_lod_spec :
  forall start step e le, 0 < step -> start < e ->
  let '(x, k) := end_of_lod_closed start step e le in
  x = start + k * step /\ 0 <= k /\
  (le = false -> e <= x < e + step /\ 0 < k) /\ (le = true -> x <= e < x + step).
Proof. exact eol_closed_spec. Qed.

(* "consecutive points differ by exactly their level-of-detail step" — PARTIAL: stated for the time-generation loop of
   GetTimescale (gen_time) over any LOD list with fixed (non-monthly) steps; chain t pts steps tl = pts starts at t and
   each next point is the previous plus the step of the LOD the previous point lies in *)
Theorem C22_consecutive_diff_is_lod_step_partial :
  forall c lods, Forall (fun sl => fst sl <> month_step) lods ->
  forall t, chain t (fst (gen_time c t lods)) (steps_of lods) (snd (gen_time c t lods)).
Proof. exact gen_time_chain. Qed.

(* "the returned time points strictly increase" — for any chain with positive steps, including the point appended
   for Extend (tl) *)
Theorem C22_time_strictly_increasing_partial :
  forall t pts sts tl, chain t pts sts tl -> Forall (fun s => 0 < s) sts -> StronglySorted Z.lt (pts ++ [tl]).
Proof. exact chain_sorted. Qed.

(* "every point is aligned to its step" — a chain whose first point is aligned to the first step and whose steps each
   divide the previous one is aligned point by point *)
Theorem C22_points_aligned_partial :
  forall utc t pts sts tl, chain t pts sts tl -> dchain sts ->
  match sts with s :: _ => (s | t + utc) | [] => True end ->
  Forall2 (fun p s => (s | p + utc)) pts sts.
Proof. exact chain_aligned. Qed.

(* "each level's step is one of the table resolutions" — for every input, every LOD the selection loop returns has a
   step that is a key of LODTables, a positive step and a positive length (both LOD tables, both model variants) *)
Theorem C22_lod_steps_in_table :
  forall c utc e minstep width point now strict start rl,
  (outer c utc e minstep width point now strict lod_levels start 0 0 [] = inr rl \/
   outer c utc e minstep width point now strict lod_levels_monthly start 0 0 [] = inr rl) ->
  Forall (lod_ok lod_table_steps) rl.
Proof. exact lods_ok_fixed_tables. Qed.

(* "levels get finer toward the present" — side condition on the generated tables: inside every level each step is
   smaller than and divides the one before it *)
Theorem C22_level_steps_divide : forall lv, In lv lod_levels -> dchain (snd lv).
Proof. exact levels_divide. Qed.

(* FINDING F-C22a: the code as written (strict = true) answers "LOD out of range" to a 10-hour query that is not out
   of range: its start lies exactly on a LOD switch and is aligned to that level's finest step; the repaired variant
   (an empty level is skipped) returns the 7201-point axis *)
Theorem C22_errors_only_when_out_of_range_refuted :
  exists a, a_start a < a_end a /\ 0 <= a_step a /\ a_end a - a_start a <= 36000 /\ a_start a <= a_now a /\
  get_timescale true (table_cal []) a = RErr ELod /\
  exists ts, get_timescale false (table_cal []) a = ROk ts /\ zlen (ts_time ts) = 7201.
Proof. exact lod_error_refuted. Qed.

(* FINDING F-C22c: monthly step with a metric offset of one "month" (_1M seconds): a month start inside the requested
   range is missing from the returned axis *)
Theorem C22_range_covered_monthly_offset_refuted :
  exists a tbl ts p, a_step a = month_step /\ a_start a <= p < a_end a /\ month_start (table_cal tbl) p = p /\
  get_timescale true (table_cal tbl) a = ROk ts /\ ts_time ts <> [] /\ ~ In p (ts_time ts).
Proof. exact monthly_offset_refuted. Qed.

(* non-vacuity *)
Example C22_nonvacuous_axis :
  exists ts, get_timescale true (table_cal [])
     {| a_start := 1700000000; a_end := 1700000000 + 35 * 86400; a_step := 1; a_now := 1700000000 + 35 * 86400; a_width := 0;
        a_mode := MRange; a_extend := true; a_metrics := [(604800, 15)]; a_utc := 259200 |} = ROk ts /\
  map fst (ts_lods ts) = [3600; 900] /\ ts_startx ts = 1 /\ ts_vstartx ts = 2 /\ zlen (ts_time ts) = 2712 /\ 2712 <= max_points + 3.
Proof. eexists. split; [vm_compute; reflexivity|]. vm_compute. intuition congruence. Qed.
Example C22_nonvacuous_chain :
  chain 10 (fst (gen_time (table_cal []) 10 [(5, 2); (1, 3)])) [5; 5; 1; 1; 1] 23 /\ dchain [604800; 86400; 3600] /\
  end_of_lod_closed 3 5 14 false = (18, 3) /\ round_time (-7) 5 2 = -7 /\ math_div (-7) 2 = -4.
Proof. split; [repeat constructor|]. split; [repeat constructor; apply Z.mod_divide; try lia; reflexivity|]. vm_compute. auto. Qed.
