(* C15 — Metadata edits are versioned and optimistic-concurrency safe.
   Only the property theorems (closed by [exact]) and non-vacuity examples. The model (Metadata/Model.v) describes
   dbv2.go: SaveEntity / JournalEvents, rules.go and the constraints of the metrics_v5 / entity_history tables;
   [wf] is the invariant of every state reachable from the empty database (C15_reachable_wf). *)
From Coq Require Import ZArith List Bool Sorting.Sorted.
From SH Require Import Common.Wrap Metadata.Model Metadata.Proofs Metadata.ProofsC15 Metadata.JournalModel Metadata.ProofsJournal.
Import ListNotations.
Open Scope Z_scope.

(* every state reached by any history of requests (any variant of the dual model) satisfies the invariant *)
Theorem C15_reachable_wf : forall v c ops, wf (run v c empty ops).
Proof. exact (fun v c ops => wf_run v c ops empty wf_empty). Qed.

(* "An entity edit succeeds only when it names the entity's current version": a successful save whose
   resulting id existed before the call named exactly that row's version (and that id) *)
Theorem C15_edit_requires_current_version :
  forall v s nm id oldv data create del typ meta now r s' evs,
  wf s -> save v s nm id oldv data create del typ meta now = (EOk, r, s', evs) ->
  forall r0, In r0 (ents s) -> r_id r0 = r_id r -> r_ver r0 = oldv /\ id = r_id r.
Proof. exact edit_requires_current_version. Qed.

(* "every successful create or edit assigns a new ... version greater than all previous ones": greater than every
   version in the entity table and in the history table, it becomes the table's maximum, and the history gets it *)
Theorem C15_version_strictly_increases :
  forall v s nm id oldv data create del typ meta now r s' evs,
  wf s -> save v s nm id oldv data create del typ meta now = (EOk, r, s', evs) ->
  r_ver r = max_ver (ents s) + 1 /\
  (forall x, In x (ents s) -> r_ver x < r_ver r) /\
  (forall h, In h (hist s) -> h_ver h < r_ver r) /\
  max_ver (ents s') = r_ver r /\ In r (map h_row (hist s')).
Proof. exact version_strictly_increases. Qed.

(* ... and no operation ever lowers the maximum, so "all previous ones" extends over whole histories *)
Theorem C15_max_version_never_decreases :
  forall v c s o, wf s -> max_ver (ents s) <= max_ver (ents (step_st v c s o)).
Proof. exact max_ver_monotone. Qed.

(* "globally unique version": in every reachable state versions (and ids) are pairwise distinct *)
Theorem C15_versions_unique :
  forall v c ops, NoDup (map r_ver (ents (run v c empty ops))) /\ NoDup (map r_id (ents (run v c empty ops))).
Proof. exact versions_unique. Qed.

(* "of several edits racing from the same version exactly one succeeds": Engine.Do serialises the transactions, so
   a race is an order. A failed request leaves the state unchanged (first theorem); once one edit of (id, oldv) has
   succeeded, no later request naming the same (id, oldv) succeeds on that entity, whatever its other arguments. *)
Theorem C15_failed_save_changes_nothing :
  forall v s nm id oldv data create del typ meta now e r s' evs,
  save v s nm id oldv data create del typ meta now = (e, r, s', evs) -> e <> EOk -> s' = s /\ evs = [].
Proof. exact save_fail. Qed.

(* the same under faults: a request during which the binlog refuses the append (the transaction body succeeded, the
   event could not be logged) changes no table and logs nothing, so the version it named is still current and a retry
   from it can succeed; it returns the failure exactly when the request would otherwise have been committed *)
Theorem C15_failed_append_changes_nothing :
  forall v c s f, tables (step_st v c s (OFailAppend f)) = tables s /\ step_evs v c s (OFailAppend f) = [].
Proof. exact failed_append_changes_nothing. Qed.

Theorem C15_failed_append_reported :
  forall v c s p l id oldv data create del typ meta now,
  step_res v c s (OFailAppend (FSave p l id oldv data create del typ meta now)) = RFail <->
  fst (fst (fst (save v s (p, l) id oldv data create del typ meta now))) = EOk.
Proof. exact failed_append_save_result. Qed.

Theorem C15_racing_edits_one_wins :
  forall v s nm id oldv data create del typ meta now r s' evs,
  wf s -> save v s nm id oldv data create del typ meta now = (EOk, r, s', evs) -> r_id r = id ->
  (exists r0, In r0 (ents s) /\ r_id r0 = id) ->
  forall v2 nm2 data2 create2 del2 typ2 meta2 now2 r2 s2 evs2,
  save v2 s' nm2 id oldv data2 create2 del2 typ2 meta2 now2 = (EOk, r2, s2, evs2) -> r_id r2 <> id.
Proof. exact racing_second_loses. Qed.

(* "Entity names are unique per type (and namespace)" *)
Theorem C15_names_unique_per_type_ns :
  forall v c ops r1 r2, let s := run v c empty ops in
  In r1 (ents s) -> In r2 (ents s) -> r_ns r1 = r_ns r2 -> r_typ r1 = r_typ r2 -> r_name r1 = r_name r2 -> r1 = r2.
Proof. exact names_unique_per_type_ns. Qed.

(* ... but uniqueness per type of the NAME alone ("n2:n4" is one name) is REFUTED for the code as it is (finding
   F-C15b, same root as F-C15a: SaveEntity does not compare the request's entity type with the row's): an edit that
   carries another type stores that type's namespace id (0) under the unchanged name, after which the key
   (namespace_id, type, name) admits a second entity of the same type and name through any path that skips
   checkCreateEntity (an edit/rename, or the first save of a predefined id with create=false). The theorem above is
   not contradicted: its two rows differ in namespace_id. *)
Theorem C15_names_unique_per_type_refuted :
  exists c ops r1 r2, In r1 (ents (run faithful c empty ops)) /\ In r2 (ents (run faithful c empty ops)) /\
    r_typ r1 = r_typ r2 /\ r_name r1 = r_name r2 /\ r_id r1 <> r_id r2 /\ r_ns r1 <> r_ns r2.
Proof. exact names_unique_per_type_refuted. Qed.

(* "namespaces cannot be renamed" — REFUTED for the code as it is (finding F-C15a): an edit request that carries
   another entity type (or create=true with a negative id) skips checkNamespace and renames the namespace row. *)
Theorem C15_namespace_not_renamable_refuted :
  exists c ops r r', In r (ents (run faithful c empty (firstn 1 ops))) /\ r_typ r = T_NS /\
    In r' (ents (run faithful c empty ops)) /\ r_id r' = r_id r /\ r_name r' <> r_name r.
Proof. exact namespace_rename_refuted. Qed.

(* the full clause holds for the repaired variant (edits confined to rows of the requested type, namespace
   check uses the effective create flag): no operation changes the name of a namespace row *)
Theorem C15_namespace_not_renamable_repaired :
  forall v c s o x, fx_ns_type v = true -> wf s -> In x (ents s) -> r_typ x = T_NS ->
  forall y, In y (ents (step_st v c s o)) -> r_id y = r_id x -> r_name y = r_name x.
Proof. exact namespace_not_renamable. Qed.

(* "entities in a namespace must reference an existing namespace": a metric or group saved under "ns:name" gets
   the id of an existing namespace row named "ns" ... *)
Theorem C15_namespaced_entity_needs_namespace :
  forall v s nm id oldv data create del typ meta now r s' evs,
  save v s nm id oldv data create del typ meta now = (EOk, r, s', evs) ->
  (typ = T_METRIC \/ typ = T_GROUP) -> fst nm <> 0 ->
  exists n, In n (ents s) /\ r_typ n = T_NS /\ r_name n = (0, fst nm) /\ r_ns r = r_id n.
Proof. exact namespaced_entity_needs_namespace. Qed.

(* ... and that row (id and type) is never removed by any later operation *)
Theorem C15_rows_are_permanent :
  forall v c s o x, wf s -> In x (ents s) ->
  exists y, In y (ents (step_st v c s o)) /\ r_id y = r_id x /\ r_typ y = r_typ x.
Proof. exact rows_are_permanent. Qed.

(* "the journal returns each entity's latest version exactly once in ascending version order": strictly ascending
   versions, every id at most once, every returned row is the entity's current row with version > since, and
   nothing is missing when the page limit is not hit *)
Theorem C15_journal_latest_once_ascending :
  forall s since page, wf s ->
  let j := journal s since page in
  StronglySorted (fun a b => r_ver a < r_ver b) j /\
  NoDup (map r_id j) /\
  (forall x, In x j -> In x (ents s) /\ since < r_ver x) /\
  (forall x, (length (filter (fun r => r_ver r >? since) (ents s)) <= Z.to_nat (Z.max 1 (Z.min page metric_count_read_limit)))%nat ->
             In x (ents s) -> since < r_ver x -> In x j).
Proof. exact journal_spec. Qed.

(* the same clause at the RPC layer (rpc_handler.go: RawGetJournal long-poll registration + broadcastJournal with its
   per-client trim): for EVERY interleaving of edits, polls (any page size) and broadcasts, and any number of clients
   starting anywhere, the concatenation of everything delivered to a client is strictly ascending (so no version is
   delivered twice), lies above the client's starting point and never beyond its cursor *)
Theorem C15_journal_stream_exactly_once_ascending :
  forall v c ops s cls rs s' cls',
  wf s -> Forall cinv cls -> jrun v c (s, cls) ops = (rs, (s', cls')) ->
  Forall (fun cl => StronglySorted Z.lt (cl_stream cl) /\
                    Forall (fun x => cl_start cl < x /\ x <= cl_from cl) (cl_stream cl)) cls'.
Proof. exact journal_stream_exactly_once_ascending. Qed.

(* a fresh client (nothing delivered yet) satisfies the invariant the theorem starts from *)
Theorem C15_new_journal_client_ok : forall from, cinv (new_client from).
Proof. exact new_client_inv. Qed.

(* ---- non-vacuity: a concrete history with namespaces, a namespaced metric, a rename, a delete, a predefined
   entity, a stale edit and a racing pair; the premises of the theorems above are met on it ---- *)
Definition obs_like (r : res) : Z * Z * Z :=
  match r with RSave EOk i v _ => (0, i, v) | RSave _ _ _ _ => (1, 0, 0) | _ => (2, 0, 0) end.
Definition ex_cfg := Cfg 3 60 1 0.
Definition ex_ops : list op :=
  [OSave 0 1 0 0 0 true 0 T_NS 0 100;            (* namespace n1: id 1 v1 *)
   OSave 1 5 0 0 1 true 0 T_METRIC 0 101;        (* metric n1:n5: id 2 v2 *)
   OSave 0 7 0 0 1 true 0 T_METRIC 0 102;        (* metric n7: id 3 v3 *)
   OSave 0 8 3 3 2 false 0 T_METRIC 1 103;       (* rename n7 -> n8: v4 *)
   OSave 0 9 3 3 2 false 0 T_METRIC 1 104;       (* racing edit from v3: fails *)
   OSave 0 8 3 4 2 false 105 T_METRIC 1 105;     (* delete: v5 *)
   OSave 0 3 (-2) 0 0 false 0 T_DASH 0 106].     (* predefined dashboard id -2: v6 *)
Example C15_nonvacuous_history :
  map obs_like (results faithful ex_cfg empty ex_ops) = [(0, 1, 1); (0, 2, 2); (0, 3, 3); (0, 3, 4); (1, 0, 0); (0, 3, 5); (0, -2, 6)]
  /\ map r_ver (journal (run faithful ex_cfg empty ex_ops) 2 100) = [5; 6].
Proof. vm_compute. split; reflexivity. Qed.

(* non-vacuity of the long-poll theorem: reader A waits from v2; v3 commits without the broadcast; reader B reads v3
   and waits from v3; the late broadcast answers A only; B gets v4 exactly once *)
Example C15_nonvacuous_longpoll :
  let ops := [JEdit (OSave 0 1 0 0 0 true 0 0 0 60); JEdit (OSave 0 2 0 0 0 true 0 0 0 61);
              JPoll 0 1000; JEdit (OSave 0 3 0 0 0 true 0 0 0 62); JPoll 1 1000; JPoll 1 1000; JBroadcast;
              JEdit (OSave 0 4 0 0 0 true 0 0 0 63); JBroadcast] in
  map cl_stream (snd (snd (jrun faithful ex_cfg (empty, [new_client 2; new_client 2]) ops))) = [[3]; [3; 4]].
Proof. vm_compute. reflexivity. Qed.

(* non-vacuity of the fault theorems: an edit refused by the binlog, then the same edit retried, then its racing twin *)
Example C15_nonvacuous_failed_append :
  map obs_like (results faithful ex_cfg empty
    [OSave 0 7 0 0 1 true 0 T_METRIC 0 100; OFailAppend (FSave 0 7 1 1 2 false 0 T_METRIC 0 101);
     OSave 0 7 1 1 2 false 0 T_METRIC 0 102; OSave 0 7 1 1 3 false 0 T_METRIC 0 103])
  = [(0, 1, 1); (2, 0, 0); (0, 1, 2); (1, 0, 0)].
Proof. vm_compute. reflexivity. Qed.
