(* C14 — Every protocol message and frame round-trips through its encodings.
   Only the property theorems (closed by [exact]) and non-vacuity examples.
   Scope: TL1 (bare and boxed) is proved for the whole universe of type descriptions and instantiated to
   every schema type; frames are proved with lz4 as an assumed-law section function. TL2 and JSON are NOT
   modelled (stage 2): they are executed as write->read->equal oracles on the Go side only, as is the
   string-vs-[]byte variant clause (in the model StringWrite and StringWriteBytes are one function). *)
From Coq Require Import ZArith List Bool.
From SH Require Import Common.Wrap TL.Model TL.Proofs TL.Model2 TL.Proofs2 TL.Schema TL.Corr Gen.TLSchema.
Import ListNotations.
Open Scope Z_scope.

(* "For every generated TL type …, writing a value in bare or boxed TL1 … form and reading it back yields an
   equal value" — for EVERY type description of the universe, every environment of outer `#` fields, every
   canonical value (wf: ranges of the Go field types, absent optional fields empty, vector shorter than
   2^32 whose elements take at least 4 bytes each as basictl.CheckLengthSanity demands, dictionary keys
   ascending as a Go map is written) and every trailing byte string *)
Theorem C14_tl1_roundtrip_partial :
  forall d env v rest, wf env d v = true -> read env d (write env d v ++ rest) = Some (v, rest).
Proof. exact tl1_roundtrip. Qed.

(* "…every TL type reachable from the generated factories" (statshouse, metadata, engine, api, fsbinlog and
   sqlite checkpoint schemas): each entry of the schema generated from the .tl files, bare and boxed *)
Theorem C14_tl1_roundtrip_every_schema_type :
  forall tag d, In (tag, d) schema ->
  forall v rest, wf [] d v = true ->
  read [] d (write [] d v ++ rest) = Some (v, rest) /\
  read [] (DBoxed tag d) (write [] (DBoxed tag d) v ++ rest) = Some (v, rest).
Proof. exact schema_roundtrip. Qed.

(* "…writing a value in … TL2 … form and reading it back yields an equal value": for every description of the
   TL2 fragment (everything but tuples, boxed types, unions with fields and float/double as a plain struct
   field — none of which has generated TL2 code in the tree), every value of the Go types (conditional fields
   present or absent independently of the mask value, as the Go structs allow; vectors obeying the reader's
   count check; dictionaries with ascending keys) and every trailing byte string *)
Theorem C14_tl2_roundtrip :
  forall d v rest, tl2_ok d = true -> wf2 d v = true -> dec2 d (enc2 d v ++ rest) = Some (v, rest).
Proof. exact tl2_roundtrip. Qed.

(* …instantiated to every schema item whose generated code has TL2 methods (all of statshouseApi and `true`) *)
Theorem C14_tl2_roundtrip_every_tl2_schema_type :
  forall i, In i tl2_items ->
  forall v rest, wf2 (tl2_desc i) v = true -> dec2 (tl2_desc i) (enc2 (tl2_desc i) v ++ rest) = Some (v, rest).
Proof. exact schema_tl2_roundtrip. Qed.

Theorem C14_tl2_schema_in_fragment :
  forallb (fun i => tl2_ok (tl2_desc i) && (Nat.ltb i (length schema))) tl2_items = true /\ (20 <? zlen tl2_items) = true.
Proof. exact (conj schema_tl2_ok schema_tl2_nonempty). Qed.

(* the schema the previous theorem ranges over is the generated one: tags are 32-bit, union and Bool
   constructor tags pairwise different *)
Theorem C14_schema_wellformed : forallb entry_ok schema = true /\ (100 <? zlen schema) = true.
Proof. exact (conj schema_entries_ok schema_nonempty). Qed.

(* boxed form: a value written under one tag is never read back under another *)
Theorem C14_tl1_boxed_tag_checked :
  forall env tag tag' t v rest, is_tag tag = true -> tag' <> tag ->
  read env (DBoxed tag' t) (write env (DBoxed tag t) v ++ rest) = None.
Proof. exact tl1_boxed_tag_checked. Qed.

(* "primitive codecs with 4-byte alignment": every string encoding is a whole number of 4-byte words *)
Theorem C14_string_encoding_aligned : forall s, zlen s < two56 -> zlen (write_string s) mod 4 = 0.
Proof. exact string_encoding_aligned. Qed.

(* "Compressed bucket frames decompress to the original bytes" — for every payload that fits the frame
   header and the aggregator's limit, for every compressor/decompressor pair obeying the one assumed law *)
Theorem C14_frame_roundtrip :
  forall (lz4c : bytes -> bytes) (lz4d : bytes -> Z -> option bytes) max_size,
  (forall x, lz4d (lz4c x) (zlen x) = Some x) ->
  forall data, zlen data < two32 -> zlen data <= max_size ->
  exists osize cd,
    deframe (compress_and_frame lz4c data) = Some (osize, cd) /\ osize = zlen data /\
    decompress lz4d max_size osize cd = Some data.
Proof. exact frame_roundtrip. Qed.

(* "undersized … frames are rejected" *)
Theorem C14_frame_rejects_short : forall frame, zlen frame < 4 -> deframe frame = None.
Proof. exact frame_rejects_short. Qed.

(* "…oversized frames are rejected" — whatever lz4 would do; (a frame whose payload is stored raw, i.e. of
   exactly the announced length, is returned as is and needs no buffer) *)
Theorem C14_frame_rejects_oversized :
  forall lz4d max_size osize cd, osize > max_size -> osize <> zlen cd -> decompress lz4d max_size osize cd = None.
Proof. exact frame_rejects_oversized. Qed.

(* "…rather than misread": an accepted frame always yields exactly the announced number of bytes *)
Theorem C14_frame_never_misread :
  forall lz4d max_size osize cd out, decompress lz4d max_size osize cd = Some out -> zlen out = osize.
Proof. exact frame_never_misread. Qed.

(* TL2 size prefixes (basictl.TL2WriteSize / TL2ParseSize / TL2CalculateSize): for EVERY length an int can hold the
   prefix reads back as that length and leaves the rest untouched, and its width is 1 / 3 / 9 bytes exactly by the
   length classes [0,254) / [254, 254+2^16) / the rest - the number the generated writers precompute *)
Theorem C14_tl2_size_prefix_roundtrip_and_width :
  forall l r, 0 <= l <= max_int ->
    read_size (write_size l ++ r) = Some (l, r) /\
    zlen (write_size l) = (if l <? 254 then 1 else if l <? 254 + 65536 then 3 else 9).
Proof. intros l r H. split; [exact (read_write_size l r H) | exact (write_size_width l)]. Qed.

(* ---- non-vacuity ---- *)
(* a metric-like constructor: fields mask, string, dictionary, optional double, optional vector of longs *)
Definition ex_desc : desc :=
  DStruct [(None, DPrim PNat); (None, DPrim PString);
           (None, DVector true (DStruct [(None, DPrim PString); (None, DPrim PString)]));
           (Some (NVar 0%nat, 0), DPrim PDouble); (Some (NVar 0%nat, 2), DVector false (DPrim PLong));
           (Some (NVar 0%nat, 5), DStruct [])].
Definition ex_value : value :=
  VList [VInt 37; VStr [99; 112; 117]; VList [VList [VStr [97]; VStr []]; VList [VStr [98]; VStr [120; 121; 122; 0; 255]]];
         VOpt (Some (VInt 4607182418800017408)); VOpt (Some (VList [VInt (-1); VInt 7])); VOpt (Some (VList []))].
Example C14_nonvacuous_value :
  wf [] ex_desc ex_value = true /\ zlen (write [] ex_desc ex_value) = 60 /\
  read [] ex_desc (write [] ex_desc ex_value ++ [1; 2]) = Some (ex_value, [1; 2]) /\
  wf [] (DVector true (DStruct [(None, DPrim PString); (None, DPrim PString)]))
     (VList [VList [VStr [98]; VStr []]; VList [VStr [97]; VStr []]]) = false.
Proof. vm_compute. auto. Qed.
(* bytes the generated Go writer produced for a boxed statshouse.metric are read by the schema's description
   of some item into a canonical value that is written back identically *)
Example C14_nonvacuous_schema :
  existsb (fun e => ok (CRead 0 false
     [132;216;37;51;64;3;217;248;0;0;0;0;2;0;0;0;0;0;0;0;10;99;99;32;89;97;89;45;46;46;98;0;5;89;98;48;49;90;0;0;1;189;0;0]
     None) || match read [] (DBoxed (fst e) (snd e))
     [132;216;37;51;64;3;217;248;0;0;0;0;2;0;0;0;0;0;0;0;10;99;99;32;89;97;89;45;46;46;98;0;5;89;98;48;49;90;0;0;1;189;0;0] with
     | Some (v, []) => wf [] (DBoxed (fst e) (snd e)) v | _ => false end) schema = true.
Proof. vm_compute. reflexivity. Qed.
(* TL2: a query-like constructor with more than 7 fields (two presence blocks), an enumeration, a dictionary,
   a conditional string, a conditional `true` in the second block; the value has defaults in between *)
Definition ex_desc2 : desc :=
  DStruct [(None, DPrim PNat); (None, DPrim PInt); (None, DPrim PString); (None, DPrim PLong);
           (None, DUnion [(1, DStruct []); (2, DStruct []); (3, DStruct [])]);
           (None, DVector false (DPrim PString)); (None, DBool 5 6);
           (None, DVector true (DStruct [(None, DPrim PString); (None, DPrim PString)]));
           (Some (NVar 0%nat, 0), DPrim PString); (Some (NVar 0%nat, 2), DStruct [])].
Definition ex_value2 : value :=
  VList [VInt 0; VInt (-5); VStr [104; 105]; VInt 0; VCtor 2 (VList []); VList [VStr []; VStr [120]]; VBool true;
         VList [VList [VStr [97]; VStr []]]; VOpt (Some (VStr [])); VOpt (Some (VList []))].
Example C14_nonvacuous_tl2 :
  tl2_ok ex_desc2 = true /\ wf2 ex_desc2 ex_value2 = true /\
  enc2 ex_desc2 ex_value2 = [25; 236; 251;255;255;255; 2;104;105; 2;1;2; 4;2;0;1;120; 1; 7; 5;1;3;2;1;97; 0] /\
  dec2 ex_desc2 (enc2 ex_desc2 ex_value2 ++ [9]) = Some (ex_value2, [9]) /\
  enc2 ex_desc2 (default ex_desc2) = [0].
Proof. vm_compute. auto 10. Qed.
Example C14_nonvacuous_frames :
  let lz4c := fun _ : bytes => [31; 7] in
  compress_and_frame lz4c [7; 7; 7; 7; 7] = [5; 0; 0; 0; 31; 7] /\
  deframe [5; 0; 0; 0; 31; 7] = Some (5, [31; 7]) /\
  decompress (fun _ _ => Some [7; 7; 7; 7; 7]) 10485760 5 [31; 7] = Some [7; 7; 7; 7; 7] /\
  decompress (fun _ _ => Some [7; 7; 7; 7]) 10485760 5 [31; 7] = None /\
  decompress (fun _ _ => Some []) 10485760 10485761 [31; 7] = None /\ deframe [5; 0; 0] = None.
Proof. vm_compute. auto 10. Qed.
