(* C21 — Persistent caches reload exactly what was saved and never serve wrong data.
   Only the property theorems (closed by [exact]) and non-vacuity examples.
   [H] is xxh3.Hash128 as the 16 bytes stored in the file: an arbitrary function with 16-byte results. *)
From Coq Require Import ZArith List Bool Lia.
From SH Require Import Common.Wrap Chunked.Model Chunked.ProofsMap Chunked.ProofsCache Chunked.ProofsCodec
  Chunked.ProofsHist Chunked.Proofs Chunked.ProofsStore Chunked.ProofsSaveLoad Chunked.ProofsAny Chunked.ProofsFlip.
Import ListNotations.
Open Scope Z_scope.

(* "Reloading a chunked storage file yields exactly the saved items": a write session starting at offset 0
   (fresh file or ResetToStartOfFile over any older content) that FinishItem did not reject leaves exactly the
   encoding of the chunk bodies [bs]; reading that file returns [bs] and then the clean end; the bodies
   concatenate to the items, and every body is a concatenation of whole consecutive items (only trailing
   empty items can be absent). *)
Theorem C21_chunks_roundtrip :
  forall (H : bytes -> bytes), (forall x, length (H x) = 16%nat) ->
  forall magic items st st',
  0 <= magic < two32 -> s_off st = 0 -> s_hash st = zero_hash ->
  write_session H magic st items = Some st' ->
  exists bs stR, group_bodies [] items = Some bs /\
    s_file st' = encode H zero_hash magic bs /\
    read_file H magic (s_file st') = (stR, bs, REnd) /\
    concat bs = concat items /\
    exists groups rest, bs = map (@concat Z) groups /\ items = concat groups ++ rest /\ concat rest = [].
Proof. exact write_then_read. Qed.

(* "a truncated ... file yields a prefix of the saved chunks and never a damaged item": every truncation point,
   no assumption on the hash at all *)
Theorem C21_truncated_yields_prefix :
  forall (H : bytes -> bytes), (forall x, length (H x) = 16%nat) ->
  forall magic bs k st' bs' r,
  0 <= magic < two32 -> Forall body_ok bs ->
  read_file H magic (firstn k (encode H zero_hash magic bs)) = (st', bs', r) ->
  exists n, bs' = firstn n bs.
Proof. exact truncated_read_prefix. Qed.

(* "... or corrupted file yields a prefix of the saved chunks and never a damaged item" — PARTIAL: the damage may
   replace the magic bytes and the body bytes of any number of chunks arbitrarily (bit flips, overwrites), the
   4-byte size fields and the 16-byte hash trailers are as written.  Then the reader returns a prefix of the saved
   bodies, or two different byte strings with the same 128-bit hash are exhibited.  (Damaged trailers: next
   theorem.  Damaged size fields are not covered by a theorem: the reader then compares a hash with bytes taken
   from another place of the file; covered by the oracle of the harness only.) *)
Theorem C21_corrupt_yields_prefix_or_collision_partial :
  forall (H : bytes -> bytes), (forall x, length (H x) = 16%nat) ->
  forall magic ds st' bs' r,
  0 <= magic < two32 -> Forall dframe_ok ds ->
  read_file H magic (dencode H zero_hash magic ds) = (st', bs', r) ->
  (exists n, bs' = firstn n (map d_b ds)) \/ (exists x y : bytes, x <> y /\ H x = H y).
Proof. exact damaged_read_prefix_or_collision. Qed.

(* "... corrupted file ... never a damaged item", ARBITRARY damage (size fields included): for EVERY byte string [f']
   whatever — in particular every modification of a saved file — the reader returns a prefix of the saved bodies [bs]
   followed by end/error, or it [diverges]: after a (possibly empty) prefix of saved bodies it accepted a body b' that
   is not the saved one, for which the reader's two bounds checks held (|b'| <= ChunkSize, frame inside the file) and
   the file holds, right after b', exactly H(previous hash ++ magic ++ size ++ b').  In that case either this is an
   explicit collision with the saved chunk (different input, same 128-bit hash), or the 16 bytes in the damaged file
   differ from the saved hash, i.e. the damage produced a NEW correct hash value (next theorem: for one changed byte
   this can only be the size-field case).  With H uninterpreted nothing stronger is true: another validly written
   file is also "a modification of all bytes". *)
Theorem C21_any_file_prefix_or_divergence :
  forall (H : bytes -> bytes), (forall x, length (H x) = 16%nat) ->
  forall magic bs f' st' bs' r,
  bytes_ok f' -> 0 <= magic < two32 ->
  read_file H magic f' = (st', bs', r) ->
  ((exists n, bs' = firstn n bs) \/ diverges H magic f' zero_hash [] bs bs') /\
  (r = REnd \/ r = RChunk [] \/ exists e, r = RErr e).
Proof. exact any_file_prefix_or_diverges. Qed.

(* every bit flip (any change of one byte) at EVERY position of a saved file, size fields included: the reader returns a
   prefix of the saved bodies then end/error, or a collision with a saved chunk is exhibited, or the changed byte is in
   the size field of chunk i and the new size s' passed both bounds checks of ReadNext (s' <= ChunkSize, frame inside
   the file) and the 16 bytes of the SAVED file found s' bytes after the header equal the hash of the bytes before them *)
Theorem C21_single_byte_change_prefix_or_collision_or_size_accident :
  forall (H : bytes -> bytes), (forall x, length (H x) = 16%nat) ->
  forall magic bs a c c' z st' bs' r,
  0 <= magic < two32 -> Forall body_ok bs ->
  encode H zero_hash magic bs = a ++ c :: z -> c' <> c -> bytes_ok (a ++ c' :: z) ->
  read_file H magic (a ++ c' :: z) = (st', bs', r) ->
  ((exists n, bs' = firstn n bs) \/ saved_collision H magic bs \/ size_field_accident H magic bs (zlen a)) /\
  (r = REnd \/ r = RChunk [] \/ exists e, r = RErr e).
Proof. exact single_byte_change. Qed.

(* the bounds of the scratch buffer made explicit (None = Go's "slice bounds out of range" panic): with the hard-limit
   test `s > ChunkSize` ReadNext never slices beyond the buffer, on any file and in any state ... *)
Theorem C21_reader_never_slices_beyond_scratch :
  forall (H : bytes -> bytes) magic st, read_next_b H true magic st = Some (read_next H magic st).
Proof. exact read_next_never_out_of_bounds. Qed.

(* ... and without that test (only the file-size test left) a size field above ChunkSize that still fits into the
   file makes it slice beyond the buffer, where the code as it is answers "overflows hard limit" *)
Theorem C21_hard_limit_needed :
  forall (H : bytes -> bytes),
  read_next_b H false 5 (open_slice (oversize_file 5)) = None /\
  snd (read_next H 5 (open_slice (oversize_file 5))) = RErr EBodyLimit.
Proof. exact hard_limit_needed. Qed.

(* the file with no damage is the saved file *)
Theorem C21_undamaged_is_saved_file :
  forall (H : bytes -> bytes) magic bs prev, encode H prev magic bs = dencode H prev magic (map (intact magic) bs).
Proof. exact encode_dencode. Qed.

(* a chunk whose stored hash was damaged is always rejected (whatever the hash function) *)
Theorem C21_damaged_trailer_rejected :
  forall (H : bytes -> bytes) magic st pre b t post,
  0 <= magic < two32 ->
  s_file st = pre ++ le32 magic ++ le32 (zlen b) ++ b ++ t ++ post -> zlen t = 16 -> zlen b <= ChunkSize ->
  s_noff st = zlen pre -> s_size st = zlen (s_file st) -> s_reading st = true ->
  t <> H (chunk_input (s_nhash st) magic b) ->
  snd (read_next H magic st) = RErr EHash.
Proof. exact damaged_trailer_rejected. Qed.

(* "The mapping cache never returns a value for a string other than the value added for it": after any history of
   add/get/ttl-evict/resize/save/reload operations (any eviction candidates, any map iteration orders — every list
   the validation accepts), in the code as it is ([fixed = false]) and in the repaired variant, a value returned by
   GetValue for [k] was passed together with [k] to AddValues earlier in the history. *)
Theorem C21_cache_never_wrong_value :
  forall fixed det ms ttl ops c file ts k v,
  Forall op_typed ops -> hrun fixed det (new_cache ms ttl, []) ops = Some (c, file) ->
  snd (get_value ts k c) = Some v -> added_in ops k v.
Proof. exact cache_never_wrong_value. Qed.

(* "never returns marker values" (0, -1 mapping flood, -2 does not exist; and never for the empty string) *)
Theorem C21_cache_never_marker :
  forall fixed det ms ttl ops c file ts k v,
  Forall op_typed ops -> hrun fixed det (new_cache ms ttl, []) ops = Some (c, file) ->
  snd (get_value ts k c) = Some v -> v <> 0 /\ v <> -1 /\ v <> -2 /\ k <> [].
Proof. exact cache_never_marker. Qed.

(* "never grows beyond its configured size": while the configured size stays [ms] (SetSizeTTL / reload with the
   same size), sumSize <= ms after every history, and the real memory estimate of the map is at most sumSize *)
Theorem C21_cache_size_le_max :
  forall fixed det ms ttl ops c file,
  0 <= ms -> Forall op_typed ops -> Forall (const_size ms) ops ->
  hrun fixed det (new_cache ms ttl, []) ops = Some (c, file) ->
  esize (c_map c) <= c_sum_size c /\ c_sum_size c <= ms.
Proof. exact cache_size_le_max. Qed.

(* "keeps its size and access-time accounting exact" — REFUTED for the code as it is (finding F-C21): one
   AddValues batch with the same string twice leaves sumSize and sumTS above the sums over the map *)
Theorem C21_accounting_exact_refuted :
  exists ops c file, Forall op_typed ops /\ hrun false false (new_cache 1000 0, []) ops = Some (c, file) /\
                     c_sum_size c <> esize (c_map c) /\ c_sum_ts c <> ets (c_map c).
Proof. exact accounting_exact_refuted. Qed.

(* ... it holds for the code as it is when no batch contains a string twice ... *)
Theorem C21_accounting_exact_distinct_batches :
  forall det ms ttl ops c file,
  Forall op_typed ops -> Forall distinct_batch ops -> hrun false det (new_cache ms ttl, []) ops = Some (c, file) ->
  NoDup (keys (c_map c)) /\ c_sum_size c = esize (c_map c) /\ c_sum_ts c = ets (c_map c).
Proof. exact accounting_exact_distinct_batches. Qed.

(* ... and for all histories in the repaired variant (skip strings already kept from the same batch) *)
Theorem C21_accounting_exact_repaired :
  forall det ms ttl ops c file,
  Forall op_typed ops -> hrun true det (new_cache ms ttl, []) ops = Some (c, file) ->
  NoDup (keys (c_map c)) /\ c_sum_size c = esize (c_map c) /\ c_sum_ts c = ets (c_map c).
Proof. exact accounting_exact_fixed. Qed.

(* "reloads from its saved file to the same contents": Save through the chunked storage (any map iteration order,
   over any older file content), then load of that file: no error, the same string -> (value, accessTS) map, and
   sumSize/sumTS equal to the exact sums of the saved map *)
Theorem C21_cache_save_load_same :
  forall (H : bytes -> bytes), (forall x, length (H x) = 16%nat) ->
  forall (c : cache) (order : list item) (st st' : cstate) (ms : Z),
  NoDup (keys (c_map c)) -> vals_ok (c_map c) -> same_map (c_map c) order = true ->
  save_file H st order = Some st' ->
  exists c', load_file H (s_file st') (new_cache ms 0) = (c', false) /\
    c_map c' = order /\ c_sum_size c' = esize (c_map c) /\ c_sum_ts c' = ets (c_map c) /\
    (forall k, lookup k (c_map c') = lookup k (c_map c)).
Proof. exact cache_save_load_same. Qed.

(* the same inside histories: a reload right after an effective Save restores the saved map *)
Theorem C21_reload_after_save :
  forall fixed det c file order bs ms ttl,
  NoDup (keys (c_map c)) -> vals_ok (c_map c) ->
  op_accepts fixed det (c, file) (ASave order) = true ->
  hstep fixed (c, file) (ASave order) = ((with_saved c, bs), None, true) ->
  let c' := fst (fst (fst (hstep fixed (with_saved c, bs) (AReload ms ttl)))) in
  c_map c' = order /\ same_map (c_map c) order = true /\
  c_sum_size c' = esize (c_map c) /\ c_sum_ts c' = ets (c_map c) /\ c_max_size c' = ms.
Proof. exact reload_after_save. Qed.

(* ---- non-vacuity ---- *)
Definition exA : bytes := [97].  Definition exB : bytes := [98].  Definition exC : bytes := [99].
Definition ex_ops : list op :=
  [ AAdd 10 [(exA, 1); (exB, 2); ([], 5); (exC, 0)] [];
    AGet 12 exA;
    AAdd 20 [(exC, 3)] [(exB, {| e_val := 2; e_ts := 10 |}); (exA, {| e_val := 1; e_ts := 12 |})];
    ASave [(exA, {| e_val := 1; e_ts := 12 |}); (exC, {| e_val := 3; e_ts := 20 |})];
    ATTL 10 100 [];
    AReload 70 0;
    AGet 30 exC ].
(* a history with the marker filter, a timestamp refresh, a slow-path eviction, a save and a reload; it is accepted,
   ends with two entries, exact accounting, sumSize 66 <= 70, and GetValue finds the reloaded value *)
Example C21_nonvacuous_history :
  Forall op_typed ex_ops /\ Forall (const_size 70) ex_ops /\ Forall distinct_batch ex_ops /\
  exists c file, hrun false true (new_cache 70 0, []) ex_ops = Some (c, file) /\
    length (c_map c) = 2%nat /\ c_sum_size c = 66 /\ c_sum_ts c = 42 /\ length file = 1%nat /\
    snd (get_value 31 exC c) = Some 3 /\ snd (get_value 31 exB c) = None.
Proof.
  split; [|split; [|split]].
  - unfold ex_ops. constructor; [|constructor; [|constructor; [|constructor; [exact I|constructor; [exact I|constructor; [exact I|constructor; [|constructor]]]]]]].
    + simpl. split; [unfold is_u32, two32; lia|]. intros k v [E|[E|[E|[E|[]]]]]; inversion E; subst; unfold is_i32, two31; lia.
    + simpl. unfold is_u32, two32; lia.
    + simpl. split; [unfold is_u32, two32; lia|]. intros k v [E|[]]; inversion E; subst; unfold is_i32, two31; lia.
    + simpl. unfold is_u32, two32; lia.
  - unfold ex_ops. repeat (constructor; [simpl; try exact I; try reflexivity|]). constructor.
  - unfold ex_ops, distinct_batch, exA, exB, exC. repeat constructor; simpl; intuition discriminate.
  - eexists. eexists. split; [vm_compute; reflexivity|]. vm_compute. repeat split; reflexivity.
Qed.

(* a toy hash with 16-byte results: a file of two write sessions (two chunks) is written, read back, truncated
   and damaged; the premises of the storage theorems are satisfiable *)
Definition exH (x : bytes) : bytes := firstn 16 (rev x ++ repeat 7 16).
Lemma exH_len x : length (exH x) = 16%nat.
Proof. unfold exH. rewrite firstn_length, app_length, repeat_length. lia. Qed.
Example C21_nonvacuous_storage :
  exists st1 st2 stR,
    write_session exH 5 (open_slice []) [[1; 2]; [3]] = Some st1 /\
    write_session exH 5 st1 [[4; 5; 6]] = Some st2 /\ length (s_file st2) = 54%nat /\
    read_file exH 5 (s_file st2) = (stR, [[1; 2; 3]; [4; 5; 6]], REnd) /\
    snd (fst (read_file exH 5 (firstn 40 (s_file st2)))) = [[1; 2; 3]] /\
    Forall body_ok [[1; 2; 3]; [4; 5; 6]] /\
    dframe_ok {| d_m := [5; 0; 0; 1]; d_b := [1; 2; 3]; d_b' := [1; 2; 9] |}.
Proof.
  eexists. eexists. eexists. split; [vm_compute; reflexivity|]. split; [vm_compute; reflexivity|].
  split; [vm_compute; reflexivity|]. split; [vm_compute; reflexivity|]. split; [vm_compute; reflexivity|].
  split; [repeat constructor; unfold body_ok, zlen, ChunkSize; simpl; lia|].
  unfold dframe_ok, zlen, ChunkSize; simpl; lia.
Qed.

(* one changed byte: the premises of C21_single_byte_change are satisfiable; a change in the size field of the first
   chunk (byte 4) and one in the body of the second chunk both leave a prefix *)
Example C21_nonvacuous_single_byte :
  let f := encode exH zero_hash 5 [[1; 2; 3]; [4; 5; 6]] in
  f = firstn 4 f ++ 3 :: skipn 5 f /\ bytes_ok (firstn 4 f ++ 2 :: skipn 5 f) /\
  snd (fst (read_file exH 5 (firstn 4 f ++ 2 :: skipn 5 f))) = [] /\
  f = firstn 36 f ++ 5 :: skipn 37 f /\
  snd (fst (read_file exH 5 (firstn 36 f ++ 9 :: skipn 37 f))) = [[1; 2; 3]].
Proof.
  cbv zeta. split; [vm_compute; reflexivity|]. split; [apply bytes_ok_b; vm_compute; reflexivity|].
  split; [vm_compute; reflexivity|]. split; vm_compute; reflexivity.
Qed.
