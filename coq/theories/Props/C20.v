(* C20 — Metadata replicas converge and name lookups stay correct.
   Only the property theorems (closed by [exact]) and non-vacuity examples. *)
From Coq Require Import ZArith List Bool Permutation.
From SH Require Import Journal.Model Journal.Proofs Journal.ProofsConv Journal.ProofsSys.
Import ListNotations.
Open Scope Z_scope.

(* "For any history of metric, group and namespace edits (including renames and reuse of freed names), delivered to a
   replica in any batching, with ... partial deliveries and save/reload of possibly truncated journal files, every
   replica ends with the source's latest version of each entity": for the chain source -> journal -> journal
   (no compaction), every reachable state, whatever the interleaving of edits, limited/cut deliveries and truncated
   reloads was: a replica whose cursor has reached the source's version holds exactly the source's entries, in the
   same order (the second hop: as one RPC hop re-encodes them).  Events are arbitrary, so renames, reuse of names and
   every entity kind are included. *)
Theorem C20_replica_converges :
  forall (H : event -> Z) (s : sys), reach H s ->
    (j_cur (sS s) <= j_loader (sM s) -> j_entries (sM s) = j_entries (sS s)) /\
    (j_cur (sS s) <= j_loader (sA s) -> j_entries (sA s) = map wire (j_entries (sS s))).
Proof. exact replica_converges. Qed.

(* along such a chain no delivery, with any limits and any cut, runs into addEventLocked's panics *)
Theorem C20_deliveries_never_panic :
  forall (H : event -> Z) (s : sys) sz mi mb n lk, reach H s ->
    apply_update H (sM s) (firstn n (journal_diff sz (sS s) (j_loader (sM s)) mi mb)) lk <> None /\
    apply_update H (sA s) (map wire (firstn n (journal_diff sz (sM s) (j_loader (sA s)) mi mb))) lk <> None.
Proof. exact deliveries_never_panic. Qed.

(* "delivered ... in any batching": a node whose cursor is behind its upstream's version is sent at least one event,
   for every item limit and every byte budget (also one smaller than a single event) — the convergence theorem does
   not silently assume that deliveries make progress *)
Theorem C20_delivery_makes_progress :
  forall (H : event -> Z) (s : sys) sz mi mb, reach H s ->
    (j_loader (sM s) < j_cur (sS s) -> journal_diff sz (sS s) (j_loader (sM s)) mi mb <> []) /\
    (j_loader (sA s) < j_cur (sM s) -> journal_diff sz (sM s) (j_loader (sA s)) mi mb <> []).
Proof. exact delivery_makes_progress. Qed.

(* "when the diff is empty the maps are equal": empty answers on both hops mean both replicas equal the source *)
Theorem C20_empty_diffs_mean_converged :
  forall (H : event -> Z) (s : sys) sz mi mb, reach H s ->
    journal_diff sz (sS s) (j_loader (sM s)) mi mb = [] ->
    journal_diff sz (sM s) (j_loader (sA s)) mi mb = [] ->
    j_entries (sM s) = j_entries (sS s) /\ j_entries (sA s) = map wire (j_entries (sS s)).
Proof. exact empty_diffs_mean_converged. Qed.

(* "... in any batching, partial deliveries": one delivery step, for any upstream that is itself a replica of the
   source (through any version- and key-preserving hop functions) and any prefix of the answer *)
Theorem C20_delivery_keeps_replica_invariant :
  forall (H : event -> Z) g1 g2 h S U cU R n lk R' evs,
    preserves g1 -> preserves h -> (forall e, g2 e = h (g1 e)) ->
    wfj S -> wfj U -> wfj R -> RepAt g1 S U cU -> Rep g2 S R -> j_compact R = false ->
    apply_update H R (map h (firstn n (filter (fun e => j_loader R <? e_ver e) (j_entries U)))) lk = Some (R', evs) ->
    wfj R' /\ Rep g2 S R' /\ j_compact R' = false.
Proof. exact rep_deliver. Qed.

(* "save/reload of possibly truncated journal files": the reloaded journal is a prefix of the saved one (how many
   events survive is decided by the chunk reader, C21), its cursor is set so that the invariant still holds *)
Theorem C20_truncated_reload_keeps_replica_invariant :
  forall (H : event -> Z) g S R hdr chunks R' b,
    preserves g -> wfj R -> posj R -> Rep g S R ->
    (hdr = false -> fold_right Nat.add 0%nat chunks = 0%nat) ->
    load_journal H R hdr chunks = Some (R', b) ->
    wfj R' /\ posj R' /\ Rep g S R' /\ j_compact R' = j_compact R /\
    j_entries R' = firstn (fold_right Nat.add 0%nat chunks) (j_entries R).
Proof. exact rep_reload. Qed.

(* a replica satisfying the invariant whose cursor reached the source's version equals the source (through g) *)
Theorem C20_converged_replica_equals_source :
  forall (H : event -> Z) g S R, preserves g -> wfj S -> wfj R -> Rep g S R -> j_cur S <= j_loader R ->
    j_entries R = map g (j_entries S).
Proof. exact rep_converged. Qed.

(* "replicas of the same journal end with identical state hashes": the state hash is the xor of the entry hashes
   (kept by every update and by load), hence equal for journals with the same events up to order and version *)
Theorem C20_state_hash_is_xor_of_entries :
  forall (H : event -> Z) j src lk j' evs, hash_inv H j -> apply_update H j src lk = Some (j', evs) -> hash_inv H j'.
Proof. exact apply_update_hash. Qed.
Theorem C20_loaded_state_hash_is_xor_of_entries :
  forall (H : event -> Z) saved hdr chunks j' b, load_journal H saved hdr chunks = Some (j', b) -> hash_inv H j'.
Proof. exact load_journal_hash. Qed.
Theorem C20_equal_journals_equal_hash :
  forall (H : event -> Z) j1 j2, (forall e v, H (set_ver e v) = H e) -> hash_inv H j1 -> hash_inv H j2 ->
    Permutation (map (fun e => set_ver e 0) (j_entries j1)) (map (fun e => set_ver e 0) (j_entries j2)) ->
    j_hash j1 = j_hash j2.
Proof. exact equal_content_equal_hash. Qed.

(* "each metric's group is the enabled user group with the longest matching name prefix": what
   calcGroupForMetricLocked returns on a list sorted by name descending ... *)
Theorem C20_group_is_longest_enabled_prefix :
  forall ordered nm, sorted_desc ordered = true ->
  (calc_group ordered nm = BuiltinGroupIDDefault /\ forall g, In g ordered -> has_prefix nm (g_name g) = false) \/
  (exists g, In g ordered /\ calc_group ordered nm = g_id g /\ has_prefix nm (g_name g) = true /\
     forall g', In g' ordered -> has_prefix nm (g_name g') = true -> (length (g_name g') <= length (g_name g))%nat).
Proof. exact calc_group_longest_prefix. Qed.
(* ... and the rebuild after every change of a group's existence, name or disable flag installs such a list (the
   enabled user groups) and recomputes every metric's group from it.  PARTIAL: that the assignment also stays
   current between rebuilds (metric events use the stored list) is covered by the correspondence check only. *)
Theorem C20_rebuild_assigns_groups_partial :
  forall fixm amb gord s,
  let s' := rebuild fixm amb gord s in
  sorted_desc (g_ordered s') = true /\
  (forall id m, In (id, m) (by_id s') -> m_group m = calc_group (g_ordered s') (m_name m)) /\
  (gord = [] -> forall g, In g (g_ordered s') <-> In g (enabled_groups s)).
Proof. exact rebuild_assigns_groups. Qed.

(* "looking a metric up by name always returns the metric that currently holds that name" — REFUTED for the code as
   it is (finding F-C20): after a rename is applied once the freed name already belongs to another metric, exactly one
   metric of the by-id map holds the name and the by-name lookup finds nothing. *)
Theorem C20_lookup_by_name_returns_holder_refuted :
  exists (s : storage) (batch : list event) (id : Z) (nm : name),
    let s' := apply_events false false [] [] s batch in
    map m_id (holders nm (map snd (by_id s'))) = [id] /\ nget nm (by_name s') = None.
Proof. exact lookup_by_name_refuted. Qed.

(* "every replica ends with the source's latest version of each entity (in compacted form for compact journals)" —
   REFUTED for an agent that follows TWO compact aggregator journals one after the other (finding F-C20c): a compact
   journal that receives an event equal to the stored one keeps the OLD version number, so version numbers are private
   to each compact journal and the agent's cursor does not transfer: the second journal holds the source's latest
   content, answers the agent with an empty diff for ever, and the agent keeps different content (and hash). *)
Theorem C20_agent_following_two_compact_journals_refuted :
  exists (L agent : journal) (latest : event),
    map (fun e => set_ver e 0) (j_entries L) = [set_ver latest 0] /\
    journal_diff (fun _ => 0) L (j_loader agent) 1000 1000000 = [] /\
    map (fun e => set_ver e 0) (j_entries agent) <> map (fun e => set_ver (wire e) 0) (j_entries L).
Proof. exact compact_cursor_not_transferable. Qed.

(* non-vacuity *)
Definition toyH (e : event) : Z := e_id e * 7 + e_typ e + 1.
Definition ex_e1 := Ev 0 1 1 [120] 1 0 0 0 0 (Dt false false false 0 0).
Definition ex_e2 := Ev 0 1 2 [121] 1 0 0 0 0 (Dt false false false 0 1).
Definition ex_e3 := Ev 0 2 3 [120] 3 0 0 0 1 (Dt false false false 5 0).
Definition ex_e4 := Ev 2 7 4 [120] 1 0 0 0 0 (Dt false false false 0 0).
Definition ex_S : journal := match add_events toyH (empty_journal false) [ex_e1; ex_e2; ex_e3; ex_e4] with Some j => j | None => empty_journal false end.
Definition ex_M : journal :=
  match apply_update toyH (empty_journal false) (firstn 1 (journal_diff (fun _ => 0) ex_S 0 1000 1000000)) 4 with
  | Some (j, _) => match apply_update toyH j (journal_diff (fun _ => 0) ex_S (j_loader j) 2 1000000) 4 with Some (j', _) => j' | None => j end
  | None => empty_journal false end.
(* a three-entry source, a replica filled by two limited deliveries: it has caught up and equals the source;
   reloading it from a file cut after the first chunk of one event leaves a one-entry journal asking from version 2 *)
Example C20_nonvacuous_chain :
  length (j_entries ex_S) = 3%nat /\ j_entries ex_M = j_entries ex_S /\ j_loader ex_M = 4 /\
  (exists j b, load_journal toyH ex_M true [1%nat] = Some (j, b) /\ j_loader j = 2 /\ length (j_entries j) = 1%nat) /\
  j_hash ex_M = j_hash ex_S /\ j_hash ex_S <> 0.
Proof. vm_compute. repeat split; try reflexivity; try discriminate. eexists; eexists; repeat split; reflexivity. Qed.
Example C20_nonvacuous_progress :
  journal_diff (fun _ => 100) ex_S 1 0 1 = [ex_e2] /\ journal_diff (fun _ => 100) ex_S 4 1000 1000 = [].
Proof. vm_compute. split; reflexivity. Qed.
Example C20_nonvacuous_groups :
  let gs := sort_desc [Gr 1 1 [97] false; Gr 2 1 [97;98] false; Gr 3 1 [98] false] in
  sorted_desc gs = true /\ calc_group gs [97;98;99] = 2 /\ calc_group gs [97;99] = 1 /\ calc_group gs [99] = BuiltinGroupIDDefault.
Proof. vm_compute. repeat split; reflexivity. Qed.
Example C20_nonvacuous_repaired_lookup :
  let s' := apply_events true true [] [] wit_before wit_batch in
  option_map m_id (nget [120] (by_name s')) = Some 2 /\ option_map m_id (nget [121] (by_name s')) = Some 1.
Proof. exact lookup_by_name_repaired_on_witness. Qed.
