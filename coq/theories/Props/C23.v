(* C23 — The API series cache returns correctly placed, fresh data under concurrency.
   Model: Cache2/Model.v (one step = one API call run to quiescence, incl. the trim goroutine);
   tied to internal/api/tscache2*.go by the correspondence harness (cache2_verif_test.go).
   Proved for ALL histories of the whole cache: memory accounting (water levels = what buckets and chunks hold,
   zero when emptied), for the code as it is and for the repaired trim loop.  Proved for all bucket states and
   requests: a request becomes an awaiter only of a chunk that is being loaded.  Proved for all event sequences on
   one chunk: the loading / awaiters / invalidation-mark protocol (freshness).  Placement, completeness, the
   whole-cache form of freshness, the hard limit at rest and 'nobody waits without a load' remain bounded sweeps
   (names end in _bounded_partial and say the bound). *)
From Coq Require Import ZArith List Bool.
From SH Require Import Cache2.Model Cache2.ProofsChunk Cache2.ProofsAcc Cache2.ProofsAwait Cache2.ProofsKey Cache2.ProofsAnswer Cache2.ProofsLimit Cache2.ProofsSweep.
Import ListNotations.
Open Scope Z_scope.

(* "... and never rows from a load that finished before an invalidation of that slot completed before the
   request began."  Per chunk, for every sequence of loader starts, awaits, copies, invalidations and storage
   calls returning (successfully or not): whenever the decision table lets a non-play, non-forced request at
   time tnow proceed without waiting (the only way to be served rows already in the chunk), those rows were
   written by a storage call that finished after every invalidation so far.  A request that does wait is served
   by its own storage call or by one still in flight, both of which finish after the request began. *)
Theorem C23_freshness_chunk_protocol : forall CS es c0 step tnow,
  c_inv c0 = NEVER ->
  (forall t, In (CInval t) es -> NEVER < t <= tnow) ->
  snd (decide CS step tnow 0 false (fst (crun c0 es))) = false ->
  snd (crun c0 es) = false.
Proof. exact chunk_copy_is_fresh. Qed.

(* same clause: a failed storage call leaves rows, size and the invalidation mark of the chunk untouched *)
Theorem C23_failed_load_keeps_invalidation : forall cd sz c,
  c_size (ch_finish false cd sz c) = c_size c /\ c_data (ch_finish false cd sz c) = c_data c /\
  c_inv (ch_finish false cd sz c) = c_inv c.
Proof. exact failed_finish_keeps. Qed.

(* "... and no request waits forever."  Partial: per chunk, for every event sequence in which requests await
   only while a storage call is in flight on the chunk (what the whole-cache model does; checked on all swept
   histories below): a registered awaiter always has a storage call in flight to wait for, and the next call
   that returns on the chunk takes every registered awaiter with it.  Termination of the storage call itself
   is the environment's (QuerySelectTimeoutDefault), not proved. *)
Theorem C23_awaiters_have_a_load_partial : forall es id s,
  wf_events 0 es ->
  let c := fold_left cstep es (mkChunk id s None [] NEVER NEVER NEVER 0 0) in
  c_aw c = [] \/ 0 < c_loading c.
Proof. exact chunk_awaiters_have_a_load. Qed.

Theorem C23_finish_signals_every_awaiter : forall ok cd sz c, c_aw (ch_finish ok cd sz c) = [].
Proof. exact finish_releases_awaiters. Qed.

(* whoever is told to wait is also told to load: a waiting request is never left without a storage call *)
Theorem C23_wait_implies_load : forall CS step tnow stale force c,
  snd (decide CS step tnow stale force c) = true -> fst (decide CS step tnow stale force c) = true.
Proof. exact decide_wait_load. Qed.

(* "Memory accounting returns to zero once the cache is emptied": for EVERY history of calls (any ranges, steps,
   play modes, storage results, invalidations, resets, limits, shutdown; chunk size, row sizes and both variants
   of the trim loop arbitrary) the water levels equal what the structure holds after every step: size = sum of the
   chunk sizes, bucket count = number of buckets, chunk count and chunk length = number of chunks (x chunk size). *)
Theorem C23_accounting_all_histories : forall CS COL ROW FX ops,
  let s := fst (run CS COL ROW FX st0 ops) in
  isize (inf s) = bsum c_size (bks s) /\ tot (i_bc (inf s)) = zlen (bks s) /\
  tot (i_cc (inf s)) = bsum one (bks s) /\ tot (i_cs (inf s)) = CS * bsum one (bks s).
Proof. exact accounting_all_histories. Qed.

(* ... hence all of them are zero whenever no bucket is left (after reset, after trimming everything) *)
Theorem C23_accounting_zero_when_empty : forall CS COL ROW FX ops,
  let s := fst (run CS COL ROW FX st0 ops) in
  bks s = [] -> isize (inf s) = 0 /\ tot (i_bc (inf s)) = 0 /\ tot (i_cc (inf s)) = 0 /\ tot (i_cs (inf s)) = 0.
Proof. exact accounting_zero_when_empty. Qed.

(* "... and no request waits forever": for every bucket state and every request, cache2Loader.init (decision table
   + absorption of chunks between the first and the last chunk it loads itself) registers the request as an awaiter
   only on a chunk whose loading count is not zero, i.e. on which a storage call is in flight; that call takes
   every awaiter when it returns (C23_finish_signals_every_awaiter). *)
Theorem C23_await_only_on_loading_chunk : forall CS step tnow stale force cs k c,
  nth_error cs k = Some c ->
  nth_error (dispositions CS step tnow stale force cs) k = Some DAwait ->
  c_loading c <> 0.
Proof. exact await_only_on_loading_chunk. Qed.

(* "... never rows of another query ...": for EVERY history whose request ids increase (ids only name requests),
   the invariant KInv holds in the state reached: every row cached in a chunk of a bucket (or of a detached chunk)
   carries that bucket's shard step and query key; every row in the buffer of a request in flight carries that
   request's shard step and query key (the answer is a slice of that buffer); every awaiter registered on a chunk
   belongs to a request of the same shard and query.  Proved through Get (decision table, absorption, copy),
   LoadDone ok/err with awaiter fan-out, Invalidate, Reset, SetLimits/trimming (both variants of the trim loop),
   Shutdown.  Partial: it speaks of shard and query, not of the slot's time (placement in time stays bounded
   below), and the returned slice is tied to the buffer by the model's definition of an answer, not by a theorem. *)
Theorem C23_rows_of_own_query_all_histories_partial : forall CS COL ROW FX ops,
  rids_inc 0 ops -> exists G, KInv G (fst (run CS COL ROW FX st0 ops)).
Proof. exact rows_of_own_query. Qed.

(* "... never rows of another query ...", for the ANSWERS: in every history whose request ids increase, every answer
   any step hands back (a Get returning at once, a LoadDone completing requests, a Cancel) belongs to a Get of this
   history with that request id, and every row in it carries the shard step and query key of that Get.  This ties
   the returned slice to the request buffer of C23_rows_of_own_query_all_histories_partial.  Partial: shard and
   query, not yet the slot's time. *)
Theorem C23_answers_of_own_query_all_histories_partial : forall CS COL ROW FX ops, rids_inc 0 ops ->
  forall e, In e (concat (snd (run CS COL ROW FX st0 ops))) ->
  let '(rid, err, cells) := e in
  exists sp k f t p fo, In (Get rid sp k f t p fo) ops /\ keyed sp k cells.
Proof. exact answers_of_own_query. Qed.

(* "... trimming and memory limits ...": after every step of EVERY history, when a hard limit is set the cached size
   is within the soft limit and the soft limit within the hard one - so cache2.tryNotExceedMemoryHardLimit never
   holds back a request that starts at a quiescent point (part of "no request waits forever"). *)
Theorem C23_hard_limit_at_rest_all_histories : forall CS COL ROW FX ops,
  let s := fst (run CS COL ROW FX st0 ops) in
  l_max s <> 0 -> isize (inf s) <= l_soft s /\ l_soft s <= l_max s.
Proof. exact limit_at_rest_all_histories. Qed.

(* "every successful non-play request returns, for each slot of the requested range, exactly the rows the storage
   produced for that slot's time, never rows of another query or slot, and never rows from a load that finished
   before an invalidation of that slot completed before the request began. Memory accounting returns to zero
   once the cache is emptied, and no request waits forever."
   Partial (bounded; the accounting clause is proved for all histories above): for EVERY history of 4 calls over alpha1 (ticks of 1 ms and 20 s, three overlapping requests
   incl. one starting mid-chunk and one spanning four chunks, storage calls 1-3 returning, call 1 failing, an
   invalidation, reset, a 1-byte memory limit) run_ok holds, i.e. after every step: every returned answer has
   one cell per requested slot, each carrying the request's shard, query and that slot's time (placement), none
   written by a storage call that finished before an invalidation of its chunk that preceded the request
   (freshness); the water levels equal what buckets and chunks hold, are zero when no bucket is left, and stay
   within the hard limit (accounting); nobody waits and no chunk is marked loading unless a storage call is in
   flight, and awaiters sit only on chunks being loaded. *)
Theorem C23_placement_freshness_waits_bounded_partial :
  forall ops, length ops = 4%nat -> Forall (fun o => In o alpha1) ops -> run_ok 2 24 1456 false [] (st0, []) ops = true.
Proof. exact bounded_all_clauses. Qed.

(* the same clauses for every history of 6 calls over alpha2 (20 s tick, two overlapping requests, their storage
   calls, an invalidation): long enough for load / await / invalidate / reload / hit sequences *)
Theorem C23_placement_freshness_waits_bounded_deep_partial :
  forall ops, length ops = 6%nat -> Forall (fun o => In o alpha2) ops -> run_ok 2 24 1456 false [] (st0, []) ops = true.
Proof. exact bounded_all_clauses_deep. Qed.

(* ---- non-vacuity ---- *)

Definition ex_c0 := mkChunk 1 (-8) None [] NEVER NEVER NEVER 0 0.

(* rows loaded, then invalidated: the ghost says stale, the decision table says load and wait;
   after a reload: fresh and served without waiting *)
Example C23_nonvacuous_chunk :
  (let x := crun ex_c0 [CStart 10; CFinish true [] 5; CInval 20] in
   (snd x, decide 2 1 50000 0 false (fst x))) = (true, (true, true)) /\
  (let x := crun ex_c0 [CStart 10; CFinish true [] 5; CInval 20; CStart 40000; CFinish true [] 5] in
   (snd x, decide 2 1 50000 0 false (fst x))) = (false, (false, false)) /\
  wf_events 0 [CStart 10; CAwait 11 (mkAw 2 1 2 1); CFinish true [] 5].
Proof. vm_compute. repeat split; reflexivity || (intro; discriminate) || auto. Qed.

(* a whole-cache history: request 2 starts mid-chunk and is served as an awaiter of call 1 plus its own call 2;
   20 s later request 6 reloads; an invalidation; request 8 awaits call 3 for the invalidated chunk and copies the
   other one; after reset the water levels are zero *)
Definition ex_h := [Get 1 1 1 (-8) (-4) 0 false; Get 2 1 1 (-5) (-2) 0 false; LoadDone 1 true; LoadDone 2 true; Tick 40000;
                    Get 6 1 1 (-8) (-4) 0 false; Invalidate 1 [-7]; Get 8 1 1 (-8) (-4) 0 false; LoadDone 3 true; Reset].
Example C23_nonvacuous_history :
  nth 3 (snd (run 2 24 1456 false st0 ex_h)) [] =
    [(2, false, [Some (mkCell 1 1 (-5) 1); Some (mkCell 1 1 (-4) 2); Some (mkCell 1 1 (-3) 2)])] /\
  nth 8 (snd (run 2 24 1456 false st0 ex_h)) [] =
    [(6, false, [Some (mkCell 1 1 (-8) 3); Some (mkCell 1 1 (-7) 3); Some (mkCell 1 1 (-6) 3); Some (mkCell 1 1 (-5) 3)]);
     (8, false, [Some (mkCell 1 1 (-8) 3); Some (mkCell 1 1 (-7) 3); Some (mkCell 1 1 (-6) 1); Some (mkCell 1 1 (-5) 1)])] /\
  inf (fst (run 2 24 1456 false st0 ex_h)) = info0 /\
  run_ok 2 24 1456 false [] (st0, []) ex_h = true.
Proof. vm_compute. repeat split; reflexivity. Qed.

(* KInv is not vacuous: after this history a chunk holds rows, a request is in flight and an awaiter is registered *)
Example C23_nonvacuous_own_query :
  let ops := [Get 1 1 1 (-8) (-4) 0 false; Get 2 1 1 (-5) (-2) 0 false] in
  rids_inc 0 ops /\ length (reqs (fst (run 2 24 1456 false st0 ops))) = 2%nat /\
  length (entries (fst (run 2 24 1456 false st0 ops))) = 3%nat.
Proof. vm_compute. repeat split; reflexivity. Qed.

(* the limit theorem is not vacuous: a limit below the cached size is set and the cache is trimmed under it *)
Example C23_nonvacuous_limit :
  let s := fst (run 2 24 1456 false st0 [Get 1 1 1 (-8) (-4) 0 false; LoadDone 1 true; SetLimits 0 5000 0]) in
  l_max s = 5000 /\ l_soft s = 4000 /\ isize (inf s) = 0.
Proof. vm_compute. repeat split; reflexivity. Qed.

(* accounting is not vacuous: a state with two cached chunks whose sizes add up to the water level *)
Example C23_nonvacuous_accounting :
  let s := fst (run 2 24 1456 false st0 [Get 1 1 1 (-8) (-4) 0 false; LoadDone 1 true]) in
  isize (inf s) = 7616 /\ bsum c_size (bks s) = 7616 /\ bsum one (bks s) = 2.
Proof. vm_compute. repeat split; reflexivity. Qed.

(* the await premise is satisfiable: a chunk without rows that another loader is loading is awaited *)
Example C23_nonvacuous_await :
  dispositions 2 1 10 0 false [mkChunk 1 (-8) None [] NEVER 4 4 0 1] = [DAwait].
Proof. vm_compute. reflexivity. Qed.

(* the swept sets are not trivial: 12^4 and 6^6 histories *)
Example C23_nonvacuous_alphabets : length alpha1 = 12%nat /\ length alpha2 = 6%nat.
Proof. split; reflexivity. Qed.
