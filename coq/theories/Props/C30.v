(* C30 — Access control grants exactly the permissions carried by a valid token.
   Only the property theorems (closed by [exact]) and non-vacuity examples.
   [verify] is the ed25519 check (SigningMethodEd25519.Verify = nil): every theorem holds for every function
   [verify], every key set, application name, clock value and token. *)
From Coq Require Import String ZArith List Bool QArith.
From SH Require Import Access.Model Access.Proofs Access.Policy Access.EndToEnd.
Import ListNotations.
Open Scope Z_scope.

(* "An access token is accepted only if it is an EdDSA token signed by a configured key whose id it names,
   issued by vkuth, for a user, and within its validity window (with the 5-second tolerance)" — and every such
   token is accepted. The window as the code has it: now - 5 s < exp, iat <= now + 5 s, nbf <= now (no tolerance
   on nbf; nbf optional; exp and iat required). *)
Theorem C30_accepted_iff :
  forall (K M S : Type) (verify : K -> M -> S -> bool) (keys : list (str * K)) (app : str) (now : Z) (t : token M S) (d : access_data),
  parse_vkuth verify keys app now t = OOk d <->
  exists c,
    (exists kidstr key msg sig,
       t = TParsed (JStr (txt "EdDSA")) (JStr (txt "token")) (JStr kidstr) msg sig c /\
       lookup kidstr keys = Some key /\
       verify key msg sig = true /\
       ((exists e, c_exp c = Some e /\ now - 5 * 1000000000 < (e / 1000) * 1000000000) /\
        (exists i, c_iat c = Some i /\ (i / 1000) * 1000000000 <= now + 5 * 1000000000) /\
        (forall n, c_nbf c = Some n -> (n / 1000) * 1000000000 <= now) /\
        c_iss c = Some (txt "vkuth") /\
        c_user c <> [])) /\
    d = {| d_bits := granted_bits app (c_bits c); d_user := c_user c; d_service := c_service c |}.
Proof. exact (@accepted_iff). Qed.

(* any other token gets an error (401 at the API) — or makes Claims.Valid panic, see C30_panic_needs_signature *)
Theorem C30_rejected_otherwise :
  forall (K M S : Type) (verify : K -> M -> S -> bool) keys app now (t : token M S),
  (forall c, ~ token_valid verify keys now t c) ->
  parse_vkuth verify keys app now t = OPanic \/ exists m, parse_vkuth verify keys app now t = OErr m.
Proof. exact (@rejected_otherwise). Qed.

(* side observation (not part of the property): a correctly signed token without "exp" (or without any
   registered claim) dereferences a nil pointer in Claims.Valid; it needs a signature of a configured key *)
Theorem C30_panic_needs_signature :
  forall (K M S : Type) (verify : K -> M -> S -> bool) keys app now (t : token M S),
  parse_vkuth verify keys app now t = OPanic ->
  exists kidstr key msg sig c,
    t = TParsed (JStr (txt "EdDSA")) (JStr (txt "token")) (JStr kidstr) msg sig c /\
    lookup kidstr keys = Some key /\ verify key msg sig = true /\ c_exp c = None.
Proof. exact (@panic_only_after_signature). Qed.

(* "only bits prefixed with the application name are granted" (and each of them is) *)
Theorem C30_only_app_bits_granted :
  forall app bits b, In b (granted_bits app bits) <-> b <> [] /\ In (app ++ [58] ++ b) bits.
Proof. exact granted_bits_spec. Qed.

(* parseAccessToken: without local/insecure mode an accessInfo exists only for an accepted token *)
Theorem C30_access_info_only_from_valid_token :
  forall (K M S : Type) (verify : K -> M -> S -> bool) keys app now (tok : option (token M S)) prot ai,
  parse_access_token verify keys app now tok prot false false = AOk ai <->
  exists t c, tok = Some t /\ token_valid verify keys now t c /\
    ai = parse_bits (initial_ai c prot) (granted_bits app (c_bits c)).
Proof. exact (@parse_access_token_ok_iff). Qed.

(* the stated assumption: in local / insecure mode the token is not looked at (default view+edit; admin in local mode) *)
Theorem C30_insecure_mode_ignores_token :
  forall (K M S : Type) (verify : K -> M -> S -> bool) keys app now (tok : option (token M S)) prot local insecure,
  local || insecure = true ->
  parse_access_token verify keys app now tok prot local insecure =
  AOk (Build_access_info (txt "@insecure_mode") false prot local local true true [] [] [] []).
Proof. exact (@insecure_mode_ignores_token). Qed.

(* everything the accessInfo of an accepted token holds (admin, developer, default bits, metric/prefix sets) is
   carried by a token bit <app>:<body> whose body means exactly that; each such bit is honoured *)
Theorem C30_token_grants_exactly_its_bits :
  forall (K M S : Type) (verify : K -> M -> S -> bool) keys app now (t : token M S) c prot ai e, e <> ENone ->
  parse_access_token verify keys app now (Some t) prot false false = AOk ai ->
  token_valid verify keys now t c ->
  (holds ai e <-> exists body, In (app ++ [58] ++ body) (c_bits c) /\ bit_means body e).
Proof. exact (@token_grants). Qed.

(* the switch of parseAccessToken is the bit grammar [bit_means] ('@' -> ':' once; namespace bits add ':') *)
Theorem C30_bit_grammar :
  forall b e, e <> ENone -> (bit_effect b = e <-> bit_means b e).
Proof. exact bit_effect_iff. Qed.

(* the map iteration order of "for b := range bits" does not matter *)
Theorem C30_bit_order_irrelevant :
  forall ai0 bits bits' e, e <> ENone -> (forall b, In b bits <-> In b bits') ->
  (holds (parse_bits ai0 bits) e <-> holds (parse_bits ai0 bits') e).
Proof. exact parse_bits_order_irrelevant. Qed.

(* "A non-admin can view ... a metric only through a matching metric, prefix or namespace bit or the default bit
   for unprotected names ... can never view ... remote-config metrics" (holds for admins too, minus the
   remote-config clause) *)
Theorem C30_view_iff :
  forall ai name,
  can_view_name ai name = true <->
  (remote_config_metric name = true -> ai_admin ai = true) /\
  (In name (ai_view_metric ai) \/
   (exists p, In p (ai_view_prefix ai) /\ exists r, name = p ++ r) \/
   (ai_view_default ai = true /\ forall p, In p (ai_protected ai) -> ~ exists r, name = p ++ r)).
Proof. exact view_iff. Qed.

(* the same, over the bits of the token *)
Theorem C30_view_iff_token_bits :
  forall (K M S : Type) (verify : K -> M -> S -> bool) keys app now (t : token M S) c prot ai name,
  parse_access_token verify keys app now (Some t) prot false false = AOk ai ->
  token_valid verify keys now t c ->
  (can_view_name ai name = true <->
   (remote_config_metric name = true -> In (app ++ [58] ++ txt "admin") (c_bits c)) /\
   ((exists x, In (app ++ [58] ++ txt "view_metric." ++ x) (c_bits c) /\ name = extract_namespace x) \/
    (exists x, In (app ++ [58] ++ txt "view_prefix." ++ x) (c_bits c) /\ exists r, name = extract_namespace x ++ r) \/
    (exists x, In (app ++ [58] ++ txt "view_namespace." ++ x) (c_bits c) /\ exists r, name = (x ++ [58]) ++ r) \/
    (In (app ++ [58] ++ txt "view_default") (c_bits c) /\ forall p, In p prot -> ~ exists r, name = p ++ r))).
Proof. exact (@token_view_iff). Qed.

(* "... or edit a metric only through a matching metric, prefix or namespace bit or the default bit for
   unprotected names, needs edit rights on both old and new name to rename, can never ... change remote-config
   metrics" *)
Theorem C30_edit_iff :
  forall ai old new, ai_admin ai = false ->
  (can_change_by_name ai old new = true <->
   remote_config_metric (m_name old) = false /\ remote_config_metric (m_name new) = false /\
   ((edit_right_metric ai (m_name old) /\ edit_right_metric ai (m_name new)) \/
    (edit_right_prefix ai (m_name old) /\ edit_right_prefix ai (m_name new)) \/
    (edit_right_default ai (m_name old) /\ edit_right_default ai (m_name new)))).
Proof. exact edit_iff. Qed.

Theorem C30_edit_iff_token_bits :
  forall (K M S : Type) (verify : K -> M -> S -> bool) keys app now (t : token M S) c prot ai old new,
  parse_access_token verify keys app now (Some t) prot false false = AOk ai ->
  token_valid verify keys now t c ->
  ~ In (app ++ [58] ++ txt "admin") (c_bits c) ->
  (can_change_by_name ai old new = true <->
   remote_config_metric (m_name old) = false /\ remote_config_metric (m_name new) = false /\
   ((token_edit_metric app (c_bits c) (m_name old) /\ token_edit_metric app (c_bits c) (m_name new)) \/
    (token_edit_prefix app (c_bits c) (m_name old) /\ token_edit_prefix app (c_bits c) (m_name new)) \/
    (token_edit_default app (c_bits c) prot (m_name old) /\ token_edit_default app (c_bits c) prot (m_name new)))).
Proof. exact (@token_edit_iff). Qed.

Theorem C30_rename_needs_both :
  forall ai old new, ai_admin ai = false ->
  can_change_by_name ai old new = true ->
  edit_right ai (m_name old) /\ edit_right ai (m_name new) /\
  can_change_by_name ai old old = true /\ can_change_by_name ai new new = true.
Proof. exact rename_needs_both. Qed.

(* "can never view or change remote-config metrics" *)
Theorem C30_remote_config_view_admin_only :
  forall ai name, ai_admin ai = false -> remote_config_metric name = true -> can_view_name ai name = false.
Proof. exact remote_config_view_admin_only. Qed.

Theorem C30_remote_config_edit_admin_only :
  forall ai old new, ai_admin ai = false ->
  remote_config_metric (m_name old) = true \/ remote_config_metric (m_name new) = true ->
  can_change_by_name ai old new = false /\ can_edit ai old new = EdForbidden.
Proof. exact remote_config_edit_admin_only. Qed.

(* "can never change weight (except 0->1), presort, sharding, host/sum-square skips or raw-tag attributes":
   CanEditMetric = nil for a non-admin exactly when the names may be changed and all of these are equal.
   Raw-tag attribute = raw-ness (RawKind <> "") per tag position, positions past the end counting as not raw;
   the code does not compare the RawKind text of two raw tags (see C30_raw_kind_text_not_compared). *)
Theorem C30_nonadmin_edit_ok_iff :
  forall ai old new, ai_admin ai = false ->
  (can_edit ai old new = EdOk <->
   can_change_by_name ai old new = true /\
   ((m_weight old == m_weight new \/ (m_weight old == 0 /\ m_weight new == 1))%Q /\
    m_prekey_from old = m_prekey_from new /\
    m_prekey_only old = m_prekey_only new /\
    m_skip_max_host old = m_skip_max_host new /\
    m_skip_min_host old = m_skip_min_host new /\
    m_skip_sum_square old = m_skip_sum_square new /\
    m_strategy old = m_strategy new /\
    m_shard_num old = m_shard_num new /\
    m_fixed_key old = m_fixed_key new /\
    m_fixed_key2 old = m_fixed_key2 new /\
    m_fixed_key2_ts old = m_fixed_key2_ts new /\
    (forall i, raw_flag (m_raw_kinds old) i = raw_flag (m_raw_kinds new) i))).
Proof. exact can_edit_ok_iff. Qed.

Theorem C30_nonadmin_cannot_change_protected_fields :
  forall ai old new, ai_admin ai = false -> can_edit ai old new = EdOk -> protected_fields_same old new.
Proof. exact nonadmin_cannot_change_protected_fields. Qed.

(* ------------------------------------------------------------------------------------------------------ *)
(* non-vacuity *)

Definition ex_keys : list (str * Z) := [(txt "k1", 1); (txt "k2", 2)].
Definition ex_verify (k : Z) (m : unit) (s : Z) : bool := k =? s.      (* "signature" = id of the signing key *)
Definition ex_claims := {| c_iss := Some (txt "vkuth"); c_exp := Some 1000000; c_iat := Some 995000; c_nbf := None;
  c_other_registered := false; c_user := txt "u"; c_service := false;
  c_bits := [txt "statshouse:view_prefix.ns@foo_"; txt "other:admin"; txt "statshouse:edit_metric.foo_bar"; txt "statshouse:edit_default"] |}.
Definition ex_token : token unit Z := TParsed (JStr (txt "EdDSA")) (JStr (txt "token")) (JStr (txt "k2")) tt 2 ex_claims.
Definition ex_ai := parse_bits (initial_ai ex_claims [txt "secret_"]) (granted_bits (txt "statshouse") (c_bits ex_claims)).
Definition ex_metric (n : string) (w : Q) :=
  {| m_name := txt n; m_weight := w; m_prekey_from := 0; m_prekey_only := false; m_skip_max_host := false;
     m_skip_min_host := false; m_skip_sum_square := false; m_strategy := []; m_shard_num := 0; m_fixed_key := 0;
     m_fixed_key2 := 0; m_fixed_key2_ts := 0; m_raw_kinds := [txt "hex"; []] |}.

(* a valid token is accepted 4.999999999 s after exp's second began and rejected at 5 s; wrong key / alg none rejected *)
Example C30_nonvacuous_token :
  token_valid ex_verify ex_keys 1004999999999 ex_token ex_claims /\
  parse_access_token ex_verify ex_keys (txt "statshouse") 1004999999999 (Some ex_token) [txt "secret_"] false false = AOk ex_ai /\
  parse_vkuth ex_verify ex_keys (txt "statshouse") 1005000000000 ex_token = OErr 16 /\
  parse_vkuth ex_verify ex_keys (txt "statshouse") 1000000000000
     (TParsed (JStr (txt "EdDSA")) (JStr (txt "token")) (JStr (txt "k1")) tt 2 ex_claims) = OErr 4 /\
  parse_vkuth ex_verify ex_keys (txt "statshouse") 1000000000000
     (TParsed (JStr (txt "none")) (JStr (txt "token")) (JStr (txt "k2")) tt 2 ex_claims) = OErr 4 /\
  ai_admin ex_ai = false /\ ai_view_prefix ex_ai = [txt "ns:foo_"] /\ ai_edit_metric ex_ai = [txt "foo_bar"].
Proof.
  split.
  - exists (txt "k2"), 2, tt, 2. repeat split; try reflexivity.
    + exists 1000000. split; [reflexivity | vm_compute; reflexivity].
    + exists 995000. split; [reflexivity | vm_compute; discriminate].
    + intros n H. discriminate.
    + discriminate.
  - vm_compute. repeat split.
Qed.

Example C30_nonvacuous_policy :
  can_view_name ex_ai (txt "ns:foo_x") = true /\ can_view_name ex_ai (txt "foo_x") = false /\
  can_change_by_name ex_ai (ex_metric "foo_bar" 1) (ex_metric "foo_bar" 1) = true /\
  can_change_by_name ex_ai (ex_metric "secret_foo" 1) (ex_metric "secret_foo" 1) = false /\
  can_change_by_name ex_ai (ex_metric "a" 1) (ex_metric "b" 1) = true /\
  can_change_by_name ex_ai (ex_metric "a" 1) (ex_metric "secret_b" 1) = false /\
  can_change_by_name ex_ai (ex_metric "a" 1) (ex_metric "statshouse_api_remote_config" 1) = false /\
  can_edit ex_ai (ex_metric "a" 0) (ex_metric "a" 1) = EdOk /\
  can_edit ex_ai (ex_metric "a" 1) (ex_metric "a" 0) = EdWeight /\
  can_edit ex_ai (ex_metric "a" 1) (ex_metric "a" 1) = EdOk.
Proof. vm_compute. repeat split. Qed.

(* the boundary of the raw-tag clause: a non-admin may replace one raw kind by another *)
Example C30_raw_kind_text_not_compared :
  let new := {| m_name := txt "a"; m_weight := 1; m_prekey_from := 0; m_prekey_only := false; m_skip_max_host := false;
     m_skip_min_host := false; m_skip_sum_square := false; m_strategy := []; m_shard_num := 0; m_fixed_key := 0;
     m_fixed_key2 := 0; m_fixed_key2_ts := 0; m_raw_kinds := [txt "lexenc_float"] |} in
  can_edit ex_ai (ex_metric "a" 1) new = EdOk /\ ai_admin ex_ai = false.
Proof. vm_compute. split; reflexivity. Qed.
