(* C13 — All client wire formats decode the same batch identically and safely.
   Only the property theorems (closed by [exact]) and non-vacuity examples.  PARTIAL: the decoder-after-encoder
   theorem is proved for MessagePack (the hand-written decoder of msgpack.go on top of the msgp readers); for TL,
   Protobuf and JSON the same statement is checked by the correspondence run only (every CEnc/CJson case checks
   model encoder = reference encoder bytes and real decoder = canon), not proved. *)
From Coq Require Import ZArith List Bool Lia.
From SH Require Import Common.Wrap TL.Model Wire.Model Wire.Proofs.
Import ListNotations.
Open Scope Z_scope.

(* "the format is detected from the first bytes as documented": "{" JSON, "SH" legacy, 39 02 58 56 TL, a
   MessagePack map header (8x, DE+2 bytes, DF+4 bytes), the empty packet on its own, anything else Protobuf —
   for every byte string, independent of the order of the tests *)
Theorem C13_detection_total_and_documented : forall pkt, detect pkt = doc_format pkt.
Proof. exact detect_documented. Qed.

(* "A metrics batch encoded as ... MessagePack ... is decoded into the same sequence of metrics (name, tags,
   counter, timestamp, values, uniques, histogram)": for every well-formed batch (any field combination, any
   bytes, 64-bit patterns, 32-bit counts), with enough memory for the announced counts *)
Theorem C13_decode_encode_msgpack : forall v b rest, roomy v -> wf_batch b = true ->
  mp_batch v (enc_mp b ++ rest) = Ok (map canon b, rest).
Proof. exact mp_batch_enc. Qed.

(* the same through parser.parse: detected as MessagePack, every metric handed to HandleMetrics in order, no error *)
Theorem C13_parse_msgpack_batch : forall pf pu pi lex v b, roomy v -> wf_batch b = true ->
  parse pf pu pi lex v (enc_mp b) = {| o_fmt := FMsgpack; o_metrics := map canon b; o_end := EDone |}.
Proof. exact parse_enc_mp. Qed.

(* "it either yields metrics or reports a parse error": as written the Protobuf branch hands what the decoder LEFT
   to handleMetricsBatch, which skips HandleParseError when that is empty (finding F-C13b) *)
Theorem C13_parse_error_reported_refuted : exists pkt, pkt <> [] /\ forall L,
  parse0 (faithful L) pkt = {| o_fmt := FProtobuf; o_metrics := []; o_end := ESilent |}.
Proof. exists w_silent. split; [discriminate|exact pb_silent_witness]. Qed.
(* ... with the whole packet passed (as the TL and MessagePack branches do) no error is ever swallowed *)
Theorem C13_parse_error_reported_repaired : forall pf pu pi lex pkt, o_end (parse pf pu pi lex repaired pkt) <> ESilent.
Proof. exact repaired_error_reported. Qed.

(* "Decoding arbitrary bytes never panics or hangs": as written a 14-byte MessagePack packet announcing 2^32-1
   metrics makes the decoder allocate 2^32-1 MetricBytes at once; with less than 618 GB available the process dies
   (finding F-C13a).  With the count checked against the bytes left the same packet is a parse error. *)
Theorem C13_never_crashes_refuted : exists pkt, zlen pkt = 14 /\
  (forall L, 0 <= L < 618475290480 -> o_end (parse0 (faithful L) pkt) = ECrash) /\
  o_end (parse0 repaired pkt) = EParseError 14.
Proof.
  exists w_hostile. split; [reflexivity|]. split; [exact hostile_count_crashes|].
  rewrite hostile_count_repaired. reflexivity.
Qed.

(* "A metrics batch encoded as ... Protobuf is decoded into the same sequence": `unique` sent unpacked (wire type 0,
   which every Protobuf parser must accept for a repeated scalar) is skipped by the decoder as written (it tests
   wire type 1); packed it is read; with the test corrected both encodings give the same metrics (finding F-C13d) *)
Theorem C13_protobuf_unpacked_unique_refuted : exists b, forall L,
  wf_batch b = true /\
  parse0 (faithful L) (enc_pb false b) = {| o_fmt := FProtobuf; o_metrics := [set_name [109] dzero]; o_end := EDone |} /\
  parse0 (faithful L) (enc_pb true b) = {| o_fmt := FProtobuf; o_metrics := map canon b; o_end := EDone |} /\
  parse0 repaired (enc_pb false b) = {| o_fmt := FProtobuf; o_metrics := map canon b; o_end := EDone |}.
Proof. exists w_unpacked. exact pb_unpacked_witness. Qed.

(* non-vacuity: a batch using every field, decoded identically from all four encodings by the model *)
Definition ex_batch : list metric :=
  [{| m_name := [109; 49]; m_tags := [([107], [118]); ([], [0; 255])]; m_counter := Some 4607182418800017408;
      m_ts := Some 1700000000; m_value := Some [4611686018427387904; 0]; m_unique := Some [-5; 9223372036854775807];
      m_hist := Some [(4607182418800017408, 4613937818241073152)] |};
   {| m_name := []; m_tags := []; m_counter := None; m_ts := None; m_value := None; m_unique := None; m_hist := None |}].
Example C13_nonvacuous_premises : wf_batch ex_batch = true /\ roomy (faithful (2 ^ 40)).
Proof. split; [reflexivity|]. unfold roomy; cbn. unfold two32. lia. Qed.
Example C13_nonvacuous_cross_format :
  let want := {| o_fmt := FProtobuf; o_metrics := map canon ex_batch; o_end := EDone |} in
  o_metrics (parse0 (faithful (2 ^ 40)) (enc_tl ex_batch)) = map canon ex_batch /\
  o_metrics (parse0 (faithful (2 ^ 40)) (enc_mp ex_batch)) = map canon ex_batch /\
  parse0 (faithful (2 ^ 40)) (enc_pb true ex_batch) = want /\
  j_batch (fun _ t => Some (le_dec t)) (fun _ t => Some (le_dec t)) (fun _ t => Some (i64 (le_dec t)))
          (enc_json (le_enc 8) (le_enc 8) (fun x => le_enc 8 (u64 x)) ex_batch) = Ok (map canon ex_batch) /\
  map (fun m => length (d_unique m)) (o_metrics (parse0 (faithful (2 ^ 40)) (enc_mp ex_batch))) = [2%nat; 0%nat].
Proof. vm_compute. repeat split; reflexivity. Qed.
Example C13_nonvacuous_detection :
  detect [57; 2; 88; 86; 0] = FTL /\ detect [123; 125] = FJSON /\ detect [83; 72; 1] = FLegacy /\ detect [222; 0; 1] = FMsgpack /\
  detect [222; 0] = FProtobuf /\ detect [202; 193; 6] = FProtobuf /\ detect [] = FEmpty.
Proof. vm_compute. repeat split; reflexivity. Qed.
