(* C13 — All client wire formats decode the same batch identically and safely.
   Only the property theorems (closed by [exact]) and non-vacuity examples.
   Decoder-after-encoder is proved for all four formats (JSON at tree level, under the strconv round-trip hypotheses);
   cross-format equality is their corollary.  [roomy v] holds for the code as written now ([repaired]: collection
   counts are checked against the bytes left) and for the earlier code given enough memory.  PARTIAL: "never hangs" is
   proved for the Protobuf/JSON/legacy/empty branches and the TCP framing; for the TL and MessagePack loops the
   model's fuel bound is exercised, not proved adequate. *)
From Coq Require Import ZArith List Bool Lia.
From SH Require Import Common.Wrap TL.Model Wire.Model Wire.Proofs Wire.ProofsPB Wire.ProofsTL Wire.ProofsJson Wire.ProofsCross Wire.ProofsTotal.
Import ListNotations.
Open Scope Z_scope.

(* "the format is detected from the first bytes as documented": "{" JSON, "SH" legacy, 39 02 58 56 TL, a
   MessagePack map header (8x, DE+2 bytes, DF+4 bytes), the empty packet on its own, anything else Protobuf —
   for every byte string, independent of the order of the tests *)
Theorem C13_detection_total_and_documented : forall pkt, detect pkt = doc_format pkt.
Proof. exact detect_documented. Qed.

(* "A metrics batch encoded as ... MessagePack ... is decoded into the same sequence of metrics (name, tags,
   counter, timestamp, values, uniques, histogram)": for every well-formed batch (any field combination, any
   bytes, 64-bit patterns, 32-bit counts), with enough memory for the announced counts *)
Theorem C13_decode_encode_msgpack : forall v b rest, roomy v -> wf_batch b = true ->
  mp_batch v (enc_mp b ++ rest) = Ok (map canon b, rest).
Proof. exact mp_batch_enc. Qed.

(* the same through parser.parse: detected as MessagePack, every metric handed to HandleMetrics in order, no error *)
Theorem C13_parse_msgpack_batch : forall pf pu pi lex v b, roomy v -> wf_batch b = true ->
  parse pf pu pi lex v (enc_mp b) = {| o_fmt := FMsgpack; o_metrics := map canon b; o_end := EDone |}.
Proof. exact parse_enc_mp. Qed.

(* "it either yields metrics or reports a parse error": as written the Protobuf branch hands what the decoder LEFT
   to handleMetricsBatch, which skips HandleParseError when that is empty (finding F-C13b) *)
Theorem C13_parse_error_reported_refuted : exists pkt, pkt <> [] /\ forall L,
  parse0 (faithful L) pkt = {| o_fmt := FProtobuf; o_metrics := []; o_end := ESilent |}.
Proof. exists w_silent. split; [discriminate|exact pb_silent_witness]. Qed.
(* ... with the whole packet passed (as the TL and MessagePack branches do) no error is ever swallowed *)
Theorem C13_parse_error_reported_repaired : forall pf pu pi lex pkt, o_end (parse pf pu pi lex repaired pkt) <> ESilent.
Proof. exact repaired_error_reported. Qed.

(* "Decoding arbitrary bytes never panics or hangs": as written a 14-byte MessagePack packet announcing 2^32-1
   metrics makes the decoder allocate 2^32-1 MetricBytes at once; with less than 618 GB available the process dies
   (finding F-C13a).  With the count checked against the bytes left the same packet is a parse error. *)
Theorem C13_never_crashes_refuted : exists pkt, zlen pkt = 14 /\
  (forall L, 0 <= L < 618475290480 -> o_end (parse0 (faithful L) pkt) = ECrash) /\
  o_end (parse0 repaired pkt) = EParseError 14.
Proof.
  exists w_hostile. split; [reflexivity|]. split; [exact hostile_count_crashes|].
  rewrite hostile_count_repaired. reflexivity.
Qed.

(* "A metrics batch encoded as ... Protobuf is decoded into the same sequence": `unique` sent unpacked (wire type 0,
   which every Protobuf parser must accept for a repeated scalar) is skipped by the decoder as written (it tests
   wire type 1); packed it is read; with the test corrected both encodings give the same metrics (finding F-C13d) *)
Theorem C13_protobuf_unpacked_unique_refuted : exists b, forall L,
  wf_batch b = true /\
  parse0 (faithful L) (enc_pb false b) = {| o_fmt := FProtobuf; o_metrics := [set_name [109] dzero]; o_end := EDone |} /\
  parse0 (faithful L) (enc_pb true b) = {| o_fmt := FProtobuf; o_metrics := map canon b; o_end := EDone |} /\
  parse0 repaired (enc_pb false b) = {| o_fmt := FProtobuf; o_metrics := map canon b; o_end := EDone |}.
Proof. exists w_unpacked. exact pb_unpacked_witness. Qed.

(* non-vacuity: a batch using every field, decoded identically from all four encodings by the model *)
Definition ex_batch : list metric :=
  [{| m_name := [109; 49]; m_tags := [([107], [118]); ([], [0; 255])]; m_counter := Some 4607182418800017408;
      m_ts := Some 1700000000; m_value := Some [4611686018427387904; 0]; m_unique := Some [-5; 9223372036854775807];
      m_hist := Some [(4607182418800017408, 4613937818241073152)] |};
   {| m_name := []; m_tags := []; m_counter := None; m_ts := None; m_value := None; m_unique := None; m_hist := None |}].
Example C13_nonvacuous_premises : wf_batch ex_batch = true /\ roomy (faithful (2 ^ 40)) /\ roomy repaired.
Proof. split; [reflexivity|]. unfold roomy; cbn. unfold two32. split; [lia|exact I]. Qed.
Example C13_nonvacuous_cross_format :
  let want := {| o_fmt := FProtobuf; o_metrics := map canon ex_batch; o_end := EDone |} in
  o_metrics (parse0 (faithful (2 ^ 40)) (enc_tl ex_batch)) = map canon ex_batch /\
  o_metrics (parse0 (faithful (2 ^ 40)) (enc_mp ex_batch)) = map canon ex_batch /\
  parse0 (faithful (2 ^ 40)) (enc_pb true ex_batch) = want /\
  j_batch (fun _ t => Some (le_dec t)) (fun _ t => Some (le_dec t)) (fun _ t => Some (i64 (le_dec t)))
          (enc_json (le_enc 8) (le_enc 8) (fun x => le_enc 8 (u64 x)) ex_batch) = Ok (map canon ex_batch) /\
  map (fun m => length (d_unique m)) (o_metrics (parse0 (faithful (2 ^ 40)) (enc_mp ex_batch))) = [2%nat; 0%nat].
Proof. vm_compute. repeat split; reflexivity. Qed.
Example C13_nonvacuous_detection :
  detect [57; 2; 88; 86; 0] = FTL /\ detect [123; 125] = FJSON /\ detect [83; 72; 1] = FLegacy /\ detect [222; 0; 1] = FMsgpack /\
  detect [222; 0] = FProtobuf /\ detect [202; 193; 6] = FProtobuf /\ detect [] = FEmpty.
Proof. vm_compute. repeat split; reflexivity. Qed.

(* "A metrics batch encoded as ... Protobuf ... is decoded into the same sequence of metrics": for the explicit
   encoding (every present field written; repeated scalars packed or — given the corrected wire-type test — unpacked)
   and for the proto3-minimal encoding (default-valued fields omitted), against the decoder of protobuf.go over
   protowire.  What an encoding cannot express (a present-but-empty list, a present zero in the minimal form) comes
   back with its presence bit clear and the same value: [pb_expect fm m = canon (pb_norm fm m)].  [pb_sized]: every
   length-delimited field fits its 64-bit length prefix. *)
Theorem C13_decode_encode_protobuf : forall v fm b, form_ok v fm -> wf_batch b = true -> pb_sized fm b ->
  pb_batch v (length (enc_pb_batch fm b)) [] (enc_pb_batch fm b) = PbOk (map (pb_expect fm) b).
Proof. exact pb_batch_enc. Qed.
Theorem C13_protobuf_same_view : forall fm m, wf_metric m = true -> view (pb_expect fm m) = view (canon m).
Proof. exact view_pb_norm. Qed.
Theorem C13_parse_protobuf_batch : forall pf pu pi lex v fm b, form_ok v fm -> wf_batch b = true -> pb_sized fm b -> b <> [] ->
  parse pf pu pi lex v (enc_pb_batch fm b) = {| o_fmt := FProtobuf; o_metrics := map (pb_expect fm) b; o_end := EDone |}.
Proof. exact parse_enc_pb. Qed.

(* "... encoded as TL ...": C14's generic round trip instantiated on statshouse.addMetricsBatch *)
Theorem C13_decode_encode_tl : forall b rest, wf_batch b = true -> tl_batch (enc_tl b ++ rest) = Ok (map canon b, rest).
Proof. exact tl_batch_enc. Qed.
Theorem C13_parse_tl_batch : forall pf pu pi lex v b, wf_batch b = true ->
  parse pf pu pi lex v (enc_tl b) = {| o_fmt := FTL; o_metrics := map canon b; o_end := EDone |}.
Proof. exact parse_enc_tl. Qed.

(* "... encoded as JSON ...": at tree level (the reader applied to the tree the text denotes), for number
   printers/parsers that round-trip (strconv: every double in [json_f64], every uint32, every int64) — partial:
   lexing/escapes are below the model, tag keys needing escapes are finding F-C13e *)
Theorem C13_decode_encode_json_partial : forall pf pu pi prf pru pri json_f64,
  (forall x, json_f64 x = true -> pf false (prf x) = Some x) ->
  (forall t, 0 <= t < two32 -> pu false (pru t) = Some t) ->
  (forall x, - two63 <= x < two63 -> pi false (pri x) = Some x) ->
  forall b, wf_batch b = true -> forallb (json_metric_ok json_f64) b = true ->
  j_batch pf pu pi (enc_json prf pru pri b) = Ok (map canon b).
Proof. exact j_batch_enc. Qed.

(* "A metrics batch encoded as TL, JSON, MessagePack or Protobuf is decoded into the same sequence of metrics (name,
   tags, counter, timestamp, values, uniques, histogram)" *)
Theorem C13_cross_format_equal : forall pf pu pi prf pru pri json_f64,
  (forall x, json_f64 x = true -> pf false (prf x) = Some x) ->
  (forall t, 0 <= t < two32 -> pu false (pru t) = Some t) ->
  (forall x, - two63 <= x < two63 -> pi false (pri x) = Some x) ->
  forall v fm b, roomy v -> form_ok v fm -> wf_batch b = true -> pb_sized fm b -> forallb (json_metric_ok json_f64) b = true ->
  exists d_pb,
    tl_batch (enc_tl b) = Ok (map canon b, []) /\
    mp_batch v (enc_mp b) = Ok (map canon b, []) /\
    j_batch pf pu pi (enc_json prf pru pri b) = Ok (map canon b) /\
    pb_batch v (length (enc_pb_batch fm b)) [] (enc_pb_batch fm b) = PbOk d_pb /\
    map view d_pb = map view (map canon b).
Proof. exact cross_format_equal. Qed.

(* "Decoding arbitrary bytes never ... hangs": for EVERY byte string the Protobuf decoder, run with the fuel parse gives
   it (the packet length), ends with metrics or an error — every loop iteration (fields, groups, packed elements)
   consumes a byte; the same for parse on every packet not detected as TL or MessagePack.  Partial: the TL and
   MessagePack loops are not covered. *)
Theorem C13_decode_total_protobuf : forall v fuel ms b, (length b <= fuel)%nat -> pb_batch v fuel ms b <> PbNoFuel.
Proof. exact pb_batch_total. Qed.
Theorem C13_decode_total_partial : forall pf pu pi lex v pkt, detect pkt <> FTL -> detect pkt <> FMsgpack ->
  o_end (parse pf pu pi lex v pkt) <> ENoFuel /\ o_end (parse pf pu pi lex v pkt) <> ECrash.
Proof. exact parse_total_pb_json. Qed.
(* the TCP receive loop's framing: each iteration consumes at least the 4 header bytes, so any fuel >= the stream
   length gives the same frames — the loop bound is never what stops it *)
Theorem C13_tcp_framing_progress : forall fuel s, (length s <= fuel)%nat -> frames fuel s = frames (length s) s.
Proof. exact frames_fuel_enough. Qed.

(* non-vacuity of the new premises *)
Example C13_nonvacuous_forms :
  form_ok repaired (PExplicit false) /\ form_ok repaired PMinimal /\ pb_sized PMinimal ex_batch /\ pb_sized (PExplicit false) ex_batch /\
  forallb (json_metric_ok (fun _ => true)) ex_batch = true /\
  parse0 repaired (enc_pb_min ex_batch) = {| o_fmt := FProtobuf; o_metrics := map (pb_expect PMinimal) ex_batch; o_end := EDone |} /\
  parse0 repaired (enc_pb false ex_batch) = {| o_fmt := FProtobuf; o_metrics := map canon ex_batch; o_end := EDone |}.
Proof.
  split; [reflexivity|]. split; [exact I|]. split; [repeat constructor; vm_compute; reflexivity|].
  split; [repeat constructor; vm_compute; reflexivity|]. vm_compute. repeat split; reflexivity.
Qed.
