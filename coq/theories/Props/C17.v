(* C17 — Binlog-backed SQLite engine stays consistent with its binlog across crashes.
   This file holds only the property theorems (closed by [exact]) and non-vacuity examples.
   Model: Engine/Model.v (one step = one critical section of engine.go / binlog_engine.go, or an fsync of the
   binlog, or kill -9 + OpenEngine). [run (init m r) ops] ranges over ALL histories of writes, reads, binlog fsyncs,
   Commit callbacks, txLoop ticks, replica deliveries and kills, in WaitCommit / NoWaitCommit x master / replica. *)
From Coq Require Import ZArith List Bool.
From SH Require Import Engine.Model Engine.Proofs Engine.ProofsAck Engine.ProofsRead Engine.Theorems.
Import ListNotations.
Open Scope Z_scope.

(* "At every moment the database reflects exactly the application of a prefix of the binlog, and its stored
   binlog offset marks the end of that prefix" — for the open write transaction (dbt) w.r.t. everything handed to
   the binlog, and for what SQLite has committed (dbc) w.r.t. the part of the binlog that is already durable.
   Holds in NoWaitCommit mode too: the suspected defect F-C17 (commit before fsync) is refuted — the periodic
   commit only runs in WaitCommit mode and the commit-now path of NoWaitCommit waits for the binlog first. *)
Theorem C17_db_is_prefix_of_binlog :
  forall m r ops,
  let s := run (init m r) ops in
  (exists n, (n <= length (bl s))%nat /\
     dbt s = mkdb (applyl (firstn n (bl s)) kv0) (bsize (firstn n (bl s)))) /\
  (exists n, (n <= length (bl s))%nat /\
     dbc s = mkdb (applyl (firstn n (bl s)) kv0) (bsize (firstn n (bl s))) /\
     bsize (firstn n (bl s)) <= durable s <= bsize (bl s)).
Proof. exact db_is_prefix_of_binlog. Qed.

(* "after a crash at any point and a restart, the state equals the application of every event in the durable
   binlog" — kill at any reachable state; keep = number of events of the binlog that survive (anything from the
   fsynced part up to everything written) *)
Theorem C17_restart_equals_durable_binlog :
  forall m r ops keep,
  let s := run (init m r) ops in
  (keep <= length (bl s))%nat -> durable s <= bsize (firstn keep (bl s)) ->
  let r' := restart s keep in
  bl r' = firstn keep (bl s) /\
  dbt r' = mkdb (applyl (firstn keep (bl s)) kv0) (bsize (firstn keep (bl s))) /\
  eoff r' = bsize (firstn keep (bl s)) /\ rwait r' = false /\ queue r' = [].
Proof. exact restart_equals_durable_binlog. Qed.

(* "so every write acknowledged in wait-for-commit mode is present" — TW i in acked = the wait channel of the Do
   that appended binlog event number i has been closed *)
Theorem C17_acked_write_survives :
  forall m r ops i keep,
  let s := run (init m r) ops in
  In (TW i) (acked s) ->
  (keep <= length (bl s))%nat -> durable s <= bsize (firstn keep (bl s)) ->
  (S i <= keep)%nat /\ firstn (S i) (firstn keep (bl s)) = firstn (S i) (bl s) /\
  nth_error (bl (restart s keep)) i = nth_error (bl s) i /\
  dbt (restart s keep) = mkdb (applyl (firstn keep (bl s)) kv0) (bsize (firstn keep (bl s))).
Proof. exact acked_write_survives. Qed.

(* "A write whose callback fails leaves neither a database change nor a binlog record" (also: a write on a replica) *)
Theorem C17_failed_callback_no_trace :
  forall s l f, flag f 1 = true \/ replica s = true -> step s (ODo l f) = s.
Proof. exact failed_callback_no_trace. Qed.

(* "readers never observe effects of events not yet in the binlog" — (1) View reads the committed db, which is the
   application of a prefix of the DURABLE binlog (all modes, masters and replicas, replica commit position
   allowed to lag behind what was handed to Apply). *)
Theorem C17_view_sees_only_binlogged :
  forall m r ops,
  let s := run (init m r) ops in
  exists n, (n <= length (bl s))%nat /\
    kv (dbc s) = applyl (firstn n (bl s)) kv0 /\ off (dbc s) = bsize (firstn n (bl s)) /\
    off (dbc s) <= durable s <= bsize (bl s).
Proof. exact view_sees_only_binlogged. Qed.

(* (2) the other reader path: a read-only Do on the write connection. On a WaitCommit master it is acknowledged
   (returns at once when waitQ is empty, otherwise when its readWait entry is released) only when everything it
   saw is inside the committed, hence durable, binlog. TR id o v = read number id saw stored offset o and
   contents v (C17_read_ticket_records_view). On a replica and in NoWaitCommit mode a read-only Do returns at
   once with the contents of the open write transaction: events that ARE in the binlog but possibly not yet
   durable (C17_replica_read_sees_uncommitted_witness) - the property text asks for "in the binlog" only. *)
Theorem C17_acked_read_saw_only_durable :
  forall ops id o v,
  let s := run (init WaitCommit false) ops in
  In (TR id o v) (acked s) ->
  (exists n, (n <= length (bl s))%nat /\ bsize (firstn n (bl s)) = o /\ applyl (firstn n (bl s)) kv0 = v) /\
  o <= comm s <= durable s.
Proof. exact acked_read_saw_only_durable. Qed.

Theorem C17_read_ticket_records_view :
  forall s, mode s = WaitCommit ->
  let t := TR (nread s) (off (dbt s)) (kv (dbt s)) in
  (waitq s = [] -> acked (do_read s) = acked s ++ [t]) /\
  (waitq s <> [] -> waitq (do_read s) = waitq s ++ [(0, true, t)] /\ acked (do_read s) = acked s).
Proof. exact read_ticket_records_view. Qed.

(* ---- non-vacuity: a WaitCommit master history with a service lev, an acknowledged write, a tick and an
   unacknowledged write; killed with 3 of 4 binlog events surviving *)
Definition ex_ops : list op :=
  [ODo (LUser 0 KAdd 5 3) 2; ODo (LUser 1 KSet 7 0) 0; OFsync 3; OCommit 3; OTick; ODo (LUser 0 KAdd 1 0) 0].
Definition ex_s := run (init WaitCommit false) ex_ops.

Example C17_nonvacuous_state :
  bl ex_s = [LUser 0 KAdd 5 3; LSvc; LUser 1 KSet 7 0; LUser 0 KAdd 1 0] /\
  dbc ex_s = mkdb [5; 7; 0] 56 /\ dbt ex_s = mkdb [6; 7; 0] 72 /\ durable ex_s = 56 /\
  acked ex_s = [TW 0; TW 2] /\ length (waitq ex_s) = 1%nat.
Proof. vm_compute. repeat split. Qed.

Example C17_nonvacuous_restart :
  (3 <= length (bl ex_s))%nat /\ durable ex_s <= bsize (firstn 3 (bl ex_s)) /\
  dbt (restart ex_s 3) = mkdb [5; 7; 0] 56 /\ In (TW 2) (acked ex_s) /\
  dbt (restart ex_s 4) = mkdb [6; 7; 0] 72.
Proof. vm_compute. repeat split; try discriminate; auto. Qed.

Example C17_nonvacuous_failed :
  flag 1 1 = true /\ step ex_s (ODo (LUser 2 KAdd 9 0) 1) = ex_s /\ step ex_s (ODo (LUser 2 KAdd 9 0) 0) <> ex_s.
Proof. vm_compute. repeat split. discriminate. Qed.

(* a replica history that reaches the delayed-commit state (queue) and flushes it *)
Example C17_nonvacuous_replica :
  let s := run (init NoWaitCommit true)
             [ODeliver (LUser 0 KAdd 2 1) true; ODeliver (LUser 0 KAdd 5 1) true; ODeliver LSvc false] in
  rwait s = true /\ length (queue s) = 2%nat /\ dbt s = mkdb [2; 0; 0] 20 /\ durable s = 0 /\
  step s (OCommit 3) = s /\   (* a Commit beyond the durable position is not a possible step *)
  dbt (step (step s (OFsync 3)) (OCommit 3)) = mkdb [7; 0; 0] 60 /\
  dbc (step (step s (OFsync 3)) (OCommit 3)) = mkdb [2; 0; 0] 20 /\
  dbc (step (step s (OFsync 1)) (OCommit 1)) = mkdb [2; 0; 0] 20 /\ rwait (step (step s (OFsync 1)) (OCommit 1)) = false.
Proof. vm_compute. repeat split. Qed.

(* reads: one acknowledged at once on an idle master, one that waits behind an uncommitted write and is released
   by the Commit callback *)
Example C17_nonvacuous_reads :
  let s := run (init WaitCommit false)
             [ORead; ODo (LUser 0 KAdd 5 0) 0; ORead; OFsync 1; OCommit 1] in
  acked s = [TR 0 0 [0; 0; 0]; TW 0; TR 1 16 [5; 0; 0]] /\ comm s = 16 /\
  length (waitq (run (init WaitCommit false) [ORead; ODo (LUser 0 KAdd 5 0) 0; ORead])) = 2%nat.
Proof. vm_compute. repeat split. Qed.

(* a replica in WaitCommit mode acknowledges a read-only Do at once although the event it saw (offset 16) is beyond
   the durable position (0) of the binlog it follows *)
Example C17_replica_read_sees_uncommitted_witness :
  let s := run (init WaitCommit true) [ODeliver (LUser 0 KAdd 5 0) false; ORead] in
  acked s = [TR 0 16 [5; 0; 0]] /\ durable s = 0 /\ dbc s = mkdb [0; 0; 0] 0.
Proof. vm_compute. repeat split. Qed.
