(* C04 — Aggregation results do not depend on merge order or grouping.
   Only the property theorems (closed by [exact]) and non-vacuity examples. *)
From Coq Require Import ZArith QArith List Bool Permutation MSets.MSetPositive.
From SH Require Import Gen.AggConsts Agg.Model Agg.ProofsValue Agg.ProofsUnique Agg.ProofsTable Agg.ProofsTable2 Agg.ProofsTable3.
Import ListNotations.

(* "Merging the same multiset of contributions in any order and any grouping yields the same count, min, max
   ... and the same sum and sum-of-squares up to floating-point rounding (exactly when all inputs are integers of
   moderate size)": ItemValue.Merge over any two binary trees whose leaves are permutations of each other, for any
   two streams of rng draws; arithmetic over Q. Guards: counters are non-negative (ingestion rejects negative
   counters) and a leaf without values has zero sums (true of every ItemValue the package constructs). *)
Theorem C04_value_merge_tree_perm :
  forall t1 t2 ds1 ds2 r1 r2 ds1' ds2',
  Forall wfv (leaves t1) -> Permutation (leaves t1) (leaves t2) ->
  eval_value t1 ds1 = (r1, ds1') -> eval_value t2 ds2 = (r2, ds2') ->
  (cnt r1 == cnt r2 /\ v_sum r1 == v_sum r2 /\ v_sumsq r1 == v_sumsq r2 /\ v_set r1 = v_set r2 /\
   (v_set r1 = true -> v_min r1 == v_min r2 /\ v_max r1 == v_max r2))%Q.
Proof. exact value_merge_tree_perm. Qed.

(* the merged count, sum and sum of squares are the totals of the leaves *)
Theorem C04_value_merge_tree_totals :
  forall t ds r ds', Forall wfv (leaves t) -> eval_value t ds = (r, ds') ->
  (cnt r == sumQ cnt (leaves t) /\ v_sum r == sumQ v_sum (leaves t) /\ v_sumsq r == sumQ v_sumsq (leaves t))%Q.
Proof. exact value_merge_tree_totals. Qed.

(* "The reported min (max) host is always a host that contributed the min (max) value" — for every tree,
   every rng stream, no guard *)
Theorem C04_min_host_contributed :
  forall t ds r ds', eval_value t ds = (r, ds') -> v_set r = true ->
  exists l, In l (leaves t) /\ v_set l = true /\ (v_min l == v_min r)%Q /\ v_minh l = v_minh r /\
            (forall l', In l' (leaves t) -> v_set l' = true -> (v_min l <= v_min l')%Q).
Proof. exact min_host_contributed. Qed.

Theorem C04_max_host_contributed :
  forall t ds r ds', eval_value t ds = (r, ds') -> v_set r = true ->
  exists l, In l (leaves t) /\ v_set l = true /\ (v_max l == v_max r)%Q /\ v_maxh l = v_maxh r /\
            (forall l', In l' (leaves t) -> v_set l' = true -> (v_max l' <= v_max l)%Q).
Proof. exact max_host_contributed. Qed.

(* "the max-count host is always one of the contributing hosts" — for every rng stream *)
Theorem C04_max_count_host_in_inputs :
  forall t ds r ds', Forall wfv (leaves t) -> eval_value t ds = (r, ds') -> (0 < cnt r)%Q ->
  exists l, In l (leaves t) /\ (0 < cnt l)%Q /\ c_host (v_c l) = c_host (v_c r).
Proof. exact max_count_host_in_inputs. Qed.

(* the same for a leaf built from raw contributions by AddCounterHost / AddValueCounterHost: the count is the
   sum of the contributed counts and the max-count host is the host of a contribution with a positive count *)
Theorem C04_contributions_leaf :
  forall es s ds s' ds',
  wfv s -> Forall (fun e => (0 <= ev_count e)%Q) es -> apply_events s es ds = (s', ds') ->
  wfv s' /\ (cnt s' == cnt s + sumQ ev_count es)%Q /\
  ((0 < cnt s')%Q -> ((0 < cnt s)%Q /\ c_host (v_c s') = c_host (v_c s)) \/
                     (exists e, In e es /\ (0 < ev_count e)%Q /\ c_host (v_c s') = ev_host e)).
Proof. exact events_leaf_wf. Qed.

(* API row merge (tsValues.merge): same statement for rows read from the database *)
Theorem C04_ts_merge_tree_perm :
  forall t1 t2, Permutation (leaves t1) (leaves t2) ->
  let r1 := eval_ts t1 in let r2 := eval_ts t2 in
  (ts_sum r1 == ts_sum r2 /\ ts_count r1 == ts_count r2 /\ ts_sumsq r1 == ts_sumsq r2 /\ ts_card r1 == ts_card r2 /\
   ts_min r1 == ts_min r2 /\ ts_max r1 == ts_max r2 /\
   a_val (ts_minh r1) == a_val (ts_minh r2) /\ a_val (ts_maxh r1) == a_val (ts_maxh r2))%Q.
Proof. exact ts_merge_tree_perm. Qed.

Theorem C04_ts_min_host_contributed :
  forall t, exists l, In l (leaves t) /\ ts_minh l = ts_minh (eval_ts t) /\
            forall l', In l' (leaves t) -> (a_val (ts_minh l) <= a_val (ts_minh l'))%Q.
Proof. exact ts_min_host_contributed. Qed.
Theorem C04_ts_max_host_contributed :
  forall t, exists l, In l (leaves t) /\ ts_maxh l = ts_maxh (eval_ts t) /\
            forall l', In l' (leaves t) -> (a_val (ts_maxh l') <= a_val (ts_maxh l))%Q.
Proof. exact ts_max_host_contributed. Qed.

(* "... and unique-value estimate": REFUTED for the code as it is (finding F-C04a). ChUnique.Merge filters the
   incoming hashes with the right operand's skip degree instead of the receiver's: a sketch already thinned to
   degree 1 merged with a small unthinned one reports 8 on one side and 4 on the other. *)
Theorem C04_unique_merge_comm_refuted :
  exists a b orda ordb,
    wfs uniques_max_size a /\ wfs uniques_max_size b /\ enumerates orda (s_elems a) /\ enumerates ordb (s_elems b) /\
    s_size_as_is (merge_sk uniques_max_size false a b ordb) = 8%Z /\
    s_size_as_is (merge_sk uniques_max_size false b a orda) = 4%Z.
Proof. exact unique_merge_comm_refuted_lemma. Qed.

Local Open Scope Z_scope.
(* "... and unique-value estimate", repaired variant (Merge filters by the receiver's current skip degree): the
   result of merging two well-formed sketches, whatever the order in which the right operand's table is walked,
   is the canonical sketch of the union: it holds exactly the hashes of the union divisible by 2^skip, where
   skip is the least degree >= both operands' degrees at which they fit into M items (thinning included). *)
Theorem C04_unique_merge_canonical_repaired :
  forall M a b ord, (1 <= M)%Z -> wfs M a -> wfs M b -> enumerates ord (s_elems b) ->
  canon M (Z.max (s_skip a) (s_skip b)) (PS.union (s_elems a) (s_elems b)) (s_zero a || s_zero b)
        (merge_sk M true a b ord) /\
  bounded (PS.union (s_elems a) (s_elems b)).
Proof. exact merge_canon. Qed.

(* hence both sides of one merge give the same skip degree, hash set, count and Size(true) *)
Theorem C04_unique_merge_comm_repaired :
  forall M a b orda ordb, (1 <= M)%Z -> wfs M a -> wfs M b ->
  enumerates orda (s_elems a) -> enumerates ordb (s_elems b) ->
  let ab := merge_sk M true a b ordb in let ba := merge_sk M true b a orda in
  s_skip ab = s_skip ba /\ PS.Equal (s_elems ab) (s_elems ba) /\ s_zero ab = s_zero ba /\ s_cnt ab = s_cnt ba /\
  s_size_as_is ab = s_size_as_is ba.
Proof. exact unique_merge_comm. Qed.

(* "... in any order and any grouping yields the same ... unique-value estimate ... including unique sets large
   enough to trigger sketch thinning": any two merge trees whose leaves are permutations of the same well-formed
   sketches, with any walk order of every right operand's table, give the same skip degree, hash set, zero flag,
   itemsCount and Size(true) — for every size bound M >= 1 (the code's is 65536). Variant [true] of the model is the
   code after the fix commits for F-C04a/F-C04b (the correspondence accepts either variant). *)
Theorem C04_unique_merge_tree_perm :
  forall M t1 t2 s1 s2, (1 <= M)%Z ->
  Forall (wfs M) (leaves t1) -> Permutation (leaves t1) (leaves t2) ->
  evals M t1 s1 -> evals M t2 s2 ->
  s_skip s1 = s_skip s2 /\ PS.Equal (s_elems s1) (s_elems s2) /\ s_zero s1 = s_zero s2 /\ s_cnt s1 = s_cnt s2 /\
  s_size_as_is s1 = s_size_as_is s2.
Proof. exact unique_merge_tree_perm. Qed.

(* the result of any merge tree is the canonical thinned sketch of the union of its leaves *)
Theorem C04_unique_tree_canonical :
  forall M t s, (1 <= M)%Z -> Forall (wfs M) (leaves t) -> evals M t s ->
  canon M (lskip (leaves t)) (lunion (leaves t)) (lzero (leaves t)) s /\ bounded (lunion (leaves t)).
Proof. exact tree_canon. Qed.

(* ---- the open-addressing table (what the Go code runs) refines the set level ----
   Table invariant [tinv] = [winv] (cells beyond the size empty; every stored hash in (0,2^32) and divisible by 2^skip;
   no duplicates; itemsCount = occupied cells + zero flag; sizeDegree within bounds) + [probing] (all cells from the
   home cell of a stored hash to its position, cyclically, are occupied) + itemsCount <= maxFill.
   insertImpl (the probe loop as the code runs it, incl. termination): preserves the invariant and is the set-level
   insert on the abstraction. Unconditional. *)
Theorem C04_table_insert_refines :
  forall s a x, tinv s -> absR s a -> 0 <= x < 2 ^ 32 -> good (t_skip s) x = true ->
  let s' := t_insert_impl s x in
  winv s' /\ probing s' /\ absR s' (s_insert_impl a x) /\ t_sd s' = t_sd s /\ t_skip s' = t_skip s /\
  t_cnt s' <= t_cnt s + 1.
Proof. exact insert_impl_absR. Qed.

(* the executable abstraction used by the correspondence check is the abstraction relation *)
Theorem C04_table_abs_sound : forall s, winv s -> absR s (t_abs s).
Proof. exact absR_t_abs. Qed.

(* rehash (both loops, incl. the wrap-around second one) at the table level: keeps exactly the stored hashes
   divisible by 2^d and re-establishes the table invariant except (not proved here) the probing invariant. *)
Theorem C04_table_rehash_keeps_set :
  forall s d, winv s -> t_skip s <= d ->
  let s' := t_rehash (t_with_skip s d) in
  winv s' /\ t_sd s' = t_sd s /\ t_skip s' = d /\ t_zero s' = t_zero s /\
  (forall y, holds s' y <-> holds s y /\ good d y = true).
Proof. exact rehash_weak. Qed.

(* resize to sizeDegree+1 (incl. the "|| buf[i] != 0" tail and the inner probe): keeps the set of stored hashes,
   itemsCount and the table invariant except (not proved here) the probing invariant. *)
Theorem C04_table_resize_keeps_set :
  forall s, winv s -> t_sd s + 1 <= uniques_max_size_degree ->
  let s' := t_resize s (t_sd s + 1) in
  winv s' /\ t_sd s' = t_sd s + 1 /\ t_skip s' = t_skip s /\ t_zero s' = t_zero s /\ t_cnt s' = t_cnt s /\
  (forall y, holds s' y <-> holds s y).
Proof. exact resize_weak. Qed.

(* "any order and any grouping ... same unique-value estimate", for the REAL table operations: any two merge trees
   of the table-level Merge (current code) over permutations of the same tables report the same skip degree,
   itemsCount, zero flag, stored hashes and Size(true), and the invariant is preserved.
   PARTIAL: two premises remain, [rehash_probing] and [resize_probing]: that rehash resp. resize RE-ESTABLISH THE
   PROBING INVARIANT (every cell between the home cell of a stored hash and its position is occupied). Everything
   else about the two loops (termination, set of stored hashes, no duplicates, itemsCount, divisibility, bounds) is
   proved above; insertImpl, shrinkIfNeed, thinning, Merge, table order, counting and the lift are proved. The
   restoration argument needs the load-factor bound (occupied <= maxFill+1) to exclude chains that wrap around the
   whole table and a three-region loop invariant; it was not completed. Both premises are validated on every
   replayed case (cell-by-cell table digest against the Go table; Go-side oracle table_probing_invariant after every
   operation; seeded damage of exactly this kind, C03-2, is caught with a concrete replay). *)
Theorem C04_unique_table_merge_tree_perm_partial :
  rehash_probing -> resize_probing -> forall t1 t2,
  Forall tinv (leaves t1) -> Permutation (leaves t1) (leaves t2) ->
  t_skip (t_eval t1) = t_skip (t_eval t2) /\ t_cnt (t_eval t1) = t_cnt (t_eval t2) /\
  t_zero (t_eval t1) = t_zero (t_eval t2) /\ (forall y, holds (t_eval t1) y <-> holds (t_eval t2) y) /\
  t_size_as_is (t_eval t1) = t_size_as_is (t_eval t2) /\ tinv (t_eval t1) /\ tinv (t_eval t2).
Proof. exact table_merge_tree_perm_3. Qed.

(* non-vacuity of the table theorems: the table after Reset satisfies the invariant *)
Example C04_nonvacuous_table : tinv (t_reset tsk_nil) /\ t_size_as_is (t_eval (Node (Leaf (t_reset tsk_nil)) (Leaf (t_insert (t_reset tsk_nil) 7)))) = 1.
Proof. split; [exact tinv_reset | vm_compute; reflexivity]. Qed.

(* non-vacuity: concrete leaves satisfying the guards, a tree and its mirror image with different draws *)
Definition ex_l1 : ivalue := fst (apply_events ivalue0 [EValue (3#2) 2 7; ECount 1 9] [2%Z]).
Definition ex_l2 : ivalue := fst (apply_events ivalue0 [EValue (-(1#4)) 1 5] []).
Definition ex_l3 : ivalue := fst (apply_events ivalue0 [ECount 4 3] []).
Example C04_nonvacuous_value :
  Forall wfv [ex_l1; ex_l2; ex_l3] /\
  (let r := fst (eval_value (Node (Node (Leaf ex_l1) (Leaf ex_l2)) (Leaf ex_l3)) [0%Z; 100%Z]) in
   Qeq_bool (cnt r) 8 && Qeq_bool (v_min r) (-(1#4)) && Qeq_bool (v_max r) (3#2) && Qeq_bool (v_sum r) (11#4) &&
   (v_minh r =? 5)%Z && (v_maxh r =? 7)%Z && (c_host (v_c r) =? 3)%Z) = true /\
  (let r := fst (eval_value (Node (Leaf ex_l3) (Node (Leaf ex_l2) (Leaf ex_l1))) [100%Z; 100%Z]) in
   Qeq_bool (cnt r) 8 && Qeq_bool (v_min r) (-(1#4)) && Qeq_bool (v_sum r) (11#4) && (c_host (v_c r) =? 9)%Z) = true.
Proof.
  split; [|split; vm_compute; reflexivity].
  repeat constructor; unfold cnt; vm_compute; try congruence; intros; discriminate.
Qed.

(* non-vacuity of the sketch theorems: the refutation witnesses are well-formed sketches with their enumerations,
   and on them the repaired variant gives 4 on both sides *)
Example C04_nonvacuous_unique :
  wfs uniques_max_size wit_a /\ wfs uniques_max_size wit_b /\
  s_size_as_is (merge_sk uniques_max_size true wit_a wit_b [1; 3]%Z) = 4%Z /\
  s_size_as_is (merge_sk uniques_max_size true wit_b wit_a [2; 4]%Z) = 4%Z.
Proof. split; [apply wit_wf|]. split; [apply wit_wf|]. split; vm_compute; reflexivity. Qed.

(* non-vacuity of the tree theorem: a three-leaf tree over well-formed sketches evaluates *)
Example C04_nonvacuous_unique_tree :
  exists s, evals uniques_max_size (Node (Node (Leaf wit_a) (Leaf wit_b)) (Leaf wit_a)) s /\ s_size_as_is s = 4%Z.
Proof.
  eexists. split.
  - eapply ev_node; [eapply ev_node; [apply ev_leaf|apply ev_leaf|]|apply ev_leaf|].
    + apply unique_merge_comm_refuted_lemma_enum_b.
    + apply unique_merge_comm_refuted_lemma_enum_a.
  - vm_compute. reflexivity.
Qed.
