(* C08 — Agent places every accepted event in exactly one correct send second.
   Only the property theorems (closed by [exact]) and non-vacuity examples.
   Quantification: [ops] ranges over ALL lists of operations of one shard — events (any timestamp, resolution, hash,
   secondary-shard start time, entry point), flushBuckets(now) under ANY clock sequence inside the no-wrap domain
   (pauses, jumps forward and backward), preprocessor receives, StopReceivingIncomingData, shutdown steps.
   Domain hypotheses (exactly the ones the code/property need, see AgentQueue/ProofsHist.v):
     clock_ok now  : queue_len <= now < 2^32 - 2*queue_len  (no uint32 wrap in flushBuckets; the jump-ahead test
                     `CurrentTime-125` wraps for Unix times below 125 and SendTime = now-2 wraps below 2)
     res_ok r      : 1 <= r <= max_resolution (the image of format.AllowedResolution, regenerated each run)
     ops_ok        : every event has a 32-bit timestamp and an allowed resolution, every flush clock is clock_ok,
                     shutdown steps do not drive SendTime to 2^32. *)
From Coq Require Import ZArith List Bool Permutation Sorted.
From SH Require Import Common.Wrap Gen.AgentQueueConsts AgentQueue.Model AgentQueue.ProofsPlace AgentQueue.ProofsInv
  AgentQueue.ProofsHist AgentQueue.ProofsMap.
Import ListNotations.
Open Scope Z_scope.

(* side conditions over the constants of the current source tree (queue length, future slots, the literal 120,
   resolution table): accepted slots stay inside one turn of the ring *)
Theorem C08_consts_ok :
  0 < queue_len /\ 0 <= future_slots /\ 0 <= gap_slack /\ 1 <= max_resolution /\
  2 * max_resolution - 1 + future_slots + gap_slack < queue_len /\
  two32 mod queue_len = 0 /\
  Forall (fun r => 1 <= r <= max_resolution) allowed_resolutions.
Proof. exact consts_ok. Qed.

(* Agent.FlushAllData walks exactly the whole ring (the loop bound is probed from the real function on every run) *)
Theorem C08_flush_all_walks_whole_ring : flush_all_steps = queue_len.
Proof. exact flush_all_steps_ok. Qed.

(* "Every event an agent shard accepts is delivered to sending in exactly one bucket": at every moment of every
   history the rows in the ring slots plus the rows of all buckets handed to BucketsToPreprocess are a permutation
   of the rows ever stored (acc = ghost log of apply_core) — nothing lost, nothing duplicated, no slot overwritten *)
Theorem C08_stored_rows_conserved :
  forall now hw_ hwslow_ stres_ ops,
  clock_ok now -> res_ok (u32 stres_) -> ops_ok (init_state now hw_ hwslow_ stres_) ops ->
  let st := hist now hw_ hwslow_ stres_ ops in
  Permutation (all_items st) (acc st).
Proof. exact stored_rows_conserved. Qed.

(* "... delivered to sending in exactly one bucket": after Agent.FlushAllData (queue_len single steps) the ring and
   the channel are empty and the buckets received by the preprocessor contain exactly the stored rows *)
Theorem C08_accepted_flushed_exactly_once :
  forall now hw_ hwslow_ stres_ ops,
  clock_ok now -> res_ok (u32 stres_) -> ops_ok (init_state now hw_ hwslow_ stres_) ops ->
  let st := hist now hw_ hwslow_ stres_ ops in
  sendt st + 2 * queue_len < two32 ->
  let st' := flush_all st in
  chan st' = None /\ (forall i, ring st' i = []) /\ Permutation (flat_map b_items (out st')) (acc st).
Proof. exact accepted_flushed_exactly_once. Qed.

(* events with distinct ids: no id is sent twice *)
Theorem C08_sent_rows_distinct :
  forall now hw_ hwslow_ stres_ ops,
  clock_ok now -> res_ok (u32 stres_) -> ops_ok (init_state now hw_ hwslow_ stres_) ops ->
  let st := hist now hw_ hwslow_ stres_ ops in
  sendt st + 2 * queue_len < two32 -> NoDup (map i_id (acc st)) ->
  NoDup (map i_id (flat_map b_items (out (flush_all st)))).
Proof. exact sent_rows_distinct. Qed.

(* "never in a bucket earlier than the event's clamped timestamp": i_cts = timestamp after the zero/future clamp;
   the bucket second equals the slot second plus the jump-ahead distance accumulated meanwhile (a multiple of queue_len) *)
Theorem C08_never_before_clamped_timestamp :
  forall now hw_ hwslow_ stres_ ops,
  clock_ok now -> res_ok (u32 stres_) -> ops_ok (init_state now hw_ hwslow_ stres_) ops ->
  let st := hist now hw_ hwslow_ stres_ ops in
  forall b it, In b (delivered st) -> In it (b_items b) ->
  i_cts it <= b_time b /\ i_ts it <= b_time b /\ i_slot it <= b_time b /\
  (b_time b - i_slot it) mod queue_len = 0 /\ b_time b = i_slot it + (b_jmp b - i_jmp it).
Proof. exact never_before_clamped_timestamp. Qed.

(* "with timestamps of low-resolution metrics rounded down to a multiple of the resolution" *)
Theorem C08_low_res_rounded :
  forall now hw_ hwslow_ stres_ ops,
  clock_ok now -> res_ok (u32 stres_) -> ops_ok (init_state now hw_ hwslow_ stres_) ops ->
  let st := hist now hw_ hwslow_ stres_ ops in
  forall b it, In b (delivered st) -> In it (b_items b) ->
  res_ok (i_res it) /\ i_ts it = (i_cts it / i_res it) * i_res it /\ i_ts it mod i_res it = 0 /\
  i_ts it <= i_cts it < i_ts it + i_res it.
Proof. exact low_res_rounded. Qed.

(* "when the row is not late, its send second depends only on the metric, its original tag values and the
   timestamp": the slot is nominal_slot ts res hash — no state of the agent occurs in it *)
Theorem C08_placement_depends_only_on_ts_res_hash :
  forall now hw_ hwslow_ stres_ ops,
  clock_ok now -> res_ok (u32 stres_) -> ops_ok (init_state now hw_ hwslow_ stres_) ops ->
  let st := hist now hw_ hwslow_ stres_ ops in
  forall id ts res hash dropb st' it,
  res_ok res -> 0 < ts < two32 -> apply_core st id ts res hash dropb = (st', AAccepted it false) ->
  sendt st <= nominal_slot ts res hash ->
  i_slot it = nominal_slot ts res hash /\ i_cts it = ts /\ i_jmp it = jumped st.
Proof. exact placement_nominal. Qed.

(* "All agents therefore place the same series in the same second": two agents after arbitrary histories *)
Theorem C08_same_slot_on_all_agents :
  forall now1 hw1 hs1 sr1 ops1 now2 hw2 hs2 sr2 ops2 id1 id2 ts res hash d1 d2 s1' s2' it1 it2,
  clock_ok now1 -> res_ok (u32 sr1) -> ops_ok (init_state now1 hw1 hs1 sr1) ops1 ->
  clock_ok now2 -> res_ok (u32 sr2) -> ops_ok (init_state now2 hw2 hs2 sr2) ops2 ->
  res_ok res -> 0 < ts < two32 ->
  apply_core (hist now1 hw1 hs1 sr1 ops1) id1 ts res hash d1 = (s1', AAccepted it1 false) ->
  apply_core (hist now2 hw2 hs2 sr2 ops2) id2 ts res hash d2 = (s2', AAccepted it2 false) ->
  sendt (hist now1 hw1 hs1 sr1 ops1) <= nominal_slot ts res hash ->
  sendt (hist now2 hw2 hs2 sr2 ops2) <= nominal_slot ts res hash ->
  i_slot it1 = i_slot it2 /\ i_ts it1 = i_ts it2.
Proof. exact same_slot_on_all_agents. Qed.

(* "regardless of mapping-cache contents or tag order": the bytes hashed by OriginalHash are the same for any two
   mapping caches (and raw-value parsers) and any permutation of the event's tags (tag indices distinct) *)
Theorem C08_original_bytes_independent_of_cache_and_order :
  forall m c1 r1 c2 r2 ts ts',
  Permutation ts ts' -> NoDup (map t_index ts) ->
  original_marshal m (h_otv (map_all_tags c1 r1 ts)) = original_marshal m (h_otv (map_all_tags c2 r2 ts')).
Proof. exact original_bytes_independent. Qed.

(* ... and regardless of what the reused per-worker scratch buffer held (previous events, the mapped key left there
   by tags_hash sharding): what OriginalHash(scratch) feeds to xxh3 is the same for any two scratch contents, caches
   and tag orders *)
Theorem C08_hashed_bytes_independent_of_scratch_cache_and_order :
  forall s1 s2 m c1 r1 c2 r2 ts ts',
  Permutation ts ts' -> NoDup (map t_index ts) ->
  original_hash_bytes s1 m (h_otv (map_all_tags c1 r1 ts)) = original_hash_bytes s2 m (h_otv (map_all_tags c2 r2 ts')).
Proof. exact hashed_bytes_independent. Qed.

(* "Events are dropped only while the receive queue has a gap, during shutdown, or on a secondary shard before
   its configured start time" *)
Theorem C08_drops_only_when_gap_or_stopped_or_secondary_early :
  forall now hw_ hwslow_ stres_ ops,
  clock_ok now -> res_ok (u32 stres_) -> ops_ok (init_state now hw_ hwslow_ stres_) ops ->
  let st := hist now hw_ hwslow_ stres_ ops in
  forall id ts res hash dropb st' r,
  res_ok res -> 0 <= ts < two32 -> apply_core st id ts res hash dropb = (st', r) ->
  match r with
  | ADropped DStop => stop st = true
  | ADropped DGap => 0 < gap st
  | ADropped DBefore => 0 < dropb /\ (clamp_pure (cur st) ts / res) * res < dropb
  | AAccepted it _ => stop st = false /\ gap st <= 0 /\ dropb <= i_ts it /\ acc st' = it :: acc st
  end.
Proof. exact drops_only_when_gap_or_stopped_or_secondary_early. Qed.

(* on a primary shard (no start time) an event is always accepted unless gap or shutdown *)
Theorem C08_primary_shard_accepts :
  forall now hw_ hwslow_ stres_ ops,
  clock_ok now -> res_ok (u32 stres_) -> ops_ok (init_state now hw_ hwslow_ stres_) ops ->
  let st := hist now hw_ hwslow_ stres_ ops in
  forall id ts res hash,
  res_ok res -> 0 <= ts < two32 -> stop st = false -> gap st <= 0 ->
  exists st' it cl, apply_core st id ts res hash 0 = (st', AAccepted it cl).
Proof. exact primary_shard_accepts. Qed.

(* bucket seconds handed to the preprocessor strictly increase (flushBuckets: "We want PreprocessingBucketTime to
   strictly increase"), also across jump-aheads *)
Theorem C08_bucket_times_increase :
  forall now hw_ hwslow_ stres_ ops,
  clock_ok now -> res_ok (u32 stres_) -> ops_ok (init_state now hw_ hwslow_ stres_) ops ->
  StronglySorted later (rev (delivered (hist now hw_ hwslow_ stres_ ops))).
Proof. exact bucket_times_increase. Qed.

(* REFUTED outside the clock domain (finding F-C08a): the hypothesis [clock_ok] cannot be dropped. At the end of uint32
   time (now = 2^32-3) CurrentTime+3 wraps to 0, an event stamped "now" is rewritten to timestamp 0 and sent in bucket
   now-2, before its timestamp. The harness replays this witness on the real code on every run. *)
Theorem C08_never_before_timestamp_at_u32_wrap_refuted :
  exists now ts, 0 <= now < two32 /\ ~ clock_ok now /\
  let st := init_state now 5 15 1 in
  let st2 := flush_all (fst (apply_core st 1 ts 1 0 0)) in
  exists b it, In b (out st2) /\ In it (b_items b) /\ i_id it = 1 /\ i_ts it = 0 /\ b_time b < clamp_pure (cur st) ts.
Proof. exact u32_time_wrap_witness. Qed.

(* ---------- non-vacuity ---------- *)
(* a history inside the domain: a 1-second event, a late 5-second event, a future-clamped 60-second event reported by
   ApplyCounter (status row), normal flushes, a 300 s clock jump (jump-ahead with rows still buffered), then shutdown *)
Definition ex_ops : list op :=
  [ OApply 1 1700000000 (MI 7 1 false) 0 0 true;
    OApply 2 1699999990 (MI 8 5 false) 3000000000 0 false;
    OApply 3 1700000100 (MI 9 60 false) 4000000000 0 true;
    OFlush 1700000001 400; ODrain;
    OFlush 1700000002 400; ODrain;
    OApply 4 1700000001 (MI (-1001) 1 true) 123 1700000000 true;
    OFlush 1700000302 0; ODrain;
    OApply 5 0 MNil 0 0 false;
    OFlush 1700000302 500; ODrain;
    OApply 7 0 MNil 0 0 false;
    OStop;
    OApply 6 1700000302 (MI 7 1 false) 0 0 true ].

Definition ex_st := hist 1700000000 5 15 1 ex_ops.

Example C08_nonvacuous_history :
  clock_ok 1700000000 /\ res_ok (u32 1) /\
  (* events 1,2,3 (+ the status row of the clamped 3) and 7 are stored; 4 is before the secondary shard's start
     time, 5 arrives while the queue has a gap, 6 after StopReceivingIncomingData *)
  map i_id (acc ex_st) = [7; -1; 3; 2; 1] /\
  jumped ex_st = 256 /\
  map (fun b => (b_time b, map (fun it => (i_id it, i_ts it, i_slot it)) (b_items b))) (out (flush_all ex_st)) =
    [ (1699999998, [(-1, 1699999980, 1699999998); (2, 1699999990, 1699999998)]);
      (1699999999, []);
      (1700000256, [(1, 1700000000, 1700000000)]);     (* buffered over the jump-ahead: sent 2*128 s later, not lost *)
      (1700000297, []);
      (1700000302, [(7, 1700000302, 1700000302)]);
      (1700000351, [(3, 1699999980, 1700000095)]) ] /\
  snd (run (init_state 1700000000 5 15 1) [OApply 4 1700000001 (MI (-1001) 1 true) 123 1700000000 true]) = [BApply (ADropped DBefore)].
Proof. unfold clock_ok, res_ok, queue_len, max_resolution, two32. vm_compute. repeat split; try discriminate; reflexivity. Qed.

Example C08_nonvacuous_ops_ok : ops_ok (init_state 1700000000 5 15 1) ex_ops.
Proof.
  unfold ex_ops. cbn [ops_ok]. unfold op_ok, clock_ok, res_ok, queue_len, max_resolution, two32.
  vm_compute. repeat split; discriminate.
Qed.

(* the not-late, not-clamped slot of a 15-second row: a function of (ts, res, hash) *)
Example C08_nonvacuous_nominal : nominal_slot 1700000003 15 2147483648 = 1699999995 + 15 + 7 /\ nominal_slot 1700000003 1 0 = 1700000003.
Proof. vm_compute. split; reflexivity. Qed.

Example C08_nonvacuous_scratch :
  original_hash_bytes [1; 2; 3; 200] 77 (h_otv (map_all_tags (fun _ => None) (fun _ => 0) [mkTag 0 KPlain [97]]))
  = [77; 0; 0; 0; 1; 97; 0] /\
  original_marshal_append [1; 2; 3; 200] 77 (h_otv (map_all_tags (fun _ => None) (fun _ => 0) [mkTag 0 KPlain [97]]))
  = [1; 2; 3; 200; 77; 0; 0; 0; 1; 97; 0].
Proof. vm_compute. split; reflexivity. Qed.

Example C08_nonvacuous_map :
  original_marshal 77 (h_otv (map_all_tags (fun _ => None) (fun _ => 0)
     [mkTag 2 KPlain [98]; mkTag 0 KPlain [97]; mkTag 3 (KRaw true) [53]; mkTag (-2) KPlain [104]; mkTag 5 (KRaw false) [113]]))
  = [77; 0; 0; 0; 4; 97; 0; 0; 98; 0; 53; 0].
Proof. vm_compute. reflexivity. Qed.
