(* C07 — String-top rows conserve totals and keep the heaviest values.
   Only the property theorems (closed by [exact]) and non-vacuity examples.
   Model: StringTop/Model.v (MapStringTop / MapStringTopBytes / resample / FinishStringTop over Agg.Model's
   ItemValue, arithmetic over Q, the rng as a stream of raw outputs, Go map iteration order and the order
   sort.Slice leaves as explicit inputs — the theorems quantify over all of them). *)
From Coq Require Import ZArith QArith List Bool Permutation.
From SH Require Import Agg.Model Agg.ProofsValue StringTop.Model StringTop.Proofs StringTop.ProofsFinish.
Import ListNotations.

(* "For any sequence of events written into a row with string-top tags and any capacity, the counts, sums, mins and
   maxes over the retained top values plus the 'other' tail equal those of all events written".
   [ops] is any history: events (each with its own capacity, tag, counter or value, host) interleaved with
   finalisations; [ords]/[ord] inside the ops are any map-iteration / sort orders, [rs] any rng stream.
   Guard: event counters are non-negative (ingestion rejects negative counters).
   [conserved m es]: sum of counts / sums / sums of squares over Tail and Top = those of the events; some part
   holds a value iff some event carried one; x is the least (greatest) ValueMin (ValueMax) over the parts holding
   values iff x is the least (greatest) event value. *)
Theorem C07_top_conserves :
  forall ops rs m' rs',
  Forall ev_nonneg (events_of ops) -> run (mitem0, rs) ops = Some (m', rs') -> conserved m' (events_of ops).
Proof. exact top_conserves. Qed.

(* "so eviction only moves weight into the tail and never loses it": one resample round, for any iteration
   order (even one that is not a permutation of the keys) and any rng stream, from any row that accounts for
   its events *)
Theorem C07_resample_conserves :
  forall m ord rs m' rs' es,
  row_accounts m es -> resample m ord rs = (m', rs') -> row_accounts m' es /\ conserved m' es.
Proof. exact resample_conserves. Qed.

(* the same for finalisation, for any capacity (negative included) and any order *)
Theorem C07_finish_conserves :
  forall m cap ord rs m' rs' es,
  row_accounts m es -> finish m cap ord rs = (m', rs') -> row_accounts m' es /\ conserved m' es.
Proof. exact finish_conserves. Qed.

(* every row a history reaches accounts for its events (the premise of the two theorems above is not vacuous
   and holds wherever the code can be) and its Top keys are distinct *)
Theorem C07_reachable_accounts :
  forall ops rs m' rs',
  Forall ev_nonneg (events_of ops) -> run (mitem0, rs) ops = Some (m', rs') -> row_accounts m' (events_of ops).
Proof. exact reachable_accounts. Qed.

Theorem C07_reachable_keys_distinct :
  forall ops m rs m' rs', NoDup (keys m) -> run (m, rs) ops = Some (m', rs') -> NoDup (keys m').
Proof. exact reachable_keys_distinct. Qed.

(* the weight FinishStringTop returns (used to rank whales) is the count of all events written *)
Theorem C07_finish_weight_is_total :
  forall m es, row_accounts m es -> (finish_weight m == sumQ ev_count es)%Q.
Proof. exact finish_weight_is_total. Qed.

(* "When a row is finalized for sending or inserting, at most the configured number of top values remain":
   [ord] is whatever sort.Slice left — a permutation of the keys; negative capacities count as 0 *)
Theorem C07_finish_at_most_capacity :
  forall m cap ord rs m' rs',
  NoDup (keys m) -> Permutation ord (keys m) -> finish m cap ord rs = (m', rs') ->
  (top_len m' <= Z.max 0 cap)%Z /\ top_len m' = Z.min (top_len m) (Z.max 0 cap).
Proof. exact finish_at_most_capacity. Qed.

(* "and every retained value is at least as heavy as every value folded into the tail": [ord] is a permutation
   of the keys with non-increasing counts (what sort.Slice with the count-descending comparison guarantees; ties
   in any order). Every pair left in Top is a pair of the row before (untouched), and it is at least as heavy
   as every pair of the row before whose key is gone. *)
Theorem C07_finish_keeps_heaviest :
  forall m cap ord rs m' rs',
  NoDup (keys m) -> Permutation ord (keys m) -> desc_sorted m ord = true -> finish m cap ord rs = (m', rs') ->
  forall kr vr, In (kr, vr) (m_top m') ->
    In (kr, vr) (m_top m) /\
    forall kf vf, In (kf, vf) (m_top m) -> top_find kf (m_top m') = None -> (vcnt vf <= vcnt vr)%Q.
Proof. exact finish_keeps_heaviest. Qed.

(* exactly the first [capacity] keys of the sorted order stay, the others are gone *)
Theorem C07_finish_retains_prefix :
  forall m cap ord rs m' rs',
  NoDup (keys m) -> Permutation ord (keys m) -> m_top m <> [] -> finish m cap ord rs = (m', rs') ->
  let c := Z.to_nat (Z.max 0 cap) in
  (forall k, In k (firstn c ord) -> top_find k (m_top m') = top_find k (m_top m)) /\
  (forall k, In k (skipn c ord) -> top_find k (m_top m') = None).
Proof. exact finish_retains_prefix. Qed.

(* capacity pressure: MapStringTop never lets Top grow beyond the capacity in force (100 when capacity < 1) *)
Theorem C07_map_string_top_within_capacity :
  forall m cap t count ords rs s m' rs',
  map_string_top m cap t count ords rs = Some (s, m', rs') ->
  let cap' := if (cap <? 1)%Z then default_capacity else cap in
  (top_len m' <= Z.max (top_len m) cap')%Z.
Proof. exact map_string_top_within_capacity. Qed.

(* the order witnesses accepted by the correspondence check (Corr.v) satisfy the premise used above *)
Theorem C07_checked_orders_are_permutations :
  forall m ord, NoDup (keys m) -> is_key_order m ord = true -> Permutation ord (keys m).
Proof. exact is_key_order_perm. Qed.

(* The quantifier "for any sequence of events ... and any capacity" presupposes that writing an event completes.
   REFUTED for the code as it is (finding F-C07a): `sf := 1 << s.sampleFactorLog2` is a 64-bit int (2^l up to 62,
   MinInt64 at 63, 0 from 64 on), so a top value with count >= 2^62 passes `Count() >= float64(sf)` in every
   resample round and is never evicted; once Top holds `capacity` such values the loop
   `for len(s.Top) >= capacity { s.resample(rng) }` has no terminating run for any rng stream. The row below is
   reached by one ingestion-valid event; MapStringTop(capacity 1) of a second value has no outcome in the model
   and does not return on the real code (replayed by the harness every run, under the shard mutex in the agent). *)
Theorem C07_map_string_top_terminates_refuted :
  exists ops rs m rs',
    Forall ev_nonneg (events_of ops) /\ run (mitem0, rs) ops = Some (m, rs') /\
    forall count ords rs2, map_string_top m 1 (2, 0)%Z count ords rs2 = None.
Proof. exact hang_witness. Qed.

(* ---------- non-vacuity ---------- *)
(* capacity 1: the second value forces a resample round that evicts the first (raw output 2^63 -> Intn(2) = 1),
   then a third value; finalisation with capacity 0 folds the rest. Nothing is lost. *)
Definition ex_ops : list op :=
  [ OEvent 1 (1, 0)%Z (EValue (3 # 2) 1 7) [];
    OEvent 1 (2, 0)%Z (ECount 1 9) [[(1, 0)%Z]];
    OEvent 1 (0, 5)%Z (EValue (-(1 # 4)) 2 3) [[(2, 0)%Z]; [(2, 0)%Z]] ].
Definition ex_rs : list Z := [9223372036854775808; 0; 0; 9223372036854775808; 0; 0; 0]%Z.

Example C07_nonvacuous_history :
  Forall ev_nonneg (events_of ex_ops) /\
  match run (mitem0, ex_rs) ex_ops with
  | Some (m, _) =>
      (top_len m =? 1)%Z && (m_sfl m =? 3)%Z && Qeq_bool (vcnt (m_tail m)) 2 && Qeq_bool (v_max (m_tail m)) (3 # 2) &&
      match top_find (0, 5)%Z (m_top m) with Some v => Qeq_bool (vcnt v) 2 && Qeq_bool (v_min v) (-(1 # 4)) | None => false end
  | None => false
  end = true.
Proof.
  split; [repeat constructor; unfold ev_nonneg; simpl; discriminate | vm_compute; reflexivity].
Qed.

(* a row with three values of counts 3, 1, 3 finalised with capacity 2: the count-1 value is folded, whichever
   way the tie is ordered *)
Definition ex_v (c : Q) (h : Z) : ivalue := fst (apply_event ivalue0 (ECount c h) []).
Definition ex_row : mitem :=
  {| m_top := [((1, 0)%Z, ex_v 3 1); ((2, 0)%Z, ex_v 1 2); ((0, 3)%Z, ex_v 3 3)]; m_tail := ex_v 5 4; m_sfl := 0 |}.
Definition ex_ord : list tag := [(0, 3)%Z; (1, 0)%Z; (2, 0)%Z].

Example C07_nonvacuous_finish :
  NoDup (keys ex_row) /\ Permutation ex_ord (keys ex_row) /\ desc_sorted ex_row ex_ord = true /\
  (let m' := fst (finish ex_row 2 ex_ord [0%Z]) in
   (top_len m' =? 2)%Z && Qeq_bool (vcnt (m_tail m')) 6 &&
   match top_find (2, 0)%Z (m_top m') with None => true | Some _ => false end) = true.
Proof.
  split; [|split; [|split; vm_compute; reflexivity]].
  - unfold keys; simpl. repeat constructor; simpl; intuition congruence.
  - unfold keys, ex_ord; simpl.
    apply Permutation_trans with (l' := [(1, 0)%Z; (0, 3)%Z; (2, 0)%Z]); [apply perm_swap | apply perm_skip, perm_swap].
Qed.
