(* C25 — Table queries assemble aligned, unique, ordered rows.
   "For any split of a query into levels of detail and any storage output, every table row has exactly one column
    per requested function (missing values are NaN), rows are unique by time and tags and sorted in the requested
    direction, the requested row window and limit are respected, and the has-more flag is set exactly when rows
    beyond the limit exist."

   The model (Table/Model.v) is dual with one switch per recorded defect ([fixes]: f_pad F-C25a, f_panic F-C25b,
   f_more F-C25c, f_skip F-C25d, f_tags F-C25e, f_skey F-C25f); [fx_all false] is internal/api/table.go as it is, a
   switch that is on = the defect repaired as in work/C25/fix_<id>.diff. A theorem names exactly the switches it
   needs ([forall fx] alone = every variant, in particular the code as it is); [_partial] says what is missing;
   [_refuted] exhibits an input on which the code as it is violates the clause (each one is replayed on the real
   getTableFromLODs by the harness: findings F-C25a..f).
   This file holds only statements closed by [exact], and non-vacuity examples. *)
From Coq Require Import ZArith List Bool Sorted.
From SH Require Import Table.Model Table.Proofs Table.ProofsTable Table.ProofsLimit Table.ProofsSort
  Table.ProofsWindow Table.ProofsMore Table.ProofsExtra.
Import ListNotations.
Open Scope Z_scope.

(* ---------------- "every table row has exactly one column per requested function (missing values are NaN)" -------- *)

(* getHandlerWhat puts every requested function into exactly one function group *)
Theorem C25_functions_partitioned :
  forall whats, total_sel (handler_whats whats) = length whats.
Proof. exact handler_whats_total. Qed.

(* repaired variant, any number of functions, LODs, storage answers, markers, limits. Hypothesis = the storage contract
   the code comment states ("rows are keyed by (time, tags) and each key belongs to exactly one LOD"): within one
   function group no (time, tags) is inserted twice *)
Theorem C25_one_column_per_function :
  forall fx whats lods by_ by_s from to fe num desired store,
  f_pad fx = true ->
  (forall p, NoDup (map rkey (pass_flat fx lods from to fe num store p))) ->
  forall o, In o (table_rows fx whats lods by_ by_s from to fe num desired store) ->
  length (o_data o) = length whats.
Proof. exact one_column_fixed. Qed.

(* the code as it is: only for at most 7 requested functions (then it also cannot panic) *)
Theorem C25_one_column_per_function_upto7_partial :
  forall fx whats lods by_ by_s from to fe num desired store,
  (length whats <= ts_value_count)%nat ->
  NoDup (map rkey (pass_flat fx lods from to fe num store O)) ->
  panics fx whats lods from to fe num store = false /\
  forall o, In o (table_rows fx whats lods by_ by_s from to fe num desired store) ->
  length (o_data o) = length whats.
Proof. exact one_column_upto7. Qed.

(* F-C25a: with 8 functions (two function groups) the code as it is pads one NaN per group instead of one per function *)
Theorem C25_one_column_per_function_refuted :
  exists whats lods by_ by_s from to fe num desired store,
    (forall p, NoDup (map rkey (pass_flat (fx_all false) lods from to fe num store p))) /\
    panics (fx_all false) whats lods from to fe num store = false /\
    exists o, In o (table_rows (fx_all false) whats lods by_ by_s from to fe num desired store) /\
              length (o_data o) <> length whats.
Proof. exact one_column_refuted. Qed.

(* F-C25b: 8 functions that share selectors form one group of 8 and index the 7-entry tsWhat out of range *)
Theorem C25_no_panic_refuted :
  exists whats lods by_ by_s from to fe num desired store,
    table (fx_all false) whats lods by_ by_s from to fe num desired store = None.
Proof. exact no_panic_refuted. Qed.

(* ---------------- "rows are unique by time and tags" (both variants, all inputs) -------- *)
Theorem C25_rows_unique :
  forall fixed whats lods by_ by_s from to fe num desired store,
  NoDup (map okey (table_rows fixed whats lods by_ by_s from to fe num desired store)).
Proof. exact rows_unique. Qed.

(* ---------------- "and sorted in the requested direction" -------- *)

(* repaired variant: strongly sorted by (time, group-by tag values, string key) of the rows themselves *)
Theorem C25_rows_sorted_in_direction :
  forall fx whats lods by_ by_s from to fe num desired store,
  f_tags fx = true -> f_skey fx = true ->
  StronglySorted (fun a b => true_le by_ by_s fe a b = true)
    (table_rows fx whats lods by_ by_s from to fe num desired store).
Proof. exact rows_sorted_true_fixed. Qed.

(* both variants: strongly sorted with respect to the row markers stored with the rows (which, in the code as it is,
   need not describe the rows: F-C25e/f) *)
Theorem C25_rows_sorted_by_stored_marker_partial :
  forall fixed whats lods by_ by_s from to fe num desired store,
  StronglySorted (fun a b => row_le fe a b = true)
    (table_rows fixed whats lods by_ by_s from to fe num desired store).
Proof. exact rows_sorted. Qed.

Theorem C25_marker_describes_row :
  forall fx, f_tags fx = true -> f_skey fx = true ->
  forall lods by_ by_s from to fe num desired store whats o,
  In o (table_rows fx whats lods by_ by_s from to fe num desired store) ->
  o_repr o = repr_of by_ by_s (o_row o).
Proof. exact marker_describes_row_fixed. Qed.

(* F-C25e: aliasing of rowRepr.Tags: two rows come out in the wrong order, the second with another row's tags *)
Theorem C25_rows_sorted_in_direction_refuted :
  exists whats lods by_ by_s from to num desired store a b,
    table (fx_all false) whats lods by_ by_s from to false num desired store = Some ([a; b], false) /\
    less (repr_of by_ by_s (o_row b)) (repr_of by_ by_s (o_row a)) = true /\
    o_repr b <> repr_of by_ by_s (o_row b).
Proof. exact sorted_refuted. Qed.

(* F-C25f: stale rowRepr.SKey *)
Theorem C25_marker_describes_row_refuted :
  exists whats lods by_ by_s from to num desired store o,
    In o (table_rows (fx_all false) whats lods by_ by_s from to false num desired store) /\
    m_skey (o_repr o) <> m_skey (repr_of by_ by_s (o_row o)).
Proof. exact stale_skey_refuted. Qed.

(* ---------------- "the requested row window and limit are respected" -------- *)

(* both variants: every returned row lies strictly between the markers (inRange), inside the time bounds, and was
   returned by the storage *)
Theorem C25_window_respected :
  forall fixed lods by_ by_s from to fe num desired store whats o,
  In o (table_rows fixed whats lods by_ by_s from to fe num desired store) ->
  in_range from to fe (o_row o) = true /\ time_ok from to fe (o_row o) = true /\
  exists p k, In (o_row o) (concat (store p k)).
Proof. exact window_respected. Qed.

(* both variants: a function group inserts at most [limit] rows; the table has at most [limit] rows per group *)
Theorem C25_limit_per_function_group :
  forall fixed lods from to fe num store p,
  Z.of_nat (length (pass_flat fixed lods from to fe num store p)) <= Z.max 0 num.
Proof. exact pass_limit. Qed.

Theorem C25_limit_respected_upto7 :
  forall fixed whats lods by_ by_s from to fe num desired store,
  (length whats <= ts_value_count)%nat ->
  Z.of_nat (length (table_rows fixed whats lods by_ by_s from to fe num desired store)) <= Z.max 0 num.
Proof. exact table_limit_upto7. Qed.

Theorem C25_limit_respected_partial :   (* any number of functions: [limit] rows per function group *)
  forall fixed lods by_ by_s from to fe num desired store whats,
  Z.of_nat (length (table_rows fixed whats lods by_ by_s from to fe num desired store)) <=
  Z.of_nat (length (handler_whats whats)) * Z.max 0 num.
Proof. exact table_limit. Qed.

(* limitQueries returns exactly the first [limit] in-window rows of its visiting order (both variants) ... *)
Theorem C25_limit_queries_rows :
  forall from to fe fixed gs limit,
  fst (limit_queries fixed from to fe gs limit) =
  firstn (Z.to_nat limit) (filter (in_range from to fe) (scan_seq fixed from to fe gs)).
Proof. exact limit_queries_rows. Qed.

(* ... and in the repaired variant the visiting order loses no in-window row of the storage answer *)
Theorem C25_window_complete :
  forall from to fe fx, f_skip fx = true -> forall gs limit,
  fst (limit_queries fx from to fe gs limit) =
  firstn (Z.to_nat limit) (filter (in_range from to fe) (concat (if fe then rev gs else gs))).
Proof. exact limit_queries_rows_fixed. Qed.

(* F-C25d: the ends-only group test of the code as it is drops an in-window row (and has-more stays false) *)
Theorem C25_window_complete_refuted :
  exists from to fe gs limit r,
    In r (concat gs) /\ in_range from to fe r = true /\ cnt from to fe (concat gs) <= limit /\
    ~ In r (fst (limit_queries (fx_all false) from to fe gs limit)) /\ snd (limit_queries (fx_all false) from to fe gs limit) = false.
Proof. exact window_complete_refuted. Qed.

(* ---------------- "the has-more flag is set exactly when rows beyond the limit exist" -------- *)

(* the table's flag is the disjunction of the function groups' LOD loops (both variants) *)
Theorem C25_has_more_table :
  forall fixed lods by_ by_s from to fe num desired store whats,
  table_more fixed whats lods by_ by_s from to fe num desired store =
  existsb (fun p => snd (pass_rows fixed lods from to fe num store p)) (seq 0 (length (handler_whats whats))).
Proof. exact table_more_spec. Qed.

(* exact characterisation for the code as it is: limit <= 0 with any time slot returned, or a further row is VISITED
   after the limit-th kept row (whether or not that row is inside the window) *)
Theorem C25_has_more_characterisation :
  forall from to fe fx, f_more fx = false -> forall gs limit,
  snd (limit_queries fx from to fe gs limit) = true <->
  (limit <= 0 /\ gs <> []) \/
  (0 < limit /\ exists pre r post, scan_seq fx from to fe gs = pre ++ r :: post /\ cnt from to fe pre = limit).
Proof. exact limit_queries_more_faithful. Qed.

(* repaired variant: exactly when the storage answer holds more in-window rows than the limit *)
Theorem C25_has_more_spec :
  forall from to fe fx, f_more fx = true -> f_skip fx = true -> forall gs limit,
  snd (limit_queries fx from to fe gs limit) = true <-> Z.max 0 limit < cnt from to fe (concat gs).
Proof. exact limit_queries_more_fixed. Qed.

(* the whole table, over ALL LODs (quota numResults - rowsCount threaded through the LOD list in the requested
   direction, LOD overlap test included): with F-C25c and F-C25d repaired the flag is set exactly when, for some
   function group, the storage answers of the LODs that overlap the time bounds hold more in-window rows than the
   limit. Row times are unix timestamps (0 <= t <= MaxInt64). *)
Theorem C25_has_more_iff_rows_beyond_limit :
  forall fx whats lods by_ by_s from to fe num desired store,
  f_more fx = true -> f_skip fx = true ->
  (forall p k r, In r (concat (store p k)) -> 0 <= r_time r <= max_int) ->
  (table_more fx whats lods by_ by_s from to fe num desired store = true <->
   exists p, (p < length (handler_whats whats))%nat /\ Z.max 0 num < window_total lods from to fe store p).
Proof. exact table_more_fixed. Qed.

(* every variant, in particular the code as it is: exact characterisation across the LODs. The flag of a function
   group is raised by the first overlapping LOD, in visiting order, whose limitQueries reports more
   (C25_has_more_characterisation) for the quota that is left after subtracting the in-window rows visible in the
   earlier LODs ([first_more], ProofsMore.v) *)
Theorem C25_has_more_across_lods :
  forall fx whats lods by_ by_s from to fe num desired store,
  (forall p k r, In r (concat (store p k)) -> 0 <= r_time r <= max_int) ->
  table_more fx whats lods by_ by_s from to fe num desired store =
  existsb (fun p => first_more fx from to fe store p (lod_order lods fe) num) (seq 0 (length (handler_whats whats))).
Proof. exact table_more_threaded. Qed.

(* F-C25c: the code as it is raises has-more although no in-window row beyond the limit exists *)
Theorem C25_has_more_refuted :
  exists from to fe gs limit,
    snd (limit_queries (fx_all false) from to fe gs limit) = true /\ ~ (Z.max 0 limit < cnt from to fe (concat gs)).
Proof. exact has_more_refuted. Qed.

(* ---------------- non-vacuity ---------------- *)
(* a two-group (8 functions) query whose second storage answer has an extra row: hypotheses hold, rows have 8 columns,
   the row missing from the first group is NaN-padded on the left *)
Example C25_nonvacuous_one_column :
  (forall p, NoDup (map rkey (pass_flat (fx_all true) w_lods w_m0 w_m0 false 10 w_store_a p))) /\
  map (fun o => length (o_data o)) (table_rows (fx_all true) w_whats8 w_lods [] false w_m0 w_m0 false 10 0 w_store_a) = [8%nat; 8%nat] /\
  map o_data (table_rows (fx_all true) w_whats8 w_lods [] false w_m0 w_m0 false 10 0 w_store_a) =
    [[Some 4; Some 8; Some 2; Some 0; Some 1; Some 1; Some 0; Some 0];
     [None; None; None; None; None; None; None; Some 0]].
Proof. exact one_column_fixed_nonvacuous. Qed.

(* two LODs, a from-marker inside the first time slot, limit 3 reached in the second LOD: three aligned rows, has-more *)
Example C25_nonvacuous_upto7 :
  (length [3; 6] <= ts_value_count)%nat /\
  NoDup (map rkey (pass_flat (fx_all false) nv_lods (mkMarker 101 [(0, 1)] []) w_m0 false 3 nv_store O)) /\
  table (fx_all false) [3; 6] nv_lods [] false (mkMarker 101 [(0, 1)] []) w_m0 false 3 0 nv_store =
    Some ([mkO (w_row 101 2 [97]) [Some 4; Some 8] (mkMarker 101 [] []);
           mkO (w_row 103 1 []) [Some 4; Some 8] (mkMarker 103 [] []);
           mkO (w_row 111 1 []) [Some 4; Some 8] (mkMarker 111 [] [])], true).
Proof. exact upto7_nonvacuous. Qed.

Example C25_nonvacuous_has_more :
  snd (limit_queries (fx_all true) w_m0 w_m0 false (nv_store 0 0)%nat 2) = true /\
  Z.max 0 2 < cnt w_m0 w_m0 false (concat (nv_store 0 0)%nat) /\
  snd (limit_queries (fx_all true) w_m0 w_m0 false (nv_store 0 0)%nat 3) = false /\
  snd (limit_queries (fx_all false) w_m0 w_m0 true (nv_store 0 0)%nat 2) = true.
Proof. exact has_more_nonvacuous. Qed.

Example C25_nonvacuous_has_more_all_lods :
  (forall p k r, In r (concat (nv_store p k)) -> 0 <= r_time r <= max_int) /\
  window_total nv_lods w_m0 w_m0 false nv_store O = 5 /\
  table_more (fx_all true) [1] nv_lods [] false w_m0 w_m0 false 3 0 nv_store = true /\
  table_more (fx_all true) [1] nv_lods [] false w_m0 w_m0 false 5 0 nv_store = false /\
  table_more (fx_all true) [1] nv_lods [] false w_m0 w_m0 true 4 0 nv_store = true.
Proof. exact has_more_all_lods_nonvacuous. Qed.
