(* C09 — Agent disk cache survives restarts and crashes without corruption.
   Only the property theorems (closed by [exact]) and non-vacuity examples.
   Model: DiskCache/Model.v (byte level, internal/agent/disk_cache.go); specification: DiskCache/Spec.v (the list
   of seconds put and not erased, in write order).  What is proved for ALL inputs is the record format, the
   torn tail, the erase overwrite, crc detection and that an erased id is unknown.  The refinement of the whole
   cache (known buckets <-> record offsets, refcounts <-> live records, writing file, sizes, file removal, naming
   counter, tail-read cursor) to the specification is proved by induction over ALL histories of put / get / erase /
   ReadNextTailSecond / sizes / listing / restart / torn put (every k) / torn erase (every k except 3; every k for
   the repaired reader) -- theorems ..._all_histories (invariant: DiskCache/Inv.v, preservation: Steps.v and Tail.v,
   theorems: Refine.v), for every crc function with 32-bit values.  The bounded theorems (_partial) are kept; they
   additionally check the relation of the unsent size to the specification, which is the only clause not in the
   unbounded theorems.  Byte flips are covered by the crc theorem only. *)
From Coq Require Import ZArith List Bool Lia.
From SH Require Import Common.Wrap Gen.DiskCacheConsts DiskCache.Model DiskCache.Spec DiskCache.Proofs DiskCache.Format DiskCache.Inv DiskCache.Steps DiskCache.Tail DiskCache.Refine.
Import ListNotations.
Open Scope Z_scope.

(* the constants the layout of the model was written for are the ones in disk_cache.go of the current tree *)
Theorem C09_consts_ok :
  header_size = 20 /\ max_chunk_size = file_rotate_size - header_size /\ 0 < max_chunk_size < two63 /\
  magic_good <> magic_deleted /\ 0 <= magic_good < two32 /\ 0 <= magic_deleted < two32 /\
  magic_torn_deleted <> magic_good /\ magic_torn_deleted <> magic_deleted.
Proof. exact consts_ok. Qed.

(* "the cache re-reads exactly the seconds that were put and not erased ... with identical bytes":
   at the start of any complete record, whatever bytes precede and follow it (bodies may contain the magics),
   ReadNextTailSecond's header checks recover exactly its time, body length and crc and the start of the next
   record; a deleted record is skipped by its length; any other magic closes the file. *)
Theorem C09_record_format :
  forall rep pre m t body c post size,
  0 <= m < two32 -> 0 <= t < two32 -> 0 <= c < two32 -> blen body <= max_chunk_size ->
  blen pre + 20 + blen body <= size ->
  parse_at rep (pre ++ enc_header m t (blen body) c ++ body ++ post) size (blen pre) =
    if is_deleted_magic rep m then PSkip (blen pre + (20 + blen body))
    else if m =? magic_good then PGood t (blen body) c (blen pre + (20 + blen body)) else PClose.
Proof. exact parse_record. Qed.

(* "including a crash that tears the last write at any byte ... only a second whose write was torn may be
   missing" (file level): every proper prefix (k < 20 + len, every byte offset) of the last record of a file
   closes the file without handing anything out — the torn second is dropped, nothing is invented. *)
Theorem C09_torn_put_tail_is_dropped :
  forall rep pre t body c k,
  0 <= t < two32 -> 0 <= c < two32 -> blen body <= max_chunk_size ->
  (k < 20 + length body)%nat ->
  let tail := firstn k (enc_header magic_good t (blen body) c ++ body) in
  parse_at rep (pre ++ tail) (blen (pre ++ tail)) (blen pre) = PClose.
Proof. exact parse_torn_tail. Qed.

(* "it never returns erased seconds" / erase mechanism: the overwrite changes the magic of that one record and
   no other byte of the file; torn after k bytes it leaves the good magic (k<=2), the deleted magic (k=4), or for
   k=3 the value 0x590007EC that the reader knows as neither (see C09_torn_erase_refuted). *)
Theorem C09_erase_overwrite_torn :
  forall pre t s c rest k,
  0 <= k <= 4 ->
  write_at (pre ++ enc_header magic_good t s c ++ rest) (blen pre) (firstn (Z.to_nat k) magic_bytes_deleted)
  = pre ++ enc_header (if k <=? 2 then magic_good else if k =? 3 then magic_torn_deleted else magic_deleted) t s c ++ rest.
Proof. exact erase_overwrite_torn. Qed.

(* "it never returns erased seconds": GetBucket of an id just erased answers "not known", in every state *)
Theorem C09_erased_is_unknown :
  forall crc st id t, snd (get crc (erase st id) id t) = GUnknown.
Proof. exact erased_is_unknown. Qed.

(* "it never returns ... corrupted data": a second put in this session and fetched after ANY changes of file
   bytes comes back identical, or the changed bytes collide with the original under crc32c (crc uninterpreted).
   The crc covers the body only: a changed time field of a header is not detected (disk_cache.go says so in a
   TODO); that is outside the crash model of the property. *)
Theorem C09_get_detects_corruption_or_collision :
  forall crc st t body age st1 id flips st2 st3 data,
  put crc st t body age = (st1, Some id) ->
  find_known id (s_known st) = None ->
  fold_left (fun s c => let '(f, p, v) := c in corrupt s f p v) flips st1 = st2 ->
  get crc st2 id t = (st3, GOk data) ->
  data = body \/ (data <> body /\ crc data = crc body).
Proof. exact get_detects_corruption_or_collision. Qed.

(* "After any sequence of put, get and erase operations and any restart, including a crash that tears the last
   write at any byte ... identical bytes; it never returns erased seconds ...; only a second whose write was torn
   may be missing": for EVERY history (no length bound, crc any function with 32-bit values) of put / get / erase
   / ReadNextTailSecond / sizes / listing / restart / put torn after any k bytes / erase torn after any k <> 3
   bytes (any k for the repaired reader), the cache answers every put, get, erase and tail read like the list
   specification, and its state satisfies the invariant of Inv.v w.r.t. a ghost directory whose good records are
   exactly the specification's list.  NOT in this theorem: byte flips (op_ok excludes OCorrupt). *)
Theorem C09_refines_spec_all_histories :
  forall crc rep, (forall d, 0 <= crc d < two32) -> forall ops, Forall (op_ok rep) ops ->
  exists s, a_run rep a_empty ops = Some s /\
            Forall2 agree (snd (run crc rep empty_shard ops)) (a_obs rep a_empty ops) /\
            exists g, Inv crc rep (fst (run crc rep empty_shard ops)) g /\
                      a_ents s = aents g /\ a_last s = s_last_id (fst (run crc rep empty_shard ops)).
Proof. exact refines_all_histories. Qed.

(* "the cache re-reads exactly the seconds that were put and not erased, in write order, with identical bytes ...
   only a second whose write was torn may be missing": after EVERY such history (tail reads, restarts, torn puts
   and torn erases included), what the next start re-reads -- ReadNextTailSecond until id 0, GetBucket for every
   second -- is exactly the specification's list: (time, bytes) of every second put and not erased, in write
   order; by a_step that list contains a torn put's second iff all its bytes were written and lacks a torn
   erase's second iff the overwrite was complete. *)
Theorem C09_reread_exact_all_histories :
  forall crc rep, (forall d, 0 <= crc d < two32) -> forall ops, Forall (op_ok rep) ops ->
  exists s, a_run rep a_empty ops = Some s /\ reread crc rep (fst (run crc rep empty_shard ops)) = expected s.
Proof. exact reread_exact_all_histories. Qed.

(* the same clause, as a statement about the directory (what is on disk for the next start): after every such
   history the directory consists of files made of whole records plus possibly one torn tail, and the good
   records in file-name and offset order are exactly (time, bytes) of the specification's list — which for a
   torn put contains the torn second iff all its bytes were written, and for a torn erase lacks the erased
   second iff the overwrite was complete (a_step). *)
Theorem C09_directory_is_the_spec_all_histories :
  forall crc rep, (forall d, 0 <= crc d < two32) -> forall ops, Forall (op_ok rep) ops ->
  exists s g, a_run rep a_empty ops = Some s /\
    s_disk (fst (run crc rep empty_shard ops)) = map (fenc crc) g /\
    Forall (fun f => Forall (rec_ok rep) (gf_recs f) /\ torn_ok crc (gf_torn f)) g /\
    map (fun e => (a_time e, a_body e)) (a_ents s) =
    flat_map (fun f => map (fun r => (gr_time r, gr_body r)) (filter live (gf_recs f))) g.
Proof. exact directory_is_the_spec. Qed.

(* "Reported total ... sizes match the files on disk": after every such history totalFileSize is the sum of
   the lengths of the files in the directory *)
Theorem C09_total_matches_files_all_histories :
  forall crc rep, (forall d, 0 <= crc d < two32) -> forall ops, Forall (op_ok rep) ops ->
  let st := fst (run crc rep empty_shard ops) in fst (sizes st) = disk_bytes st.
Proof. exact total_matches_files_all_histories. Qed.

(* "a file whose seconds were all erased is deleted once the cache no longer writes to it": after every such
   history, every file in the directory that is neither the writing file, nor being read, nor waiting to be
   read is referenced by a known (live, not erased) second *)
Theorem C09_unreferenced_files_are_gone_all_histories :
  forall crc rep, (forall d, 0 <= crc d < two32) -> forall ops, Forall (op_ok rep) ops ->
  let st := fst (run crc rep empty_shard ops) in
  forall n d, In (n, d) (s_disk st) ->
  s_writing st <> Some n -> s_reading st <> Some n -> ~ In n (map fst (s_waiting st)) ->
  exists id b, find_known id (s_known st) = Some b /\ b_file b = n.
Proof. exact unreferenced_files_are_gone_all_histories. Qed.

(* "it never returns erased seconds", in the specification the cache refines *)
Theorem C09_spec_get_after_erase_unknown :
  forall s i t, a_get (a_erase s i) i t = GUnknown.
Proof. exact a_get_erased. Qed.

(* The whole statement — "After any sequence of put, get and erase operations and any restart, including a crash
   that tears the last write at any byte, the cache re-reads exactly the seconds that were put and not erased, in
   write order, with identical bytes; it never returns erased seconds ...; only a second whose write was torn
   may be missing.  Reported total and unsent sizes match the files on disk, and a file whose seconds were all
   erased is deleted once the cache no longer writes to it." — as refinement of the specification machine:
   every put/get/erase/tail answer equals the specification's, [sizes_files_ok] holds after every step, and
   what a start re-reads is exactly the specification's list.
   Kept next to the unbounded theorems: [follows] additionally checks the unsent size against the specification.
   PARTIAL: proved for every history of at most 5 operations over [sweep_alphabet] (15 operations: puts with
   and without rotation, gets, erases, tail, restart, puts torn in the header / after it / complete, erases torn
   after 2, 3(unspecified here) and 4 bytes), with the concrete crc32c — not for unbounded histories. *)
Theorem C09_refines_spec_bounded_partial :
  forall ops, (length ops <= 5)%nat -> Forall (fun o => In o sweep_alphabet) ops ->
    follows crc32c false empty_shard a_empty ops = true /\
    (forall s', a_run false a_empty ops = Some s' -> reread crc32c false (fst (run crc32c false empty_shard ops)) = expected s').
Proof. exact bounded_refinement_faithful. Qed.

(* the same for the repaired reader (dual model of F-C09), where an erase torn after 3 bytes is specified too:
   exactly the erased second is gone.  PARTIAL: histories of at most 4 operations over the same alphabet. *)
Theorem C09_refines_spec_repaired_bounded_partial :
  forall ops, (length ops <= 4)%nat -> Forall (fun o => In o sweep_alphabet) ops ->
    follows crc32c true empty_shard a_empty ops = true /\
    (forall s', a_run true a_empty ops = Some s' -> reread crc32c true (fst (run crc32c true empty_shard ops)) = expected s').
Proof. exact bounded_refinement_repaired. Qed.

(* "only a second whose write was torn may be missing" is FALSE for the code as it is (finding F-C09): three
   seconds in one file, the erase of the first torn after 3 of its 4 bytes; the restart re-reads neither the
   list with nor the list without the erased second — it loses the two untouched seconds as well. *)
Theorem C09_torn_erase_refuted :
  exists ops id k s,
    a_run false a_empty ops = Some s /\ 0 <= k <= 4 /\
    let st := fst (run crc32c false empty_shard ops) in
    let r := reread crc32c false (erase_torn st id k) in
    r <> expected s /\ r <> expected (a_erase s id).
Proof. exact torn_erase_refuted. Qed.

(* ---------- non-vacuity ---------- *)
Example C09_nonvacuous_record_format :
  parse_at false ([9;9] ++ enc_header magic_good 1700000000 (blen [236;7;185;89]) 77 ++ [236;7;185;89] ++ [1]) 27 (blen [9;9])
  = PGood 1700000000 4 77 26.
Proof. vm_compute. reflexivity. Qed.
Example C09_nonvacuous_torn_tail :
  parse_at false ([9;9] ++ firstn 23 (enc_header magic_good 5 (blen [1;2;3;4]) 77 ++ [1;2;3;4])) 25 2 = PClose.
Proof. vm_compute. reflexivity. Qed.
(* a history inside the bound with a rotation that removes a fully erased file, a restart and a tail read *)
Example C09_nonvacuous_bounded :
  let ops := [OPut 7 [1;2] false; OErase 1; OPut 8 [] true; ORestart; OTail] in
  Forall (fun o => In o sweep_alphabet) ops /\ (length ops <= 5)%nat /\
  (exists s, a_run false a_empty ops = Some s /\ expected s = [(8, GOk [])]) /\
  snd (run crc32c false empty_shard (ops ++ [ODisk])) = [RPut (Some 1); RUnit; RPut (Some 2); RUnit; RTail 8 1;
     RDisk [enc_header magic_good 8 0 0]].
Proof.
  cbv zeta. split; [repeat constructor; simpl; tauto|]. split; [simpl; auto|]. split; [eexists; split; vm_compute; reflexivity|].
  vm_compute. reflexivity.
Qed.
(* a history satisfying the guards of the unbounded theorems: rotation that removes a fully erased file, a put torn
   inside its body, an erase torn after 4 bytes, restarts *)
Definition C09_example_ops : list op :=
  [OPut 7 [1;2] false; OPut 9 [5] false; OErase 1; OPut 8 [] true; OPutTorn 3 [4;4;4] false 21; OPut 6 [6] false;
   OEraseTorn 1 4; OTail; OSizes].
Example C09_nonvacuous_all_histories :
  Forall (op_ok false) C09_example_ops /\
  (exists s, a_run false a_empty C09_example_ops = Some s /\
             map (fun e => (a_time e, a_body e)) (a_ents s) = [(9, [5]); (8, [])]) /\
  length (s_disk (fst (run crc32c false empty_shard C09_example_ops))) = 3%nat /\
  reread crc32c false (fst (run crc32c false empty_shard C09_example_ops)) = [(9, GOk [5]); (8, GOk [])].
Proof.
  split; [repeat constructor; simpl; unfold two32; try lia; intros; discriminate|].
  split; [eexists; split; vm_compute; reflexivity|split; vm_compute; reflexivity].
Qed.
Example C09_nonvacuous_corruption :
  exists st1 st3, put crc32c empty_shard 5 [1;2;3] false = (st1, Some 1) /\
    get crc32c (corrupt st1 0 21 9) 1 5 = (st3, GCrcErr) /\ snd (get crc32c st1 1 5) = GOk [1;2;3].
Proof. eexists; eexists. split; [vm_compute; reflexivity|]. split; vm_compute; reflexivity. Qed.
