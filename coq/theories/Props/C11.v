(* C11 — Tag values are normalized and raw tag values parsed exactly.
   This file holds only the property theorems (closed by [exact]) and non-vacuity examples.
   Vocabulary (TagValue/Spec.v): [bytes s] = every element is in 0..255; [is_utf8 s] = s is the UTF-8 encoding of a
   sequence of Unicode scalar values; [valid_value sp pr s] = s is UTF-8 of at most 128 bytes whose runes are the
   ASCII space or printable non-space runes, with no space at either end and no two consecutive spaces;
   [numeral_signed s v] = s is [+-]?[0-9]+ denoting v; [numeral_noplus s v] = s is -?[0-9]+ denoting v.
   Functions (TagValue/Model.v): force_bytes = ForceValidStringValueBytes, force_str = ForceValidStringValue,
   append_valid false = AppendValidStringValue (None = errBadEncoding), valid = ValidStringValue(Bytes),
   raw32 = ContainsRawTagValueBytes, raw64 = ContainsRawTagValue64Bytes;
   is_space / is_print = unicode.IsSpace / unicode.IsPrint of the Go runtime in use (Gen/TagValueUnicode.v). *)
From Coq Require Import ZArith List Bool.
From SH Require Import Common.Wrap Gen.TagValueUnicode TagValue.Model TagValue.Spec TagValue.Proofs TagValue.Concrete TagValue.RawProofs.
Import ListNotations.
Open Scope Z_scope.

(* "Forcing any byte string into a tag value yields a valid value (UTF-8, at most 128 bytes, trimmed, single
   ASCII spaces, printable)" *)
Theorem C11_force_valid :
  forall s, bytes s ->
  valid_value is_space is_print (force_bytes s) /\ valid_value is_space is_print (force_str s).
Proof. exact force_valid. Qed.

(* "... that equals the input when the input was already valid" *)
Theorem C11_force_id_on_valid :
  forall s, valid_value is_space is_print s -> force_bytes s = s /\ force_str s = s.
Proof. exact force_id_on_valid. Qed.

(* "... and forcing is idempotent" *)
Theorem C11_force_idempotent :
  forall s, bytes s ->
  force_bytes (force_bytes s) = force_bytes s /\ force_str (force_str s) = force_str s.
Proof. exact force_idempotent. Qed.

(* "strict normalization fails only on invalid UTF-8 ..." *)
Theorem C11_strict_fails_only_on_bad_utf8 :
  forall s, append_valid false s = None -> ~ is_utf8 s.
Proof. exact strict_fails_only_on_bad_utf8_c. Qed.

(* "... and otherwise agrees with forcing" *)
Theorem C11_strict_agrees_with_force :
  forall s o, append_valid false s = Some o -> force_bytes s = o /\ (bytes s -> force_str s = o).
Proof. exact strict_agrees_with_force_c. Qed.

(* both clauses together on well-formed UTF-8: strict normalization succeeds with the forced value *)
Theorem C11_strict_total_on_utf8 :
  forall s, is_utf8 s -> append_valid false s = Some (force_bytes s).
Proof. exact strict_total_on_utf8. Qed.

(* ValidStringValue decides exactly "valid value" (it is the shortcut ForceValidStringValue takes) *)
Theorem C11_valid_decides :
  forall s, bytes s -> (valid s = true <-> valid_value is_space is_print s).
Proof. exact valid_decides. Qed.

(* "Raw tags accept exactly the decimal integers in [-2^31, 2^32-1]" — grammar [+-]?[0-9]+, any number of leading zeros *)
Theorem C11_raw32_accepts_iff :
  forall s, snd (raw32 s) = true <-> exists v, numeral_signed s v /\ - two31 <= v <= two32 - 1.
Proof. exact raw32_accepts_iff. Qed.

(* "... and store their bit pattern so that it decodes back to the same number": the stored int32 read as signed
   gives back a negative number, read as unsigned gives back a non-negative one *)
Theorem C11_raw32_bits_roundtrip :
  forall s v, numeral_signed s v -> - two31 <= v <= two32 - 1 ->
  snd (raw32 s) = true /\ (v < 0 -> fst (raw32 s) = v) /\ (0 <= v -> u32 (fst (raw32 s)) = v).
Proof. exact raw32_bits_roundtrip. Qed.

(* "(64-bit raw tags: [-2^63, 2^64-1])" — grammar -?[0-9]+ : the code rejects an explicit plus sign here *)
Theorem C11_raw64_accepts_iff :
  forall s, snd (raw64 s) = true <-> exists v, numeral_noplus s v /\ - two63 <= v <= two64 - 1.
Proof. exact raw64_accepts_iff. Qed.

Theorem C11_raw64_bits_roundtrip :
  forall s v, numeral_noplus s v -> - two63 <= v <= two64 - 1 ->
  let '(lo, hi, ok) := raw64 s in
  ok = true /\ (v < 0 -> i64 (bits64 lo hi) = v) /\ (0 <= v -> bits64 lo hi = v).
Proof. exact raw64_bits_roundtrip. Qed.

(* the two grammars differ on the explicit plus sign (stated, not hidden: "+5" is a raw 32-bit tag, not a 64-bit one) *)
Theorem C11_plus_sign_difference :
  snd (raw32 [43; 53]) = true /\ snd (raw64 [43; 53]) = false.
Proof. exact plus_sign_difference. Qed.

(* ---- non-vacuity *)
(* "  a<TAB><LF>b<0xff> " is forced to "a b<U+FFFD>"; strict normalisation rejects it (0xff is not UTF-8) *)
Example C11_nonvacuous_force :
  bytes [32;32;97;9;10;98;255;32] /\
  force_bytes [32;32;97;9;10;98;255;32] = [97;32;98;239;191;189] /\
  append_valid false [32;32;97;9;10;98;255;32] = None /\
  append_valid false [32;32;97;9;10;98;32] = Some [97;32;98].
Proof. split; [repeat constructor; unfold byte; vm_compute; intuition discriminate|vm_compute; auto]. Qed.

(* a non-ASCII valid value: "a Ж中" *)
Example C11_nonvacuous_valid :
  valid_value is_space is_print [97;32;208;150;228;184;173] /\ is_utf8 [97;32;208;150;228;184;173].
Proof.
  split.
  - apply valid_decides; [repeat constructor; unfold byte; vm_compute; intuition discriminate|vm_compute; reflexivity].
  - exists [97;32;1046;20013]. split; [repeat constructor; unfold scalar; vm_compute; intuition discriminate|vm_compute; reflexivity].
Qed.

(* "4294967295" and "-1" are stored as the same bits and read back by sign; "-9223372036854775808" and
   "18446744073709551615" are the 64-bit extremes; "+007" denotes 7 *)
Example C11_nonvacuous_raw :
  numeral_signed [43;48;48;55] 7 /\
  raw32 [52;50;57;52;57;54;55;50;57;53] = (-1, true) /\ raw32 [45;49] = (-1, true) /\
  raw32 [52;50;57;52;57;54;55;50;57;54] = (0, false) /\
  raw64 [45;57;50;50;51;51;55;50;48;51;54;56;53;52;55;55;53;56;48;56] = (0, -2147483648, true) /\
  raw64 [49;56;52;52;54;55;52;52;48;55;51;55;48;57;53;53;49;54;49;53] = (-1, -1, true) /\
  numeral_noplus [45;48] 0.
Proof.
  split; [exists [48;48;55]; split; [split; [discriminate|repeat constructor; unfold is_digit; vm_compute; intuition discriminate]|right; left; split; reflexivity]|].
  split; [vm_compute; reflexivity|]. split; [vm_compute; reflexivity|]. split; [vm_compute; reflexivity|].
  split; [vm_compute; reflexivity|]. split; [vm_compute; reflexivity|].
  exists [48]. split; [split; [discriminate|repeat constructor; unfold is_digit; vm_compute; intuition discriminate]|right; split; reflexivity].
Qed.
