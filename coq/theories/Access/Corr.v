(* Correspondence cases for C30: what the real ParseVkuthData / parseAccessToken / CanViewMetric /
   canChangeMetricByName / CanEditMetric returned, replayed through the model.
   The ed25519 check is instantiated by an observation: the harness verifies the token's signature itself
   (crypto/ed25519 directly, not through the JWT library) under every configured key and records the
   indexes of the keys under which it verifies. *)
From Coq Require Import ZArith List Bool QArith String.
From SH Require Import Common.Corr Access.Model.
Import ListNotations.
Open Scope Z_scope.

(* the harness writes printable strings as literals *)
Definition st (s : String.string) : str := txt s.

Definition vtoken := token unit (list Z).
Definition vverify (k : Z) (_ : unit) (s : list Z) : bool := existsb (Z.eqb k) s.

Fixpoint list_eqb {A} (e : A -> A -> bool) (a b : list A) : bool :=
  match a, b with
  | [], [] => true
  | x :: a', y :: b' => e x y && list_eqb e a' b'
  | _, _ => false
  end.

Definition subset (a b : list str) : bool := forallb (fun x => mem x b) a.
Definition set_eqb (a b : list str) : bool := subset a b && subset b a.

Definition data_eqb (a b : access_data) : bool :=
  set_eqb (d_bits a) (d_bits b) && str_eqb (d_user a) (d_user b) && Bool.eqb (d_service a) (d_service b).

Definition outcome_eqb (a b : outcome) : bool :=
  match a, b with
  | OErr x, OErr y => x =? y
  | OPanic, OPanic => true
  | OOk x, OOk y => data_eqb x y
  | _, _ => false
  end.

Definition ai_eqb (a b : access_info) : bool :=
  str_eqb (ai_user a) (ai_user b) && Bool.eqb (ai_service a) (ai_service b) &&
  list_eqb str_eqb (ai_protected a) (ai_protected b) &&
  Bool.eqb (ai_admin a) (ai_admin b) && Bool.eqb (ai_developer a) (ai_developer b) &&
  Bool.eqb (ai_view_default a) (ai_view_default b) && Bool.eqb (ai_edit_default a) (ai_edit_default b) &&
  set_eqb (ai_view_prefix a) (ai_view_prefix b) && set_eqb (ai_edit_prefix a) (ai_edit_prefix b) &&
  set_eqb (ai_view_metric a) (ai_view_metric b) && set_eqb (ai_edit_metric a) (ai_edit_metric b).

Definition ai_result_eqb (a b : ai_result) : bool :=
  match a, b with
  | AErr x, AErr y => x =? y
  | APanic, APanic => true
  | AOk x, AOk y => ai_eqb x y
  | _, _ => false
  end.

Definition edit_result_eqb (a b : edit_result) : bool :=
  match a, b with
  | EdOk, EdOk | EdForbidden, EdForbidden | EdWeight, EdWeight | EdPresort, EdPresort
  | EdPresortOnly, EdPresortOnly | EdSkips, EdSkips | EdStrategy, EdStrategy | EdShard, EdShard | EdRaw, EdRaw => true
  | _, _ => false
  end.

Inductive case :=
(* one token: o_vk = JWTHelper.ParseVkuthData (None when the token text is empty: not called),
   o_ai = parseAccessToken with the same helper *)
| CTok (app : str) (keys : list (str * Z)) (now : Z) (t : option vtoken) (protected : list str) (local insecure : bool)
       (o_vk : option outcome) (o_ai : ai_result)
| CView (ai : access_info) (name : str) (o : bool)
| CEdit (ai : access_info) (old new : metric) (o_by_name : bool) (o : edit_result).

Definition ok (c : case) : bool :=
  match c with
  | CTok app keys now t protected local insecure o_vk o_ai =>
      match t, o_vk with
      | Some t', Some o => outcome_eqb (parse_vkuth vverify keys app now t') o
      | None, None => true
      | _, _ => false
      end &&
      ai_result_eqb (parse_access_token vverify keys app now t protected local insecure) o_ai
  | CView ai name o => Bool.eqb (can_view_name ai name) o
  | CEdit ai old new o_by_name o =>
      Bool.eqb (can_change_by_name ai old new) o_by_name && edit_result_eqb (can_edit ai old new) o
  end.

Definition mism := mismatches ok.
