(* C30 — from the token to the decision: what parseAccessToken + CanViewMetricName / canChangeMetricByName
   grant, stated over the bits the token carries. *)
From Coq Require Import String ZArith List Bool Lia QArith.
From SH Require Import Access.Model Access.Proofs Access.Policy.
Import ListNotations.
Open Scope Z_scope.

Lemma bit_means_nonempty : forall b e, bit_means b e -> b <> [].
Proof.
  intros b e H E. destruct H; try (vm_compute in E; discriminate);
    apply app_eq_nil in E; destruct E as [E _]; vm_compute in E; discriminate.
Qed.

Lemma bit_means_admin : forall b, bit_means b EAdmin <-> b = txt "admin".
Proof. intro b. split; intro H; [inversion H; reflexivity | subst; constructor]. Qed.

Lemma bit_means_view_default : forall b, bit_means b EViewDefault <-> b = txt "view_default".
Proof. intro b. split; intro H; [inversion H; reflexivity | subst; constructor]. Qed.

Lemma bit_means_edit_default : forall b, bit_means b EEditDefault <-> b = txt "edit_default".
Proof. intro b. split; intro H; [inversion H; reflexivity | subst; constructor]. Qed.

Lemma bit_means_view_metric : forall b n, bit_means b (EViewMetric n) <-> exists x, b = p_view_metric ++ x /\ n = extract_namespace x.
Proof. intros b n. split; [intro H; inversion H; eauto | intros [x [H1 H2]]; subst; constructor]. Qed.

Lemma bit_means_edit_metric : forall b n, bit_means b (EEditMetric n) <-> exists x, b = p_edit_metric ++ x /\ n = extract_namespace x.
Proof. intros b n. split; [intro H; inversion H; eauto | intros [x [H1 H2]]; subst; constructor]. Qed.

Lemma bit_means_view_prefix : forall b p, bit_means b (EViewPrefix p) <->
  (exists x, b = p_view_prefix ++ x /\ p = extract_namespace x) \/ (exists x, b = p_view_namespace ++ x /\ p = x ++ [colon]).
Proof.
  intros b p. split.
  - intro H; inversion H; eauto.
  - intros [[x [H1 H2]]|[x [H1 H2]]]; subst; constructor.
Qed.

Lemma bit_means_edit_prefix : forall b p, bit_means b (EEditPrefix p) <->
  (exists x, b = p_edit_prefix ++ x /\ p = extract_namespace x) \/ (exists x, b = p_edit_namespace ++ x /\ p = x ++ [colon]).
Proof.
  intros b p. split.
  - intro H; inversion H; eauto.
  - intros [[x [H1 H2]]|[x [H1 H2]]]; subst; constructor.
Qed.

Section EndToEnd.
  Context {K M S : Type}.
  Variable verify : K -> M -> S -> bool.
  Variable keys : list (str * K).
  Variable app : str.

  (* the token bit  <app>:<body> *)
  Definition tok_bit (body : str) : str := app ++ [colon] ++ body.

  Definition initial_ai (c : claims) (prot : list str) : access_info :=
    Build_access_info (c_user c) (c_service c) prot false false false false [] [] [] [].

  Theorem parse_access_token_ok_iff : forall now tok prot ai,
    parse_access_token verify keys app now tok prot false false = AOk ai <->
    exists t c, tok = Some t /\ token_valid verify keys now t c /\
      ai = parse_bits (initial_ai c prot) (granted_bits app (c_bits c)).
  Proof.
    intros now tok prot ai. unfold parse_access_token. cbn [orb]. split.
    - destruct tok as [t|]; [|discriminate].
      destruct (parse_vkuth verify keys app now t) as [m| |d] eqn:E; try discriminate.
      apply accepted_iff in E. destruct E as [c [Hv Hd]]. subst d. simpl.
      intro H. injection H as H. exists t, c. repeat split; auto.
    - intros [t [c [Et [Hv Ha]]]]. subst tok.
      assert (E : parse_vkuth verify keys app now t = OOk {| d_bits := granted_bits app (c_bits c); d_user := c_user c; d_service := c_service c |}).
      { apply accepted_iff. exists c. split; auto. }
      rewrite E. simpl. subst ai. reflexivity.
  Qed.

  (* local / insecure mode: no token is looked at *)
  Theorem insecure_mode_ignores_token : forall now tok prot local insecure,
    local || insecure = true ->
    parse_access_token verify keys app now tok prot local insecure =
    AOk (Build_access_info insecure_user false prot local local true true [] [] [] []).
  Proof. intros. unfold parse_access_token. rewrite H. reflexivity. Qed.

  (* everything an accepted token's accessInfo holds is carried by a bit  <app>:<body>  of the token, and
     every such bit is honoured *)
  Theorem token_grants : forall now t c prot ai e, e <> ENone ->
    parse_access_token verify keys app now (Some t) prot false false = AOk ai ->
    token_valid verify keys now t c ->
    (holds ai e <-> exists body, In (tok_bit body) (c_bits c) /\ bit_means body e).
  Proof.
    intros now t c prot ai e Hne H Hv.
    apply parse_access_token_ok_iff in H. destruct H as [t' [c' [Et [Hv' Ha]]]].
    injection Et as Et. subst t'.
    assert (c' = c).
    { destruct Hv as [k1 [y1 [m1 [s1 [E1 _]]]]]. destruct Hv' as [k2 [y2 [m2 [s2 [E2 _]]]]]. congruence. }
    subst c' ai. rewrite parse_bits_holds by assumption.
    split.
    - intros [H|[b [H1 H2]]].
      + destruct e; simpl in H; try discriminate; try contradiction.
      + apply granted_bits_spec in H1. destruct H1 as [_ H1]. exists b. split; auto.
    - intros [b [H1 H2]]. right. exists b. split; auto. apply granted_bits_spec. split; auto.
      eapply bit_means_nonempty; eauto.
  Qed.

  Theorem token_user : forall now t c prot ai,
    parse_access_token verify keys app now (Some t) prot false false = AOk ai ->
    token_valid verify keys now t c ->
    ai_user ai = c_user c /\ ai_service ai = c_service c /\ ai_protected ai = prot.
  Proof.
    intros now t c prot ai H Hv.
    apply parse_access_token_ok_iff in H. destruct H as [t' [c' [Et [Hv' Ha]]]].
    injection Et as Et. subst t'.
    assert (c' = c).
    { destruct Hv as [k1 [y1 [m1 [s1 [E1 _]]]]]. destruct Hv' as [k2 [y2 [m2 [s2 [E2 _]]]]]. congruence. }
    subst c' ai. destruct (parse_bits_fixed (granted_bits app (c_bits c)) (initial_ai c prot)) as [A [B C]].
    rewrite A, B, C. auto.
  Qed.

  (* the bits of a token that let its bearer see metric [name] *)
  Definition token_view_right (bits prot : list str) (name : str) : Prop :=
    (exists x, In (tok_bit (p_view_metric ++ x)) bits /\ name = extract_namespace x) \/
    (exists x, In (tok_bit (p_view_prefix ++ x)) bits /\ is_prefix (extract_namespace x) name) \/
    (exists x, In (tok_bit (p_view_namespace ++ x)) bits /\ is_prefix (x ++ [colon]) name) \/
    (In (tok_bit (txt "view_default")) bits /\ forall p, In p prot -> ~ is_prefix p name).

  Theorem token_view_iff : forall now t c prot ai name,
    parse_access_token verify keys app now (Some t) prot false false = AOk ai ->
    token_valid verify keys now t c ->
    (can_view_name ai name = true <->
     (remote_config_metric name = true -> In (tok_bit (txt "admin")) (c_bits c)) /\
     token_view_right (c_bits c) prot name).
  Proof.
    intros now t c prot ai name H Hv.
    assert (G := fun e Hne => token_grants now t c prot ai e Hne H Hv).
    destruct (token_user now t c prot ai H Hv) as [_ [_ HP]].
    rewrite view_iff.
    assert (GA : ai_admin ai = true <-> In (tok_bit (txt "admin")) (c_bits c)).
    { specialize (G EAdmin ltac:(discriminate)). simpl in G. rewrite G. split.
      - intros [b [H1 H2]]. apply bit_means_admin in H2. subst. assumption.
      - intro H1. exists (txt "admin"). split; auto. constructor. }
    assert (GV : view_right ai name <-> token_view_right (c_bits c) prot name).
    { unfold view_right, token_view_right, unprotected. rewrite HP.
      pose proof (G (EViewMetric name) ltac:(discriminate)) as G1. simpl in G1. rewrite G1.
      pose proof (G EViewDefault ltac:(discriminate)) as G3. simpl in G3. rewrite G3.
      split.
      - intros [[b [H1 H2]]|[[p [H1 H2]]|[[b [H1 H2]] H3]]].
        + apply bit_means_view_metric in H2. destruct H2 as [x [H2 H4]]. subst. left. eauto.
        + pose proof (G (EViewPrefix p) ltac:(discriminate)) as G2. simpl in G2. apply G2 in H1.
          destruct H1 as [b [H1 H3]]. apply bit_means_view_prefix in H3.
          destruct H3 as [[x [H3 H4]]|[x [H3 H4]]]; subst.
          * right. left. eauto.
          * right. right. left. eauto.
        + apply bit_means_view_default in H2. subst. right. right. right. auto.
      - intros [[x [H1 H2]]|[[x [H1 H2]]|[[x [H1 H2]]|[H1 H2]]]].
        + left. exists (p_view_metric ++ x). split; auto. subst. constructor.
        + right. left. exists (extract_namespace x). split; auto.
          pose proof (G (EViewPrefix (extract_namespace x)) ltac:(discriminate)) as G2. simpl in G2. apply G2.
          exists (p_view_prefix ++ x). split; auto. constructor.
        + right. left. exists (x ++ [colon]). split; auto.
          pose proof (G (EViewPrefix (x ++ [colon])) ltac:(discriminate)) as G2. simpl in G2. apply G2.
          exists (p_view_namespace ++ x). split; auto. constructor.
        + right. right. split; auto. exists (txt "view_default"). split; auto. constructor. }
    rewrite GA, GV. tauto.
  Qed.

  (* the bits of a token that give edit rights on [name], by kind *)
  Definition token_edit_metric (bits : list str) (name : str) : Prop :=
    exists x, In (tok_bit (p_edit_metric ++ x)) bits /\ name = extract_namespace x.
  Definition token_edit_prefix (bits : list str) (name : str) : Prop :=
    (exists x, In (tok_bit (p_edit_prefix ++ x)) bits /\ is_prefix (extract_namespace x) name) \/
    (exists x, In (tok_bit (p_edit_namespace ++ x)) bits /\ is_prefix (x ++ [colon]) name).
  Definition token_edit_default (bits prot : list str) (name : str) : Prop :=
    In (tok_bit (txt "edit_default")) bits /\ forall p, In p prot -> ~ is_prefix p name.

  Theorem token_edit_iff : forall now t c prot ai old new,
    parse_access_token verify keys app now (Some t) prot false false = AOk ai ->
    token_valid verify keys now t c ->
    ~ In (tok_bit (txt "admin")) (c_bits c) ->
    (can_change_by_name ai old new = true <->
     remote_config_metric (m_name old) = false /\ remote_config_metric (m_name new) = false /\
     ((token_edit_metric (c_bits c) (m_name old) /\ token_edit_metric (c_bits c) (m_name new)) \/
      (token_edit_prefix (c_bits c) (m_name old) /\ token_edit_prefix (c_bits c) (m_name new)) \/
      (token_edit_default (c_bits c) prot (m_name old) /\ token_edit_default (c_bits c) prot (m_name new)))).
  Proof.
    intros now t c prot ai old new H Hv Hna.
    assert (G := fun e Hne => token_grants now t c prot ai e Hne H Hv).
    destruct (token_user now t c prot ai H Hv) as [_ [_ HP]].
    assert (A : ai_admin ai = false).
    { destruct (ai_admin ai) eqn:E; auto. exfalso. apply Hna.
      specialize (G EAdmin ltac:(discriminate)). simpl in G. apply G in E.
      destruct E as [b [H1 H2]]. apply bit_means_admin in H2. subst. assumption. }
    rewrite edit_iff by assumption.
    assert (GM : forall name, edit_right_metric ai name <-> token_edit_metric (c_bits c) name).
    { intro name. unfold edit_right_metric, token_edit_metric.
      pose proof (G (EEditMetric name) ltac:(discriminate)) as G1. simpl in G1. rewrite G1. split.
      - intros [b [H1 H2]]. apply bit_means_edit_metric in H2. destruct H2 as [x [H2 H3]]. subst. eauto.
      - intros [x [H1 H2]]. exists (p_edit_metric ++ x). split; auto. subst. constructor. }
    assert (GP : forall name, edit_right_prefix ai name <-> token_edit_prefix (c_bits c) name).
    { intro name. unfold edit_right_prefix, token_edit_prefix. split.
      - intros [p [H1 H2]].
        pose proof (G (EEditPrefix p) ltac:(discriminate)) as G2. simpl in G2. apply G2 in H1.
        destruct H1 as [b [H1 H3]]. apply bit_means_edit_prefix in H3.
        destruct H3 as [[x [H3 H4]]|[x [H3 H4]]]; subst; [left|right]; eauto.
      - intros [[x [H1 H2]]|[x [H1 H2]]].
        + exists (extract_namespace x). split; auto.
          pose proof (G (EEditPrefix (extract_namespace x)) ltac:(discriminate)) as G2. simpl in G2. apply G2.
          exists (p_edit_prefix ++ x). split; auto. constructor.
        + exists (x ++ [colon]). split; auto.
          pose proof (G (EEditPrefix (x ++ [colon])) ltac:(discriminate)) as G2. simpl in G2. apply G2.
          exists (p_edit_namespace ++ x). split; auto. constructor. }
    assert (GD : forall name, edit_right_default ai name <-> token_edit_default (c_bits c) prot name).
    { intro name. unfold edit_right_default, token_edit_default, unprotected. rewrite HP.
      pose proof (G EEditDefault ltac:(discriminate)) as G3. simpl in G3. rewrite G3. split.
      - intros [[b [H1 H2]] H3]. apply bit_means_edit_default in H2. subst. auto.
      - intros [H1 H2]. split; auto. exists (txt "edit_default"). split; auto. constructor. }
    rewrite !GM, !GP, !GD. tauto.
  Qed.
End EndToEnd.
