(* C30 — proofs about parseAccessToken's bit grammar and the view/edit policy. *)
From Coq Require Import String ZArith List Bool Lia QArith Permutation.
From SH Require Import Access.Model Access.Proofs.
Import ListNotations.
Open Scope Z_scope.

(* ---------------------------------------------------------------------------------------- *)
(* the bit grammar                                                                           *)

(* what one bit (application prefix already removed) stands for, written as a relation *)
Inductive bit_means : str -> effect -> Prop :=
| BMAdmin : bit_means (txt "admin") EAdmin
| BMDeveloper : bit_means (txt "developer") EDeveloper
| BMViewDefault : bit_means (txt "view_default") EViewDefault
| BMEditDefault : bit_means (txt "edit_default") EEditDefault
| BMViewPrefix : forall x, bit_means (p_view_prefix ++ x) (EViewPrefix (extract_namespace x))
| BMEditPrefix : forall x, bit_means (p_edit_prefix ++ x) (EEditPrefix (extract_namespace x))
| BMViewMetric : forall x, bit_means (p_view_metric ++ x) (EViewMetric (extract_namespace x))
| BMEditMetric : forall x, bit_means (p_edit_metric ++ x) (EEditMetric (extract_namespace x))
| BMViewNamespace : forall x, bit_means (p_view_namespace ++ x) (EViewPrefix (x ++ [colon]))
| BMEditNamespace : forall x, bit_means (p_edit_namespace ++ x) (EEditPrefix (x ++ [colon])).

Definition literal_prefixes : list str :=
  [p_view_prefix; p_edit_prefix; p_view_metric; p_edit_metric; p_view_namespace; p_edit_namespace].
Definition literal_names : list str :=
  [txt "admin"; txt "developer"; txt "view_default"; txt "edit_default"].

(* no literal bit name starts with a literal prefix, and the literal prefixes are pairwise incomparable *)
Lemma literals_separate :
  forallb (fun n => forallb (fun p => negb (has_prefix p n)) literal_prefixes) literal_names = true /\
  forallb (fun p => forallb (fun q => str_eqb p q || negb (has_prefix p q || has_prefix q p)) literal_prefixes) literal_prefixes = true.
Proof. vm_compute. split; reflexivity. Qed.

Lemma prefix_not_name : forall p n x, In p literal_prefixes -> In n literal_names -> p ++ x <> n.
Proof.
  intros p n x Hp Hn E.
  destruct literals_separate as [H _].
  rewrite forallb_forall in H. specialize (H n Hn). rewrite forallb_forall in H. specialize (H p Hp).
  rewrite <- E in H. rewrite has_prefix_app in H. discriminate.
Qed.

Lemma prefixes_disjoint : forall p q x y, In p literal_prefixes -> In q literal_prefixes -> p ++ x = q ++ y -> p = q.
Proof.
  intros p q x y Hp Hq E.
  destruct literals_separate as [_ H].
  rewrite forallb_forall in H. specialize (H p Hp). rewrite forallb_forall in H. specialize (H q Hq).
  apply orb_true_iff in H. destruct H as [H|H].
  - apply str_eqb_eq in H. assumption.
  - exfalso. apply negb_true_iff in H.
    assert (A : has_prefix p (p ++ x) = true) by apply has_prefix_app.
    assert (B : has_prefix q (p ++ x) = true) by (rewrite E; apply has_prefix_app).
    destruct (has_prefix_both _ _ _ A B) as [C|C]; rewrite C in H; simpl in H; try discriminate.
    rewrite orb_true_r in H. discriminate.
Qed.

Ltac in_list := simpl; tauto.

Lemma has_prefix_false_app : forall p q x, In p literal_prefixes -> In q literal_prefixes -> p <> q ->
  has_prefix p (q ++ x) = false.
Proof.
  intros p q x Hp Hq Hne. destruct (has_prefix p (q ++ x)) eqn:E; auto.
  apply has_prefix_spec in E. destruct E as [r E]. symmetry in E. apply prefixes_disjoint in E; auto. contradiction.
Qed.

Lemma name_eqb_false_app : forall p n x, In p literal_prefixes -> In n literal_names ->
  str_eqb (p ++ x) n = false.
Proof. intros. apply str_eqb_neq. apply prefix_not_name; auto. Qed.

Lemma literal_prefixes_distinct :
  p_view_prefix <> p_edit_prefix /\ p_view_prefix <> p_view_metric /\ p_view_prefix <> p_edit_metric /\
  p_view_prefix <> p_view_namespace /\ p_view_prefix <> p_edit_namespace /\
  p_edit_prefix <> p_view_metric /\ p_edit_prefix <> p_edit_metric /\ p_edit_prefix <> p_view_namespace /\
  p_edit_prefix <> p_edit_namespace /\ p_view_metric <> p_edit_metric /\ p_view_metric <> p_view_namespace /\
  p_view_metric <> p_edit_namespace /\ p_edit_metric <> p_view_namespace /\ p_edit_metric <> p_edit_namespace /\
  p_view_namespace <> p_edit_namespace.
Proof. repeat split; intro H; vm_compute in H; discriminate. Qed.

Lemma literal_names_distinct :
  str_eqb (txt "developer") (txt "admin") = false /\
  str_eqb (txt "view_default") (txt "admin") = false /\ str_eqb (txt "view_default") (txt "developer") = false /\
  str_eqb (txt "edit_default") (txt "admin") = false /\ str_eqb (txt "edit_default") (txt "developer") = false /\
  str_eqb (txt "edit_default") (txt "view_default") = false.
Proof. vm_compute. repeat split. Qed.

(* the switch of parseAccessToken decides exactly the relation [bit_means] *)
Lemma bit_effect_sound : forall b e, bit_effect b = e -> e <> ENone -> bit_means b e.
Proof.
  intros b e H Hne. unfold bit_effect in H.
  destruct (str_eqb b (txt "admin")) eqn:E1. { apply str_eqb_eq in E1. subst. constructor. }
  destruct (str_eqb b (txt "developer")) eqn:E2. { apply str_eqb_eq in E2. subst. constructor. }
  destruct (str_eqb b (txt "view_default")) eqn:E3. { apply str_eqb_eq in E3. subst. constructor. }
  destruct (str_eqb b (txt "edit_default")) eqn:E4. { apply str_eqb_eq in E4. subst. constructor. }
  destruct (has_prefix p_view_prefix b) eqn:P1.
  { apply has_prefix_spec in P1. destruct P1 as [x P]. subst. rewrite skipn_app_len. constructor. }
  destruct (has_prefix p_edit_prefix b) eqn:P2.
  { apply has_prefix_spec in P2. destruct P2 as [x P]. subst. rewrite skipn_app_len. constructor. }
  destruct (has_prefix p_view_metric b) eqn:P3.
  { apply has_prefix_spec in P3. destruct P3 as [x P]. subst. rewrite skipn_app_len. constructor. }
  destruct (has_prefix p_edit_metric b) eqn:P4.
  { apply has_prefix_spec in P4. destruct P4 as [x P]. subst. rewrite skipn_app_len. constructor. }
  destruct (has_prefix p_view_namespace b) eqn:P5.
  { apply has_prefix_spec in P5. destruct P5 as [x P]. subst. rewrite skipn_app_len. constructor. }
  destruct (has_prefix p_edit_namespace b) eqn:P6.
  { apply has_prefix_spec in P6. destruct P6 as [x P]. subst. rewrite skipn_app_len. constructor. }
  subst. contradiction.
Qed.

Lemma bit_effect_complete : forall b e, bit_means b e -> bit_effect b = e.
Proof.
  destruct literal_prefixes_distinct as [D1 [D2 [D3 [D4 [D5 [D6 [D7 [D8 [D9 [D10 [D11 [D12 [D13 [D14 D15]]]]]]]]]]]]]].
  destruct literal_names_distinct as [N1 [N2 [N3 [N4 [N5 N6]]]]].
  intros b e H. destruct H; unfold bit_effect.
  - rewrite str_eqb_refl. reflexivity.
  - rewrite N1, str_eqb_refl. reflexivity.
  - rewrite N2, N3, str_eqb_refl. reflexivity.
  - rewrite N4, N5, N6, str_eqb_refl. reflexivity.
  - rewrite !name_eqb_false_app by in_list. rewrite has_prefix_app, skipn_app_len. reflexivity.
  - rewrite !name_eqb_false_app by in_list.
    rewrite (has_prefix_false_app p_view_prefix p_edit_prefix) by (auto; in_list).
    rewrite has_prefix_app, skipn_app_len. reflexivity.
  - rewrite !name_eqb_false_app by in_list.
    rewrite (has_prefix_false_app p_view_prefix p_view_metric) by (auto; in_list).
    rewrite (has_prefix_false_app p_edit_prefix p_view_metric) by (auto; in_list).
    rewrite has_prefix_app, skipn_app_len. reflexivity.
  - rewrite !name_eqb_false_app by in_list.
    rewrite (has_prefix_false_app p_view_prefix p_edit_metric) by (auto; in_list).
    rewrite (has_prefix_false_app p_edit_prefix p_edit_metric) by (auto; in_list).
    rewrite (has_prefix_false_app p_view_metric p_edit_metric) by (auto; in_list).
    rewrite has_prefix_app, skipn_app_len. reflexivity.
  - rewrite !name_eqb_false_app by in_list.
    rewrite (has_prefix_false_app p_view_prefix p_view_namespace) by (auto; in_list).
    rewrite (has_prefix_false_app p_edit_prefix p_view_namespace) by (auto; in_list).
    rewrite (has_prefix_false_app p_view_metric p_view_namespace) by (auto; in_list).
    rewrite (has_prefix_false_app p_edit_metric p_view_namespace) by (auto; in_list).
    rewrite has_prefix_app, skipn_app_len. reflexivity.
  - rewrite !name_eqb_false_app by in_list.
    rewrite (has_prefix_false_app p_view_prefix p_edit_namespace) by (auto; in_list).
    rewrite (has_prefix_false_app p_edit_prefix p_edit_namespace) by (auto; in_list).
    rewrite (has_prefix_false_app p_view_metric p_edit_namespace) by (auto; in_list).
    rewrite (has_prefix_false_app p_edit_metric p_edit_namespace) by (auto; in_list).
    rewrite (has_prefix_false_app p_view_namespace p_edit_namespace) by (auto; in_list).
    rewrite has_prefix_app, skipn_app_len. reflexivity.
Qed.

Theorem bit_effect_iff : forall b e, e <> ENone -> (bit_effect b = e <-> bit_means b e).
Proof. intros b e Hne. split; [intro H; apply bit_effect_sound; auto | apply bit_effect_complete]. Qed.

(* ---------------------------------------------------------------------------------------- *)
(* the loop over the granted bits                                                            *)

(* what an accessInfo holds, as a predicate over effects *)
Definition holds (ai : access_info) (e : effect) : Prop :=
  match e with
  | EAdmin => ai_admin ai = true
  | EDeveloper => ai_developer ai = true
  | EViewDefault => ai_view_default ai = true
  | EEditDefault => ai_edit_default ai = true
  | EViewPrefix p => In p (ai_view_prefix ai)
  | EEditPrefix p => In p (ai_edit_prefix ai)
  | EViewMetric p => In p (ai_view_metric ai)
  | EEditMetric p => In p (ai_edit_metric ai)
  | ENone => False
  end.

Lemma apply_effect_holds : forall ai e' e, e <> ENone ->
  (holds (apply_effect ai e') e <-> holds ai e \/ e' = e).
Proof.
  intros [u s pp a d vd ed vp ep vm em] e' e Hne.
  destruct e'; destruct e; simpl; try congruence; (split;
   [ intro H; first [ left; assumption | right; reflexivity | (destruct H as [H|H]; [right; congruence | left; assumption]) ]
   | intros [H|H]; first [ assumption | reflexivity | discriminate | (injection H as H; subst; left; reflexivity) | (right; assumption) ] ]).
Qed.

Lemma apply_effect_fixed : forall ai e,
  ai_user (apply_effect ai e) = ai_user ai /\ ai_service (apply_effect ai e) = ai_service ai /\
  ai_protected (apply_effect ai e) = ai_protected ai.
Proof. intros [u s pp a d vd ed vp ep vm em] e. destruct e; simpl; auto. Qed.

Lemma parse_bits_holds : forall bits ai0 e, e <> ENone ->
  (holds (parse_bits ai0 bits) e <-> holds ai0 e \/ exists b, In b bits /\ bit_means b e).
Proof.
  unfold parse_bits. induction bits as [|b bits IH]; intros ai0 e Hne; simpl.
  - split; auto. intros [H|[b [[] _]]]. assumption.
  - rewrite IH by assumption. unfold apply_bit. rewrite apply_effect_holds by assumption. split.
    + intros [[H|H]|[b' [H1 H2]]]; auto.
      * right. exists b. split; auto. apply bit_effect_sound; auto.
      * right. exists b'. split; auto.
    + intros [H|[b' [[H1|H1] H2]]]; auto.
      * subst b'. left. right. apply bit_effect_complete. assumption.
      * right. exists b'. split; auto.
Qed.

Lemma parse_bits_fixed : forall bits ai0,
  ai_user (parse_bits ai0 bits) = ai_user ai0 /\ ai_service (parse_bits ai0 bits) = ai_service ai0 /\
  ai_protected (parse_bits ai0 bits) = ai_protected ai0.
Proof.
  unfold parse_bits. induction bits as [|b bits IH]; intros ai0; simpl; auto.
  destruct (IH (apply_bit ai0 b)) as [A [B C]]. unfold apply_bit in *.
  destruct (apply_effect_fixed ai0 (bit_effect b)) as [A' [B' C']]. rewrite A, B, C. auto.
Qed.

(* Go ranges over a map in an unspecified order: the resulting accessInfo does not depend on it *)
Theorem parse_bits_order_irrelevant : forall ai0 bits bits' e, e <> ENone ->
  (forall b, In b bits <-> In b bits') ->
  (holds (parse_bits ai0 bits) e <-> holds (parse_bits ai0 bits') e).
Proof.
  intros ai0 bits bits' e Hne Hs. rewrite !parse_bits_holds by assumption.
  split; intros [H|[b [H1 H2]]]; auto; right; exists b; split; auto; apply Hs; auto.
Qed.

(* ---------------------------------------------------------------------------------------- *)
(* view                                                                                      *)

Definition unprotected (ai : access_info) (name : str) : Prop :=
  forall p, In p (ai_protected ai) -> ~ is_prefix p name.

(* "a matching metric, prefix or namespace bit or the default bit for unprotected names" *)
Definition view_right (ai : access_info) (name : str) : Prop :=
  In name (ai_view_metric ai) \/
  (exists p, In p (ai_view_prefix ai) /\ is_prefix p name) \/
  (ai_view_default ai = true /\ unprotected ai name).

Definition edit_right_metric (ai : access_info) (name : str) : Prop := In name (ai_edit_metric ai).
Definition edit_right_prefix (ai : access_info) (name : str) : Prop := exists p, In p (ai_edit_prefix ai) /\ is_prefix p name.
Definition edit_right_default (ai : access_info) (name : str) : Prop := ai_edit_default ai = true /\ unprotected ai name.
Definition edit_right (ai : access_info) (name : str) : Prop :=
  edit_right_metric ai name \/ edit_right_prefix ai name \/ edit_right_default ai name.

Lemma unprotected_spec : forall ai name, protected_metric ai name = false <-> unprotected ai name.
Proof.
  intros ai name. unfold unprotected. split.
  - intros H p Hp Hpre. assert (protected_metric ai name = true) by (apply protected_spec; eauto). congruence.
  - intro H. destruct (protected_metric ai name) eqn:E; auto.
    apply protected_spec in E. destruct E as [p [H1 H2]]. exfalso. eapply H; eauto.
Qed.

Lemma view_rights_spec : forall ai name,
  mem name (ai_view_metric ai) || has_prefix_access (ai_view_prefix ai) name ||
    (ai_view_default ai && negb (protected_metric ai name)) = true <-> view_right ai name.
Proof.
  intros. unfold view_right.
  rewrite !orb_true_iff, andb_true_iff, negb_true_iff, mem_In, prefix_access_spec, unprotected_spec. tauto.
Qed.

Theorem view_iff : forall ai name,
  can_view_name ai name = true <->
  (remote_config_metric name = true -> ai_admin ai = true) /\ view_right ai name.
Proof.
  intros ai name. unfold can_view_name.
  destruct (remote_config_metric name) eqn:R; destruct (ai_admin ai) eqn:A; cbn [andb negb].
  - rewrite view_rights_spec. tauto.
  - split; [discriminate|]. intros [H _]. specialize (H eq_refl). discriminate.
  - rewrite view_rights_spec. split; [intro H; split; [discriminate|assumption] | tauto].
  - rewrite view_rights_spec. split; [intro H; split; [discriminate|assumption] | tauto].
Qed.

Theorem remote_config_view_admin_only : forall ai name,
  ai_admin ai = false -> remote_config_metric name = true -> can_view_name ai name = false.
Proof. intros ai name A R. unfold can_view_name. rewrite A, R. reflexivity. Qed.

(* ---------------------------------------------------------------------------------------- *)
(* edit                                                                                      *)

Theorem edit_iff : forall ai old new, ai_admin ai = false ->
  (can_change_by_name ai old new = true <->
   remote_config_metric (m_name old) = false /\ remote_config_metric (m_name new) = false /\
   ((edit_right_metric ai (m_name old) /\ edit_right_metric ai (m_name new)) \/
    (edit_right_prefix ai (m_name old) /\ edit_right_prefix ai (m_name new)) \/
    (edit_right_default ai (m_name old) /\ edit_right_default ai (m_name new)))).
Proof.
  intros ai old new A. unfold can_change_by_name. rewrite A.
  unfold edit_right_metric, edit_right_prefix, edit_right_default.
  destruct (remote_config_metric (m_name old)) eqn:R1; cbn [orb].
  { split; [discriminate|]. intros [H _]. discriminate. }
  destruct (remote_config_metric (m_name new)) eqn:R2.
  { split; [discriminate|]. intros [_ [H _]]. discriminate. }
  rewrite !orb_true_iff, !andb_true_iff, !negb_true_iff, !mem_In, !prefix_access_spec, !unprotected_spec.
  tauto.
Qed.

Theorem admin_can_change : forall ai old new, ai_admin ai = true ->
  can_change_by_name ai old new = true /\ can_edit ai old new = EdOk.
Proof.
  intros ai old new A. unfold can_edit, can_change_by_name. rewrite A. split; reflexivity.
Qed.

(* "needs edit rights on both old and new name to rename" *)
Theorem rename_needs_both : forall ai old new, ai_admin ai = false ->
  can_change_by_name ai old new = true ->
  edit_right ai (m_name old) /\ edit_right ai (m_name new) /\
  can_change_by_name ai old old = true /\ can_change_by_name ai new new = true.
Proof.
  intros ai old new A H.
  assert (H' := H). apply edit_iff in H'; auto. destruct H' as [R1 [R2 H']].
  unfold edit_right.
  split; [tauto|]. split; [tauto|].
  split; apply edit_iff; auto; tauto.
Qed.

Theorem remote_config_edit_admin_only : forall ai old new, ai_admin ai = false ->
  remote_config_metric (m_name old) = true \/ remote_config_metric (m_name new) = true ->
  can_change_by_name ai old new = false /\ can_edit ai old new = EdForbidden.
Proof.
  intros ai old new A R.
  assert (H : can_change_by_name ai old new = false).
  { unfold can_change_by_name. rewrite A.
    destruct R as [R|R]; rewrite R; [reflexivity | rewrite orb_true_r; reflexivity]. }
  split; auto. unfold can_edit. rewrite H. reflexivity.
Qed.

(* raw-ness of tag i; tags beyond the end are not raw *)
Definition raw_flag (kinds : list str) (i : nat) : bool := negb (is_nil (nth i kinds [])).

Lemma all_not_raw_spec : forall l, all_not_raw l = true <-> forall i, raw_flag l i = false.
Proof.
  unfold raw_flag. induction l as [|x l IH]; simpl.
  - split; auto. intros _ [|i]; reflexivity.
  - rewrite andb_true_iff, IH. split.
    + intros [H1 H2] [|i]; [rewrite H1; reflexivity | apply H2].
    + intro H. split.
      * specialize (H 0%nat). simpl in H. apply negb_false_iff in H. assumption.
      * intro i. apply (H (S i)).
Qed.

Lemma raw_flag_nil : forall i, raw_flag [] i = false.
Proof. intros [|i]; reflexivity. Qed.

Lemma raw_same_spec : forall o n, raw_same o n = true <-> forall i, raw_flag o i = raw_flag n i.
Proof.
  induction o as [|x o IH]; intros n.
  - simpl. rewrite all_not_raw_spec. split.
    + intros H i. rewrite raw_flag_nil, H. reflexivity.
    + intros H i. rewrite <- H. apply raw_flag_nil.
  - destruct n as [|y n]; simpl.
    + rewrite andb_true_iff, IH. split.
      * intros [H1 H2] [|i].
        -- unfold raw_flag. simpl. rewrite H1. reflexivity.
        -- specialize (H2 i). rewrite raw_flag_nil in *. exact H2.
      * intro H. split.
        -- specialize (H 0%nat). unfold raw_flag in H. simpl in H. apply negb_false_iff in H. assumption.
        -- intro i. specialize (H (S i)). rewrite raw_flag_nil in *. exact H.
    + rewrite andb_true_iff, IH, eqb_true_iff. split.
      * intros [H1 H2] [|i]; [exact H1 | apply H2].
      * intro H. split; [exact (H 0%nat) | intro i; exact (H (S i))].
Qed.

(* the fields a non-administrator must leave alone *)
Definition protected_fields_same (old new : metric) : Prop :=
  (m_weight old == m_weight new \/ (m_weight old == 0 /\ m_weight new == 1))%Q /\
  m_prekey_from old = m_prekey_from new /\
  m_prekey_only old = m_prekey_only new /\
  m_skip_max_host old = m_skip_max_host new /\
  m_skip_min_host old = m_skip_min_host new /\
  m_skip_sum_square old = m_skip_sum_square new /\
  m_strategy old = m_strategy new /\
  m_shard_num old = m_shard_num new /\
  m_fixed_key old = m_fixed_key new /\
  m_fixed_key2 old = m_fixed_key2 new /\
  m_fixed_key2_ts old = m_fixed_key2_ts new /\
  (forall i, raw_flag (m_raw_kinds old) i = raw_flag (m_raw_kinds new) i).

Lemma negb_if_false : forall (b : bool) (A : Type) (x y : A), (if negb b then x else y) = if b then y else x.
Proof. destruct b; reflexivity. Qed.

Theorem can_edit_ok_iff : forall ai old new, ai_admin ai = false ->
  (can_edit ai old new = EdOk <-> can_change_by_name ai old new = true /\ protected_fields_same old new).
Proof.
  intros ai old new A. unfold can_edit, protected_fields_same. rewrite A.
  destruct (can_change_by_name ai old new); cbn [negb]; [|split; [discriminate | intros [H _]; discriminate]].
  destruct (Qeq_bool (m_weight old) (m_weight new)) eqn:W.
  2:{ destruct (Qeq_bool (m_weight old) 0 && Qeq_bool (m_weight new) 1) eqn:W2; cbn [negb andb].
      2:{ split; [discriminate|]. intros [_ [[H|[H1 H2]] _]].
          - apply Qeq_bool_iff in H. congruence.
          - apply Qeq_bool_iff in H1. apply Qeq_bool_iff in H2. rewrite H1, H2 in W2. discriminate. }
      apply andb_true_iff in W2. destruct W2 as [W0 W1].
      apply Qeq_bool_iff in W0. apply Qeq_bool_iff in W1.
      assert (WW : (m_weight old == m_weight new \/ m_weight old == 0 /\ m_weight new == 1)%Q) by auto.
      revert WW. generalize (m_weight old == m_weight new \/ m_weight old == 0 /\ m_weight new == 1)%Q. intros P WW.
      clear W W0 W1.
      rewrite !negb_if_false.
      destruct (m_prekey_from old =? m_prekey_from new) eqn:E1; [apply Z.eqb_eq in E1 | apply Z.eqb_neq in E1; split; [discriminate | tauto]].
      destruct (eqb (m_prekey_only old) (m_prekey_only new)) eqn:E2; [apply eqb_prop in E2 | apply eqb_false_iff in E2; split; [discriminate | tauto]].
      destruct (eqb (m_skip_max_host old) (m_skip_max_host new)) eqn:E3; [apply eqb_prop in E3 | apply eqb_false_iff in E3; cbn [andb]; split; [discriminate | tauto]].
      destruct (eqb (m_skip_min_host old) (m_skip_min_host new)) eqn:E4; [apply eqb_prop in E4 | apply eqb_false_iff in E4; cbn [andb]; split; [discriminate | tauto]].
      destruct (eqb (m_skip_sum_square old) (m_skip_sum_square new)) eqn:E5; [apply eqb_prop in E5 | apply eqb_false_iff in E5; cbn [andb]; split; [discriminate | tauto]].
      cbn [andb].
      destruct (str_eqb (m_strategy old) (m_strategy new)) eqn:E6; [apply str_eqb_eq in E6 | apply str_eqb_neq in E6; split; [discriminate | tauto]].
      destruct (m_shard_num old =? m_shard_num new) eqn:E7; [apply Z.eqb_eq in E7 | apply Z.eqb_neq in E7; split; [discriminate | tauto]].
      destruct (m_fixed_key old =? m_fixed_key new) eqn:E8; [apply Z.eqb_eq in E8 | apply Z.eqb_neq in E8; split; [discriminate | tauto]].
      destruct (m_fixed_key2 old =? m_fixed_key2 new) eqn:E9; [apply Z.eqb_eq in E9 | apply Z.eqb_neq in E9; split; [discriminate | tauto]].
      destruct (m_fixed_key2_ts old =? m_fixed_key2_ts new) eqn:E10; [apply Z.eqb_eq in E10 | apply Z.eqb_neq in E10; split; [discriminate | tauto]].
      destruct (raw_same (m_raw_kinds old) (m_raw_kinds new)) eqn:E11.
      - pose proof (proj1 (raw_same_spec _ _) E11). tauto.
      - split; [discriminate|]. intros [_ H]. assert (raw_same (m_raw_kinds old) (m_raw_kinds new) = true) by (apply raw_same_spec; tauto). congruence. }
  apply Qeq_bool_iff in W.
  assert (WW : (m_weight old == m_weight new \/ m_weight old == 0 /\ m_weight new == 1)%Q) by auto.
  revert WW. generalize (m_weight old == m_weight new \/ m_weight old == 0 /\ m_weight new == 1)%Q. intros P WW.
  clear W. cbn [negb andb].
  rewrite !negb_if_false.
  destruct (m_prekey_from old =? m_prekey_from new) eqn:E1; [apply Z.eqb_eq in E1 | apply Z.eqb_neq in E1; split; [discriminate | tauto]].
  destruct (eqb (m_prekey_only old) (m_prekey_only new)) eqn:E2; [apply eqb_prop in E2 | apply eqb_false_iff in E2; split; [discriminate | tauto]].
  destruct (eqb (m_skip_max_host old) (m_skip_max_host new)) eqn:E3; [apply eqb_prop in E3 | apply eqb_false_iff in E3; cbn [andb]; split; [discriminate | tauto]].
  destruct (eqb (m_skip_min_host old) (m_skip_min_host new)) eqn:E4; [apply eqb_prop in E4 | apply eqb_false_iff in E4; cbn [andb]; split; [discriminate | tauto]].
  destruct (eqb (m_skip_sum_square old) (m_skip_sum_square new)) eqn:E5; [apply eqb_prop in E5 | apply eqb_false_iff in E5; cbn [andb]; split; [discriminate | tauto]].
  cbn [andb].
  destruct (str_eqb (m_strategy old) (m_strategy new)) eqn:E6; [apply str_eqb_eq in E6 | apply str_eqb_neq in E6; split; [discriminate | tauto]].
  destruct (m_shard_num old =? m_shard_num new) eqn:E7; [apply Z.eqb_eq in E7 | apply Z.eqb_neq in E7; split; [discriminate | tauto]].
  destruct (m_fixed_key old =? m_fixed_key new) eqn:E8; [apply Z.eqb_eq in E8 | apply Z.eqb_neq in E8; split; [discriminate | tauto]].
  destruct (m_fixed_key2 old =? m_fixed_key2 new) eqn:E9; [apply Z.eqb_eq in E9 | apply Z.eqb_neq in E9; split; [discriminate | tauto]].
  destruct (m_fixed_key2_ts old =? m_fixed_key2_ts new) eqn:E10; [apply Z.eqb_eq in E10 | apply Z.eqb_neq in E10; split; [discriminate | tauto]].
  destruct (raw_same (m_raw_kinds old) (m_raw_kinds new)) eqn:E11.
  - pose proof (proj1 (raw_same_spec _ _) E11). tauto.
  - split; [discriminate|]. intros [_ H]. assert (raw_same (m_raw_kinds old) (m_raw_kinds new) = true) by (apply raw_same_spec; tauto). congruence.
Qed.

Theorem nonadmin_cannot_change_protected_fields : forall ai old new, ai_admin ai = false ->
  can_edit ai old new = EdOk -> protected_fields_same old new.
Proof. intros ai old new A H. apply can_edit_ok_iff in H; tauto. Qed.
