(* C30 — access control.
   Model of: internal/vkgo/vkuth/access.go (JWTHelper.ParseVkuthData with its key function, Claims.Valid,
             stripFullBit), the decision chain of golang-jwt v4.5.2 Parser.ParseWithClaims that
             ParseVkuthData runs through (method lookup, WithValidMethods, key function, Verify, Claims.Valid),
             internal/api/access.go (parseAccessToken, extractNamespace, protectedMetric, hasPrefixAccess,
             CanViewMetricName, canChangeMetricByName, CanEditMetric, skips),
             internal/format/format.go (RemoteConfigMetric).
   Strings are byte lists ([list Z], 0..255 in every recorded case; theorems hold for arbitrary Z).
   The ed25519 signature check is a parameter [verify] of the model; the JSON/base64 layer of the JWT
   library is outside the model: a token is given by the header values and claims the library decoded
   (or [TMalformed] when it could not).
   Time: [now] in nanoseconds since the epoch; numeric-date claims in milliseconds (the library truncates
   them to whole seconds, NewNumericDate + TimePrecision = 1 s).
   Executable definitions only. *)
From Coq Require Import ZArith List Bool String Ascii QArith.
Import ListNotations.
Open Scope Z_scope.

Definition str := list Z.

Definition txt (s : string) : str := List.map (fun a => Z.of_N (N_of_ascii a)) (list_ascii_of_string s).

Fixpoint str_eqb (a b : str) : bool :=
  match a, b with
  | [], [] => true
  | x :: a', y :: b' => (x =? y) && str_eqb a' b'
  | _, _ => false
  end.

Definition is_nil {A} (l : list A) : bool := match l with [] => true | _ => false end.

(* strings.HasPrefix s p *)
Fixpoint has_prefix (p s : str) : bool :=
  match p, s with
  | [], _ => true
  | x :: p', y :: s' => (x =? y) && has_prefix p' s'
  | _ :: _, [] => false
  end.

Definition mem (s : str) (l : list str) : bool := existsb (str_eqb s) l.

(* ------------------------------------------------------------------------------------------ *)
(* vkuth/access.go                                                                             *)

Definition colon : Z := 58.
Definition at_sign : Z := 64.

(* stripFullBit: "" when the bit does not start with appName + ":" *)
Definition strip_full_bit (full app : str) : str :=
  let pre := app ++ [colon] in
  if has_prefix pre full then skipn (List.length pre) full else [].

(* a header value as json.Unmarshal into map[string]interface{} delivers it *)
Inductive jval := JAbsent | JStr (s : str) | JOther.

Record claims := {
  c_iss : option str;       (* None: no "iss" member *)
  c_exp : option Z;         (* milliseconds *)
  c_iat : option Z;
  c_nbf : option Z;
  c_other_registered : bool;(* "sub", "aud" or "jti" occurs *)
  c_user : str;             (* vkuth_data.user *)
  c_service : bool;         (* vkuth_data.is_service *)
  c_bits : list str         (* vkuth_data.bits *)
}.

Definition is_some {A} (o : option A) : bool := match o with Some _ => true | None => false end.

(* Claims embeds *jwt.RegisteredClaims and ParseVkuthData leaves it nil: encoding/json allocates it only
   when some registered claim name (iss sub aud exp nbf iat jti) occurs in the payload *)
Definition c_registered (c : claims) : bool :=
  is_some (c_iss c) || is_some (c_exp c) || is_some (c_iat c) || is_some (c_nbf c) || c_other_registered c.

(* what jwt.Parser.ParseUnverified makes of the token text *)
Inductive token {M S : Type} :=
| TMalformed                                         (* segments / base64 / JSON do not decode *)
| TParsed (alg kind kid : jval) (msg : M) (sig : S) (c : claims).
Arguments token : clear implicits.

Record access_data := { d_bits : list str; d_user : str; d_service : bool }.

(* jwt.ValidationError.Errors bit masks *)
Definition E_MALFORMED := 1.
Definition E_UNVERIFIABLE := 2.
Definition E_SIGNATURE := 4.
Definition E_EXPIRED := 16.
Definition E_ISSUED_AT := 32.
Definition E_NOT_VALID_YET := 128.
Definition E_CLAIMS := 512.

Inductive outcome :=
| OErr (mask : Z)         (* "failed to verify access token" wrapping a jwt.ValidationError with these bits *)
| OPanic                  (* nil pointer dereference inside Claims.Valid *)
| OOk (d : access_data).

(* methods registered in golang-jwt v4 (signing_method.go RegisterSigningMethod calls) *)
Definition registered_methods : list str :=
  List.map txt ["ES256"; "ES384"; "ES512"; "EdDSA"; "HS256"; "HS384"; "HS512"; "none";
                "PS256"; "PS384"; "PS512"; "RS256"; "RS384"; "RS512"]%string.

Definition alg_eddsa := txt "EdDSA".
Definition kind_token := txt "token".
Definition issuer_vkuth := txt "vkuth".
Definition window_ns : Z := 5 * 1000000000.

Definition sec_of_ms (ms : Z) : Z := ms / 1000.          (* floor: Truncate(time.Second) *)
Definition ns_of_claim (ms : Z) : Z := sec_of_ms ms * 1000000000.

(* Claims.Valid; None = panic *)
Definition claims_valid (now : Z) (c : claims) : option Z :=
  if negb (c_registered c) then None                     (* c.VerifyExpiresAt on a nil *RegisteredClaims *)
  else match c_exp c with
  | None => None                                         (* c.ExpiresAt.Unix() on a nil *NumericDate *)
  | Some e =>
      let m_exp := if now - window_ns <? ns_of_claim e then 0 else E_EXPIRED in
      let m_iat := match c_iat c with
                   | None => E_ISSUED_AT
                   | Some i => if ns_of_claim i <=? now + window_ns then 0 else E_ISSUED_AT
                   end in
      let m_nbf := match c_nbf c with
                   | None => 0
                   | Some n => if ns_of_claim n <=? now then 0 else E_NOT_VALID_YET
                   end in
      let m_iss := match c_iss c with Some i => if str_eqb i issuer_vkuth then 0 else E_CLAIMS | None => E_CLAIMS end in
      let m_usr := if is_nil (c_user c) then E_CLAIMS else 0 in
      Some (Z.lor m_exp (Z.lor m_iat (Z.lor m_nbf (Z.lor m_iss m_usr))))
  end.

Fixpoint lookup {K : Type} (kid : str) (keys : list (str * K)) : option K :=
  match keys with
  | [] => None
  | (k, v) :: r => if str_eqb kid k then Some v else lookup kid r
  end.

(* bits without the app prefix, empty ones dropped (a Go map: a set) *)
Definition granted_bits (app : str) (bits : list str) : list str :=
  filter (fun b => negb (is_nil b)) (List.map (fun b => strip_full_bit b app) bits).

Section Vkuth.
  Context {K M S : Type}.
  Variable verify : K -> M -> S -> bool.      (* SigningMethodEd25519.Verify = nil *)
  Variable keys : list (str * K).             (* JWTHelper.publicKeys *)
  Variable app : str.                         (* JWTHelper.appName *)

  (* the Keyfunc passed to ParseWithClaims *)
  Definition key_func (kind kid : jval) : option K :=
    match kind with
    | JStr k =>
        if str_eqb k kind_token then
          match kid with
          | JStr id => lookup id keys
          | _ => None
          end
        else None
    | _ => None
    end.

  Definition parse_vkuth (now : Z) (t : token M S) : outcome :=
    match t with
    | TMalformed => OErr E_MALFORMED
    | TParsed alg kind kid msg sig c =>
        match alg with
        | JStr a =>
            if negb (mem a registered_methods) then OErr E_UNVERIFIABLE     (* GetSigningMethod = nil *)
            else if negb (str_eqb a alg_eddsa) then OErr E_SIGNATURE        (* WithValidMethods *)
            else match key_func kind kid with
                 | None => OErr E_UNVERIFIABLE
                 | Some k =>
                     if negb (verify k msg sig) then OErr E_SIGNATURE
                     else match claims_valid now c with
                          | None => OPanic
                          | Some 0 => OOk {| d_bits := granted_bits app (c_bits c); d_user := c_user c; d_service := c_service c |}
                          | Some m => OErr m
                          end
                 end
        | _ => OErr E_UNVERIFIABLE                                          (* alg unspecified *)
        end
    end.
End Vkuth.

(* ------------------------------------------------------------------------------------------ *)
(* api/access.go                                                                               *)

Record access_info := {
  ai_user : str;
  ai_service : bool;
  ai_protected : list str;
  ai_admin : bool;
  ai_developer : bool;
  ai_view_default : bool;
  ai_edit_default : bool;
  ai_view_prefix : list str;      (* Go maps with value true: sets of keys *)
  ai_edit_prefix : list str;
  ai_view_metric : list str;
  ai_edit_metric : list str
}.

(* strings.Replace(bit, "@", ":", 1) *)
Fixpoint extract_namespace (b : str) : str :=
  match b with
  | [] => []
  | x :: r => if x =? at_sign then colon :: r else x :: extract_namespace r
  end.

Inductive effect :=
| EAdmin | EDeveloper | EViewDefault | EEditDefault
| EViewPrefix (p : str) | EEditPrefix (p : str) | EViewMetric (p : str) | EEditMetric (p : str)
| ENone.

Definition p_view_prefix := txt "view_prefix.".
Definition p_edit_prefix := txt "edit_prefix.".
Definition p_view_metric := txt "view_metric.".
Definition p_edit_metric := txt "edit_metric.".
Definition p_view_namespace := txt "view_namespace.".
Definition p_edit_namespace := txt "edit_namespace.".

(* the switch of parseAccessToken, cases in source order *)
Definition bit_effect (b : str) : effect :=
  if str_eqb b (txt "admin") then EAdmin
  else if str_eqb b (txt "developer") then EDeveloper
  else if str_eqb b (txt "view_default") then EViewDefault
  else if str_eqb b (txt "edit_default") then EEditDefault
  else if has_prefix p_view_prefix b then EViewPrefix (extract_namespace (skipn (List.length p_view_prefix) b))
  else if has_prefix p_edit_prefix b then EEditPrefix (extract_namespace (skipn (List.length p_edit_prefix) b))
  else if has_prefix p_view_metric b then EViewMetric (extract_namespace (skipn (List.length p_view_metric) b))
  else if has_prefix p_edit_metric b then EEditMetric (extract_namespace (skipn (List.length p_edit_metric) b))
  else if has_prefix p_view_namespace b then EViewPrefix (skipn (List.length p_view_namespace) b ++ [colon])
  else if has_prefix p_edit_namespace b then EEditPrefix (skipn (List.length p_edit_namespace) b ++ [colon])
  else ENone.

Definition apply_effect (ai : access_info) (e : effect) : access_info :=
  let '(Build_access_info u s pp a d vd ed vp ep vm em) := ai in
  match e with
  | EAdmin => Build_access_info u s pp true d vd ed vp ep vm em
  | EDeveloper => Build_access_info u s pp a true vd ed vp ep vm em
  | EViewDefault => Build_access_info u s pp a d true ed vp ep vm em
  | EEditDefault => Build_access_info u s pp a d vd true vp ep vm em
  | EViewPrefix p => Build_access_info u s pp a d vd ed (p :: vp) ep vm em
  | EEditPrefix p => Build_access_info u s pp a d vd ed vp (p :: ep) vm em
  | EViewMetric p => Build_access_info u s pp a d vd ed vp ep (p :: vm) em
  | EEditMetric p => Build_access_info u s pp a d vd ed vp ep vm (p :: em)
  | ENone => ai
  end.

Definition apply_bit (ai : access_info) (b : str) : access_info := apply_effect ai (bit_effect b).

(* the loop "for b := range bits" (a map: some order; the result does not depend on it, see Proofs) *)
Definition parse_bits (ai0 : access_info) (bits : list str) : access_info := fold_left apply_bit bits ai0.

Definition insecure_user := txt "@insecure_mode".

Inductive ai_result :=
| AErr (mask : Z)       (* 401; mask 0 = "empty access token" *)
| APanic
| AOk (ai : access_info).

Section Api.
  Context {K M S : Type}.
  Variable verify : K -> M -> S -> bool.
  Variable keys : list (str * K).
  Variable app : str.

  (* parseAccessToken; [tok = None] is the empty string *)
  Definition parse_access_token (now : Z) (tok : option (token M S)) (protected : list str) (local insecure : bool) : ai_result :=
    if local || insecure then
      AOk (Build_access_info insecure_user false protected local local true true [] [] [] [])
    else match tok with
    | None => AErr 0
    | Some t =>
        match parse_vkuth verify keys app now t with
        | OErr m => AErr m
        | OPanic => APanic
        | OOk d => AOk (parse_bits (Build_access_info (d_user d) (d_service d) protected false false false false [] [] [] []) (d_bits d))
        end
    end.
End Api.

(* format.RemoteConfigMetric *)
Definition remote_config_names : list str :=
  List.map txt ["statshouse_agent_remote_config"; "statshouse_journal_dump";
                "statshouse_aggregator_remote_config"; "statshouse_api_remote_config"]%string.
Definition remote_config_metric (name : str) : bool := mem name remote_config_names.

Definition protected_metric (ai : access_info) (name : str) : bool :=
  existsb (fun p => has_prefix p name) (ai_protected ai).

Definition has_prefix_access (m : list str) (name : str) : bool :=
  existsb (fun p => has_prefix p name) m.

Definition can_view_name (ai : access_info) (name : str) : bool :=
  if remote_config_metric name && negb (ai_admin ai) then false
  else mem name (ai_view_metric ai) || has_prefix_access (ai_view_prefix ai) name ||
       (ai_view_default ai && negb (protected_metric ai name)).

(* how the harness writes a float64 weight that is an exact dyadic rational *)
Definition mkQ (n d : Z) : Q := Qmake n (Z.to_pos d).

(* the fields of format.MetricMetaValue that CanEditMetric reads *)
Record metric := {
  m_name : str;
  m_weight : Q;                 (* float64; the generator only emits values on which float64 is exact *)
  m_prekey_from : Z;
  m_prekey_only : bool;
  m_skip_max_host : bool;
  m_skip_min_host : bool;
  m_skip_sum_square : bool;
  m_strategy : str;
  m_shard_num : Z;
  m_fixed_key : Z;
  m_fixed_key2 : Z;
  m_fixed_key2_ts : Z;
  m_raw_kinds : list str        (* Tags[i].RawKind *)
}.

Definition can_change_by_name (ai : access_info) (old new : metric) : bool :=
  if ai_admin ai then true
  else
    let o := m_name old in
    let n := m_name new in
    if remote_config_metric o || remote_config_metric n then false
    else (mem o (ai_edit_metric ai) && mem n (ai_edit_metric ai)) ||
         (has_prefix_access (ai_edit_prefix ai) o && has_prefix_access (ai_edit_prefix ai) n) ||
         (ai_edit_default ai && negb (protected_metric ai o) && negb (protected_metric ai n)).

(* the loop over max(len(old.Tags), len(new.Tags)): raw-ness compared position by position, missing = false *)
Fixpoint all_not_raw (l : list str) : bool :=
  match l with [] => true | x :: r => is_nil x && all_not_raw r end.
Fixpoint raw_same (o n : list str) {struct o} : bool :=
  match o, n with
  | [], _ => all_not_raw n
  | x :: o', [] => is_nil x && raw_same o' []
  | x :: o', y :: n' => Bool.eqb (negb (is_nil x)) (negb (is_nil y)) && raw_same o' n'
  end.

(* CanEditMetric's answers *)
Inductive edit_result :=
| EdOk | EdForbidden | EdWeight | EdPresort | EdPresortOnly | EdSkips | EdStrategy | EdShard | EdRaw.

Definition can_edit (ai : access_info) (old new : metric) : edit_result :=
  if negb (can_change_by_name ai old new) then EdForbidden
  else if ai_admin ai then EdOk
  else if negb (Qeq_bool (m_weight old) (m_weight new)) &&
          negb (Qeq_bool (m_weight old) 0 && Qeq_bool (m_weight new) 1) then EdWeight
  else if negb (m_prekey_from old =? m_prekey_from new) then EdPresort
  else if negb (Bool.eqb (m_prekey_only old) (m_prekey_only new)) then EdPresortOnly
  else if negb (Bool.eqb (m_skip_max_host old) (m_skip_max_host new) &&
                Bool.eqb (m_skip_min_host old) (m_skip_min_host new) &&
                Bool.eqb (m_skip_sum_square old) (m_skip_sum_square new)) then EdSkips
  else if negb (str_eqb (m_strategy old) (m_strategy new)) then EdStrategy
  else if negb (m_shard_num old =? m_shard_num new) then EdShard
  else if negb (m_fixed_key old =? m_fixed_key new) then EdShard
  else if negb (m_fixed_key2 old =? m_fixed_key2 new) then EdShard
  else if negb (m_fixed_key2_ts old =? m_fixed_key2_ts new) then EdShard
  else if negb (raw_same (m_raw_kinds old) (m_raw_kinds new)) then EdRaw
  else EdOk.
