(* C30 — proofs about the access-control model (Access/Model.v). *)
From Coq Require Import ZArith List Bool Lia QArith Permutation.
From SH Require Import Access.Model.
Import ListNotations.
Open Scope Z_scope.

(* ---------------------------------------------------------------------------------------- *)
(* strings                                                                                   *)

Lemma str_eqb_eq : forall a b, str_eqb a b = true <-> a = b.
Proof.
  induction a as [|x a IH]; destruct b as [|y b]; simpl; split; intro H; try congruence; try discriminate.
  - apply andb_true_iff in H. destruct H as [H1 H2]. apply Z.eqb_eq in H1. apply IH in H2. congruence.
  - inversion H; subst. apply andb_true_iff. split. apply Z.eqb_refl. apply IH. reflexivity.
Qed.

Lemma str_eqb_refl : forall a, str_eqb a a = true.
Proof. intro a. apply str_eqb_eq. reflexivity. Qed.

Lemma str_eqb_neq : forall a b, str_eqb a b = false <-> a <> b.
Proof.
  intros a b. split.
  - intros H E. apply str_eqb_eq in E. congruence.
  - intro H. destruct (str_eqb a b) eqn:E; auto. apply str_eqb_eq in E. contradiction.
Qed.

Lemma is_nil_true : forall (A : Type) (l : list A), is_nil l = true <-> l = [].
Proof. intros A [|x l]; simpl; split; intro H; congruence. Qed.

Lemma is_nil_false : forall (A : Type) (l : list A), is_nil l = false <-> l <> [].
Proof. intros A [|x l]; simpl; split; intro H; congruence. Qed.

Definition is_prefix (p s : str) : Prop := exists r, s = p ++ r.

Lemma has_prefix_spec : forall p s, has_prefix p s = true <-> is_prefix p s.
Proof.
  unfold is_prefix. induction p as [|x p IH]; intros s; simpl.
  - split; auto. intros _. exists s. reflexivity.
  - destruct s as [|y s].
    + split; [discriminate|]. intros [r H]. discriminate.
    + rewrite andb_true_iff, Z.eqb_eq, IH. split.
      * intros [E [r H]]. exists r. subst. reflexivity.
      * intros [r H]. inversion H; subst. split; auto. exists r. reflexivity.
Qed.

Lemma has_prefix_app : forall p r, has_prefix p (p ++ r) = true.
Proof. intros. apply has_prefix_spec. exists r. reflexivity. Qed.

Lemma skipn_app_len : forall (p r : str), skipn (List.length p) (p ++ r) = r.
Proof. induction p; simpl; auto. Qed.

Lemma mem_In : forall s l, mem s l = true <-> In s l.
Proof.
  intros s l. unfold mem. rewrite existsb_exists. split.
  - intros [x [H1 H2]]. apply str_eqb_eq in H2. subst. assumption.
  - intro H. exists s. split; auto. apply str_eqb_refl.
Qed.

Lemma mem_false : forall s l, mem s l = false <-> ~ In s l.
Proof.
  intros s l. split.
  - intros H HI. apply mem_In in HI. congruence.
  - intro H. destruct (mem s l) eqn:E; auto. apply mem_In in E. contradiction.
Qed.

Lemma prefix_access_spec : forall m name,
  has_prefix_access m name = true <-> exists p, In p m /\ is_prefix p name.
Proof.
  intros. unfold has_prefix_access. rewrite existsb_exists.
  split; intros [p [H1 H2]]; exists p; split; auto; apply has_prefix_spec; auto.
Qed.

Lemma protected_spec : forall ai name,
  protected_metric ai name = true <-> exists p, In p (ai_protected ai) /\ is_prefix p name.
Proof. intros. apply prefix_access_spec. Qed.

(* two prefixes of the same string are comparable; used to separate the literal bit prefixes *)
Lemma has_prefix_both : forall p q s, has_prefix p s = true -> has_prefix q s = true ->
  has_prefix p q = true \/ has_prefix q p = true.
Proof.
  induction p as [|x p IH]; intros q s Hp Hq; simpl; auto.
  destruct q as [|y q]; simpl; auto.
  destruct s as [|z s]; simpl in *; try discriminate.
  apply andb_true_iff in Hp. apply andb_true_iff in Hq. destruct Hp as [A B]. destruct Hq as [C D].
  apply Z.eqb_eq in A. apply Z.eqb_eq in C. subst.
  destruct (IH q s B D) as [H|H]; [left|right]; rewrite Z.eqb_refl; simpl; assumption.
Qed.

Arguments mem : simpl never.
Arguments str_eqb : simpl never.
Arguments has_prefix : simpl never.
Arguments claims_valid : simpl never.
Arguments lookup : simpl never.
Arguments granted_bits : simpl never.
Arguments remote_config_metric : simpl never.
Arguments has_prefix_access : simpl never.
Arguments protected_metric : simpl never.

(* ---------------------------------------------------------------------------------------- *)
(* stripFullBit and the granted bits                                                         *)

Lemma strip_full_bit_spec : forall full app b,
  b <> [] -> (strip_full_bit full app = b <-> full = app ++ [colon] ++ b).
Proof.
  intros full app b Hb. unfold strip_full_bit.
  destruct (has_prefix (app ++ [colon]) full) eqn:E.
  - apply has_prefix_spec in E. destruct E as [r E]. subst full. rewrite skipn_app_len.
    rewrite <- app_assoc. split.
    + intro; subst; reflexivity.
    + intro H. apply app_inv_head in H. simpl in H. inversion H. reflexivity.
  - split.
    + intro H. symmetry in H. contradiction.
    + intro H. subst full. rewrite app_assoc in E. rewrite has_prefix_app in E. discriminate.
Qed.

(* "only bits prefixed with the application name are granted" — and all of them are *)
Lemma granted_bits_spec : forall app bits b,
  In b (granted_bits app bits) <-> b <> [] /\ In (app ++ [colon] ++ b) bits.
Proof.
  intros app bits b. unfold granted_bits. rewrite filter_In, in_map_iff, negb_true_iff, is_nil_false.
  split.
  - intros [[full [H1 H2]] Hb]. split; auto. apply strip_full_bit_spec in H1; auto. subst. assumption.
  - intros [Hb H]. split; auto. exists (app ++ [colon] ++ b). split; auto. apply strip_full_bit_spec; auto.
Qed.

(* ---------------------------------------------------------------------------------------- *)
(* token verification                                                                        *)

Lemma lor_zero : forall a b, Z.lor a b = 0 <-> a = 0 /\ b = 0.
Proof. intros. apply Z.lor_eq_0_iff. Qed.

(* the conditions Claims.Valid accepts *)
Definition claims_ok (now : Z) (c : claims) : Prop :=
  (exists e, c_exp c = Some e /\ now - window_ns < ns_of_claim e) /\
  (exists i, c_iat c = Some i /\ ns_of_claim i <= now + window_ns) /\
  (forall n, c_nbf c = Some n -> ns_of_claim n <= now) /\
  c_iss c = Some issuer_vkuth /\
  c_user c <> [].

Lemma claims_valid_ok : forall now c, claims_valid now c = Some 0 <-> claims_ok now c.
Proof.
  intros now c. unfold claims_valid, claims_ok, c_registered.
  destruct (c_exp c) as [e|] eqn:Ee.
  2:{ split.
      - destruct (negb _); discriminate.
      - intros [[e [H _]] _]. discriminate. }
  rewrite orb_true_r. simpl.
  split.
  - intro H. injection H as H.
    apply lor_zero in H. destruct H as [H1 H]. apply lor_zero in H. destruct H as [H2 H].
    apply lor_zero in H. destruct H as [H3 H]. apply lor_zero in H. destruct H as [H4 H5].
    repeat split.
    + exists e. split; auto. destruct (now - window_ns <? ns_of_claim e) eqn:L; [apply Z.ltb_lt in L; auto|discriminate].
    + destruct (c_iat c) as [i|]; [|discriminate]. exists i. split; auto.
      destruct (ns_of_claim i <=? now + window_ns) eqn:L; [apply Z.leb_le in L; auto|discriminate].
    + intros n En. rewrite En in H3.
      destruct (ns_of_claim n <=? now) eqn:L; [apply Z.leb_le in L; auto|discriminate].
    + destruct (c_iss c) as [i|]; [|discriminate].
      destruct (str_eqb i issuer_vkuth) eqn:L; [apply str_eqb_eq in L; congruence|discriminate].
    + destruct (is_nil (c_user c)) eqn:L; [discriminate|apply is_nil_false in L; auto].
  - intros [[e' [He' H1]] [[i [Ei H2]] [H3 [H4 H5]]]].
    assert (e' = e) by congruence. subst e'.
    rewrite Ei, H4.
    apply Z.ltb_lt in H1. rewrite H1. apply Z.leb_le in H2. rewrite H2.
    rewrite str_eqb_refl. apply is_nil_false in H5. rewrite H5.
    destruct (c_nbf c) as [n|].
    + specialize (H3 n eq_refl). apply Z.leb_le in H3. rewrite H3. reflexivity.
    + reflexivity.
Qed.

Lemma claims_valid_error_mask : forall now c m, claims_valid now c = Some m -> m <> 0 ->
  exists a b c' d e, m = Z.lor a (Z.lor b (Z.lor c' (Z.lor d e))) /\
    (a = 0 \/ a = E_EXPIRED) /\ (b = 0 \/ b = E_ISSUED_AT) /\ (c' = 0 \/ c' = E_NOT_VALID_YET) /\
    (d = 0 \/ d = E_CLAIMS) /\ (e = 0 \/ e = E_CLAIMS).
Proof.
  intros now c m H _. unfold claims_valid in H.
  destruct (negb (c_registered c)); [discriminate|].
  destruct (c_exp c) as [e|]; [|discriminate]. injection H as H. subst m.
  do 5 eexists. split; [reflexivity|].
  repeat split.
  - destruct (_ <? _); auto.
  - destruct (c_iat c); auto. destruct (_ <=? _); auto.
  - destruct (c_nbf c); auto. destruct (_ <=? _); auto.
  - destruct (c_iss c); auto. destruct (str_eqb _ _); auto.
  - destruct (is_nil _); auto.
Qed.

Section VkuthProofs.
  Context {K M S : Type}.
  Variable verify : K -> M -> S -> bool.
  Variable keys : list (str * K).
  Variable app : str.

  (* the property's list of conditions *)
  Definition token_valid (now : Z) (t : token M S) (c : claims) : Prop :=
    exists kidstr key msg sig,
      t = TParsed (JStr alg_eddsa) (JStr kind_token) (JStr kidstr) msg sig c /\
      lookup kidstr keys = Some key /\
      verify key msg sig = true /\
      claims_ok now c.

  Lemma mem_eddsa : mem alg_eddsa registered_methods = true.
  Proof. vm_compute. reflexivity. Qed.

  Theorem accepted_iff : forall now t d,
    parse_vkuth verify keys app now t = OOk d <->
    exists c, token_valid now t c /\
      d = {| d_bits := granted_bits app (c_bits c); d_user := c_user c; d_service := c_service c |}.
  Proof.
    intros now t d. split.
    - destruct t as [|alg kind kid msg sig c]; simpl; [discriminate|].
      destruct alg as [|a|]; try discriminate.
      destruct (mem a registered_methods); simpl; [|discriminate].
      destruct (str_eqb a alg_eddsa) eqn:Ea; simpl; [|discriminate].
      apply str_eqb_eq in Ea. subst a.
      unfold key_func.
      destruct kind as [|k|]; try discriminate.
      destruct (str_eqb k kind_token) eqn:Ek; [|discriminate]. apply str_eqb_eq in Ek. subst k.
      destruct kid as [|id|]; try discriminate.
      destruct (lookup id keys) as [key|] eqn:El; [|discriminate].
      destruct (verify key msg sig) eqn:Ev; simpl; [|discriminate].
      destruct (claims_valid now c) as [m|] eqn:Ec; [|discriminate].
      destruct m; simpl; try discriminate.
      intro H. injection H as H. exists c. split; auto.
      exists id, key, msg, sig. split; [reflexivity|]. split; [assumption|]. split; [assumption|].
      apply claims_valid_ok. assumption.
    - intros [c [[kidstr [key [msg [sig [Et [El [Ev Hc]]]]]]] Hd]]. subst t d. unfold parse_vkuth, key_func.
      rewrite mem_eddsa. rewrite !str_eqb_refl. cbn [negb]. rewrite El. rewrite Ev. cbn [negb].
      apply claims_valid_ok in Hc. rewrite Hc. reflexivity.
  Qed.

  (* the panic inside Claims.Valid is reachable only with a signature that verifies under the configured key
     named by the token *)
  Theorem panic_only_after_signature : forall now t,
    parse_vkuth verify keys app now t = OPanic ->
    exists kidstr key msg sig c,
      t = TParsed (JStr alg_eddsa) (JStr kind_token) (JStr kidstr) msg sig c /\
      lookup kidstr keys = Some key /\ verify key msg sig = true /\ c_exp c = None.
  Proof.
    intros now t.
    destruct t as [|alg kind kid msg sig c]; simpl; [discriminate|].
    destruct alg as [|a|]; try discriminate.
    destruct (mem a registered_methods); simpl; [|discriminate].
    destruct (str_eqb a alg_eddsa) eqn:Ea; simpl; [|discriminate].
    apply str_eqb_eq in Ea. subst a.
    unfold key_func.
    destruct kind as [|k|]; try discriminate.
    destruct (str_eqb k kind_token) eqn:Ek; [|discriminate]. apply str_eqb_eq in Ek. subst k.
    destruct kid as [|id|]; try discriminate.
    destruct (lookup id keys) as [key|] eqn:El; [|discriminate].
    destruct (verify key msg sig) eqn:Ev; simpl; [|discriminate].
    destruct (claims_valid now c) as [m|] eqn:Ec.
    { destruct m; discriminate. }
    intros _. exists id, key, msg, sig, c. repeat split; auto.
    unfold claims_valid in Ec. unfold c_registered in Ec.
    destruct (c_exp c); auto. rewrite orb_true_r in Ec. simpl in Ec. discriminate.
  Qed.

  (* every other token is answered with an error (HTTP 401 at the API) *)
  Theorem rejected_otherwise : forall now t,
    (forall c, ~ token_valid now t c) ->
    parse_vkuth verify keys app now t = OPanic \/ exists m, parse_vkuth verify keys app now t = OErr m.
  Proof.
    intros now t H. destruct (parse_vkuth verify keys app now t) as [m| |d] eqn:E; eauto.
    apply accepted_iff in E. destruct E as [c [Hc _]]. exfalso. eapply H; eauto.
  Qed.
End VkuthProofs.
