(* C18 — combined statements (see ProofsCrc / ProofsReader / ProofsWriter) and the concrete witnesses of the two findings. *)
From Coq Require Import ZArith List Bool Lia.
From SH Require Import Common.Wrap FsBinlog.Model.
From SH Require Export FsBinlog.ProofsCrc FsBinlog.ProofsReader FsBinlog.ProofsWriter.
Import ListNotations.
Open Scope Z_scope.

(* the reader has consumed bytes that differ from the written ones in one bit; the next levCrc32 record (intact, carrying the
   writer's crc of the original bytes) stops the replay with a checksum error *)
Theorem single_bit_flip_detected_at_next_crc fx u f st c0 bs i k ts pos rest :
  0 <= c0 < two32 -> all_bytes bs -> (i < length bs)%nat -> 0 <= k < 8 -> 0 <= ts < two32 ->
  r_crc st = crc_update c0 (flip_byte i k bs) ->
  read_loop fx u (S f) st (enc_crc ts pos (crc_update c0 bs) ++ rest) = (st, ECrc).
Proof.
  intros Hc Hall Hi Hk Hts Hr. apply read_loop_crc_mismatch; [exact Hts|apply crc_update_range; exact Hc|].
  rewrite Hr. intros E. symmetry in E. revert E. apply crc_bit_flip_detected; assumption.
Qed.

(* any damage at all: checksum error at the record, or the damaged bytes collide with the original ones under CRC-32 *)
Theorem corruption_detected_or_crc_collision fx u f st c0 bs bs' ts pos rest :
  0 <= c0 < two32 -> 0 <= ts < two32 -> r_crc st = crc_update c0 bs' ->
  read_loop fx u (S f) st (enc_crc ts pos (crc_update c0 bs) ++ rest) = (st, ECrc)
  \/ crc_update c0 bs' = crc_update c0 bs.
Proof.
  intros Hc Hts Hr. destruct (Z.eq_dec (crc_update c0 bs) (r_crc st)) as [E|N].
  - right. rewrite <- Hr. symmetry. exact E.
  - left. apply read_loop_crc_mismatch; [exact Hts|apply crc_update_range; exact Hc|exact N].
Qed.

(* ---------- a concrete small history: two appends, MaxChunkSize = 1 (every append rotates) ---------- *)
Definition ex_u : Z := 1520812860.     (* the harness engine's magic 0x5aa5c33c *)
Definition ex_hdr : bytes :=
  le32 M_START ++ le32 12345 ++ le32 0 ++ le32 0 ++ le32 0 ++ le32 1 ++ le32 M_TAG ++ repeat 7 16.
Definition ex_aux : aux := {| a_tsc := 0; a_tsr := 1700000000; a_hcur := 11; a_hnext := 22 |}.
Definition ex_b1 : bytes := [1; 2; 3; 4; 5].
Definition ex_b2 : bytes := [9; 9].
Definition ex_w : wst := fst (w_run 1 (w_init ex_hdr) [(frame ex_u ex_b1, ex_aux); (frame ex_u ex_b2, ex_aux)]).
Definition ex_offs : list Z := snd (w_run 1 (w_init ex_hdr) [(frame ex_u ex_b1, ex_aux); (frame ex_u ex_b2, ex_aux)]).

Lemma ex_user_magic_ok : user_magic_ok ex_u.
Proof. unfold user_magic_ok, ex_u, two32, M_START, M_ROTFROM, M_ZIP, M_TAG, M_CRC, M_TS, M_ROTTO, M_CFGVAL, M_CFGARR, M_UPGRADE. lia. Qed.

(* the intact image replays exactly, at the offsets Append returned, across the two rotations *)
Lemma ex_replay_exact :
  ex_offs = [132; 216] /\
  let r := replay false false ex_u 12345 (image_of ex_w) 0 None in
  rr_err r = ENone /\ applies (rr_ev r) = [(44, ex_b1); (132, ex_b2)].
Proof. vm_compute. auto. Qed.

(* resume from the first returned offset with the snapshot meta of that position *)
Lemma ex_resume_suffix :
  let crc132 := crc_update 0 (takez 132 (flat_map (fun x => x) (image_of ex_w))) in   (* CommitCrc of the commit at 132 *)
  let r := replay false false ex_u 12345 (image_of ex_w) 132 (Some (132, crc132, 7)) in
  rr_err r = ENone /\ applies (rr_ev r) = [(132, ex_b2)].
Proof. vm_compute. split; reflexivity. Qed.

(* F-C18b: cut the binlog 10 bytes into the header of the newest chunk: the code as it is replays nothing at all *)
Lemma ex_truncated_header_refuted :
  let img := truncate_files (216 - 36 + 10) (files_of ex_w) in
  length img = 3%nat /\
  rr_err (replay false false ex_u 12345 img 0 None) = EScan /\ rr_ev (replay false false ex_u 12345 img 0 None) = [] /\
  (* the repaired reader delivers the complete prefix *)
  rr_err (replay false true ex_u 12345 img 0 None) = ENone /\
  applies (rr_ev (replay false true ex_u 12345 img 0 None)) = [(44, ex_b1); (132, ex_b2)].
Proof. vm_compute. repeat split; reflexivity. Qed.

(* F-C18a: flip one bit of the first event's body; the chunk ends with levRotateTo carrying the writer's crc, the code
   as it is does not look at it and delivers the damaged event without any error; the repaired reader stops *)
Lemma ex_flip_before_rotate_refuted :
  let img := flip_files 0 52 0 (image_of ex_w) in
  rr_err (replay false false ex_u 12345 img 0 None) = ENone /\
  applies (rr_ev (replay false false ex_u 12345 img 0 None)) = [(44, [0; 2; 3; 4; 5]); (132, ex_b2)] /\
  rr_err (replay true false ex_u 12345 img 0 None) = ECrc.
Proof. vm_compute. repeat split; reflexivity. Qed.

(* F-C18a, second half: damage inside the levRotateTo record itself (here: its NextLogHash field, last byte of chunk 0).
   The code neither consumes that record into its crc nor compares the next chunk's levRotateFrom.Crc32 (which the writer
   computed over it) with anything, so even with levRotateTo.Crc32 verified the flip passes; the repaired reader compares
   the crc of the log including levRotateTo with the next chunk's header and stops with a checksum error *)
Lemma ex_flip_inside_rotate_record_refuted :
  let img := flip_files 0 95 0 (image_of ex_w) in
  nth_error (map (fun f => len f) (image_of ex_w)) 0 = Some 96 /\
  rr_err (replay false false ex_u 12345 img 0 None) = ENone /\
  applies (rr_ev (replay false false ex_u 12345 img 0 None)) = [(44, ex_b1); (132, ex_b2)] /\
  rr_err (replay true false ex_u 12345 img 0 None) = ECrc /\
  applies (rr_ev (replay true false ex_u 12345 img 0 None)) = [(44, ex_b1)].
Proof. vm_compute. repeat split; reflexivity. Qed.

(* the chain check of the repaired reader, for every header and every carried crc *)
Lemma read_files_chain_mismatch fx fe u h r from si eoff ts ev pa ca c :
  h_crc h <> c ->
  read_files fx true fe u (h :: r) from si eoff ts ev pa ca (Some c) = {| rr_ev := rev ev; rr_err := ECrc; rr_pos := pa; rr_crc := ca |}.
Proof. intros H. cbn [read_files]. rewrite (proj2 (Z.eqb_neq _ _) H). reflexivity. Qed.

(* F-C18c (residual after repair 059eb856, i.e. fx_rot = fx_chain = true): chunk 0 holds two events (21 and 20 bytes) and
   its levRotateTo; flipping bit 6 of the first event's length (21 -> 85) makes the damaged event swallow the second event
   and the levRotateTo record exactly up to the end of the file.  No levRotateTo was seen, so no chunk-to-chunk comparison
   is made, the crc restarts from chunk 1's header and chunk 1's levRotateTo (whose writer-side crc covers the damage) is
   accepted.  With fx_eof the crc at the end of chunk 0 is compared with chunk 1's header: checksum error. *)
Definition ex2_b1 : bytes := repeat 7 21.
Definition ex2_b2 : bytes := repeat 8 20.
Definition ex2_b4 : bytes := repeat 5 60.
Definition ex2_w : wst := fst (w_run 100 (w_init ex_hdr)
  [(frame ex_u ex2_b1, ex_aux); (frame ex_u ex2_b2, ex_aux); (frame ex_u ex_b2, ex_aux); (frame ex_u ex2_b4, ex_aux)]).
Lemma ex2_swallow_refuted :
  let img := flip_files 0 48 6 (image_of ex2_w) in
  map (fun f => len f) (image_of ex2_w) = [140; 152; 36] /\
  rr_err (replay4 true true false false ex_u 12345 img 0 None) = ENone /\
  map (fun e => (fst e, len (snd e))) (applies (rr_ev (replay4 true true false false ex_u 12345 img 0 None))) = [(44, 85); (176, 2); (188, 60)] /\
  rr_err (replay4 true true true false ex_u 12345 img 0 None) = ECrc /\
  rr_err (replay4 true true true false ex_u 12345 (image_of ex2_w) 0 None) = ENone.
Proof. vm_compute. repeat split; reflexivity. Qed.
