(* Correspondence cases for C18: one case = one whole history run on the real fsbinlog (in-memory FS):
   the appended bodies, the bytes of every file the writer produced, the offsets Append returned, the Commit
   notifications of the writer, and a list of replays (ReadAll through a recording engine) of the untouched,
   truncated or bit-flipped image from a resume position with or without snapshot meta.
   Bytes are printed as Coq.Strings.Byte constructors, runs run-length encoded. *)
From Coq Require Import ZArith List Bool.
From Coq Require Strings.Byte.
From SH Require Import Common.Wrap Common.Corr FsBinlog.Model.
Import ListNotations.
Open Scope Z_scope.

Definition bz (b : Byte.byte) : Z := Z.of_N (Byte.to_N b).
Inductive seg := R (n : Z) (b : Byte.byte) | L (l : list Byte.byte).
Definition expand (ss : list seg) : bytes :=
  flat_map (fun s => match s with R n b => repeat (bz b) (Z.to_nat n) | L l => map bz l end) ss.

Fixpoint list_eqb (a b : list Z) : bool :=
  match a, b with
  | [], [] => true
  | x :: a', y :: b' => (x =? y) && list_eqb a' b'
  | _, _ => false
  end.

Definition err_code (e : rerr) : Z :=
  match e with
  | ENone => 0 | ECrc => 1 | EUnknownMagic => 2 | ESkipMismatch => 3 | EZip => 4 | ECfgArr => 5 | EUpgrade => 6
  | ESeek => 7 | ESeekCrc => 8 | EMetaPos => 9 | EApplyProto => 10 | EScan => 11 | EFromTooSmall => 12
  | ENotFound => 13 | EFuel => 14 | EUnmodelled => 15 | EPanic => 16
  end.

Inductive modif := MNone | MTrunc (k : Z) | MFlip (fi i bit : Z).
(* what the recording engine saw: OA i = Apply of appended body #i (same bytes, at the offset Append returned for #i-1);
   OX = any other Apply; OS = Skip(n) called at engine offset off *)
Inductive oev := OA (i : Z) | OX (off : Z) (body : list seg) | OS (off n : Z).
Inductive rp := RP (m : modif) (from : Z) (meta : option (Z * Z * Z)) (evs : list oev) (commits : list (Z * Z * Z))
                   (err : Z) (pos crc : Z).

Inductive case :=
| CHist (chunk umagic schema : Z) (hdr : list seg)
        (ops : list (bool * list seg * (Z * Z * Z * Z)))   (* framed?, payload/body, (ts_crc, ts_rot, hash_cur, hash_next) *)
        (o_offs : list Z) (o_files : list (Z * list seg)) (o_commits : list (Z * Z))
        (o_badoff : list (Z * bool))                         (* Append at this offset after the history: accepted? *)
        (rps : list rp).

Definition mk_aux (a : Z * Z * Z * Z) : aux :=
  let '(tc, tr, h1, h2) := a in {| a_tsc := tc; a_tsr := tr; a_hcur := h1; a_hnext := h2 |}.

Definition ev_eqb (expected : list (Z * bytes)) (e : event) (o : oev) : bool :=
  match e, o with
  | EvApply off body, OA i =>
      match nth_error expected (Z.to_nat i) with
      | Some (eo, eb) => (0 <=? i) && (off =? eo) && list_eqb body eb
      | None => false
      end
  | EvApply off body, OX o' b' => (off =? o') && list_eqb body (expand b')
  | EvSkip off n, OS o' n' => (off =? o') && (n =? n')
  | _, _ => false
  end.
Fixpoint evs_eqb (expected : list (Z * bytes)) (es : list event) (os : list oev) : bool :=
  match es, os with
  | [], [] => true
  | e :: es', o :: os' => ev_eqb expected e o && evs_eqb expected es' os'
  | _, _ => false
  end.
Definition is_commit (e : event) : bool := match e with EvCommit _ _ _ => true | _ => false end.
Definition commit_eqb (a b : Z * Z * Z) : bool :=
  let '(p, c, t) := a in let '(p', c', t') := b in (p =? p') && (c =? c') && (t =? t').
Fixpoint commits_eqb (a b : list (Z * Z * Z)) : bool :=
  match a, b with
  | [], [] => true
  | x :: a', y :: b' => commit_eqb x y && commits_eqb a' b'
  | _, _ => false
  end.

(* the reader may add timer-driven commits (every 500 ms of wall time); all the model's commits must be there, in order *)
Definition commits_ok (model obs : list (Z * Z * Z)) : bool :=
  commits_eqb (filter (fun c => existsb (commit_eqb c) model) obs) model.

Definition rres_ok (expected : list (Z * bytes)) (r : rres) (o : rp) : bool :=
  let '(RP _ _ _ evs commits err pos crc) := o in
  (err_code (rr_err r) =? err)
  && evs_eqb expected (filter (fun e => negb (is_commit e)) (rr_ev r)) evs
  && commits_ok (flat_map (fun e => match e with EvCommit p c t => [(p, c, t)] | _ => [] end) (rr_ev r)) commits
  && (negb (err =? 0) || ((rr_pos r =? pos) && (rr_crc r =? crc))).

Fixpoint first_ok {A} (f : A -> bool) (l : list A) : bool :=
  match l with [] => false | x :: r => if f x then true else first_ok f r end.

Definition rp_ok (umagic schema : Z) (files : list (Z * bytes)) (expected : list (Z * bytes)) (o : rp) : bool :=
  let '(RP m from meta _ _ _ _ _) := o in
  let img := match m with
             | MNone => map snd files
             | MTrunc k => truncate_files k files
             | MFlip fi i bit => flip_files (Z.to_nat fi) (Z.to_nat i) bit (map snd files)
             end in
  (* faithful model first; the repairs (levRotateTo.Crc32 check, chunk chain check, chain check also after a chunk without
     levRotateTo, incomplete header skipped) is accepted too (dual model); evaluated lazily *)
  first_ok (fun v => let '(a, b, e, c) := v in rres_ok expected (replay4 a b e c umagic schema img from meta) o)
           [(true, true, false, false); (false, false, false, false); (true, true, true, false); (true, true, false, true);
            (true, true, true, true); (true, false, false, false); (true, false, false, true); (false, false, false, true)].

Fixpoint files_eqb (a : list (Z * bytes)) (b : list (Z * list seg)) : bool :=
  match a, b with
  | [], [] => true
  | (s, c) :: a', (s', c') :: b' => (s =? s') && list_eqb c (expand c') && files_eqb a' b'
  | _, _ => false
  end.

Definition ok (c : case) : bool :=
  match c with
  | CHist chunk umagic schema hdr ops o_offs o_files o_commits o_badoff rps =>
      let hdrb := expand hdr in
      let bodies := map (fun o => let '(framed, p, a) := o in
                                  let pb := expand p in ((if framed : bool then frame umagic pb else pb), mk_aux a)) ops in
      let w0 := w_init hdrb in
      let sts := w_states chunk w0 bodies in
      let wf := last sts w0 in
      let offs := map w_off sts in
      let starts := len hdrb :: offs in
      let expected := combine starts (map (fun o => let '(_, p, _) := o in expand p) ops) in
      let bounds := (len hdrb, w_crc w0) :: map (fun w => (w_off w, w_crc w)) sts in
      let files := files_of wf in
      list_eqb offs o_offs
      && files_eqb files o_files
      && forallb (fun pc => existsb (fun b => (fst b =? fst pc) && (snd b =? snd pc)) bounds) o_commits
      && forallb (fun ob => match w_try_append chunk wf (fst ob) [] (mk_aux (0, 0, 0, 0)) with
                            | Some _ => snd ob | None => negb (snd ob) end) o_badoff
      && forallb (rp_ok umagic schema files expected) rps
  end.

Definition mism := mismatches ok.
