(* C18 — executable byte-level model of internal/vkgo/binlog/fsbinlog.
   Writer: fsBinlog.putLevToBuffer + buffExchange.appendLevUnsafe/updatePos/rotateFile + binlogWriter.writeBuffer/rotate
   (what ends up in which file), binlogWriter.loop (take buffer / write / fsync+Commit).
   Reader: binlogReader.readAllFromPosition / readBinlogFromFile / readUncompressedFile / readAndUpdateCRCIfNeed,
   ScanForFilesFromPos + readBinlogHeader, getBinlogIndexByPosition.
   Engine: the harness engine (a recorder): frame = le32 umagic ++ le32 len ++ body, padded to 4; it tracks its own offset.
   Bytes are Z in 0..255.  Lev timestamps and the md5-derived file hashes are inputs (taken from the written files).
   Two booleans select repaired variants of the reader (dual model, see Props/C18.v):
     fx_rot  : verify levRotateTo.Crc32 against the running crc AND the next chunk's levRotateFrom.Crc32 against the crc
               of the log including that levRotateTo record (the code does neither: finding F-C18a)
     fx_hdr  : skip a chunk file whose 36-byte header is incomplete (the code fails the whole scan / panics: F-C18b) *)
From Coq Require Import ZArith List Bool Lia.
From SH Require Import Common.Wrap.
Import ListNotations.
Open Scope Z_scope.

Definition bytes := list Z.
Definition len (bs : bytes) : Z := Z.of_nat (length bs).
Definition takez (n : Z) (bs : bytes) : bytes := firstn (Z.to_nat n) bs.
Definition dropz (n : Z) (bs : bytes) : bytes := skipn (Z.to_nat n) bs.

(* ---------- CRC-32 (IEEE, reflected), hash/crc32.Update ---------- *)
Definition poly : Z := 3988292384.      (* 0xEDB88320 *)
Definition mask32 : Z := 4294967295.
Definition crc_step (s : Z) : Z := if Z.odd s then Z.lxor (Z.shiftr s 1) poly else Z.shiftr s 1.
Definition crc_step8 (s : Z) : Z :=
  crc_step (crc_step (crc_step (crc_step (crc_step (crc_step (crc_step (crc_step s))))))).
Definition crc_byte_bits (s b : Z) : Z := crc_step8 (Z.lxor s b).     (* the definition: 8 LFSR steps *)
(* the byte-at-a-time table form used by hash/crc32 (and by vm_compute); Proofs.v: crc_byte = crc_byte_bits on 32-bit states *)
Definition crc_tab (i : Z) : Z :=
  match i with
  | 0 => 0 | 1 => 1996959894 | 2 => 3993919788 | 3 => 2567524794
  | 4 => 124634137 | 5 => 1886057615 | 6 => 3915621685 | 7 => 2657392035
  | 8 => 249268274 | 9 => 2044508324 | 10 => 3772115230 | 11 => 2547177864
  | 12 => 162941995 | 13 => 2125561021 | 14 => 3887607047 | 15 => 2428444049
  | 16 => 498536548 | 17 => 1789927666 | 18 => 4089016648 | 19 => 2227061214
  | 20 => 450548861 | 21 => 1843258603 | 22 => 4107580753 | 23 => 2211677639
  | 24 => 325883990 | 25 => 1684777152 | 26 => 4251122042 | 27 => 2321926636
  | 28 => 335633487 | 29 => 1661365465 | 30 => 4195302755 | 31 => 2366115317
  | 32 => 997073096 | 33 => 1281953886 | 34 => 3579855332 | 35 => 2724688242
  | 36 => 1006888145 | 37 => 1258607687 | 38 => 3524101629 | 39 => 2768942443
  | 40 => 901097722 | 41 => 1119000684 | 42 => 3686517206 | 43 => 2898065728
  | 44 => 853044451 | 45 => 1172266101 | 46 => 3705015759 | 47 => 2882616665
  | 48 => 651767980 | 49 => 1373503546 | 50 => 3369554304 | 51 => 3218104598
  | 52 => 565507253 | 53 => 1454621731 | 54 => 3485111705 | 55 => 3099436303
  | 56 => 671266974 | 57 => 1594198024 | 58 => 3322730930 | 59 => 2970347812
  | 60 => 795835527 | 61 => 1483230225 | 62 => 3244367275 | 63 => 3060149565
  | 64 => 1994146192 | 65 => 31158534 | 66 => 2563907772 | 67 => 4023717930
  | 68 => 1907459465 | 69 => 112637215 | 70 => 2680153253 | 71 => 3904427059
  | 72 => 2013776290 | 73 => 251722036 | 74 => 2517215374 | 75 => 3775830040
  | 76 => 2137656763 | 77 => 141376813 | 78 => 2439277719 | 79 => 3865271297
  | 80 => 1802195444 | 81 => 476864866 | 82 => 2238001368 | 83 => 4066508878
  | 84 => 1812370925 | 85 => 453092731 | 86 => 2181625025 | 87 => 4111451223
  | 88 => 1706088902 | 89 => 314042704 | 90 => 2344532202 | 91 => 4240017532
  | 92 => 1658658271 | 93 => 366619977 | 94 => 2362670323 | 95 => 4224994405
  | 96 => 1303535960 | 97 => 984961486 | 98 => 2747007092 | 99 => 3569037538
  | 100 => 1256170817 | 101 => 1037604311 | 102 => 2765210733 | 103 => 3554079995
  | 104 => 1131014506 | 105 => 879679996 | 106 => 2909243462 | 107 => 3663771856
  | 108 => 1141124467 | 109 => 855842277 | 110 => 2852801631 | 111 => 3708648649
  | 112 => 1342533948 | 113 => 654459306 | 114 => 3188396048 | 115 => 3373015174
  | 116 => 1466479909 | 117 => 544179635 | 118 => 3110523913 | 119 => 3462522015
  | 120 => 1591671054 | 121 => 702138776 | 122 => 2966460450 | 123 => 3352799412
  | 124 => 1504918807 | 125 => 783551873 | 126 => 3082640443 | 127 => 3233442989
  | 128 => 3988292384 | 129 => 2596254646 | 130 => 62317068 | 131 => 1957810842
  | 132 => 3939845945 | 133 => 2647816111 | 134 => 81470997 | 135 => 1943803523
  | 136 => 3814918930 | 137 => 2489596804 | 138 => 225274430 | 139 => 2053790376
  | 140 => 3826175755 | 141 => 2466906013 | 142 => 167816743 | 143 => 2097651377
  | 144 => 4027552580 | 145 => 2265490386 | 146 => 503444072 | 147 => 1762050814
  | 148 => 4150417245 | 149 => 2154129355 | 150 => 426522225 | 151 => 1852507879
  | 152 => 4275313526 | 153 => 2312317920 | 154 => 282753626 | 155 => 1742555852
  | 156 => 4189708143 | 157 => 2394877945 | 158 => 397917763 | 159 => 1622183637
  | 160 => 3604390888 | 161 => 2714866558 | 162 => 953729732 | 163 => 1340076626
  | 164 => 3518719985 | 165 => 2797360999 | 166 => 1068828381 | 167 => 1219638859
  | 168 => 3624741850 | 169 => 2936675148 | 170 => 906185462 | 171 => 1090812512
  | 172 => 3747672003 | 173 => 2825379669 | 174 => 829329135 | 175 => 1181335161
  | 176 => 3412177804 | 177 => 3160834842 | 178 => 628085408 | 179 => 1382605366
  | 180 => 3423369109 | 181 => 3138078467 | 182 => 570562233 | 183 => 1426400815
  | 184 => 3317316542 | 185 => 2998733608 | 186 => 733239954 | 187 => 1555261956
  | 188 => 3268935591 | 189 => 3050360625 | 190 => 752459403 | 191 => 1541320221
  | 192 => 2607071920 | 193 => 3965973030 | 194 => 1969922972 | 195 => 40735498
  | 196 => 2617837225 | 197 => 3943577151 | 198 => 1913087877 | 199 => 83908371
  | 200 => 2512341634 | 201 => 3803740692 | 202 => 2075208622 | 203 => 213261112
  | 204 => 2463272603 | 205 => 3855990285 | 206 => 2094854071 | 207 => 198958881
  | 208 => 2262029012 | 209 => 4057260610 | 210 => 1759359992 | 211 => 534414190
  | 212 => 2176718541 | 213 => 4139329115 | 214 => 1873836001 | 215 => 414664567
  | 216 => 2282248934 | 217 => 4279200368 | 218 => 1711684554 | 219 => 285281116
  | 220 => 2405801727 | 221 => 4167216745 | 222 => 1634467795 | 223 => 376229701
  | 224 => 2685067896 | 225 => 3608007406 | 226 => 1308918612 | 227 => 956543938
  | 228 => 2808555105 | 229 => 3495958263 | 230 => 1231636301 | 231 => 1047427035
  | 232 => 2932959818 | 233 => 3654703836 | 234 => 1088359270 | 235 => 936918000
  | 236 => 2847714899 | 237 => 3736837829 | 238 => 1202900863 | 239 => 817233897
  | 240 => 3183342108 | 241 => 3401237130 | 242 => 1404277552 | 243 => 615818150
  | 244 => 3134207493 | 245 => 3453421203 | 246 => 1423857449 | 247 => 601450431
  | 248 => 3009837614 | 249 => 3294710456 | 250 => 1567103746 | 251 => 711928724
  | 252 => 3020668471 | 253 => 3272380065 | 254 => 1510334235 | 255 => 755167117
  | _ => 0
  end.
Definition crc_byte (s b : Z) : Z := Z.lxor (crc_tab (Z.land (Z.lxor s b) 255)) (Z.shiftr s 8).
Definition crc_raw (s : Z) (bs : bytes) : Z := fold_left crc_byte bs s.
Definition crc_update (c : Z) (bs : bytes) : Z := Z.lxor (crc_raw (Z.lxor c mask32) bs) mask32.

(* ---------- little-endian fields ---------- *)
Definition le32 (x : Z) : bytes := [x mod 256; (x / 256) mod 256; (x / 65536) mod 256; (x / 16777216) mod 256].
Definition le64 (x : Z) : bytes := le32 (x mod two32) ++ le32 ((x / two32) mod two32).
Definition rd32 (bs : bytes) : Z :=
  match bs with b0 :: b1 :: b2 :: b3 :: _ => b0 + 256 * b1 + 65536 * b2 + 16777216 * b3 | _ => 0 end.
Definition rd64 (bs : bytes) : Z := rd32 bs + two32 * rd32 (skipn 4 bs).

Definition pad4 (n : Z) : Z := (n + 3) / 4 * 4.          (* AddPadding *)
Definition padz (bs : bytes) : bytes := bs ++ repeat 0 (Z.to_nat (pad4 (len bs) - len bs)).

(* ---------- lev magics (lev_definitions.go, constants.go) ---------- *)
Definition M_START : Z := 72115275.      (* 0x044c644b *)
Definition M_CRC : Z := 71520835.        (* 0x04435243 *)
Definition M_ROTFROM : Z := 74599634.    (* 0x04724cd2 *)
Definition M_ROTTO : Z := 71715954.      (* 0x04464c72 *)
Definition M_TAG : Z := 71786836.        (* 0x04476154 *)
Definition M_TS : Z := 81342888.         (* 0x04d931a8 *)
Definition M_ZIP : Z := 75123787.        (* 0x047a4c4b *)
Definition M_CFGVAL : Z := 3778268429.   (* 0xe133cd0d *)
Definition M_CFGARR : Z := 3816150184.   (* 0xe375d4a8 *)
Definition M_UPGRADE : Z := 3075475872.  (* 0xb75009a0 *)
Definition CRC_EVERY : Z := 65536.       (* writeCrcEveryBytes *)
Definition CRC_SIZE : Z := 20.
Definition ROT_SIZE : Z := 36.
Definition START_SIZE : Z := 24.

Definition enc_crc (ts pos crc : Z) : bytes := le32 M_CRC ++ le32 ts ++ le64 pos ++ le32 crc.
Definition enc_rot (m ts pos crc h1 h2 : Z) : bytes := le32 m ++ le32 ts ++ le64 pos ++ le32 crc ++ le64 h1 ++ le64 h2.
(* the harness engine's event frame *)
Definition frame (umagic : Z) (body : bytes) : bytes := le32 umagic ++ le32 (len body) ++ body.

(* ---------- writer: putLevToBuffer ---------- *)
Record aux := { a_tsc : Z; a_tsr : Z; a_hcur : Z; a_hnext : Z }.

Record wst := {
  w_crc : Z; w_off : Z; w_lastcrc : Z; w_fstart : Z; w_first : bool; w_hash : Z;
  w_files : list (Z * bytes)          (* newest first; head = file being written; (global start position, content) *)
}.

Definition w_init (hdr : bytes) : wst :=
  {| w_crc := crc_update 0 hdr; w_off := len hdr; w_lastcrc := len hdr; w_fstart := 0; w_first := true; w_hash := 0;
     w_files := [(0, hdr)] |}.

Definition add_to_head (fs : list (Z * bytes)) (p : bytes) : list (Z * bytes) :=
  match fs with (s, c) :: r => (s, c ++ p) :: r | [] => [(0, p)] end.

(* appendLevUnsafe + updatePos: data padded to 4, crc and offsets advance *)
Definition emit (w : wst) (data : bytes) : wst :=
  let p := padz data in
  {| w_crc := crc_update (w_crc w) p; w_off := w_off w + len p; w_lastcrc := w_lastcrc w; w_fstart := w_fstart w;
     w_first := w_first w; w_hash := w_hash w; w_files := add_to_head (w_files w) p |}.

Definition w_crclev (a : aux) (w : wst) : wst :=
  if w_off w - w_lastcrc w >=? CRC_EVERY then
    let w' := emit w (enc_crc (a_tsc a) (w_off w) (w_crc w)) in
    {| w_crc := w_crc w'; w_off := w_off w'; w_lastcrc := w_off w'; w_fstart := w_fstart w'; w_first := w_first w';
       w_hash := w_hash w'; w_files := w_files w' |}
  else w.

Definition w_rotate (chunk : Z) (a : aux) (w : wst) : wst :=
  if w_off w - w_fstart w >=? chunk then
    let nextpos := w_off w + ROT_SIZE in
    let hcur := if w_first w then a_hcur a else w_hash w in
    let w3 := emit w (enc_rot M_ROTTO (a_tsr a) nextpos (w_crc w) hcur (a_hnext a)) in
    let w4 := {| w_crc := w_crc w3; w_off := w_off w3; w_lastcrc := w_lastcrc w3; w_fstart := w_fstart w3;
                 w_first := w_first w3; w_hash := w_hash w3; w_files := (nextpos, []) :: w_files w3 |} in
    let w5 := emit w4 (enc_rot M_ROTFROM (a_tsr a) nextpos (w_crc w4) hcur (a_hnext a)) in
    {| w_crc := w_crc w5; w_off := w_off w5; w_lastcrc := w_lastcrc w5; w_fstart := w_off w5 - ROT_SIZE;
       w_first := false; w_hash := a_hnext a; w_files := w_files w5 |}
  else w.

Definition w_append (chunk : Z) (w : wst) (body : bytes) (a : aux) : wst :=
  w_rotate chunk a (w_crclev a (emit w body)).

(* Append(onOffset, body): offset check, then the returned offset is the position after all system levs *)
Definition w_try_append (chunk : Z) (w : wst) (on : Z) (body : bytes) (a : aux) : option (wst * Z) :=
  if on =? w_off w then let w' := w_append chunk w body a in Some (w', w_off w') else None.

(* a history of appends at the right offsets: the states after each append; final state and the returned offsets *)
Fixpoint w_states (chunk : Z) (w : wst) (ops : list (bytes * aux)) : list wst :=
  match ops with
  | [] => []
  | (b, a) :: r => let w' := w_append chunk w b a in w' :: w_states chunk w' r
  end.
Definition w_run (chunk : Z) (w : wst) (ops : list (bytes * aux)) : wst * list Z :=
  let sts := w_states chunk w ops in (last sts w, map w_off sts).

Definition files_of (w : wst) : list (Z * bytes) := rev (w_files w).   (* oldest first *)
Definition image_of (w : wst) : list bytes := map snd (files_of w).

(* ---------- writer goroutine: binlogWriter.loop as atomic steps ---------- *)
(* user side: bytes appended to the exchange buffer; writer side: take (replaceBuff), write, fsync+Commit *)
Record lst := { l_buf_end : Z;      (* buffExchange.rd.offsetGlobal: everything appended so far *)
                l_taken : Z;        (* rd.offsetGlobal of the last replaceBuff *)
                l_written : Z;      (* global position up to which bytes were handed to Write *)
                l_synced : Z;       (* global position covered by the last successful fsync *)
                l_commits : list Z  (* Commit offsets, newest first *) }.
Inductive lstep := LAppend (n : Z) | LTakeWrite | LSyncCommit.
Definition l_step (s : lst) (e : lstep) : lst :=
  match e with
  | LAppend n => {| l_buf_end := l_buf_end s + Z.max 0 n; l_taken := l_taken s; l_written := l_written s; l_synced := l_synced s; l_commits := l_commits s |}
  | LTakeWrite => {| l_buf_end := l_buf_end s; l_taken := l_buf_end s; l_written := l_buf_end s; l_synced := l_synced s; l_commits := l_commits s |}
  | LSyncCommit => {| l_buf_end := l_buf_end s; l_taken := l_taken s; l_written := l_written s; l_synced := l_written s;
                      l_commits := l_taken s :: l_commits s |}
  end.
Definition l_init (p : Z) : lst := {| l_buf_end := p; l_taken := p; l_written := p; l_synced := p; l_commits := [p] |}.

(* ---------- engine + reader ---------- *)
Inductive event := EvApply (off : Z) (body : bytes) | EvSkip (off n : Z) | EvCommit (pos crc ts : Z).

Inductive rerr := ENone | ECrc | EUnknownMagic | ESkipMismatch | EZip | ECfgArr | EUpgrade | ESeek | ESeekCrc
                | EMetaPos | EApplyProto | EScan | EFromTooSmall | ENotFound | EFuel | EUnmodelled | EPanic.

Record rst := { r_pos : Z; r_crc : Z; r_ts : Z; r_eoff : Z; r_cpos : Z (* commitPos of makeCommit *); r_ev : list event (* newest first *);
                r_rot : option Z (* set when the file ended with levRotateTo: the crc of the log including that record *) }.

Inductive lev :=
| LService (n : Z) (ts : option Z)      (* system lev of n bytes that is skipped *)
| LCrc (ts crc : Z)
| LRotTo (crc : Z)
| LUser (body : bytes) (n : Z)           (* engine parsed one event, consumed n (unpadded) *)
| LNeed                                  (* ErrorNotEnoughData *)
| LErr (e : rerr).

Definition aligned (bs : bytes) : bytes := takez (len bs - len bs mod 4) bs.

(* the harness engine's Apply on the aligned buffer *)
Definition eng_parse (umagic : Z) (avail : bytes) : lev :=
  if len avail <? 4 then LNeed
  else if negb (rd32 avail =? umagic) then LErr EUnknownMagic
  else if len avail <? 8 then LNeed
  else let n := rd32 (skipn 4 avail) in
       if len avail - 8 <? n then LNeed else LUser (takez n (skipn 8 avail)) (8 + n).

(* dispatch of readUncompressedFile on the bytes at the current position *)
Definition classify (umagic : Z) (rest : bytes) : lev :=
  if len rest <? 4 then LNeed
  else let m := rd32 rest in
  if m =? M_START then (if len rest <? START_SIZE then LNeed else LService START_SIZE None)
  else if m =? M_ROTFROM then (if len rest <? ROT_SIZE then LNeed else LService ROT_SIZE (Some (rd32 (skipn 4 rest))))
  else if m =? M_ZIP then LErr EZip
  else if m =? M_TAG then (if len rest <? 20 then LNeed else LService 20 None)
  else if m =? M_CRC then (if len rest <? CRC_SIZE then LNeed else LCrc (rd32 (skipn 4 rest)) (rd32 (skipn 16 rest)))
  else if m =? M_TS then (if len rest <? 8 then LNeed else LService 8 (Some (rd32 (skipn 4 rest))))
  else if m =? M_ROTTO then (if len rest <? ROT_SIZE then LNeed else LRotTo (rd32 (skipn 16 rest)))
  else if m =? M_CFGVAL then LErr EUnmodelled
  else if m =? M_CFGARR then LErr ECfgArr
  else if m =? M_UPGRADE then LErr EUnmodelled
  else eng_parse umagic (aligned rest).

Definition do_commit (st : rst) : rst :=          (* makeCommit *)
  if r_cpos st =? r_pos st then st
  else {| r_pos := r_pos st; r_crc := r_crc st; r_ts := r_ts st; r_eoff := r_eoff st; r_cpos := r_pos st;
          r_ev := EvCommit (r_pos st) (r_crc st) (r_ts st) :: r_ev st; r_rot := r_rot st |}.

(* Engine.Skip(n) is always called (and recorded by the engine); None-like flag false = the position it returns differs
   from the reader's: the caller stops with ESkipMismatch *)
Definition do_skip (st : rst) (n : Z) (ts : option Z) (rest : bytes) : rst * bool :=
  if r_eoff st + n =? r_pos st + n then
    ({| r_pos := r_pos st + n; r_crc := crc_update (r_crc st) (takez n rest);
        r_ts := match ts with Some t => t | None => r_ts st end;
        r_eoff := r_eoff st + n; r_cpos := r_cpos st; r_ev := EvSkip (r_eoff st) n :: r_ev st; r_rot := r_rot st |}, true)
  else ({| r_pos := r_pos st; r_crc := r_crc st; r_ts := r_ts st; r_eoff := r_eoff st + n; r_cpos := r_cpos st;
           r_ev := EvSkip (r_eoff st) n :: r_ev st; r_rot := r_rot st |}, false).

(* one file from the current position to EOF / RotateTo; returns (state, error) *)
Fixpoint read_loop (fx_rot : bool) (umagic : Z) (fuel : nat) (st : rst) (rest : bytes) : rst * rerr :=
  match fuel with
  | O => (st, EFuel)
  | S f =>
    match classify umagic rest with
    | LNeed => (do_commit st, ENone)                                  (* EOF: commit and stop this file *)
    | LErr e => (st, e)
    | LService n ts =>
        match do_skip st n ts rest with
        | (st', true) => read_loop fx_rot umagic f st' (dropz n rest)
        | (st', false) => (st', ESkipMismatch)
        end
    | LCrc ts crc =>
        if negb (crc =? r_crc st) then (st, ECrc)
        else match do_skip st CRC_SIZE (Some ts) rest with
             | (st', true) => read_loop fx_rot umagic f st' (dropz CRC_SIZE rest)
             | (st', false) => (st', ESkipMismatch)
             end
    | LRotTo crc =>
        if fx_rot && negb (crc =? r_crc st) then (st, ECrc)
        else match do_skip st ROT_SIZE None rest with
             | (st', true) =>                                             (* finish = true: the loop exits BEFORE curPos/crc advance *)
                 (do_commit {| r_pos := r_pos st; r_crc := r_crc st; r_ts := r_ts st; r_eoff := r_eoff st';
                               r_cpos := r_cpos st; r_ev := r_ev st';
                               r_rot := Some (crc_update (r_crc st) (takez ROT_SIZE rest)) |}, ENone)
             | (st', false) => (st', ESkipMismatch)
             end
    | LUser body n =>
        let newpos := r_eoff st + pad4 n in            (* the engine returns its own offset + padded size *)
        if newpos <? r_pos st then (st, EApplyProto)
        else let rb0 := newpos - r_pos st in
        if (len (aligned rest) <? rb0) || (rb0 <=? 0) then (st, EApplyProto)
        else
          let rb := pad4 rb0 in
          let st' := {| r_pos := r_pos st + rb; r_crc := crc_update (r_crc st) (takez rb rest); r_ts := r_ts st;
                        r_eoff := newpos; r_cpos := r_cpos st; r_ev := EvApply (r_eoff st) body :: r_ev st; r_rot := r_rot st |} in
          read_loop fx_rot umagic f st' (dropz rb rest)
    end
  end.

(* readAndUpdateCRCIfNeed: (pos, crc, ts, rest) or error *)
Definition meta := (Z * Z * Z)%type.     (* CommitPosition, CommitCrc, CommitTs *)
Definition seek (pos crc ts start : Z) (si : option meta) (bs : bytes) : (Z * Z * Z * bytes) + rerr :=
  let r1 :=
    match si with
    | Some (mp, mc, mt) =>
        if start <? mp then inr EMetaPos
        else if pos <=? mp then
          let k := mp - pos in
          if len bs <? k then inr ESeek
          else if negb (crc_update crc (takez k bs) =? mc) then inr ESeekCrc
          else inl (mp, mc, mt, dropz k bs)
        else inl (pos, crc, ts, bs)
    | None => inl (pos, crc, ts, bs)
    end in
  match r1 with
  | inr e => inr e
  | inl (p, c, t, b) =>
      if p <? start then
        let k := start - p in
        if len b <? k then inr ESeek else inl (start, crc_update c (takez k b), t, dropz k b)
      else inl (p, c, t, b)
  end.

(* file headers: readBinlogHeader *)
Record hdr := { h_pos : Z; h_crc : Z; h_bytes : bytes }.
Inductive hres := HOk (h : hdr) | HShort (panics : bool) | HBad.
Definition read_header (schema : Z) (bs : bytes) : hres :=
  if len bs <? 4 then HShort (0 <? len bs)        (* 1..3 bytes: binary.LittleEndian.Uint32 panics *)
  else let m := rd32 bs in
  if m =? M_START then
    (if len bs <? START_SIZE then HBad
     else if negb (schema =? 0) && negb (rd32 (skipn 4 bs) =? schema) then HBad
     else HOk {| h_pos := 0; h_crc := 0; h_bytes := bs |})
  else if m =? M_ROTFROM then
    (if len bs <? ROT_SIZE then HShort false
     else HOk {| h_pos := i64 (rd64 (skipn 8 bs)); h_crc := rd32 (skipn 16 bs); h_bytes := bs |})
  else HBad.

Fixpoint insert_hdr (h : hdr) (l : list hdr) : list hdr :=
  match l with
  | [] => [h]
  | x :: r => if h_pos h <? h_pos x then h :: x :: r else x :: insert_hdr h r
  end.

(* ScanForFilesFromPos(.., 0, ..): every file's header must parse.  With fx_hdr a chunk file whose header is incomplete
   (empty, 1..3 bytes, or a levRotateFrom shorter than 36 bytes: it cannot hold any event) is skipped. *)
Fixpoint scan (fx_hdr : bool) (schema : Z) (files : list bytes) : list hdr + rerr :=
  match files with
  | [] => inl []
  | f :: r =>
      match read_header schema f with
      | HOk h => match scan fx_hdr schema r with inl l => inl (insert_hdr h l) | inr e => inr e end
      | HShort p => if fx_hdr then scan fx_hdr schema r else inr (if p then EPanic else EScan)
      | HBad => inr EScan
      end
  end.

(* getBinlogIndexByPosition *)
Fixpoint index_by_pos_from (position : Z) (i idx : nat) (l : list hdr) : nat :=
  match l with
  | [] => idx
  | h :: r => if position <? h_pos h then idx else index_by_pos_from position (S i) i r
  end.
Definition index_by_pos (position : Z) (l : list hdr) : nat := index_by_pos_from position 0 0 l.

Record rres := { rr_ev : list event (* oldest first *); rr_err : rerr; rr_pos : Z; rr_crc : Z }.

(* the loop over files of readAllFromPosition.  [chain] = crc of the log up to and including the levRotateTo that ended the
   previous file; the repaired reader (fx_chain) requires the next chunk's levRotateFrom.Crc32 to equal it.  With fx_eof
   a chunk that ended at end of file WITHOUT a levRotateTo also hands its final crc to that comparison (F-C18c) *)
Fixpoint read_files (fx_rot fx_chain fx_eof : bool) (umagic : Z) (hs : list hdr) (from : Z) (si : option meta) (eoff ts : Z)
         (ev : list event) (pos_after crc_after : Z) (chain : option Z) : rres :=
  match hs with
  | [] => {| rr_ev := rev ev; rr_err := ENone; rr_pos := pos_after; rr_crc := crc_after |}
  | h :: r =>
      if fx_chain && match chain with Some c => negb (h_crc h =? c) | None => false end
      then {| rr_ev := rev ev; rr_err := ECrc; rr_pos := pos_after; rr_crc := crc_after |}
      else
      match seek (h_pos h) (h_crc h) ts from si (h_bytes h) with
      | inr e => {| rr_ev := rev ev; rr_err := e; rr_pos := pos_after; rr_crc := crc_after |}
      | inl (p, c, t, rest) =>
          let st := {| r_pos := p; r_crc := c; r_ts := t; r_eoff := eoff; r_cpos := 0; r_ev := ev; r_rot := None |} in
          let '(st', e) := read_loop fx_rot umagic (S (length rest)) st rest in
          match e with
          | ENone => read_files fx_rot fx_chain fx_eof umagic r 0 None (r_eoff st') (r_ts st') (r_ev st') (r_pos st') (r_crc st')
                       (match r_rot st' with Some c => Some c | None => if fx_eof then Some (r_crc st') else None end)
          | _ => {| rr_ev := rev (r_ev st'); rr_err := e; rr_pos := pos_after; rr_crc := crc_after |}
          end
      end
  end.

Definition replay4 (fx_rot fx_chain fx_eof fx_hdr : bool) (umagic schema : Z) (files : list bytes) (from : Z) (si : option meta) : rres :=
  match scan fx_hdr schema files with
  | inr e => {| rr_ev := []; rr_err := e; rr_pos := 0; rr_crc := 0 |}
  | inl [] => {| rr_ev := []; rr_err := ENotFound; rr_pos := 0; rr_crc := 0 |}
  | inl (h0 :: hs) =>
      if from <? h_pos h0 then {| rr_ev := []; rr_err := EFromTooSmall; rr_pos := 0; rr_crc := 0 |}
      else
        let all := h0 :: hs in
        let fi := index_by_pos from all in
        let si' := match si with
                   | Some (mp, mc, mt) => if negb (Nat.eqb (index_by_pos mp all) fi) || (from <? mp) then None else si
                   | None => None
                   end in
        read_files fx_rot fx_chain fx_eof umagic (skipn fi all) from si' from 0 [] 0 0 None
  end.

Definition replay3 (fx_rot fx_chain fx_hdr : bool) := replay4 fx_rot fx_chain false fx_hdr.
(* the two halves of the F-C18a repair go together: fx_rot = both checks *)
Definition replay (fx_rot fx_hdr : bool) (umagic schema : Z) (files : list bytes) (from : Z) (si : option meta) : rres :=
  replay3 fx_rot fx_rot fx_hdr umagic schema files from si.

(* ---------- damage ---------- *)
(* Truncate k: the global byte stream is cut at position k: later files disappear, the file containing k is cut *)
Fixpoint truncate_files (k : Z) (fs : list (Z * bytes)) : list bytes :=
  match fs with
  | [] => []
  | (s, c) :: r => if k <=? s then [] else takez (k - s) c :: truncate_files k r
  end.

Fixpoint flip_byte (i : nat) (bit : Z) (bs : bytes) : bytes :=
  match bs, i with
  | [], _ => []
  | b :: r, O => Z.lxor b (2 ^ bit) :: r
  | b :: r, S j => b :: flip_byte j bit r
  end.
(* flip bit [bit] (0..7) of byte [i] of file [fi] *)
Fixpoint flip_files (fi : nat) (i : nat) (bit : Z) (fs : list bytes) : list bytes :=
  match fs, fi with
  | [], _ => []
  | f :: r, O => flip_byte i bit f :: r
  | f :: r, S j => f :: flip_files j i bit r
  end.

Definition applies (evs : list event) : list (Z * bytes) :=
  flat_map (fun e => match e with EvApply o b => [(o, b)] | _ => [] end) evs.
