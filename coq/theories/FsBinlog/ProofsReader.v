(* C18 — the reader inverts the writer's encoding, record by record, and along whole record streams of one chunk. *)
From Coq Require Import ZArith List Bool Lia.
From SH Require Import Common.Wrap FsBinlog.Model FsBinlog.ProofsCrc.
Import ListNotations.
Open Scope Z_scope.

(* ---------- lengths, padding ---------- *)
Lemma len_app a b : len (a ++ b) = len a + len b.
Proof. unfold len. rewrite app_length. lia. Qed.
Lemma len_nonneg a : 0 <= len a.
Proof. unfold len. lia. Qed.
Lemma len_le32 x : len (le32 x) = 4.
Proof. reflexivity. Qed.
Lemma len_repeat (x : Z) n : len (repeat x n) = Z.of_nat n.
Proof. unfold len. rewrite repeat_length. reflexivity. Qed.

Lemma pad4_bounds n : n <= pad4 n < n + 4.
Proof. unfold pad4. Z.div_mod_to_equations. lia. Qed.
Lemma pad4_mod n : pad4 n mod 4 = 0.
Proof. unfold pad4. apply Z_mod_mult. Qed.
Lemma pad4_of_mult n : n mod 4 = 0 -> pad4 n = n.
Proof. unfold pad4. intros H. Z.div_mod_to_equations. lia. Qed.
Lemma pad4_idem n : pad4 (pad4 n) = pad4 n.
Proof. apply pad4_of_mult. apply pad4_mod. Qed.

Lemma len_padz bs : len (padz bs) = pad4 (len bs).
Proof.
  unfold padz. rewrite len_app, len_repeat. pose proof (pad4_bounds (len bs)). rewrite Z2Nat.id by lia. lia.
Qed.

Lemma takez_app_exact a b : takez (len a) (a ++ b) = a.
Proof.
  unfold takez, len. rewrite Nat2Z.id. rewrite firstn_app, Nat.sub_diag, firstn_all. simpl. apply app_nil_r.
Qed.
Lemma dropz_app_exact a b : dropz (len a) (a ++ b) = b.
Proof.
  unfold dropz, len. rewrite Nat2Z.id. rewrite skipn_app, Nat.sub_diag, skipn_all. reflexivity.
Qed.

Lemma rd32_le32 x rest : 0 <= x < two32 -> rd32 (le32 x ++ rest) = x.
Proof.
  intros H. unfold le32, rd32, two32 in *. cbn [app].
  replace (x / 65536) with (x / 256 / 256) by (rewrite Z.div_div by lia; reflexivity).
  replace (x / 16777216) with (x / 256 / 256 / 256) by (rewrite !Z.div_div by lia; reflexivity).
  pose proof (Z.div_mod x 256 ltac:(lia)). pose proof (Z.div_mod (x/256) 256 ltac:(lia)). pose proof (Z.div_mod (x/256/256) 256 ltac:(lia)).
  assert (0 <= x / 256 / 256 / 256 < 256).
  { split. repeat apply Z.div_pos; lia. repeat (apply Z.div_lt_upper_bound; try lia). }
  rewrite (Z.mod_small (x/256/256/256) 256) by lia. lia.
Qed.

Lemma aligned_app a b : len a mod 4 = 0 -> aligned (a ++ b) = a ++ aligned b.
Proof.
  intros H. unfold aligned. rewrite len_app.
  replace ((len a + len b) mod 4) with (len b mod 4).
  2:{ rewrite Z.add_mod by lia. rewrite H. simpl. rewrite Z.mod_mod by lia. reflexivity. }
  pose proof (Z.mod_pos_bound (len b) 4 ltac:(lia)). pose proof (len_nonneg b). pose proof (len_nonneg a).
  pose proof (Z.mod_le (len b) 4 ltac:(lia) ltac:(lia)).
  unfold takez. replace (Z.to_nat (len a + len b - len b mod 4)) with (length a + Z.to_nat (len b - len b mod 4))%nat.
  - apply firstn_app_2.
  - unfold len in *. lia.
Qed.

(* ---------- the engine frame ---------- *)
Definition user_magic_ok (u : Z) : Prop :=
  0 <= u < two32 /\ u <> M_START /\ u <> M_ROTFROM /\ u <> M_ZIP /\ u <> M_TAG /\ u <> M_CRC /\ u <> M_TS /\
  u <> M_ROTTO /\ u <> M_CFGVAL /\ u <> M_CFGARR /\ u <> M_UPGRADE.

Definition fr (u : Z) (b : bytes) : bytes := padz (frame u b).     (* what the writer puts into the log *)

Lemma len_frame u b : len (frame u b) = 8 + len b.
Proof. unfold frame. rewrite !len_app, !len_le32. lia. Qed.
Lemma len_fr u b : len (fr u b) = pad4 (8 + len b).
Proof. unfold fr. rewrite len_padz, len_frame. reflexivity. Qed.

Lemma fr_shape u b : exists tail, fr u b = le32 u ++ le32 (len b) ++ b ++ tail.
Proof. unfold fr, padz, frame. eexists. rewrite <- !app_assoc. reflexivity. Qed.

Lemma eng_parse_frame u b tail : 0 <= u < two32 -> len b < two32 ->
  eng_parse u (le32 u ++ le32 (len b) ++ b ++ tail) = LUser b (8 + len b).
Proof.
  intros Hu Hb. unfold eng_parse. pose proof (len_nonneg b). pose proof (len_nonneg tail).
  assert (L : len (le32 u ++ le32 (len b) ++ b ++ tail) = 8 + len b + len tail) by (rewrite !len_app, !len_le32; lia).
  rewrite L. rewrite rd32_le32 by exact Hu.
  replace (8 + len b + len tail <? 4) with false by (symmetry; apply Z.ltb_ge; lia).
  rewrite Z.eqb_refl. simpl negb. cbv iota.
  replace (8 + len b + len tail <? 8) with false by (symmetry; apply Z.ltb_ge; lia).
  replace (skipn 4 (le32 u ++ le32 (len b) ++ b ++ tail)) with (le32 (len b) ++ b ++ tail) by reflexivity.
  rewrite rd32_le32 by lia.
  replace (8 + len b + len tail - 8 <? len b) with false by (symmetry; apply Z.ltb_ge; lia).
  replace (skipn 8 (le32 u ++ le32 (len b) ++ b ++ tail)) with (b ++ tail) by reflexivity.
  rewrite takez_app_exact. reflexivity.
Qed.

Lemma classify_frame u b rest : user_magic_ok u -> len b < two32 ->
  classify u (fr u b ++ rest) = LUser b (8 + len b).
Proof.
  intros (Hu & N1 & N2 & N3 & N4 & N5 & N6 & N7 & N8 & N9 & N10) Hb.
  unfold classify. pose proof (len_nonneg b). pose proof (len_nonneg rest). pose proof (pad4_bounds (8 + len b)).
  rewrite len_app, len_fr.
  replace (pad4 (8 + len b) + len rest <? 4) with false by (symmetry; apply Z.ltb_ge; lia).
  destruct (fr_shape u b) as [tail E].
  replace (rd32 (fr u b ++ rest)) with u.
  2:{ rewrite E, <- !app_assoc. rewrite rd32_le32 by exact Hu. reflexivity. }
  rewrite (proj2 (Z.eqb_neq _ _) N1), (proj2 (Z.eqb_neq _ _) N2), (proj2 (Z.eqb_neq _ _) N3), (proj2 (Z.eqb_neq _ _) N4),
          (proj2 (Z.eqb_neq _ _) N5), (proj2 (Z.eqb_neq _ _) N6), (proj2 (Z.eqb_neq _ _) N7), (proj2 (Z.eqb_neq _ _) N8),
          (proj2 (Z.eqb_neq _ _) N9), (proj2 (Z.eqb_neq _ _) N10).
  rewrite aligned_app by (rewrite len_fr; apply pad4_mod).
  rewrite E, <- !app_assoc. apply eng_parse_frame; assumption.
Qed.

Lemma read_loop_S fx umagic f st rest :
  read_loop fx umagic (S f) st rest =
    match classify umagic rest with
    | LNeed => (do_commit st, ENone)                                  (* EOF: commit and stop this file *)
    | LErr e => (st, e)
    | LService n ts =>
        match do_skip st n ts rest with
        | (st', true) => read_loop fx umagic f st' (dropz n rest)
        | (st', false) => (st', ESkipMismatch)
        end
    | LCrc ts crc =>
        if negb (crc =? r_crc st) then (st, ECrc)
        else match do_skip st CRC_SIZE (Some ts) rest with
             | (st', true) => read_loop fx umagic f st' (dropz CRC_SIZE rest)
             | (st', false) => (st', ESkipMismatch)
             end
    | LRotTo crc =>
        if fx && negb (crc =? r_crc st) then (st, ECrc)
        else match do_skip st ROT_SIZE None rest with
             | (st', true) =>                                             (* finish = true: the loop exits BEFORE curPos/crc advance *)
                 (do_commit {| r_pos := r_pos st; r_crc := r_crc st; r_ts := r_ts st; r_eoff := r_eoff st';
                               r_cpos := r_cpos st; r_ev := r_ev st';
                               r_rot := Some (crc_update (r_crc st) (takez ROT_SIZE rest)) |}, ENone)
             | (st', false) => (st', ESkipMismatch)
             end
    | LUser body n =>
        let newpos := r_eoff st + pad4 n in            (* the engine returns its own offset + padded size *)
        if newpos <? r_pos st then (st, EApplyProto)
        else let rb0 := newpos - r_pos st in
        if (len (aligned rest) <? rb0) || (rb0 <=? 0) then (st, EApplyProto)
        else
          let rb := pad4 rb0 in
          let st' := {| r_pos := r_pos st + rb; r_crc := crc_update (r_crc st) (takez rb rest); r_ts := r_ts st;
                        r_eoff := newpos; r_cpos := r_cpos st; r_ev := EvApply (r_eoff st) body :: r_ev st; r_rot := r_rot st |} in
          read_loop fx umagic f st' (dropz rb rest)
    end.
Proof. reflexivity. Qed.

(* one appended event is delivered exactly, at the engine's offset, and the reader's position and crc move over its frame *)
Lemma read_loop_user fx u f st b rest : user_magic_ok u -> len b < two32 -> r_eoff st = r_pos st ->
  read_loop fx u (S f) st (fr u b ++ rest) =
  read_loop fx u f {| r_pos := r_pos st + len (fr u b); r_crc := crc_update (r_crc st) (fr u b); r_ts := r_ts st;
                      r_eoff := r_pos st + len (fr u b); r_cpos := r_cpos st; r_ev := EvApply (r_pos st) b :: r_ev st; r_rot := r_rot st |} rest.
Proof.
  intros Hu Hb He. rewrite read_loop_S. rewrite classify_frame by assumption.
  pose proof (len_nonneg b). pose proof (pad4_bounds (8 + len b)). pose proof (len_nonneg (aligned rest)).
  cbv zeta. rewrite He.
  replace (r_pos st + pad4 (8 + len b) <? r_pos st) with false by (symmetry; apply Z.ltb_ge; lia).
  replace (r_pos st + pad4 (8 + len b) - r_pos st) with (pad4 (8 + len b)) by lia.
  rewrite aligned_app by (rewrite len_fr; apply pad4_mod). rewrite len_app, len_fr.
  replace (pad4 (8 + len b) + len (aligned rest) <? pad4 (8 + len b)) with false by (symmetry; apply Z.ltb_ge; lia).
  replace (pad4 (8 + len b) <=? 0) with false by (symmetry; apply Z.leb_gt; lia).
  cbn [orb]. rewrite pad4_idem. rewrite <- (len_fr u b).
  rewrite takez_app_exact, dropz_app_exact. reflexivity.
Qed.

(* ---------- levCrc32 ---------- *)
Lemma len_le64 x : len (le64 x) = 8.
Proof. reflexivity. Qed.
Lemma len_enc_crc ts pos crc : len (enc_crc ts pos crc) = 20.
Proof. reflexivity. Qed.

Lemma classify_crc u ts pos crc rest : 0 <= ts < two32 -> 0 <= crc < two32 ->
  classify u (enc_crc ts pos crc ++ rest) = LCrc ts crc.
Proof.
  intros Hts Hc. unfold classify. pose proof (len_nonneg rest). rewrite len_app, len_enc_crc.
  replace (20 + len rest <? 4) with false by (symmetry; apply Z.ltb_ge; lia).
  unfold enc_crc. rewrite <- !app_assoc. rewrite rd32_le32 by (unfold M_CRC, two32; lia).
  change (M_CRC =? M_START) with false. change (M_CRC =? M_ROTFROM) with false. change (M_CRC =? M_ZIP) with false.
  change (M_CRC =? M_TAG) with false. change (M_CRC =? M_CRC) with true. cbv iota.
  replace (20 + len rest <? CRC_SIZE) with false by (symmetry; apply Z.ltb_ge; unfold CRC_SIZE; lia).
  replace (skipn 4 (le32 M_CRC ++ le32 ts ++ le64 pos ++ le32 crc ++ rest)) with (le32 ts ++ le64 pos ++ le32 crc ++ rest) by reflexivity.
  replace (skipn 16 (le32 M_CRC ++ le32 ts ++ le64 pos ++ le32 crc ++ rest)) with (le32 crc ++ rest) by reflexivity.
  rewrite !rd32_le32 by assumption. reflexivity.
Qed.

(* a checksum record whose value differs from the reader's running crc stops the replay with a checksum error *)
Lemma read_loop_crc_mismatch fx u f st ts pos crc rest : 0 <= ts < two32 -> 0 <= crc < two32 ->
  crc <> r_crc st -> read_loop fx u (S f) st (enc_crc ts pos crc ++ rest) = (st, ECrc).
Proof.
  intros Hts Hc Hne. rewrite read_loop_S. rewrite classify_crc by assumption.
  rewrite (proj2 (Z.eqb_neq _ _) Hne). reflexivity.
Qed.

Lemma read_loop_crc_ok fx u f st ts pos rest : 0 <= ts < two32 -> 0 <= r_crc st < two32 -> r_eoff st = r_pos st ->
  read_loop fx u (S f) st (enc_crc ts pos (r_crc st) ++ rest) =
  read_loop fx u f {| r_pos := r_pos st + 20; r_crc := crc_update (r_crc st) (enc_crc ts pos (r_crc st)); r_ts := ts;
                      r_eoff := r_pos st + 20; r_cpos := r_cpos st; r_ev := EvSkip (r_pos st) 20 :: r_ev st; r_rot := r_rot st |} rest.
Proof.
  intros Hts Hc He. rewrite read_loop_S. rewrite classify_crc by assumption. rewrite Z.eqb_refl. simpl negb. cbv iota.
  unfold do_skip. rewrite He, Z.eqb_refl. change CRC_SIZE with (len (enc_crc ts pos (r_crc st))).
  rewrite takez_app_exact, dropz_app_exact. reflexivity.
Qed.

(* ---------- levRotateTo ---------- *)
Lemma len_enc_rot m ts pos crc h1 h2 : len (enc_rot m ts pos crc h1 h2) = 36.
Proof. reflexivity. Qed.

Lemma classify_rotto u ts pos crc h1 h2 rest : 0 <= crc < two32 ->
  classify u (enc_rot M_ROTTO ts pos crc h1 h2 ++ rest) = LRotTo crc.
Proof.
  intros Hc. unfold classify. pose proof (len_nonneg rest). rewrite len_app, len_enc_rot.
  replace (36 + len rest <? 4) with false by (symmetry; apply Z.ltb_ge; lia).
  unfold enc_rot. rewrite <- !app_assoc. rewrite rd32_le32 by (unfold M_ROTTO, two32; lia).
  change (M_ROTTO =? M_START) with false. change (M_ROTTO =? M_ROTFROM) with false. change (M_ROTTO =? M_ZIP) with false.
  change (M_ROTTO =? M_TAG) with false. change (M_ROTTO =? M_CRC) with false. change (M_ROTTO =? M_TS) with false.
  change (M_ROTTO =? M_ROTTO) with true. cbv iota.
  replace (36 + len rest <? ROT_SIZE) with false by (symmetry; apply Z.ltb_ge; unfold ROT_SIZE; lia).
  replace (skipn 16 (le32 M_ROTTO ++ le32 ts ++ le64 pos ++ le32 crc ++ le64 h1 ++ le64 h2 ++ rest)) with (le32 crc ++ le64 h1 ++ le64 h2 ++ rest) by reflexivity.
  rewrite rd32_le32 by assumption. reflexivity.
Qed.

(* repaired reader (fx_rot = true): the crc carried by levRotateTo is verified as well *)
Lemma read_loop_rotto_mismatch_fixed u f st ts pos crc h1 h2 rest : 0 <= crc < two32 ->
  crc <> r_crc st -> read_loop true u (S f) st (enc_rot M_ROTTO ts pos crc h1 h2 ++ rest) = (st, ECrc).
Proof.
  intros Hc Hne. rewrite read_loop_S. rewrite classify_rotto by assumption.
  rewrite (proj2 (Z.eqb_neq _ _) Hne). reflexivity.
Qed.

(* the code as it is (fx_rot = false) accepts any crc in levRotateTo *)
Lemma read_loop_rotto_unchecked u f st ts pos crc h1 h2 rest : 0 <= crc < two32 -> r_eoff st = r_pos st ->
  snd (read_loop false u (S f) st (enc_rot M_ROTTO ts pos crc h1 h2 ++ rest)) = ENone.
Proof.
  intros Hc He. rewrite read_loop_S. rewrite classify_rotto by assumption. simpl andb. cbv iota.
  unfold do_skip. rewrite He, Z.eqb_refl. reflexivity.
Qed.

(* ---------- whole record streams of one chunk ---------- *)
Inductive item := IUser (body : bytes) | ICrc (ts pos : Z).

(* the bytes the writer produces for a list of records when its running crc is c *)
Fixpoint enc_items (u c : Z) (items : list item) : bytes :=
  match items with
  | [] => []
  | IUser b :: r => fr u b ++ enc_items u (crc_update c (fr u b)) r
  | ICrc ts pos :: r => enc_crc ts pos c ++ enc_items u (crc_update c (enc_crc ts pos c)) r
  end.
Fixpoint crc_after (u c : Z) (items : list item) : Z :=
  match items with
  | [] => c
  | IUser b :: r => crc_after u (crc_update c (fr u b)) r
  | ICrc ts pos :: r => crc_after u (crc_update c (enc_crc ts pos c)) r
  end.
(* the events a replay must deliver: every appended body at the position where its frame starts *)
Fixpoint events_of (u p : Z) (items : list item) : list (Z * bytes) :=
  match items with
  | [] => []
  | IUser b :: r => (p, b) :: events_of u (p + len (fr u b)) r
  | ICrc _ _ :: r => events_of u (p + 20) r
  end.
Fixpoint size_of (u : Z) (items : list item) : Z :=
  match items with
  | [] => 0
  | IUser b :: r => len (fr u b) + size_of u r
  | ICrc _ _ :: r => 20 + size_of u r
  end.
Definition item_ok (it : item) : Prop :=
  match it with IUser b => len b < two32 | ICrc ts _ => 0 <= ts < two32 end.

Lemma applies_app a b : applies (a ++ b) = applies a ++ applies b.
Proof. unfold applies. apply flat_map_app. Qed.

(* the reader state after a list of records *)
Fixpoint run_items (u : Z) (st : rst) (items : list item) : rst :=
  match items with
  | [] => st
  | IUser b :: r =>
      run_items u {| r_pos := r_pos st + len (fr u b); r_crc := crc_update (r_crc st) (fr u b); r_ts := r_ts st;
                     r_eoff := r_pos st + len (fr u b); r_cpos := r_cpos st; r_ev := EvApply (r_pos st) b :: r_ev st; r_rot := r_rot st |} r
  | ICrc ts pos :: r =>
      run_items u {| r_pos := r_pos st + 20; r_crc := crc_update (r_crc st) (enc_crc ts pos (r_crc st)); r_ts := ts;
                     r_eoff := r_pos st + 20; r_cpos := r_cpos st; r_ev := EvSkip (r_pos st) 20 :: r_ev st; r_rot := r_rot st |} r
  end.

Lemma run_items_pos u items : forall st, r_pos (run_items u st items) = r_pos st + size_of u items.
Proof.
  induction items as [|[b|ts pos] r IH]; intros st; cbn [run_items size_of]; [lia| |]; rewrite IH; cbn [r_pos]; lia.
Qed.
Lemma run_items_eoff u items : forall st, r_eoff st = r_pos st -> r_eoff (run_items u st items) = r_pos (run_items u st items).
Proof.
  induction items as [|[b|ts pos] r IH]; intros st H; cbn [run_items]; [exact H| |]; apply IH; reflexivity.
Qed.
Lemma run_items_crc u items : forall st, r_crc (run_items u st items) = crc_after u (r_crc st) items.
Proof.
  induction items as [|[b|ts pos] r IH]; intros st; cbn [run_items crc_after]; [reflexivity| |]; rewrite IH; cbn [r_crc]; reflexivity.
Qed.
Lemma run_items_crc_range u items : forall st, 0 <= r_crc st < two32 -> 0 <= r_crc (run_items u st items) < two32.
Proof.
  induction items as [|[b|ts pos] r IH]; intros st H; cbn [run_items]; [exact H| |]; apply IH; cbn [r_crc]; apply crc_update_range; exact H.
Qed.
Lemma run_items_cpos u items : forall st, r_cpos (run_items u st items) = r_cpos st.
Proof.
  induction items as [|[b|ts pos] r IH]; intros st; cbn [run_items]; [reflexivity| |]; rewrite IH; reflexivity.
Qed.
Lemma applies_snoc_apply l p b : applies (l ++ [EvApply p b]) = applies l ++ [(p, b)].
Proof. rewrite applies_app. reflexivity. Qed.
Lemma applies_snoc_skip l p n : applies (l ++ [EvSkip p n]) = applies l.
Proof. rewrite applies_app. cbn. apply app_nil_r. Qed.
Lemma applies_snoc_commit l p c t : applies (l ++ [EvCommit p c t]) = applies l.
Proof. rewrite applies_app. cbn. apply app_nil_r. Qed.
Lemma run_items_applies u items : forall st,
  applies (rev (r_ev (run_items u st items))) = applies (rev (r_ev st)) ++ events_of u (r_pos st) items.
Proof.
  induction items as [|[b|ts pos] r IH]; intros st; cbn [run_items events_of].
  - symmetry. apply app_nil_r.
  - rewrite IH. cbn [r_ev r_pos rev]. rewrite applies_snoc_apply, <- app_assoc. reflexivity.
  - rewrite IH. cbn [r_ev r_pos rev]. rewrite applies_snoc_skip. reflexivity.
Qed.

(* Reading the encoding of ANY list of appended events and checksum records, followed by anything ([rest]), from any
   reader state whose engine agrees on the position: the reader arrives in front of [rest] in state [run_items]. *)
Lemma read_loop_items_gen fx u items : user_magic_ok u -> Forall item_ok items ->
  forall f st rest c, c = r_crc st -> r_eoff st = r_pos st -> 0 <= c < two32 ->
  read_loop fx u (length items + f) st (enc_items u c items ++ rest) = read_loop fx u f (run_items u st items) rest.
Proof.
  intros Hu Hall. induction Hall as [|it items Hit Hall IH]; intros f st rest c Ec He Hc.
  - reflexivity.
  - destruct it as [b|ts pos]; cbn [item_ok] in Hit; cbn [enc_items run_items]; rewrite <- app_assoc.
    + change (length (IUser b :: items) + f)%nat with (S (length items + f)).
      rewrite read_loop_user by assumption.
      apply IH; [cbn [r_crc]; rewrite Ec; reflexivity | reflexivity | apply crc_update_range; exact Hc].
    + change (length (ICrc ts pos :: items) + f)%nat with (S (length items + f)).
      rewrite Ec. rewrite Ec in Hc. rewrite read_loop_crc_ok by assumption.
      apply IH; [cbn [r_crc]; reflexivity | reflexivity | apply crc_update_range; exact Hc].
Qed.

Theorem read_loop_items fx u items : user_magic_ok u -> Forall item_ok items ->
  forall f st rest, r_eoff st = r_pos st -> 0 <= r_crc st < two32 ->
  read_loop fx u (length items + f) st (enc_items u (r_crc st) items ++ rest) = read_loop fx u f (run_items u st items) rest.
Proof. intros Hu Hall f st rest He Hc. apply read_loop_items_gen; auto. Qed.

(* at the end of the data (fewer than 4 bytes left) the reader commits and stops without error *)
Lemma read_loop_eof fx u f st rest : len rest < 4 -> read_loop fx u (S f) st rest = (do_commit st, ENone).
Proof.
  intros H. rewrite read_loop_S. unfold classify. rewrite (proj2 (Z.ltb_lt _ _) H). reflexivity.
Qed.

(* replay of one chunk: records then end of file *)
Theorem read_chunk_exact fx u items st : user_magic_ok u -> Forall item_ok items ->
  r_eoff st = r_pos st -> 0 <= r_crc st < two32 ->
  let '(st', e) := read_loop fx u (S (length (enc_items u (r_crc st) items))) st (enc_items u (r_crc st) items) in
  e = ENone /\ r_pos st' = r_pos st + size_of u items /\ r_crc st' = crc_after u (r_crc st) items /\
  applies (rev (r_ev st')) = applies (rev (r_ev st)) ++ events_of u (r_pos st) items.
Proof.
  intros Hu Hall He Hc.
  assert (L : (length items <= length (enc_items u (r_crc st) items))%nat).
  { clear He Hc. generalize (r_crc st). induction items as [|it r IH]; intros c; [simpl; lia|].
    inversion Hall; subst. destruct it as [b|ts pos]; cbn [enc_items]; rewrite app_length.
    - specialize (IH H2 (crc_update c (fr u b))). pose proof (len_fr u b) as LF. pose proof (pad4_bounds (8 + len b)). pose proof (len_nonneg b).
      unfold len in LF at 1. simpl length. lia.
    - specialize (IH H2 (crc_update c (enc_crc ts pos c))). change (length (enc_crc ts pos c)) with 20%nat. simpl length. lia. }
  set (n := length (enc_items u (r_crc st) items)) in *.
  replace (S n) with (length items + S (n - length items))%nat by lia.
  rewrite <- (app_nil_r (enc_items u (r_crc st) items)).
  rewrite read_loop_items by assumption.
  rewrite read_loop_eof by (unfold len; simpl; lia).
  split; [reflexivity|].
  assert (D : forall s, r_pos (do_commit s) = r_pos s /\ r_crc (do_commit s) = r_crc s /\ applies (rev (r_ev (do_commit s))) = applies (rev (r_ev s))).
  { intros s. unfold do_commit. destruct (r_cpos s =? r_pos s); cbn [r_pos r_crc r_ev]; [auto|].
    split; [reflexivity|]. split; [reflexivity|]. cbn [rev]. apply applies_snoc_commit. }
  destruct (D (run_items u st items)) as (D1 & D2 & D3). rewrite D1, D2, D3.
  rewrite run_items_pos, run_items_crc, run_items_applies. auto.
Qed.
