(* C18 — algebra of the modelled CRC-32: composition over concatenation, range, and injectivity:
   two byte strings that differ in exactly one byte never have the same checksum (so every single bit flip is seen). *)
From Coq Require Import ZArith List Bool Lia.
From SH Require Import Common.Wrap FsBinlog.Model.
Import ListNotations.
Open Scope Z_scope.

Definition is_byte (b : Z) : Prop := 0 <= b < 256.
Definition all_bytes (bs : bytes) : Prop := Forall is_byte bs.

Lemma lxor_mask_invol x : Z.lxor (Z.lxor x mask32) mask32 = x.
Proof. rewrite Z.lxor_assoc, Z.lxor_nilpotent, Z.lxor_0_r. reflexivity. Qed.

Lemma crc_update_app c a b : crc_update c (a ++ b) = crc_update (crc_update c a) b.
Proof. unfold crc_update, crc_raw. rewrite fold_left_app, lxor_mask_invol. reflexivity. Qed.

Lemma crc_update_nil c : crc_update c [] = c.
Proof. unfold crc_update, crc_raw. simpl. apply lxor_mask_invol. Qed.

(* ---- finite facts about the table, checked by computation ---- *)
Definition range256 : list Z := map Z.of_nat (seq 0 256).
Lemma in_range256 i : 0 <= i < 256 -> In i range256.
Proof.
  intros H. unfold range256. apply in_map_iff. exists (Z.to_nat i). split; [lia|]. apply in_seq. lia.
Qed.

Lemma tab_is_lfsr_chk : forallb (fun i => crc_tab i =? crc_step8 i) range256 = true.
Proof. vm_compute. reflexivity. Qed.
Lemma tab_bound_chk : forallb (fun i => (0 <=? crc_tab i) && (crc_tab i <? two32)) range256 = true.
Proof. vm_compute. reflexivity. Qed.
Lemma tab_top_inj_chk :
  forallb (fun i => forallb (fun j => negb (Z.shiftr (crc_tab i) 24 =? Z.shiftr (crc_tab j) 24) || (i =? j)) range256) range256 = true.
Proof. vm_compute. reflexivity. Qed.

Lemma tab_is_lfsr i : 0 <= i < 256 -> crc_tab i = crc_step8 i.
Proof.
  intros H. pose proof tab_is_lfsr_chk as C. rewrite forallb_forall in C.
  specialize (C i (in_range256 i H)). apply Z.eqb_eq in C. exact C.
Qed.
Lemma tab_bound i : 0 <= i < 256 -> 0 <= crc_tab i < two32.
Proof.
  intros H. pose proof tab_bound_chk as C. rewrite forallb_forall in C.
  specialize (C i (in_range256 i H)). apply andb_true_iff in C. destruct C as [A B].
  apply Z.leb_le in A. apply Z.ltb_lt in B. lia.
Qed.
Lemma tab_top_inj i j : 0 <= i < 256 -> 0 <= j < 256 ->
  Z.shiftr (crc_tab i) 24 = Z.shiftr (crc_tab j) 24 -> i = j.
Proof.
  intros Hi Hj E. pose proof tab_top_inj_chk as C. rewrite forallb_forall in C.
  specialize (C i (in_range256 i Hi)). rewrite forallb_forall in C. specialize (C j (in_range256 j Hj)).
  apply orb_true_iff in C. destruct C as [C|C].
  - apply negb_true_iff in C. apply Z.eqb_neq in C. contradiction.
  - apply Z.eqb_eq in C. exact C.
Qed.

(* ---- ranges ---- *)
Lemma log2_lt_of_bound n a : 0 < n -> 0 <= a < 2 ^ n -> Z.log2 a < n.
Proof.
  intros Hn Ha. destruct (Z.eq_dec a 0) as [->|Hz]. - simpl. lia. - apply Z.log2_lt_pow2; lia.
Qed.
Lemma lxor_bound n a b : 0 < n -> 0 <= a < 2 ^ n -> 0 <= b < 2 ^ n -> 0 <= Z.lxor a b < 2 ^ n.
Proof.
  intros Hn Ha Hb. assert (0 <= Z.lxor a b) by (apply Z.lxor_nonneg; lia). split; [lia|].
  destruct (Z.eq_dec (Z.lxor a b) 0) as [E|E]. { rewrite E. apply Z.pow_pos_nonneg; lia. }
  apply Z.log2_lt_pow2; [lia|].
  pose proof (Z.log2_lxor a b ltac:(lia) ltac:(lia)) as L.
  pose proof (log2_lt_of_bound n a Hn Ha). pose proof (log2_lt_of_bound n b Hn Hb). lia.
Qed.

Lemma land255 x : Z.land x 255 = x mod 256.
Proof. change 255 with (Z.ones 8). rewrite Z.land_ones by lia. reflexivity. Qed.
Lemma shiftr8 x : Z.shiftr x 8 = x / 256.
Proof. rewrite Z.shiftr_div_pow2 by lia. reflexivity. Qed.

Lemma idx_range s b : 0 <= Z.land (Z.lxor s b) 255 < 256.
Proof. rewrite land255. apply Z.mod_pos_bound. lia. Qed.

Lemma crc_byte_range s b : 0 <= s < two32 -> 0 <= crc_byte s b < two32.
Proof.
  intros Hs. unfold crc_byte. change two32 with (2 ^ 32). apply lxor_bound; [lia| |].
  - pose proof (tab_bound _ (idx_range s b)). unfold two32 in *. lia.
  - rewrite shiftr8. unfold two32 in Hs. split. apply Z.div_pos; lia. apply Z.div_lt_upper_bound; lia.
Qed.

Lemma crc_raw_range bs : forall s, 0 <= s < two32 -> 0 <= crc_raw s bs < two32.
Proof.
  unfold crc_raw. induction bs as [|b r IH]; intros s Hs; simpl; [exact Hs|]. apply IH. apply crc_byte_range. exact Hs.
Qed.

Lemma crc_update_range c bs : 0 <= c < two32 -> 0 <= crc_update c bs < two32.
Proof.
  intros Hc. unfold crc_update. change two32 with (2 ^ 32).
  apply lxor_bound; [lia| |unfold mask32; lia].
  change (2 ^ 32) with two32. apply crc_raw_range. change two32 with (2 ^ 32). apply lxor_bound; [lia|unfold two32 in Hc; lia|unfold mask32; lia].
Qed.

(* ---- injectivity ---- *)
Lemma land_lxor_255 s b : Z.land (Z.lxor s b) 255 = Z.lxor (Z.land s 255) (Z.land b 255).
Proof.
  apply Z.bits_inj'. intros n Hn. rewrite Z.lxor_spec, !Z.land_spec, Z.lxor_spec.
  destruct (Z.testbit 255 n); rewrite ?andb_true_r, ?andb_false_r; reflexivity.
Qed.

Lemma lxor_cancel_r a b c : Z.lxor a c = Z.lxor b c -> a = b.
Proof.
  intros H. assert (Z.lxor (Z.lxor a c) c = Z.lxor (Z.lxor b c) c) by (rewrite H; reflexivity).
  rewrite !Z.lxor_assoc, !Z.lxor_nilpotent, !Z.lxor_0_r in H0. exact H0.
Qed.
Lemma lxor_cancel_l a b c : Z.lxor c a = Z.lxor c b -> a = b.
Proof. rewrite (Z.lxor_comm c a), (Z.lxor_comm c b). apply lxor_cancel_r. Qed.

Lemma top_of_crc_byte s b : 0 <= s < two32 ->
  Z.shiftr (crc_byte s b) 24 = Z.shiftr (crc_tab (Z.land (Z.lxor s b) 255)) 24.
Proof.
  intros Hs. unfold crc_byte. rewrite Z.shiftr_lxor, Z.shiftr_shiftr by lia. simpl (8 + 24).
  replace (Z.shiftr s 32) with 0. apply Z.lxor_0_r.
  rewrite Z.shiftr_div_pow2 by lia. symmetry. apply Z.div_small. unfold two32 in Hs. lia.
Qed.

Lemma crc_byte_inj_state s1 s2 b : 0 <= s1 < two32 -> 0 <= s2 < two32 ->
  crc_byte s1 b = crc_byte s2 b -> s1 = s2.
Proof.
  intros H1 H2 E.
  assert (I : Z.land (Z.lxor s1 b) 255 = Z.land (Z.lxor s2 b) 255).
  { apply tab_top_inj; try apply idx_range. rewrite <- !top_of_crc_byte by assumption. rewrite E. reflexivity. }
  unfold crc_byte in E. rewrite I in E. apply lxor_cancel_l in E.
  rewrite !land_lxor_255 in I. apply lxor_cancel_r in I. rewrite !land255 in I. rewrite !shiftr8 in E.
  rewrite (Z.div_mod s1 256), (Z.div_mod s2 256) by lia. rewrite E, I. reflexivity.
Qed.

Lemma crc_byte_inj_byte s b1 b2 : is_byte b1 -> is_byte b2 -> crc_byte s b1 = crc_byte s b2 -> b1 = b2.
Proof.
  intros H1 H2 E. unfold crc_byte in E. apply lxor_cancel_r in E.
  assert (I : Z.land (Z.lxor s b1) 255 = Z.land (Z.lxor s b2) 255).
  { apply tab_top_inj; try apply idx_range. rewrite E. reflexivity. }
  rewrite !land_lxor_255 in I. apply lxor_cancel_l in I. rewrite !land255 in I.
  unfold is_byte in *. rewrite !Z.mod_small in I by lia. exact I.
Qed.

Lemma crc_raw_inj_state bs : forall s1 s2, 0 <= s1 < two32 -> 0 <= s2 < two32 ->
  crc_raw s1 bs = crc_raw s2 bs -> s1 = s2.
Proof.
  unfold crc_raw. induction bs as [|b r IH]; intros s1 s2 H1 H2 E; simpl in E; [exact E|].
  apply IH in E; try (apply crc_byte_range; assumption). apply crc_byte_inj_state in E; assumption.
Qed.

(* the checksum of a string determines the checksum state it started from *)
Lemma crc_update_inj_start c1 c2 bs : 0 <= c1 < two32 -> 0 <= c2 < two32 ->
  crc_update c1 bs = crc_update c2 bs -> c1 = c2.
Proof.
  intros H1 H2 E. unfold crc_update in E. apply lxor_cancel_r in E.
  apply crc_raw_inj_state in E.
  - apply lxor_cancel_r in E. exact E.
  - change two32 with (2 ^ 32). apply lxor_bound; [lia|unfold two32 in H1; lia|unfold mask32; lia].
  - change two32 with (2 ^ 32). apply lxor_bound; [lia|unfold two32 in H2; lia|unfold mask32; lia].
Qed.

(* changing exactly one byte always changes the checksum, whatever precedes and follows *)
Theorem crc_one_byte_change_detected c pre b b' post :
  0 <= c < two32 -> is_byte b -> is_byte b' -> b <> b' ->
  crc_update c (pre ++ b :: post) <> crc_update c (pre ++ b' :: post).
Proof.
  intros Hc Hb Hb' Hne E.
  rewrite !crc_update_app in E.
  set (c1 := crc_update c pre) in *.
  assert (R1 : 0 <= c1 < two32) by (apply crc_update_range; exact Hc).
  change (b :: post) with ([b] ++ post) in E. change (b' :: post) with ([b'] ++ post) in E.
  rewrite !crc_update_app in E.
  apply crc_update_inj_start in E; try (apply crc_update_range; exact R1).
  unfold crc_update, crc_raw in E. simpl in E. apply lxor_cancel_r in E.
  apply crc_byte_inj_byte in E; try assumption. contradiction.
Qed.

(* a single flipped bit is a one-byte change *)
Lemma flip_bit_is_byte b k : is_byte b -> 0 <= k < 8 -> is_byte (Z.lxor b (2 ^ k)) /\ Z.lxor b (2 ^ k) <> b.
Proof.
  intros Hb Hk. split.
  - unfold is_byte in *. change 256 with (2 ^ 8). apply lxor_bound; [lia|simpl; lia|].
    split. apply Z.pow_nonneg; lia. apply Z.pow_lt_mono_r; lia.
  - intros E. assert (Z.lxor (Z.lxor b (2 ^ k)) b = 0) by (rewrite E; apply Z.lxor_nilpotent).
    rewrite Z.lxor_comm, <- Z.lxor_assoc, Z.lxor_nilpotent, Z.lxor_0_l in H.
    assert (0 < 2 ^ k) by (apply Z.pow_pos_nonneg; lia). lia.
Qed.

Lemma flip_byte_split i k bs : (i < length bs)%nat ->
  exists pre b post, bs = pre ++ b :: post /\ length pre = i /\ flip_byte i k bs = pre ++ Z.lxor b (2 ^ k) :: post.
Proof.
  revert i. induction bs as [|x r IH]; intros i Hi; simpl in Hi; [lia|].
  destruct i as [|j].
  - exists [], x, r. simpl. auto.
  - destruct (IH j ltac:(lia)) as (pre & b & post & E & L & F).
    exists (x :: pre), b, post. simpl. rewrite <- E, F, L. auto.
Qed.

Theorem crc_bit_flip_detected c bs i k :
  0 <= c < two32 -> all_bytes bs -> (i < length bs)%nat -> 0 <= k < 8 ->
  crc_update c (flip_byte i k bs) <> crc_update c bs.
Proof.
  intros Hc Hall Hi Hk. destruct (flip_byte_split i k bs Hi) as (pre & b & post & E & _ & F).
  assert (Hb : is_byte b). { unfold all_bytes in Hall. rewrite Forall_forall in Hall. apply Hall. rewrite E. apply in_or_app. right. left. reflexivity. }
  destruct (flip_bit_is_byte b k Hb Hk) as [B1 B2].
  rewrite F. replace (crc_update c bs) with (crc_update c (pre ++ b :: post)) by (rewrite <- E; reflexivity).
  apply crc_one_byte_change_detected; assumption.
Qed.
