(* C18 — the writer goroutine (binlogWriter.loop): commits are monotone and never ahead of fsync'ed / written bytes,
   for every interleaving of Append with the loop's steps. *)
From Coq Require Import ZArith List Bool Lia Sorted.
From SH Require Import Common.Wrap FsBinlog.Model.
Import ListNotations.
Open Scope Z_scope.

Definition l_run (s : lst) (es : list lstep) : lst := fold_left l_step es s.

Fixpoint nonincreasing (l : list Z) : Prop :=      (* newest first *)
  match l with
  | a :: ((b :: _) as r) => b <= a /\ nonincreasing r
  | _ => True
  end.

Definition l_inv (s : lst) : Prop :=
  l_synced s <= l_written s /\ l_written s = l_taken s /\ l_taken s <= l_buf_end s /\
  nonincreasing (l_commits s) /\
  (forall c, In c (l_commits s) -> c <= l_synced s) /\
  (match l_commits s with c :: _ => c <= l_taken s | [] => True end).

Lemma l_inv_init p : l_inv (l_init p).
Proof. unfold l_inv, l_init. simpl. split; [lia|]. split; [lia|]. split; [lia|]. split; [exact I|]. split; [|lia]. intros c [<-|[]]. lia. Qed.

Lemma l_inv_step s e : l_inv s -> l_inv (l_step s e).
Proof.
  intros (A & B & C & D & E & F). destruct e as [n| |]; unfold l_inv; simpl.
  - split; [lia|]. split; [lia|]. split; [lia|]. split; [exact D|]. split; [exact E|]. destruct (l_commits s); [exact I|lia].
  - split; [lia|]. split; [lia|]. split; [lia|]. split; [exact D|]. split; [intros c H; specialize (E c H); lia|]. destruct (l_commits s); [exact I|lia].
  - split; [lia|]. split; [lia|]. split; [lia|]. split.
    + destruct (l_commits s) as [|c r] eqn:Ec; simpl; [exact I|]. split; [lia|exact D].
    + split; [|lia]. intros c [<-|H]; [lia|]. specialize (E c H). lia.
Qed.

Lemma l_inv_run es : forall s, l_inv s -> l_inv (l_run s es).
Proof. unfold l_run. induction es as [|e r IH]; intros s H; simpl; [exact H|]. apply IH. apply l_inv_step. exact H. Qed.

Theorem commits_monotone_le_fsynced p es :
  let s := l_run (l_init p) es in
  nonincreasing (l_commits s) /\ (forall c, In c (l_commits s) -> c <= l_synced s /\ c <= l_written s /\ c <= l_buf_end s).
Proof.
  cbv zeta. destruct (l_inv_run es _ (l_inv_init p)) as (A & B & C & D & E & F).
  split; [exact D|]. intros c H. specialize (E c H). lia.
Qed.
