(* Fixed-width integer arithmetic of Go, written with its wrap-around made explicit. *)
From Coq Require Import ZArith Lia List.
Import ListNotations.
Open Scope Z_scope.

Definition two32 : Z := 4294967296.
Definition two64 : Z := 18446744073709551616.
Definition two31 : Z := 2147483648.
Definition two63 : Z := 9223372036854775808.

Definition u32 (x : Z) : Z := x mod two32.
Definition u64 (x : Z) : Z := x mod two64.
Definition u8 (x : Z) : Z := x mod 256.
(* conversion of a wrapped bit pattern to the signed reading *)
Definition i32 (x : Z) : Z := let y := x mod two32 in if y <? two31 then y else y - two32.
Definition i64 (x : Z) : Z := let y := x mod two64 in if y <? two63 then y else y - two64.

Definition is_u32 (x : Z) : Prop := 0 <= x < two32.
Definition is_u64 (x : Z) : Prop := 0 <= x < two64.
Definition is_i32 (x : Z) : Prop := - two31 <= x < two31.

Lemma u32_range x : is_u32 (u32 x).
Proof. unfold is_u32, u32, two32. apply Z.mod_pos_bound. lia. Qed.
Lemma u64_range x : is_u64 (u64 x).
Proof. unfold is_u64, u64, two64. apply Z.mod_pos_bound. lia. Qed.
Lemma u32_id x : is_u32 x -> u32 x = x.
Proof. unfold is_u32, u32. intros H. apply Z.mod_small. exact H. Qed.
Lemma u64_id x : is_u64 x -> u64 x = x.
Proof. unfold is_u64, u64. intros H. apply Z.mod_small. exact H. Qed.
Lemma i32_range x : is_i32 (i32 x).
Proof.
  unfold is_i32, i32. pose proof (Z.mod_pos_bound x two32 ltac:(unfold two32; lia)) as H.
  destruct (x mod two32 <? two31) eqn:E; [apply Z.ltb_lt in E | apply Z.ltb_ge in E];
  unfold two31, two32 in *; lia.
Qed.
Lemma u32_i32 x : u32 (i32 x) = u32 x.
Proof.
  unfold u32, i32. destruct (x mod two32 <? two31).
  - apply Z.mod_mod. unfold two32; lia.
  - rewrite Zminus_mod, Z_mod_same_full, Z.sub_0_r, !Z.mod_mod; unfold two32; lia.
Qed.
