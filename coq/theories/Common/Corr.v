(* Generic plumbing of the correspondence check: a list of (input, observed) cases
   recorded from the implementation is replayed through the model inside Coq
   (vm_compute); the indices of the cases on which they differ are printed. *)
From Coq Require Import List Arith.
Import ListNotations.

Section Mismatch.
  Context {C : Type}.
  Variable ok : C -> bool.
  Fixpoint mismatches_from (i : nat) (cs : list C) : list nat :=
    match cs with
    | [] => []
    | c :: cs' => if ok c then mismatches_from (S i) cs' else i :: mismatches_from (S i) cs'
    end.
  Definition mismatches (cs : list C) : list nat := mismatches_from 0 cs.
End Mismatch.
