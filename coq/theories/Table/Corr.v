(* Correspondence cases for C25: inputs given to the real getTableFromLODs / limitQueries / getHandlerWhat
   (stub loadPoints) together with what they returned. *)
From Coq Require Import ZArith List Bool.
From SH Require Import Common.Corr Table.Model.
Import ListNotations.
Open Scope Z_scope.

Definition row_eqb (a b : row) : bool :=
  key_eqb (key_of a) (key_of b) && list_eqb Z.eqb (r_rich a) (r_rich b) &&
  (r_cnt a =? r_cnt b) && (r_sum a =? r_sum b) && (r_min a =? r_min b) && (r_max a =? r_max b) &&
  (r_pct a =? r_pct b) && (r_card a =? r_card b).
Definition marker_eqb (a b : marker) : bool :=
  (m_time a =? m_time b) && list_eqb zz_eqb (m_tags a) (m_tags b) && list_eqb Z.eqb (m_skey a) (m_skey b).
Definition optz_eqb (a b : option Z) : bool :=
  match a, b with Some x, Some y => x =? y | None, None => true | _, _ => false end.
Definition orow_eqb (a b : orow) : bool :=
  row_eqb (o_row a) (o_row b) && list_eqb optz_eqb (o_data a) (o_data b) && marker_eqb (o_repr a) (o_repr b).

Fixpoint sorted_obs (fe : bool) (l : list orow) : bool :=
  match l with
  | a :: ((b :: _) as l') => row_le fe a b && sorted_obs fe l'
  | _ => true
  end.

(* sort.Sort is not stable: any sorted permutation of the model's rows is accepted
   (the model's rows have distinct keys, so mutual inclusion + equal length = permutation) *)
Definition rows_match (fe : bool) (model obs : list orow) : bool :=
  (length model =? length obs)%nat && sorted_obs fe obs &&
  forallb (fun o => existsb (orow_eqb o) model) obs &&
  forallb (fun m => existsb (orow_eqb m) obs) model.

Definition res_match (fe : bool) (m o : option (list orow * bool)) : bool :=
  match m, o with
  | None, None => true
  | Some (mr, mh), Some (orr, oh) => Bool.eqb mh oh && rows_match fe mr orr
  | _, _ => false
  end.

Definition hw_eqb (a b : list Z * list (Z * Z)) : bool :=
  list_eqb Z.eqb (fst a) (fst b) &&
  list_eqb zz_eqb (snd a ++ repeat (0, 0) (ts_value_count - length (snd a))) (snd b).   (* tsWhat is a [7] array *)

Inductive case :=
| CTable (whats : list Z) (lods : list lod) (by_ : list Z) (by_s : bool) (from to : marker) (fe : bool)
         (num desired : Z) (store : list (list (list (list row)))) (obs : option (list orow * bool))
| CLimit (groups : list (list row)) (from to : marker) (fe : bool) (limit : Z) (obs : list row * bool)
| CWhat (whats : list Z) (obs : list (list Z * list (Z * Z))).

Definition store_fn (store : list (list (list (list row)))) (p k : nat) : list (list row) :=
  nth k (nth p store []) [].

(* The implementation the correspondence accepts is the CURRENT code: F-C25a, c, d, e, f are repaired in /repo
   (fix: commits), F-C25b (index out of range in appendRowValues) is not. A regression of a repaired defect is
   therefore a model mismatch. The pre-fix variants stay in the model for the [_refuted] theorems. *)
Definition fx_now : fixes := mkFx true false true true true true.

Definition ok (c : case) : bool :=
  match c with
  | CTable whats lods by_ by_s from to fe num desired store obs =>
      forallb (fun l1 => forallb (fun l2 => forallb (forallb wf_row) l2) l1) store &&
      res_match fe (table fx_now whats lods by_ by_s from to fe num desired (store_fn store)) obs
  | CLimit groups from to fe limit obs =>
      let r := limit_queries fx_now from to fe groups limit in
      list_eqb row_eqb (fst r) (fst obs) && Bool.eqb (snd r) (snd obs)
  | CWhat whats obs => list_eqb hw_eqb (handler_whats whats) obs
  end.

Definition mism := mismatches ok.
