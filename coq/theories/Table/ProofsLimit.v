(* C25 — limitQueries: window, limit and has-more (over the model of Table/Model.v). *)
From Coq Require Import ZArith List Bool Lia.
From SH Require Import Table.Model.
Import ListNotations.
Open Scope Z_scope.

Section L.
  Variables from to : marker.
  Variable fe : bool.
  Notation inr := (in_range from to fe).
  Definition cnt (s : list row) : Z := Z.of_nat (length (filter inr s)).

  Lemma cnt_nonneg : forall s, 0 <= cnt s.
  Proof. intros; unfold cnt; lia. Qed.
  Lemma cnt_app : forall a b, cnt (a ++ b) = cnt a + cnt b.
  Proof. intros; unfold cnt; rewrite filter_app, app_length; lia. Qed.
  Lemma cnt_cons : forall r s, cnt (r :: s) = (if inr r then 1 else 0) + cnt s.
  Proof. intros; unfold cnt; simpl. destruct (inr r); simpl length; lia. Qed.

  (* ---- the rows returned: the first [need] in-window rows of the visiting order ---- *)
  Lemma scan_rows : forall fixed s need, 0 <= need ->
    fst (scan fixed from to fe s need) = firstn (Z.to_nat need) (filter inr s).
  Proof.
    induction s as [|r s IH]; intros need Hn; simpl.
    - rewrite firstn_nil; reflexivity.
    - destruct (need <=? 0) eqn:E.
      + apply Z.leb_le in E. assert (need = 0) by lia; subst; simpl. reflexivity.
      + apply Z.leb_gt in E. destruct (inr r) eqn:Er.
        * specialize (IH (need - 1) ltac:(lia)).
          destruct (scan fixed from to fe s (need - 1)) as [a b]; simpl in *.
          replace (Z.to_nat need) with (S (Z.to_nat (need - 1))) by lia. simpl. rewrite IH; reflexivity.
        * apply IH; lia.
  Qed.

  (* ---- has-more of the code as it is: a further row is visited after the need-th kept row ---- *)
  Lemma scan_more_faithful : forall s need, 0 <= need ->
    (snd (scan false from to fe s need) = true <->
     exists pre r post, s = pre ++ r :: post /\ cnt pre = need).
  Proof.
    induction s as [|r s IH]; intros need Hn; simpl.
    - split; [discriminate | intros [pre [r [post [E _]]]]; destruct pre; discriminate].
    - destruct (need <=? 0) eqn:E.
      + apply Z.leb_le in E. simpl. split; auto. intros _. exists [], r, s; split; auto. unfold cnt; simpl; lia.
      + apply Z.leb_gt in E. destruct (inr r) eqn:Er.
        * specialize (IH (need - 1) ltac:(lia)).
          destruct (scan false from to fe s (need - 1)) as [a b]; simpl in *. rewrite IH. split.
          -- intros [pre [r' [post [E1 E2]]]]. exists (r :: pre), r', post; split; [subst; reflexivity|].
             rewrite cnt_cons, Er; lia.
          -- intros [pre [r' [post [E1 E2]]]]. destruct pre as [|x pre].
             ++ unfold cnt in E2; simpl in E2; lia.
             ++ injection E1 as Hx Hs. subst x. exists pre, r', post; split; [exact Hs|]. rewrite cnt_cons, Er in E2; lia.
        * rewrite (IH need Hn). split.
          -- intros [pre [r' [post [E1 E2]]]]. exists (r :: pre), r', post; split; [subst; reflexivity|].
             rewrite cnt_cons, Er; lia.
          -- intros [pre [r' [post [E1 E2]]]]. destruct pre as [|x pre].
             ++ unfold cnt in E2; simpl in E2; lia.
             ++ injection E1 as Hx Hs. subst x. exists pre, r', post; split; [exact Hs|]. rewrite cnt_cons, Er in E2; lia.
  Qed.

  (* ---- has-more of the repaired variant: more in-window rows than the quota ---- *)
  Lemma existsb_cnt : forall s, existsb inr s = true <-> 0 < cnt s.
  Proof.
    induction s as [|r s IH]; simpl.
    - unfold cnt; simpl; split; [discriminate | lia].
    - rewrite cnt_cons. pose proof (cnt_nonneg s). destruct (inr r); cbn [orb].
      + split; [intros _; lia | reflexivity].
      + rewrite IH; lia.
  Qed.

  Lemma scan_more_fixed : forall s need, 0 <= need ->
    (snd (scan true from to fe s need) = true <-> need < cnt s).
  Proof.
    induction s as [|r s IH]; intros need Hn.
    - simpl. unfold cnt; simpl. split; [discriminate | lia].
    - cbn [scan]. destruct (need <=? 0) eqn:E.
      + apply Z.leb_le in E. cbn [snd]. rewrite existsb_cnt. assert (need = 0) by lia; subst; reflexivity.
      + apply Z.leb_gt in E. rewrite cnt_cons. destruct (inr r) eqn:Er.
        * specialize (IH (need - 1) ltac:(lia)).
          destruct (scan true from to fe s (need - 1)) as [a b]; cbn [snd] in *. rewrite IH; lia.
        * rewrite (IH need Hn); lia.
  Qed.

  (* the repaired group test drops only groups without in-window rows: nothing of the window is lost *)
  Lemma filter_skip_fixed : forall gs,
    filter inr (concat (filter (fun g => negb (group_skipped true from to fe g)) gs)) = filter inr (concat gs).
  Proof.
    induction gs as [|g gs IH]; [reflexivity|].
    cbn [filter concat]. destruct (group_skipped true from to fe g) eqn:E; cbn [negb concat].
    - rewrite filter_app, IH.
      assert (X : filter inr g = []).
      { destruct g as [|r0 g]; [reflexivity|]. unfold group_skipped in E. apply negb_true_iff in E.
        remember (r0 :: g) as l. clear Heql. induction l as [|x l IHl]; simpl in *; auto.
        apply orb_false_iff in E; destruct E as [E1 E2]. rewrite E1; auto. }
      rewrite X; reflexivity.
    - rewrite !filter_app, IH; reflexivity.
  Qed.

  Lemma cnt_concat_rev : forall gs : list (list row), cnt (concat (rev gs)) = cnt (concat gs).
  Proof.
    induction gs as [|g gs IH]; simpl; auto.
    rewrite concat_app, !cnt_app, IH; simpl. rewrite app_nil_r. lia.
  Qed.

  Lemma cnt_scan_seq_fixed : forall gs, cnt (scan_seq true from to fe gs) = cnt (concat gs).
  Proof.
    intros gs. transitivity (cnt (concat (if fe then rev gs else gs))).
    - unfold scan_seq, cnt. rewrite filter_skip_fixed. reflexivity.
    - pose proof (cnt_concat_rev gs). destruct fe; auto.
  Qed.

  (* ================= limitQueries ================= *)

  (* rows: exactly the first [limit] in-window rows in visiting order; all of them in the window and from the input *)
  Theorem limit_queries_rows : forall fixed gs limit,
    fst (limit_queries fixed from to fe gs limit) =
    firstn (Z.to_nat limit) (filter inr (scan_seq fixed from to fe gs)).
  Proof.
    intros; unfold limit_queries. destruct (limit <=? 0) eqn:E.
    - apply Z.leb_le in E. replace (Z.to_nat limit) with O by lia. reflexivity.
    - apply Z.leb_gt in E. apply scan_rows; lia.
  Qed.

  Lemma scan_seq_in : forall fixed gs r, In r (scan_seq fixed from to fe gs) -> In r (concat gs).
  Proof.
    intros fixed gs r H; unfold scan_seq in H. apply in_concat in H. destruct H as [g [Hg Hr]].
    apply filter_In in Hg; destruct Hg as [Hg _].
    apply in_concat. exists g; split; auto. destruct fe; auto. apply in_rev; auto.
  Qed.

  Lemma firstn_In' {A} : forall n (l : list A) x, In x (firstn n l) -> In x l.
  Proof. induction n; intros [|y l] x H; simpl in *; auto; try contradiction. destruct H; auto. Qed.

  Theorem limit_queries_sound : forall fixed gs limit r,
    In r (fst (limit_queries fixed from to fe gs limit)) -> inr r = true /\ In r (concat gs).
  Proof.
    intros fixed gs limit r H. rewrite limit_queries_rows in H.
    pose proof (firstn_In' _ _ _ H) as H1. apply filter_In in H1; destruct H1 as [H1 H2].
    split; auto. eapply scan_seq_in; eauto.
  Qed.

  Theorem limit_queries_limit : forall fixed gs limit,
    Z.of_nat (length (fst (limit_queries fixed from to fe gs limit))) <= Z.max 0 limit.
  Proof.
    intros; rewrite limit_queries_rows, firstn_length. lia.
  Qed.

  (* in the repaired variant no in-window row is lost by the group test *)
  Theorem limit_queries_rows_fixed : forall gs limit,
    fst (limit_queries true from to fe gs limit) =
    firstn (Z.to_nat limit) (filter inr (concat (if fe then rev gs else gs))).
  Proof. intros; rewrite limit_queries_rows. unfold scan_seq. rewrite filter_skip_fixed. reflexivity. Qed.

  (* has-more, exact characterisation for the code as it is *)
  Theorem limit_queries_more_faithful : forall gs limit,
    snd (limit_queries false from to fe gs limit) = true <->
    (limit <= 0 /\ gs <> []) \/
    (0 < limit /\ exists pre r post, scan_seq false from to fe gs = pre ++ r :: post /\ cnt pre = limit).
  Proof.
    intros gs limit; unfold limit_queries. destruct (limit <=? 0) eqn:E.
    - apply Z.leb_le in E. simpl. destruct gs; simpl; split; intros H; try discriminate.
      + destruct H as [[_ H] | [H _]]; [contradiction | lia].
      + left; split; auto; discriminate.
      + reflexivity.
    - apply Z.leb_gt in E. rewrite scan_more_faithful by lia. split.
      + intros H; right; split; auto.
      + intros [[H _] | [_ H]]; [lia | auto].
  Qed.

  (* has-more of the repaired variant = "rows beyond the limit exist" *)
  Theorem limit_queries_more_fixed : forall gs limit,
    snd (limit_queries true from to fe gs limit) = true <-> Z.max 0 limit < cnt (concat gs).
  Proof.
    intros gs limit; unfold limit_queries. destruct (limit <=? 0) eqn:E.
    - apply Z.leb_le in E. simpl. rewrite existsb_cnt. lia.
    - apply Z.leb_gt in E. rewrite scan_more_fixed by lia. rewrite cnt_scan_seq_fixed. lia.
  Qed.
End L.
