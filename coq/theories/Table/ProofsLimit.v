(* C25 — limitQueries: window, limit and has-more (over the model of Table/Model.v). *)
From Coq Require Import ZArith List Bool Lia.
From SH Require Import Table.Model.
Import ListNotations.
Open Scope Z_scope.

Section L.
  Variables from to : marker.
  Variable fe : bool.
  Notation inr := (in_range from to fe).
  Definition cnt (s : list row) : Z := Z.of_nat (length (filter inr s)).

  Lemma cnt_nonneg : forall s, 0 <= cnt s.
  Proof. intros; unfold cnt; lia. Qed.
  Lemma cnt_app : forall a b, cnt (a ++ b) = cnt a + cnt b.
  Proof. intros; unfold cnt; rewrite filter_app, app_length; lia. Qed.
  Lemma cnt_cons : forall r s, cnt (r :: s) = (if inr r then 1 else 0) + cnt s.
  Proof. intros; unfold cnt; simpl. destruct (inr r); simpl length; lia. Qed.

  (* ---- the rows returned: the first [need] in-window rows of the visiting order ---- *)
  Lemma scan_rows : forall fixed s need, 0 <= need ->
    fst (scan fixed from to fe s need) = firstn (Z.to_nat need) (filter inr s).
  Proof.
    induction s as [|r s IH]; intros need Hn; simpl.
    - rewrite firstn_nil; reflexivity.
    - destruct (need <=? 0) eqn:E.
      + apply Z.leb_le in E. assert (need = 0) by lia; subst; simpl. reflexivity.
      + apply Z.leb_gt in E. destruct (inr r) eqn:Er.
        * specialize (IH (need - 1) ltac:(lia)).
          destruct (scan fixed from to fe s (need - 1)) as [a b]; simpl in *.
          replace (Z.to_nat need) with (S (Z.to_nat (need - 1))) by lia. simpl. rewrite IH; reflexivity.
        * apply IH; lia.
  Qed.

  (* ---- has-more of the code as it is: a further row is visited after the need-th kept row ---- *)
  Lemma scan_more_faithful : forall fx, f_more fx = false -> forall s need, 0 <= need ->
    (snd (scan fx from to fe s need) = true <->
     exists pre r post, s = pre ++ r :: post /\ cnt pre = need).
  Proof.
    intros fx Hm. induction s as [|r s IH]; intros need Hn; cbn [scan].
    - split; [discriminate | intros [pre [r [post [E _]]]]; destruct pre; discriminate].
    - rewrite Hm. destruct (need <=? 0) eqn:E.
      + apply Z.leb_le in E. cbn [snd]. split; auto. intros _. exists [], r, s; split; auto. unfold cnt; simpl; lia.
      + apply Z.leb_gt in E. destruct (inr r) eqn:Er.
        * specialize (IH (need - 1) ltac:(lia)).
          destruct (scan fx from to fe s (need - 1)) as [a b]; cbn [snd] in *. rewrite IH. split.
          -- intros [pre [r' [post [E1 E2]]]]. exists (r :: pre), r', post; split; [subst; reflexivity|].
             rewrite cnt_cons, Er; lia.
          -- intros [pre [r' [post [E1 E2]]]]. destruct pre as [|x pre].
             ++ unfold cnt in E2; simpl in E2; lia.
             ++ injection E1 as Hx Hs. subst x. exists pre, r', post; split; [exact Hs|]. rewrite cnt_cons, Er in E2; lia.
        * rewrite (IH need Hn). split.
          -- intros [pre [r' [post [E1 E2]]]]. exists (r :: pre), r', post; split; [subst; reflexivity|].
             rewrite cnt_cons, Er; lia.
          -- intros [pre [r' [post [E1 E2]]]]. destruct pre as [|x pre].
             ++ unfold cnt in E2; simpl in E2; lia.
             ++ injection E1 as Hx Hs. subst x. exists pre, r', post; split; [exact Hs|]. rewrite cnt_cons, Er in E2; lia.
  Qed.

  (* ---- has-more of the repaired variant: more in-window rows than the quota ---- *)
  Lemma existsb_cnt : forall s, existsb inr s = true <-> 0 < cnt s.
  Proof.
    induction s as [|r s IH]; simpl.
    - unfold cnt; simpl; split; [discriminate | lia].
    - rewrite cnt_cons. pose proof (cnt_nonneg s). destruct (inr r); cbn [orb].
      + split; [intros _; lia | reflexivity].
      + rewrite IH; lia.
  Qed.

  (* no has-more (code as it is, or repaired): all in-window rows of the visiting order fit the quota *)
  Lemma scan_nomore_cnt : forall fx s need, 0 <= need -> snd (scan fx from to fe s need) = false -> cnt s <= need.
  Proof.
    induction s as [|r s IH]; intros need Hn H; cbn [scan] in H.
    - unfold cnt; simpl; lia.
    - destruct (need <=? 0) eqn:E.
      + apply Z.leb_le in E. cbn [snd] in H. destruct (f_more fx); [|discriminate].
        destruct (Z_lt_dec 0 (cnt (r :: s))) as [X | X]; [|lia].
        apply existsb_cnt in X. congruence.
      + apply Z.leb_gt in E. rewrite cnt_cons. destruct (inr r) eqn:Er.
        * specialize (IH (need - 1) ltac:(lia)).
          destruct (scan fx from to fe s (need - 1)) as [a b]; cbn [snd] in *. specialize (IH H). lia.
        * specialize (IH need Hn H). lia.
  Qed.

  Lemma scan_more_fixed : forall fx, f_more fx = true -> forall s need, 0 <= need ->
    (snd (scan fx from to fe s need) = true <-> need < cnt s).
  Proof.
    intros fx Hm. induction s as [|r s IH]; intros need Hn.
    - simpl. unfold cnt; simpl. split; [discriminate | lia].
    - cbn [scan]. rewrite Hm. destruct (need <=? 0) eqn:E.
      + apply Z.leb_le in E. cbn [snd]. rewrite existsb_cnt. assert (need = 0) by lia; subst; reflexivity.
      + apply Z.leb_gt in E. rewrite cnt_cons. destruct (inr r) eqn:Er.
        * specialize (IH (need - 1) ltac:(lia)).
          destruct (scan fx from to fe s (need - 1)) as [a b]; cbn [snd] in *. rewrite IH; lia.
        * rewrite (IH need Hn); lia.
  Qed.

  (* with the ends-only test gone every time slot is visited: nothing of the window is lost *)
  Lemma scan_seq_fixed : forall fx, f_skip fx = true -> forall gs,
    scan_seq fx from to fe gs = concat (if fe then rev gs else gs).
  Proof.
    intros fx Hs gs; unfold scan_seq. f_equal. generalize (if fe then rev gs else gs) as l.
    induction l as [|g l IH]; simpl; auto.
    assert (X : group_skipped fx from to fe g = false) by (unfold group_skipped; destruct g; auto; rewrite Hs; reflexivity).
    rewrite X; simpl. rewrite IH; reflexivity.
  Qed.

  Lemma cnt_concat_rev : forall gs : list (list row), cnt (concat (rev gs)) = cnt (concat gs).
  Proof.
    induction gs as [|g gs IH]; simpl; auto.
    rewrite concat_app, !cnt_app, IH; simpl. rewrite app_nil_r. lia.
  Qed.

  Lemma cnt_scan_seq_fixed : forall fx, f_skip fx = true -> forall gs, cnt (scan_seq fx from to fe gs) = cnt (concat gs).
  Proof.
    intros fx Hs gs. rewrite (scan_seq_fixed fx Hs). pose proof (cnt_concat_rev gs). destruct fe; auto.
  Qed.

  (* ================= limitQueries ================= *)

  (* rows: exactly the first [limit] in-window rows in visiting order; all of them in the window and from the input *)
  Theorem limit_queries_rows : forall fixed gs limit,
    fst (limit_queries fixed from to fe gs limit) =
    firstn (Z.to_nat limit) (filter inr (scan_seq fixed from to fe gs)).
  Proof.
    intros; unfold limit_queries. destruct (limit <=? 0) eqn:E.
    - apply Z.leb_le in E. replace (Z.to_nat limit) with O by lia. reflexivity.
    - apply Z.leb_gt in E. apply scan_rows; lia.
  Qed.

  Lemma scan_seq_in : forall fixed gs r, In r (scan_seq fixed from to fe gs) -> In r (concat gs).
  Proof.
    intros fixed gs r H; unfold scan_seq in H. apply in_concat in H. destruct H as [g [Hg Hr]].
    apply filter_In in Hg; destruct Hg as [Hg _].
    apply in_concat. exists g; split; auto. destruct fe; auto. apply in_rev; auto.
  Qed.

  Lemma firstn_In' {A} : forall n (l : list A) x, In x (firstn n l) -> In x l.
  Proof. induction n; intros [|y l] x H; simpl in *; auto; try contradiction. destruct H; auto. Qed.

  Theorem limit_queries_sound : forall fixed gs limit r,
    In r (fst (limit_queries fixed from to fe gs limit)) -> inr r = true /\ In r (concat gs).
  Proof.
    intros fixed gs limit r H. rewrite limit_queries_rows in H.
    pose proof (firstn_In' _ _ _ H) as H1. apply filter_In in H1; destruct H1 as [H1 H2].
    split; auto. eapply scan_seq_in; eauto.
  Qed.

  Theorem limit_queries_limit : forall fixed gs limit,
    Z.of_nat (length (fst (limit_queries fixed from to fe gs limit))) <= Z.max 0 limit.
  Proof.
    intros; rewrite limit_queries_rows, firstn_length. lia.
  Qed.

  (* with the ends-only test gone no in-window row is lost *)
  Theorem limit_queries_rows_fixed : forall fx, f_skip fx = true -> forall gs limit,
    fst (limit_queries fx from to fe gs limit) =
    firstn (Z.to_nat limit) (filter inr (concat (if fe then rev gs else gs))).
  Proof. intros fx Hs gs limit; rewrite limit_queries_rows, (scan_seq_fixed fx Hs). reflexivity. Qed.

  (* has-more, exact characterisation for the code as it is *)
  Theorem limit_queries_more_faithful : forall fx, f_more fx = false -> forall gs limit,
    snd (limit_queries fx from to fe gs limit) = true <->
    (limit <= 0 /\ gs <> []) \/
    (0 < limit /\ exists pre r post, scan_seq fx from to fe gs = pre ++ r :: post /\ cnt pre = limit).
  Proof.
    intros fx Hm gs limit; unfold limit_queries. rewrite Hm. destruct (limit <=? 0) eqn:E.
    - apply Z.leb_le in E. simpl. destruct gs; simpl; split; intros H; try discriminate.
      + destruct H as [[_ H] | [H _]]; [contradiction | lia].
      + left; split; auto; discriminate.
      + reflexivity.
    - apply Z.leb_gt in E. rewrite (scan_more_faithful fx Hm) by lia. split.
      + intros H; right; split; auto.
      + intros [[H _] | [_ H]]; [lia | auto].
  Qed.

  (* has-more with F-C25c repaired: more in-window rows in the visiting order than the limit ... *)
  Theorem limit_queries_more_fixed_seq : forall fx, f_more fx = true -> forall gs limit,
    snd (limit_queries fx from to fe gs limit) = true <-> Z.max 0 limit < cnt (scan_seq fx from to fe gs).
  Proof.
    intros fx Hm gs limit; unfold limit_queries. rewrite Hm. destruct (limit <=? 0) eqn:E.
    - apply Z.leb_le in E. simpl. rewrite existsb_cnt. lia.
    - apply Z.leb_gt in E. rewrite (scan_more_fixed fx Hm) by lia. lia.
  Qed.

  (* ... and with F-C25d repaired as well = "rows beyond the limit exist" in the storage answer *)
  Theorem limit_queries_more_fixed : forall fx, f_more fx = true -> f_skip fx = true -> forall gs limit,
    snd (limit_queries fx from to fe gs limit) = true <-> Z.max 0 limit < cnt (concat gs).
  Proof.
    intros fx Hm Hs gs limit. rewrite (limit_queries_more_fixed_seq fx Hm), (cnt_scan_seq_fixed fx Hs). reflexivity.
  Qed.

  (* no has-more: the LOD contributed all its visible in-window rows *)
  Theorem limit_queries_nomore : forall fx gs limit,
    snd (limit_queries fx from to fe gs limit) = false ->
    Z.of_nat (length (fst (limit_queries fx from to fe gs limit))) = (if limit <=? 0 then 0 else cnt (scan_seq fx from to fe gs)) /\
    (0 < limit -> cnt (scan_seq fx from to fe gs) <= limit).
  Proof.
    intros fx gs limit H. rewrite limit_queries_rows. unfold limit_queries in H.
    destruct (limit <=? 0) eqn:E.
    - apply Z.leb_le in E. replace (Z.to_nat limit) with O by lia. simpl. split; [reflexivity | lia].
    - apply Z.leb_gt in E. assert (Hl : 0 <= limit) by lia. pose proof (scan_nomore_cnt fx (scan_seq fx from to fe gs) limit Hl H) as C. split; [|auto].
      rewrite firstn_length. unfold cnt in *. rewrite Nat.min_r; [reflexivity|].
      apply Nat2Z.inj_le. rewrite Z2Nat.id by lia. exact C.
  Qed.
End L.
