(* C25 — queryTableRows.Less is a strict weak order (lexicographic on a flattened marker), the final sort yields a
   strongly sorted list in the requested direction; in the repaired variant every row's marker describes the row. *)
From Coq Require Import ZArith List Bool Lia Sorted.
From SH Require Import Table.Model Table.Proofs Table.ProofsTable.
Import ListNotations.
Open Scope Z_scope.

(* ---------- lex_ltb is a strict total order on list Z ---------- *)
Lemma lex_irrefl : forall a, lex_ltb a a = false.
Proof. induction a; simpl; auto. rewrite Z.eqb_refl; auto. Qed.

Lemma lex_trans : forall a b c, lex_ltb a b = true -> lex_ltb b c = true -> lex_ltb a c = true.
Proof.
  induction a as [|x a IH]; intros [|y b] [|z c] H1 H2; simpl in *; try discriminate; auto.
  destruct (x =? y) eqn:Exy; destruct (y =? z) eqn:Eyz.
  - apply Z.eqb_eq in Exy, Eyz; subst. rewrite Z.eqb_refl. eapply IH; eauto.
  - apply Z.eqb_eq in Exy; subst. rewrite Eyz; auto.
  - apply Z.eqb_eq in Eyz; subst. rewrite Exy; auto.
  - apply Z.ltb_lt in H1, H2. apply Z.eqb_neq in Exy, Eyz.
    destruct (x =? z) eqn:Exz; [apply Z.eqb_eq in Exz; lia | apply Z.ltb_lt; lia].
Qed.

Lemma lex_tricho : forall a b, lex_ltb b a = false -> lex_ltb a b = true \/ a = b.
Proof.
  induction a as [|x a IH]; intros [|y b] H; simpl in *; auto; try discriminate.
  rewrite Z.eqb_sym in H. destruct (x =? y) eqn:E.
  - apply Z.eqb_eq in E; subst. destruct (IH b H) as [H1 | H1]; auto. right; congruence.
  - left. apply Z.ltb_ge in H. apply Z.eqb_neq in E. apply Z.ltb_lt; lia.
Qed.

Definition lle (a b : list Z) : bool := negb (lex_ltb b a).
Lemma lle_total : forall a b, lle a b = true \/ lle b a = true.
Proof.
  intros a b; unfold lle. destruct (lex_ltb b a) eqn:E1; auto. destruct (lex_ltb a b) eqn:E2; auto.
  pose proof (lex_trans _ _ _ E1 E2) as H. rewrite lex_irrefl in H; discriminate.
Qed.
Lemma lle_trans : forall a b c, lle a b = true -> lle b c = true -> lle a c = true.
Proof.
  unfold lle; intros a b c H1 H2. apply negb_true_iff in H1, H2. apply negb_true_iff.
  destruct (lex_ltb c a) eqn:E; auto.
  destruct (lex_tricho a b H1) as [H | H].
  - pose proof (lex_trans _ _ _ E H); congruence.
  - subst; congruence.
Qed.

(* ---------- Less = lexicographic comparison of (time, number of tags, tag values, skey) ---------- *)
Definition flat (m : marker) : list Z :=
  m_time m :: Z.of_nat (length (m_tags m)) :: map snd (m_tags m) ++ m_skey m.

Lemma vals_less_lex : forall a b s1 s2, length a = length b ->
  vals_less a b (lex_ltb s1 s2) = lex_ltb (map snd a ++ s1) (map snd b ++ s2).
Proof.
  induction a as [|[i x] a IH]; intros [|[j y] b] s1 s2 H; simpl in *; try discriminate; auto.
  destruct (x =? y); auto.
Qed.

Lemma less_flat : forall l r, less l r = lex_ltb (flat l) (flat r).
Proof.
  intros l r; unfold less, flat; simpl.
  destruct (m_time l =? m_time r); simpl; auto.
  destruct (Nat.eqb (length (m_tags l)) (length (m_tags r))) eqn:E; simpl.
  - apply Nat.eqb_eq in E. rewrite E, Z.eqb_refl. apply vals_less_lex; auto.
  - apply Nat.eqb_neq in E.
    assert (X : (Z.of_nat (length (m_tags l)) =? Z.of_nat (length (m_tags r))) = false) by (apply Z.eqb_neq; lia).
    rewrite X. destruct (Nat.ltb (length (m_tags l)) (length (m_tags r))) eqn:L.
    + apply Nat.ltb_lt in L. symmetry; apply Z.ltb_lt; lia.
    + apply Nat.ltb_ge in L. symmetry; apply Z.ltb_ge; lia.
Qed.

(* ---------- insertion sort with a total, transitive comparison is strongly sorted ---------- *)
Section Ins.
  Variable fe : bool.
  Let R (a b : orow) : Prop := row_le fe a b = true.

  Lemma row_le_total : forall a b, R a b \/ R b a.
  Proof.
    intros a b; unfold R, row_le. rewrite !less_flat. destruct fe.
    - destruct (lle_total (flat (o_repr b)) (flat (o_repr a))); auto.
    - destruct (lle_total (flat (o_repr a)) (flat (o_repr b))); auto.
  Qed.
  Lemma row_le_trans : forall a b c, R a b -> R b c -> R a c.
  Proof.
    intros a b c; unfold R, row_le. rewrite !less_flat. destruct fe; intros H1 H2.
    - exact (lle_trans _ _ _ H2 H1).
    - exact (lle_trans _ _ _ H1 H2).
  Qed.

  Lemma insert_o_In : forall x l y, In y (insert_o fe x l) -> y = x \/ In y l.
  Proof.
    induction l as [|z l IH]; intros y H; simpl in *.
    - destruct H; auto.
    - destruct (row_le fe x z); simpl in H.
      + destruct H as [H | [H | H]]; auto.
      + destruct H as [H | H]; auto. destruct (IH y H); auto.
  Qed.

  Lemma insert_o_sorted : forall x l, StronglySorted R l -> StronglySorted R (insert_o fe x l).
  Proof.
    induction l as [|y l IH]; intros H; simpl.
    - constructor; constructor.
    - inversion H as [|? ? Hl Hy]; subst. destruct (row_le fe x y) eqn:E.
      + constructor; auto. constructor; [exact E|].
        rewrite Forall_forall in *. intros z Hz. eapply row_le_trans; [exact E | apply Hy; auto].
      + constructor; auto. rewrite Forall_forall in *. intros z Hz.
        destruct (insert_o_In _ _ _ Hz) as [-> | Hz'].
        * destruct (row_le_total x y) as [H1 | H1]; auto. unfold R in H1; congruence.
        * apply Hy; auto.
  Qed.

  Lemma sort_o_sorted : forall l, StronglySorted R (sort_o fe l).
  Proof. induction l; simpl; [constructor | apply insert_o_sorted; auto]. Qed.
End Ins.

Theorem rows_sorted : forall fixed whats lods by_ by_s from to fe num desired store,
  StronglySorted (fun a b => row_le fe a b = true)
    (table_rows fixed whats lods by_ by_s from to fe num desired store).
Proof.
  intros; unfold table_rows. destruct (assemble _ _ _ _ _ _ _ _ _ _ _) as [[[st hm] qi] cols].
  apply sort_o_sorted.
Qed.

(* ---------- F-C25e and F-C25f repaired: the marker stored with a row describes that row ---------- *)
Section Repr.
  Variable fx : fixes.
  Hypothesis Htags : f_tags fx = true.
  Hypothesis Hskey : f_skey fx = true.
  Variable lods : list lod.
  Variable by_ : list Z.
  Variable by_s : bool.
  Variables from to : marker.
  Variable fe : bool.
  Variables num desired : Z.
  Variable store : nat -> nat -> list (list row).
  Let good (o : orow) : Prop := o_repr o = repr_of by_ by_s (o_row o).

  Lemma upsert_good : forall pre sel cur c st rl, Forall good st ->
    Forall good (upsert desired pre sel (chunk_tags fx by_ c (fst rl)) (next_skey fx by_s cur (fst rl)) st rl).
  Proof.
    induction st as [|o st IH]; intros rl H; simpl.
    - constructor; [|constructor]. unfold good, repr_of, chunk_tags, next_skey, repr_skey; simpl.
      rewrite Htags, Hskey. reflexivity.
    - inversion H as [|? ? Ho Hst]; subst. destruct (key_eqb _ _).
      + constructor; [|exact Hst]. unfold good in *; simpl. exact Ho.
      + constructor; [exact Ho | apply IH; exact Hst].
  Qed.

  Lemma chunk_fold_good : forall pre sel c0 c acc, Forall good (fst acc) ->
    Forall good (fst (fold_left (chunk_step fx by_ by_s desired pre sel c0) c acc)).
  Proof.
    induction c as [|rl c IH]; intros acc H; simpl; auto.
    apply IH. unfold chunk_step; simpl. apply (upsert_good pre sel (snd acc) c0 (fst acc) rl H).
  Qed.

  Lemma chunks_good : forall pre sel chunks st, Forall good st ->
    Forall good (fold_left (do_chunk fx by_ by_s desired pre sel) chunks st).
  Proof.
    induction chunks as [|c cs IH]; intros st H; simpl; auto.
    apply IH. unfold do_chunk. apply chunk_fold_good; exact H.
  Qed.

  Lemma pad_good : forall sel prs st, Forall good st -> Forall good (pad_unused fx sel prs st).
  Proof.
    intros sel prs st H; unfold pad_unused. rewrite Forall_forall in *. intros o Ho.
    apply in_map_iff in Ho. destruct Ho as [o' [E Ho']]. specialize (H o' Ho').
    destruct (existsb _ _); subst; auto.
  Qed.

  Lemma fold_pass_good : forall hws a, Forall good (st_of a) ->
    Forall good (st_of (fold_left (do_pass fx lods by_ by_s from to fe num desired store) hws a)).
  Proof.
    induction hws as [|hw hws IH]; intros [[[st hm] qi] cols] H; [exact H | rewrite fl_cons].
    apply IH. unfold do_pass. destruct (pass_rows fx lods from to fe num store qi) as [chunks hmp].
    simpl. apply pad_good, chunks_good; exact H.
  Qed.

  Theorem marker_describes_row_fixed : forall whats o,
    In o (table_rows fx whats lods by_ by_s from to fe num desired store) ->
    o_repr o = repr_of by_ by_s (o_row o).
  Proof.
    intros whats o Hin. unfold table_rows in Hin.
    pose proof (fold_pass_good (handler_whats whats) ([], false, O, O) (Forall_nil _)) as H.
    fold (assemble fx whats lods by_ by_s from to fe num desired store) in H.
    destruct (assemble fx whats lods by_ by_s from to fe num desired store) as [[[st hm] qi] cols].
    simpl in H. apply (Permutation.Permutation_in _ (sort_o_perm fe st)) in Hin.
    rewrite Forall_forall in H. apply H; exact Hin.
  Qed.
End Repr.
