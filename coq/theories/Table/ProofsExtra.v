(* C25 — corollaries, and witnesses on which the code as it is (fixed = false) violates clauses of the property. *)
From Coq Require Import ZArith List Bool Lia Sorted.
From SH Require Import Table.Model Table.Proofs Table.ProofsTable Table.ProofsLimit Table.ProofsSort Table.ProofsWindow Table.ProofsMore.
Import ListNotations.
Open Scope Z_scope.

(* ---------- sorted by what the rows are (repaired variant) ---------- *)
Definition true_le (by_ : list Z) (by_s : bool) (fe : bool) (a b : orow) : bool :=
  if fe then negb (less (repr_of by_ by_s (o_row a)) (repr_of by_ by_s (o_row b)))
  else negb (less (repr_of by_ by_s (o_row b)) (repr_of by_ by_s (o_row a))).

Lemma sorted_transport : forall by_ by_s fe l,
  StronglySorted (fun a b => row_le fe a b = true) l ->
  (forall o, In o l -> o_repr o = repr_of by_ by_s (o_row o)) ->
  StronglySorted (fun a b => true_le by_ by_s fe a b = true) l.
Proof.
  induction l as [|x l IH]; intros S H; [constructor|].
  inversion S as [|? ? Sl Fx]; subst. constructor.
  - apply IH; auto. intros; apply H; right; auto.
  - rewrite Forall_forall in *. intros y Hy. specialize (Fx y Hy).
    unfold true_le, row_le in *. rewrite <- (H x (or_introl eq_refl)), <- (H y (or_intror Hy)). exact Fx.
Qed.

Theorem rows_sorted_true_fixed : forall fx whats lods by_ by_s from to fe num desired store,
  f_tags fx = true -> f_skey fx = true ->
  StronglySorted (fun a b => true_le by_ by_s fe a b = true)
    (table_rows fx whats lods by_ by_s from to fe num desired store).
Proof.
  intros fx whats lods by_ by_s from to fe num desired store Ht Hs. apply sorted_transport; [apply rows_sorted|].
  intros o Ho. eapply (marker_describes_row_fixed fx Ht Hs); eauto.
Qed.

(* ---------- at most 7 functions: one function group, so the limit bounds the whole table ---------- *)
Theorem table_limit_upto7 : forall fixed whats lods by_ by_s from to fe num desired store,
  (length whats <= ts_value_count)%nat ->
  Z.of_nat (length (table_rows fixed whats lods by_ by_s from to fe num desired store)) <= Z.max 0 num.
Proof.
  intros fixed whats lods by_ by_s from to fe num desired store H.
  pose proof (table_limit fixed lods by_ by_s from to fe num desired store whats) as L.
  assert (G : (length (handler_whats whats) <= 1)%nat).
  { destruct whats as [|w ws] eqn:E; [simpl; lia|]. rewrite <- E in *.
    destruct (handler_whats_single whats H) as [s [q [Eh _]]]; [rewrite E; discriminate|]. rewrite Eh; simpl; lia. }
  nia.
Qed.

(* ================= witnesses against the code as it is ================= *)
Definition w_row (t tag0 : Z) (sk : bytes) : row :=
  mkRow t [(0, tag0)] (match sk with [] => [] | _ => [(47, sk)] end) 0 0 [] 4 8 0 1 1 0.
Definition w_lods : list lod := [mkLod 100 110 1].
Definition w_m0 : marker := mkMarker 0 [] [].

(* F-C25a: 8 functions = two function groups (7 + 1); a row that only the second group's storage answer contains
   gets 1 + 1 columns instead of 8 *)
Definition w_store_a (p k : nat) : list (list row) :=
  match p with O => [[w_row 101 1 []]] | S _ => [[w_row 101 1 []]; [w_row 102 2 []]] end.
Definition w_whats8 : list Z := [1; 4; 7; 8; 9; 15; 23; 26].

Lemma one_column_refuted :
  exists whats lods by_ by_s from to fe num desired store,
    (forall p, NoDup (map rkey (pass_flat (fx_all false) lods from to fe num store p))) /\
    panics (fx_all false) whats lods from to fe num store = false /\
    exists o, In o (table_rows (fx_all false) whats lods by_ by_s from to fe num desired store) /\
              length (o_data o) <> length whats.
Proof.
  exists w_whats8, w_lods, [], false, w_m0, w_m0, false, 10, 0, w_store_a.
  split; [|split].
  - intros [|p]; vm_compute; repeat constructor; simpl; intuition discriminate.
  - vm_compute; reflexivity.
  - eexists; split; [vm_compute; right; left; reflexivity | vm_compute; discriminate].
Qed.

(* the same input is aligned in the repaired variant (non-vacuity of its hypothesis on a two-group query) *)
Lemma one_column_fixed_nonvacuous :
  (forall p, NoDup (map rkey (pass_flat (fx_all true) w_lods w_m0 w_m0 false 10 w_store_a p))) /\
  map (fun o => length (o_data o)) (table_rows (fx_all true) w_whats8 w_lods [] false w_m0 w_m0 false 10 0 w_store_a) = [8%nat; 8%nat] /\
  map o_data (table_rows (fx_all true) w_whats8 w_lods [] false w_m0 w_m0 false 10 0 w_store_a) =
    [[Some 4; Some 8; Some 2; Some 0; Some 1; Some 1; Some 0; Some 0];
     [None; None; None; None; None; None; None; Some 0]].
Proof.
  split; [|split]; [intros [|p]; vm_compute; repeat constructor; simpl; intuition discriminate | vm_compute; reflexivity ..].
Qed.

(* F-C25b: 8 functions sharing selectors form ONE group of 8; appendRowValues indexes tsWhat (7 entries) with 7: panic *)
Lemma no_panic_refuted :
  exists whats lods by_ by_s from to fe num desired store,
    table (fx_all false) whats lods by_ by_s from to fe num desired store = None.
Proof.
  exists [1; 2; 3; 4; 5; 6; 7; 8], w_lods, [], false, w_m0, w_m0, false, 10, 0, (fun _ _ => [[w_row 101 1 []]]).
  vm_compute; reflexivity.
Qed.

(* F-C25c: has-more is raised by a further row OUTSIDE the window: limit 1, window (.., (101, tag0=2)) exclusive *)
Lemma has_more_refuted :
  exists from to fe gs limit,
    snd (limit_queries (fx_all false) from to fe gs limit) = true /\ ~ (Z.max 0 limit < cnt from to fe (concat gs)).
Proof.
  exists w_m0, (mkMarker 101 [(0, 2)] []), false, [[w_row 101 1 []; w_row 101 2 []]], 1.
  split; [vm_compute; reflexivity | vm_compute; intros H; discriminate].
Qed.

(* ... and it is not raised although rows beyond the limit exist, when the quota ran out exactly at the end of a LOD
   whose successor answers with no time slot that survives — covered by limit_queries_more_faithful; the dual failure
   through the ends-only group test: *)
(* F-C25d: both markers inside one time slot: first and last row of the slot are outside, the slot is skipped and the
   in-window row in the middle is lost (and has-more stays false) *)
Lemma window_complete_refuted :
  exists from to fe gs limit r,
    In r (concat gs) /\ in_range from to fe r = true /\ cnt from to fe (concat gs) <= limit /\
    ~ In r (fst (limit_queries (fx_all false) from to fe gs limit)) /\ snd (limit_queries (fx_all false) from to fe gs limit) = false.
Proof.
  exists (mkMarker 101 [(0, 1)] []), (mkMarker 101 [(0, 3)] []), false,
         [[w_row 101 1 []; w_row 101 2 []; w_row 101 3 []]], 10, (w_row 101 2 []).
  split; [simpl; auto|]. split; [vm_compute; reflexivity|]. split; [vm_compute; discriminate|].
  split; [vm_compute; intros [] | vm_compute; reflexivity].
Qed.

(* F-C25e: rowRepr.Tags of all rows created during one LOD visit alias one array, so the sort compares the tags of the
   last row with themselves and falls through to the string key: rows come out in the wrong order, with wrong markers *)
Lemma sorted_refuted :
  exists whats lods by_ by_s from to num desired store a b,
    table (fx_all false) whats lods by_ by_s from to false num desired store = Some ([a; b], false) /\
    less (repr_of by_ by_s (o_row b)) (repr_of by_ by_s (o_row a)) = true /\
    o_repr b <> repr_of by_ by_s (o_row b).
Proof.
  exists [1], w_lods, [0], true, w_m0, w_m0, 10, 0, (fun _ _ => [[w_row 101 1 [98]; w_row 101 2 [97]]]).
  eexists; eexists. split; [vm_compute; reflexivity|]. split; [vm_compute; reflexivity | vm_compute; discriminate].
Qed.

(* F-C25f: a row without string key inherits rowRepr.SKey of the previously processed row *)
Lemma stale_skey_refuted :
  exists whats lods by_ by_s from to num desired store o,
    In o (table_rows (fx_all false) whats lods by_ by_s from to false num desired store) /\
    m_skey (o_repr o) <> m_skey (repr_of by_ by_s (o_row o)).
Proof.
  exists [1], w_lods, [], true, w_m0, w_m0, 10, 0, (fun _ _ => [[w_row 101 1 [97]; w_row 101 2 []]]).
  eexists; split; [vm_compute; right; left; reflexivity | vm_compute; discriminate].
Qed.

(* ---------- non-vacuity of the positive statements on a non-trivial query ---------- *)
Definition nv_store (p k : nat) : list (list row) :=
  match k with
  | O => [[w_row 101 1 []; w_row 101 2 [97]]; [w_row 103 1 []]]
  | S _ => [[w_row 111 1 []]; [w_row 112 3 [98]]]
  end.
Definition nv_lods : list lod := [mkLod 100 110 1; mkLod 110 120 2].

Lemma upto7_nonvacuous :
  (length [3; 6] <= ts_value_count)%nat /\
  NoDup (map rkey (pass_flat (fx_all false) nv_lods (mkMarker 101 [(0, 1)] []) w_m0 false 3 nv_store O)) /\
  table (fx_all false) [3; 6] nv_lods [] false (mkMarker 101 [(0, 1)] []) w_m0 false 3 0 nv_store =
    Some ([mkO (w_row 101 2 [97]) [Some 4; Some 8] (mkMarker 101 [] []);
           mkO (w_row 103 1 []) [Some 4; Some 8] (mkMarker 103 [] []);
           mkO (w_row 111 1 []) [Some 4; Some 8] (mkMarker 111 [] [])], true).
Proof.
  split; [vm_compute; lia|]. split; [vm_compute; repeat constructor; simpl; intuition discriminate | vm_compute; reflexivity].
Qed.

Lemma has_more_nonvacuous :
  snd (limit_queries (fx_all true) w_m0 w_m0 false (nv_store 0 0)%nat 2) = true /\
  Z.max 0 2 < cnt w_m0 w_m0 false (concat (nv_store 0 0)%nat) /\
  snd (limit_queries (fx_all true) w_m0 w_m0 false (nv_store 0 0)%nat 3) = false /\
  snd (limit_queries (fx_all false) w_m0 w_m0 true (nv_store 0 0)%nat 2) = true.
Proof. repeat split; vm_compute; reflexivity. Qed.

(* cross-LOD has-more: 3 + 2 in-window rows over two LODs, limit 3 reached inside the second LOD; limit 5 = all rows *)
Lemma has_more_all_lods_nonvacuous :
  (forall p k r, In r (concat (nv_store p k)) -> 0 <= r_time r <= max_int) /\
  window_total nv_lods w_m0 w_m0 false nv_store O = 5 /\
  table_more (fx_all true) [1] nv_lods [] false w_m0 w_m0 false 3 0 nv_store = true /\
  table_more (fx_all true) [1] nv_lods [] false w_m0 w_m0 false 5 0 nv_store = false /\
  table_more (fx_all true) [1] nv_lods [] false w_m0 w_m0 true 4 0 nv_store = true.
Proof.
  split; [|repeat split; vm_compute; reflexivity].
  intros p [|k] r H; simpl in H; unfold max_int; intuition subst; simpl; lia.
Qed.
