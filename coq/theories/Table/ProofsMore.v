(* C25 — has-more across the LOD list: the quota [numResults - rowsCount] is threaded through the visited LODs.
   - any variant: the flag of a function group is the flag of the first overlapping LOD (in visiting order) whose
     limitQueries reports more for the quota left by the in-window rows the earlier LODs showed ([first_more]);
   - F-C25c and F-C25d repaired: iff the storage answers of the overlapping LODs hold more in-window rows than the limit. *)
From Coq Require Import ZArith List Bool Lia.
From SH Require Import Table.Model Table.Proofs Table.ProofsTable Table.ProofsLimit Table.ProofsWindow.
Import ListNotations.
Open Scope Z_scope.

Lemma filter_all {A} (f : A -> bool) : forall l, (forall x, In x l -> f x = true) -> filter f l = l.
Proof.
  induction l as [|x l IH]; intros H; simpl; auto.
  rewrite (H x (or_introl eq_refl)), IH; auto. intros; apply H; right; auto.
Qed.

(* unix timestamps: a row inside the marker window is inside the time bounds *)
Lemma in_range_time_ok : forall from to fe r, 0 <= r_time r <= max_int ->
  in_range from to fe r = true -> time_ok from to fe r = true.
Proof.
  intros from to fe r Ht H. unfold in_range in H. apply andb_true_iff in H. destruct H as [H1 H2].
  unfold time_ok, to_time, from_time, less_than in *. apply negb_true_iff. apply orb_false_iff.
  destruct fe;
    destruct (m_time from =? 0) eqn:Ef; destruct (m_time to =? 0) eqn:Et;
    destruct (m_time from =? r_time r) eqn:E1; destruct (m_time to =? r_time r) eqn:E2;
    simpl in *;
    repeat match goal with
           | H : negb _ = true |- _ => apply negb_true_iff in H
           | H : (_ =? _) = true |- _ => apply Z.eqb_eq in H
           | H : (_ =? _) = false |- _ => apply Z.eqb_neq in H
           | H : (_ <? _) = true |- _ => apply Z.ltb_lt in H
           | H : (_ <? _) = false |- _ => apply Z.ltb_ge in H
           end;
    split; apply Z.ltb_ge; unfold max_int in *; lia.
Qed.

Section M.
  Variable fx : fixes.
  Variable lods : list lod.
  Variables from to : marker.
  Variable fe : bool.
  Variable num : Z.
  Variable store : nat -> nat -> list (list row).

  Notation inr := (in_range from to fe).
  Notation tok := (time_ok from to fe).

  (* the LOD overlap test of getTableFromLODs *)
  Definition ov (l : lod) : bool := negb ((to_time from to fe <? l_from l) || (l_to l <? from_time from to fe)).
  (* in-window rows of LOD k that the row loop of limitQueries can see *)
  Definition vis (p k : nat) : Z := cnt from to fe (scan_seq fx from to fe (store p k)).

  Fixpoint first_more (p : nat) (ls : list (nat * lod)) (q : Z) : bool :=
    match ls with
    | [] => false
    | (k, l) :: ls' =>
        if ov l then
          if snd (limit_queries fx from to fe (store p k) q) then true
          else first_more p ls' (q - (if q <=? 0 then 0 else vis p k))
        else first_more p ls' q
    end.

  Section P.
    Variable p : nat.
    Hypothesis Htime : forall k r, In r (concat (store p k)) -> inr r = true -> tok r = true.

    Lemma kept_all : forall k q,
      filter tok (fst (limit_queries fx from to fe (store p k) q)) = fst (limit_queries fx from to fe (store p k) q).
    Proof.
      intros k q. apply filter_all. intros r Hr.
      destruct (limit_queries_sound from to fe fx (store p k) q r Hr) as [A B]. eapply Htime; eauto.
    Qed.

    (* any variant: quota threading *)
    Theorem scan_lods_more : forall ls c,
      snd (scan_lods fx from to fe num store p ls c) = first_more p ls (num - c).
    Proof.
      induction ls as [|[k l] ls IH]; intros c; simpl; auto.
      unfold ov. destruct ((to_time from to fe <? l_from l) || (l_to l <? from_time from to fe)); simpl; [apply IH|].
      pose proof (kept_all k (num - c)) as K. pose proof (limit_queries_nomore from to fe fx (store p k) (num - c)) as N.
      destruct (limit_queries fx from to fe (store p k) (num - c)) as [rows hm]. simpl in *.
      destruct hm; [reflexivity|]. destruct (N eq_refl) as [N1 _].
      rewrite K, map_length, N1. fold (vis p k).
      specialize (IH (c + (if num - c <=? 0 then 0 else vis p k))).
      destruct (scan_lods fx from to fe num store p ls (c + (if num - c <=? 0 then 0 else vis p k))) as [rest hm'].
      cbn [snd] in *. rewrite IH. f_equal. lia.
    Qed.

    (* ---------- F-C25c and F-C25d repaired ---------- *)
    Fixpoint total (ls : list (nat * lod)) : Z :=
      match ls with
      | [] => 0
      | (k, l) :: ls' => (if ov l then cnt from to fe (concat (store p k)) else 0) + total ls'
      end.
    Lemma total_nonneg : forall ls, 0 <= total ls.
    Proof.
      induction ls as [|[k l] ls IH]; simpl; [lia|].
      pose proof (cnt_nonneg from to fe (concat (store p k))). destruct (ov l); lia.
    Qed.
    Lemma total_app : forall a b, total (a ++ b) = total a + total b.
    Proof. induction a as [|[k l] a IH]; intros b; simpl; [lia | rewrite IH; lia]. Qed.
    Lemma total_rev : forall ls, total (rev ls) = total ls.
    Proof. induction ls as [|[k l] ls IH]; simpl; auto. rewrite total_app, IH; simpl; lia. Qed.

    Hypothesis Hmore : f_more fx = true.
    Hypothesis Hskip : f_skip fx = true.

    Lemma first_more_fixed : forall ls q, first_more p ls q = true <-> Z.max 0 q < total ls.
    Proof.
      induction ls as [|[k l] ls IH]; intros q; simpl.
      - split; [discriminate | lia].
      - pose proof (total_nonneg ls) as T. pose proof (cnt_nonneg from to fe (concat (store p k))) as C.
        destruct (ov l); [|rewrite IH; lia].
        pose proof (limit_queries_more_fixed from to fe fx Hmore Hskip (store p k) q) as M.
        destruct (snd (limit_queries fx from to fe (store p k) q)).
        + destruct M as [M _]. specialize (M eq_refl). split; auto; intros _; lia.
        + assert (N : ~ Z.max 0 q < cnt from to fe (concat (store p k))) by (intros X; apply M in X; discriminate).
          rewrite IH. unfold vis. rewrite (cnt_scan_seq_fixed from to fe fx Hskip).
          destruct (q <=? 0) eqn:E; [apply Z.leb_le in E | apply Z.leb_gt in E]; lia.
    Qed.

    (* the in-window rows this function group's storage answers hold over all overlapping LODs *)
    Definition window_total : Z := total (combine (seq 0 (length lods)) lods).

    Theorem pass_more_fixed :
      snd (pass_rows fx lods from to fe num store p) = true <-> Z.max 0 num < window_total.
    Proof.
      unfold pass_rows. rewrite scan_lods_more, first_more_fixed. replace (num - 0) with num by lia.
      unfold window_total, lod_order. destruct fe; [rewrite total_rev|]; reflexivity.
    Qed.
  End P.
End M.

(* ---------- table level ---------- *)
Theorem table_more_fixed : forall fx whats lods by_ by_s from to fe num desired store,
  f_more fx = true -> f_skip fx = true ->
  (forall p k r, In r (concat (store p k)) -> 0 <= r_time r <= max_int) ->
  (table_more fx whats lods by_ by_s from to fe num desired store = true <->
   exists p, (p < length (handler_whats whats))%nat /\ Z.max 0 num < window_total lods from to fe store p).
Proof.
  intros fx whats lods by_ by_s from to fe num desired store Hm Hs Ht.
  rewrite table_more_spec, existsb_exists.
  assert (Htime : forall p k r, In r (concat (store p k)) -> in_range from to fe r = true -> time_ok from to fe r = true)
    by (intros; apply in_range_time_ok; eauto).
  split.
  - intros [p [Hin H]]. apply in_seq in Hin. exists p; split; [lia|].
    apply (pass_more_fixed fx lods from to fe num store p (Htime p) Hm Hs); exact H.
  - intros [p [Hp H]]. exists p; split; [apply in_seq; lia|].
    apply (pass_more_fixed fx lods from to fe num store p (Htime p) Hm Hs); exact H.
Qed.

(* any variant (in particular the code as it is): the table's flag, quota threaded over the LODs in visiting order *)
Theorem table_more_threaded : forall fx whats lods by_ by_s from to fe num desired store,
  (forall p k r, In r (concat (store p k)) -> 0 <= r_time r <= max_int) ->
  table_more fx whats lods by_ by_s from to fe num desired store =
  existsb (fun p => first_more fx from to fe store p (lod_order lods fe) num) (seq 0 (length (handler_whats whats))).
Proof.
  intros fx whats lods by_ by_s from to fe num desired store Ht. rewrite table_more_spec.
  assert (Htime : forall p k r, In r (concat (store p k)) -> in_range from to fe r = true -> time_ok from to fe r = true)
    by (intros; apply in_range_time_ok; eauto).
  generalize (seq 0 (length (handler_whats whats))) as l. induction l as [|p l IH]; simpl; auto.
  rewrite IH. f_equal. unfold pass_rows. rewrite (scan_lods_more fx from to fe num store p (Htime p)).
  replace (num - 0) with num by lia. reflexivity.
Qed.
