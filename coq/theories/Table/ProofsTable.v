(* C25 — uniqueness and column alignment of getTableFromLODs' result (over the model of Table/Model.v). *)
From Coq Require Import ZArith List Bool Lia Permutation.
From SH Require Import Table.Model Table.Proofs.
Import ListNotations.
Open Scope Z_scope.

Lemma fl_cons {A B} (f : A -> B -> A) x l a : fold_left f (x :: l) a = fold_left f l (f a x).
Proof. reflexivity. Qed.

(* ---------- sort_o is a permutation ---------- *)
Lemma insert_o_perm : forall fe x l, Permutation (insert_o fe x l) (x :: l).
Proof.
  induction l as [|y l IH]; simpl; auto.
  destruct (row_le fe x y); auto.
  eapply perm_trans; [apply perm_skip, IH | apply perm_swap].
Qed.
Lemma sort_o_perm : forall fe l, Permutation (sort_o fe l) l.
Proof.
  induction l as [|x l IH]; simpl; auto.
  eapply perm_trans; [apply insert_o_perm | apply perm_skip, IH].
Qed.

(* ---------- getHandlerWhat keeps every requested function exactly once ---------- *)
Definition total_sel (hws : list (list Z * list (Z * Z))) : nat :=
  fold_right (fun hw acc => (length (fst hw) + acc)%nat) O hws.

Lemma hw_go_total : forall ws sel qry, total_sel (hw_go ws sel qry) = (length sel + length ws)%nat.
Proof.
  induction ws as [|w ws IH]; intros sel qry; simpl; [lia|].
  destruct (length qry <? ts_value_count)%nat.
  - destruct (zz_eqb _ _); rewrite IH, app_length; simpl; lia.
  - simpl. rewrite IH. simpl. lia.
Qed.
Lemma insert_z_length : forall x l, length (insert_z x l) = S (length l).
Proof. induction l as [|y l IH]; simpl; auto. destruct (x <=? y); simpl; auto. Qed.
Lemma sort_z_length : forall l, length (sort_z l) = length l.
Proof. induction l; simpl; auto. rewrite insert_z_length; auto. Qed.
Lemma handler_whats_total : forall whats, total_sel (handler_whats whats) = length whats.
Proof.
  intros whats; unfold handler_whats. pose proof (sort_z_length whats) as L.
  destruct (sort_z whats) as [|w ws]; simpl in *; [lia|]. rewrite hw_go_total; simpl; lia.
Qed.

Lemma hw_go_single : forall ws sel qry, (length qry + length ws <= ts_value_count)%nat ->
  exists s q, hw_go ws sel qry = [(s, q)] /\ length s = (length sel + length ws)%nat.
Proof.
  induction ws as [|w ws IH]; intros sel qry H; simpl in *.
  - exists sel, qry; split; auto.
  - assert (E : (length qry <? ts_value_count)%nat = true) by (apply Nat.ltb_lt; lia). rewrite E.
    destruct (zz_eqb _ _).
    + destruct (IH (sel ++ [w]) qry) as [s [q [E1 E2]]]; [lia|]. exists s, q; split; auto.
      rewrite E2, app_length; simpl; lia.
    + destruct (IH (sel ++ [w]) (qry ++ [selector w])) as [s [q [E1 E2]]]; [rewrite app_length; simpl; lia|].
      exists s, q; split; auto. rewrite E2, app_length; simpl; lia.
Qed.
Lemma handler_whats_single : forall whats, (length whats <= ts_value_count)%nat -> whats <> [] ->
  exists s q, handler_whats whats = [(s, q)] /\ length s = length whats.
Proof.
  intros whats H Hne; unfold handler_whats. pose proof (sort_z_length whats) as L.
  destruct (sort_z whats) as [|w ws]; simpl in *.
  - destruct whats; simpl in *; [contradiction | lia].
  - destruct (hw_go_single ws [w] [selector w]) as [s [q [E1 E2]]]; [simpl; lia|].
    exists s, q; split; auto. rewrite E2; simpl; lia.
Qed.

Section T.
  Variable fixed : fixes.
  Variable whats : list Z.
  Variable lods : list lod.
  Variable by_ : list Z.
  Variable by_s : bool.
  Variables from to : marker.
  Variable fe : bool.
  Variables num desired : Z.
  Variable store : nat -> nat -> list (list row).

  Notation pass_flat' := (pass_flat fixed lods from to fe num store).
  Notation pass_rows' := (pass_rows fixed lods from to fe num store).
  Notation do_pass' := (do_pass fixed lods by_ by_s from to fe num desired store).
  Notation assemble' := (assemble fixed whats lods by_ by_s from to fe num desired store).
  Notation table_rows' := (table_rows fixed whats lods by_ by_s from to fe num desired store).

  Definition st_of (a : list orow * bool * nat * nat) := let '(st, _, _, _) := a in st.
  Definition hm_of (a : list orow * bool * nat * nat) := let '(_, hm, _, _) := a in hm.
  Definition qi_of (a : list orow * bool * nat * nat) := let '(_, _, qi, _) := a in qi.
  Definition cols_of (a : list orow * bool * nat * nat) := let '(_, _, _, c) := a in c.

  Lemma do_pass_spec : forall st hm qi cols hw,
    let n := length (fst hw) in
    let ks := map rkey (pass_flat' qi) in
    abs (st_of (do_pass' (st, hm, qi, cols) hw)) =
      a_pad (if f_pad fixed then n else 1%nat) ks (fold_left (a_upsert (if f_pad fixed then cols else qi) n) ks (abs st)) /\
    hm_of (do_pass' (st, hm, qi, cols) hw) = hm || snd (pass_rows' qi) /\
    qi_of (do_pass' (st, hm, qi, cols) hw) = S qi /\
    cols_of (do_pass' (st, hm, qi, cols) hw) = (cols + n)%nat.
  Proof.
    intros st hm qi cols hw n ks. unfold do_pass, ks, pass_flat.
    destruct (pass_rows' qi) as [chunks hmp] eqn:E. simpl.
    rewrite abs_pad, abs_chunks. auto.
  Qed.

  (* ---------- rows are unique by time and tags ---------- *)
  Lemma fold_pass_nodup : forall hws a, NoDup (map fst (abs (st_of a))) ->
    NoDup (map fst (abs (st_of (fold_left do_pass' hws a)))).
  Proof.
    induction hws as [|hw hws IH]; intros [[[st hm] qi] cols] H; [exact H | rewrite fl_cons].
    apply IH. destruct (do_pass_spec st hm qi cols hw) as [E _]. rewrite E, a_pad_keys.
    apply a_fold_nodup; exact H.
  Qed.

  Lemma abs_keys : forall st, map fst (abs st) = map okey st.
  Proof. intros; unfold abs; rewrite map_map; reflexivity. Qed.

  Theorem rows_unique : NoDup (map okey table_rows').
  Proof.
    unfold table_rows. pose proof (fold_pass_nodup (handler_whats whats) ([], false, O, O)) as H.
    fold assemble' in H. destruct assemble' as [[[st hm] qi] cols]. simpl in H.
    rewrite abs_keys in H.
    eapply Permutation_NoDup; [apply Permutation_map, Permutation_sym, sort_o_perm | apply H; constructor].
  Qed.

  Lemma fold_pass_cols : forall hws a,
    cols_of (fold_left do_pass' hws a) = (cols_of a + total_sel hws)%nat /\
    qi_of (fold_left do_pass' hws a) = (qi_of a + length hws)%nat.
  Proof.
    induction hws as [|hw hws IH]; intros [[[st hm] qi] cols]; [simpl; lia | rewrite fl_cons].
    destruct (do_pass_spec st hm qi cols hw) as [_ [_ [Eq Ec]]].
    destruct (IH (do_pass' (st, hm, qi, cols) hw)) as [IH1 IH2]. rewrite IH1, IH2, Eq, Ec. simpl. lia.
  Qed.
End T.

(* ---------- one column per requested function ---------- *)
Section Columns.
  Variable fx : fixes.
  Variable whats : list Z.
  Variable lods : list lod.
  Variable by_ : list Z.
  Variable by_s : bool.
  Variables from to : marker.
  Variable fe : bool.
  Variables num desired : Z.
  Variable store : nat -> nat -> list (list row).

  (* padding repaired (f_pad): for every number of functions, provided no function group is handed the same
     (time, tags) twice; the other switches are arbitrary *)
  Lemma fold_pass_aligned_fixed : forall hws a,
    f_pad fx = true ->
    (forall p, NoDup (map rkey (pass_flat fx lods from to fe num store p))) ->
    NoDup (map fst (abs (st_of a))) ->
    (forall k m, In (k, m) (abs (st_of a)) -> m = cols_of a) ->
    let r := fold_left (do_pass fx lods by_ by_s from to fe num desired store) hws a in
    forall k m, In (k, m) (abs (st_of r)) -> m = cols_of r.
  Proof.
    induction hws as [|hw hws IH]; intros [[[st hm] qi] cols] Hp Hnd Hst Hall; [exact Hall | rewrite fl_cons].
    apply IH; auto.
    - destruct (do_pass_spec fx lods by_ by_s from to fe num desired store st hm qi cols hw) as [E _].
      rewrite E, a_pad_keys. apply a_fold_nodup; exact Hst.
    - destruct (do_pass_spec fx lods by_ by_s from to fe num desired store st hm qi cols hw) as [E [_ [_ Ec]]].
      rewrite E, Ec, Hp. intros k m Hin.
      apply (a_pass_aligned cols (length (fst hw)) (map rkey (pass_flat fx lods from to fe num store qi)) (abs st) Hst (Hnd qi) Hall k m Hin).
  Qed.

  Theorem one_column_fixed :
    f_pad fx = true ->
    (forall p, NoDup (map rkey (pass_flat fx lods from to fe num store p))) ->
    forall o, In o (table_rows fx whats lods by_ by_s from to fe num desired store) ->
    length (o_data o) = length whats.
  Proof.
    intros Hp Hnd o Hin. unfold table_rows in Hin.
    pose proof (fold_pass_aligned_fixed (handler_whats whats) ([], false, O, O) Hp Hnd) as H.
    pose proof (fold_pass_cols fx lods by_ by_s from to fe num desired store (handler_whats whats) ([], false, O, O)) as [Hc _].
    fold (assemble fx whats lods by_ by_s from to fe num desired store) in H, Hc.
    destruct (assemble fx whats lods by_ by_s from to fe num desired store) as [[[st hm] qi] cols].
    simpl in H, Hc. rewrite handler_whats_total in Hc.
    apply (Permutation_in _ (sort_o_perm fe st)) in Hin.
    rewrite <- Hc. apply (H (NoDup_nil _) (fun _ _ F => match F with end) (okey o)).
    change (okey o, length (o_data o)) with (absO o). apply in_map; exact Hin.
  Qed.

  (* any variant, in particular the code as it is: at most tsValueCount = 7 requested functions (one function group) *)
  Theorem one_column_upto7 :
    (length whats <= ts_value_count)%nat ->
    NoDup (map rkey (pass_flat fx lods from to fe num store O)) ->
    panics fx whats lods from to fe num store = false /\
    forall o, In o (table_rows fx whats lods by_ by_s from to fe num desired store) ->
    length (o_data o) = length whats.
  Proof.
    intros Hle Hnd.
    destruct whats as [|w0 ws0] eqn:Ew.
    { split; [unfold panics; destruct (f_panic fx); reflexivity|]. intros o []. }
    rewrite <- Ew in *. assert (Hne : whats <> []) by (rewrite Ew; discriminate).
    destruct (handler_whats_single whats Hle Hne) as [s [q [Eh El]]].
    split.
    - unfold panics; rewrite Eh; simpl. rewrite orb_false_r.
      assert (X : (ts_value_count <? length s)%nat = false) by (apply Nat.ltb_ge; lia). rewrite X.
      destruct (f_panic fx); reflexivity.
    - intros o Hin. unfold table_rows, assemble in Hin. rewrite Eh in Hin. cbn [fold_left] in Hin.
      destruct (do_pass_spec fx lods by_ by_s from to fe num desired store [] false O O (s, q)) as [E _].
      destruct (do_pass fx lods by_ by_s from to fe num desired store ([], false, O, O) (s, q)) as [[[st hm] qi] cols].
      simpl in E, Hin. apply (Permutation_in _ (sort_o_perm fe st)) in Hin.
      assert (Hab : In (absO o) (abs st)) by (apply in_map; exact Hin).
      rewrite E in Hab. unfold a_pad in Hab. apply in_map_iff in Hab. destruct Hab as [[k1 m1] [E1 Hin1]].
      replace (if f_pad fx then O else O) with O in Hin1 by (destruct (f_pad fx); reflexivity).
      destruct (a_fold_from_nil O (length s) (map rkey (pass_flat fx lods from to fe num store O)) [] [] Hnd
                  (fun _ _ F => F) (fun _ _ F => match F with end) (NoDup_nil _) k1 m1 Hin1) as [Hk Hm].
      rewrite app_nil_r in Hk. apply in_rev in Hk. apply existsb_key_In in Hk.
      simpl in E1. rewrite Hk in E1. unfold absO in E1. inversion E1; subst. rewrite <- El. lia.
  Qed.
End Columns.
