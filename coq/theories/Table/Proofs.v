(* C25 — lemmas about Table/Model.v: keys, column alignment, uniqueness. *)
From Coq Require Import ZArith List Bool Lia Permutation Sorted.
From SH Require Import Table.Model.
Import ListNotations.
Open Scope Z_scope.

(* ---------- boolean equalities reflect Leibniz equality ---------- *)
Lemma list_eqb_eq {A} (e : A -> A -> bool) :
  (forall x y, e x y = true <-> x = y) -> forall a b, list_eqb e a b = true <-> a = b.
Proof.
  intros He; induction a as [|x a IH]; destruct b as [|y b]; simpl; try (split; congruence).
  rewrite andb_true_iff, He, IH. split; [intros [-> ->]; reflexivity | intros H; inversion H; auto].
Qed.
Lemma zz_eqb_eq : forall a b, zz_eqb a b = true <-> a = b.
Proof.
  intros [a1 a2] [b1 b2]; unfold zz_eqb; simpl. rewrite andb_true_iff, !Z.eqb_eq.
  split; [intros [-> ->]; reflexivity | intros H; inversion H; auto].
Qed.
Lemma zb_eqb_eq : forall a b, zb_eqb a b = true <-> a = b.
Proof.
  intros [a1 a2] [b1 b2]; unfold zb_eqb; simpl.
  rewrite andb_true_iff, Z.eqb_eq, (list_eqb_eq Z.eqb Z.eqb_eq).
  split; [intros [-> ->]; reflexivity | intros H; inversion H; auto].
Qed.
Lemma key_eqb_eq : forall a b : key, key_eqb a b = true <-> a = b.
Proof.
  intros [[[[t1 g1] s1] h1] c1] [[[[t2 g2] s2] h2] c2]; unfold key_eqb.
  rewrite !andb_true_iff, !Z.eqb_eq, (list_eqb_eq _ zz_eqb_eq), (list_eqb_eq _ zb_eqb_eq).
  split; [intros [[[[-> ->] ->] ->] ->]; reflexivity | intros H; inversion H; auto].
Qed.
Lemma key_eqb_refl : forall a, key_eqb a a = true.
Proof. intros; apply key_eqb_eq; reflexivity. Qed.
Lemma key_eqb_neq : forall a b, key_eqb a b = false <-> a <> b.
Proof.
  intros a b; split; intros H.
  - intros E; apply key_eqb_eq in E; congruence.
  - destruct (key_eqb a b) eqn:E; auto. apply key_eqb_eq in E; contradiction.
Qed.
Lemma existsb_key_In : forall k ks, existsb (key_eqb k) ks = true <-> In k ks.
Proof.
  intros k ks; rewrite existsb_exists; split.
  - intros [x [Hin E]]; apply key_eqb_eq in E; subst; auto.
  - intros H; exists k; split; auto using key_eqb_refl.
Qed.

Arguments key_eqb : simpl never.
Arguments key_of : simpl never.

(* ---------- abstraction of the row table: (key, number of columns) ---------- *)
Definition okey (o : orow) : key := key_of (o_row o).
Definition absO (o : orow) : key * nat := (okey o, length (o_data o)).
Definition abs (st : list orow) : list (key * nat) := map absO st.

Fixpoint a_upsert (pre n : nat) (ast : list (key * nat)) (k : key) : list (key * nat) :=
  match ast with
  | [] => [(k, (pre + n)%nat)]
  | (k', m) :: t => if key_eqb k' k then (k', (m + n)%nat) :: t else (k', m) :: a_upsert pre n t k
  end.
Definition a_pad (padn : nat) (ks : list key) (ast : list (key * nat)) : list (key * nat) :=
  map (fun km => if existsb (key_eqb (fst km)) ks then km else (fst km, (snd km + padn)%nat)) ast.

Definition rkey (rl : row * lod) : key := key_of (fst rl).

Section Abs.
  Variable fixed : fixes.
  Variable by_ : list Z.
  Variable by_s : bool.
  Variable desired : Z.

  Lemma row_values_length : forall sel rl, length (row_values desired sel rl) = length sel.
  Proof. intros sel [r l]; unfold row_values; rewrite map_length; reflexivity. Qed.

  Lemma abs_upsert : forall pre sel tags sk st rl,
    abs (upsert desired pre sel tags sk st rl) = a_upsert pre (length sel) (abs st) (rkey rl).
  Proof.
    induction st as [|o st IH]; intros rl.
    - simpl. unfold absO, okey, rkey; simpl. rewrite app_length, repeat_length, row_values_length. reflexivity.
    - simpl. unfold okey at 1, rkey.
      destruct (key_eqb (key_of (o_row o)) (key_of (fst rl))) eqn:E; simpl.
      + unfold absO at 1, okey at 1; simpl. rewrite app_length, row_values_length. reflexivity.
      + fold (abs (upsert desired pre sel tags sk st rl)). rewrite IH. reflexivity.
  Qed.

  Lemma abs_chunk_fold : forall pre sel c0 c acc,
    abs (fst (fold_left (chunk_step fixed by_ by_s desired pre sel c0) c acc)) =
    fold_left (a_upsert pre (length sel)) (map rkey c) (abs (fst acc)).
  Proof.
    induction c as [|rl c IH]; intros acc; simpl; auto.
    rewrite IH. unfold chunk_step; simpl. rewrite abs_upsert. reflexivity.
  Qed.

  Lemma abs_do_chunk : forall pre sel st c,
    abs (do_chunk fixed by_ by_s desired pre sel st c) = fold_left (a_upsert pre (length sel)) (map rkey c) (abs st).
  Proof. intros; unfold do_chunk; rewrite abs_chunk_fold; reflexivity. Qed.

  Lemma abs_chunks : forall pre sel chunks st,
    abs (fold_left (do_chunk fixed by_ by_s desired pre sel) chunks st) =
    fold_left (a_upsert pre (length sel)) (map rkey (concat chunks)) (abs st).
  Proof.
    induction chunks as [|c cs IH]; intros st; simpl; auto.
    rewrite IH, abs_do_chunk, map_app, fold_left_app. reflexivity.
  Qed.

  Lemma abs_pad : forall sel prs st,
    abs (pad_unused fixed sel prs st) = a_pad (if f_pad fixed then length sel else 1%nat) (map rkey prs) (abs st).
  Proof.
    intros sel prs st; unfold abs, pad_unused, a_pad; rewrite !map_map. apply map_ext; intros o.
    assert (E : existsb (fun rl => key_eqb (key_of (o_row o)) (key_of (fst rl))) prs =
                existsb (key_eqb (fst (absO o))) (map rkey prs)).
    { induction prs as [|x prs IH]; simpl; auto. rewrite IH; reflexivity. }
    rewrite E. remember (existsb (key_eqb (fst (absO o))) (map rkey prs)) as b eqn:Hb. clear Hb E.
    destruct b; [reflexivity|].
    unfold absO, okey. cbn [o_row o_data fst snd]. rewrite app_length.
    destruct (f_pad fixed); cbn [length]; rewrite ?repeat_length; reflexivity.
  Qed.
End Abs.

(* ---------- facts about the abstract table ---------- *)
Lemma a_upsert_keys : forall pre n ast k,
  map fst (a_upsert pre n ast k) = if existsb (key_eqb k) (map fst ast) then map fst ast else map fst ast ++ [k].
Proof.
  induction ast as [|[k' m] t IH]; intros k; simpl; auto.
  destruct (key_eqb k' k) eqn:E.
  - apply key_eqb_eq in E; subst. rewrite key_eqb_refl; reflexivity.
  - assert (key_eqb k k' = false) by (apply key_eqb_neq; apply key_eqb_neq in E; congruence).
    rewrite H; simpl. rewrite IH. destruct (existsb _ _); reflexivity.
Qed.

Lemma NoDup_snoc {A} : forall (l : list A) x, NoDup l -> ~ In x l -> NoDup (l ++ [x]).
Proof.
  induction l as [|y l IH]; intros x Hn Hx; simpl.
  - constructor; [intros [] | constructor].
  - inversion Hn; subst. constructor.
    + rewrite in_app_iff; simpl. intros [H | [H | []]]; auto. subst; apply Hx; left; reflexivity.
    + apply IH; auto. intros H; apply Hx; right; auto.
Qed.

Lemma a_upsert_nodup : forall pre n ast k, NoDup (map fst ast) -> NoDup (map fst (a_upsert pre n ast k)).
Proof.
  intros; rewrite a_upsert_keys. destruct (existsb (key_eqb k) (map fst ast)) eqn:E; auto.
  apply NoDup_snoc; auto. intros Hin; apply existsb_key_In in Hin; congruence.
Qed.

Lemma a_fold_nodup : forall pre n ks ast, NoDup (map fst ast) -> NoDup (map fst (fold_left (a_upsert pre n) ks ast)).
Proof. induction ks; intros; simpl; auto using a_upsert_nodup. Qed.

Lemma a_pad_keys : forall padn ks ast, map fst (a_pad padn ks ast) = map fst ast.
Proof.
  intros; unfold a_pad; rewrite map_map. apply map_ext; intros [k m]; simpl. destruct (existsb _ _); reflexivity.
Qed.

(* column counts. [inv done cols n ast]: rows already touched in this pass have cols+n columns, the others cols *)
Definition a_inv (done : list key) (cols n : nat) (ast : list (key * nat)) : Prop :=
  forall k m, In (k, m) ast -> m = if existsb (key_eqb k) done then (cols + n)%nat else cols.

Lemma a_upsert_inv : forall cols n ast k done,
  NoDup (map fst ast) -> ~ In k done -> a_inv done cols n ast ->
  a_inv (k :: done) cols n (a_upsert cols n ast k).
Proof.
  induction ast as [|[k' m'] t IH]; intros k done Hnd Hk Hinv; simpl.
  - intros k0 m [E | []]; inversion E; subst. simpl. rewrite key_eqb_refl; reflexivity.
  - inversion Hnd as [|? ? Hnotin Hnd']; subst.
    assert (Hkd : existsb (key_eqb k) done = false).
    { destruct (existsb (key_eqb k) done) eqn:X; auto. apply existsb_key_In in X; contradiction. }
    destruct (key_eqb k' k) eqn:E.
    + apply key_eqb_eq in E; subst k'.
      intros k0 m [E0 | Hin].
      * inversion E0; subst. simpl; rewrite key_eqb_refl; simpl.
        specialize (Hinv k0 m' (or_introl eq_refl)).
        rewrite Hkd in Hinv; subst; reflexivity.
      * assert (Hne : k0 <> k). { intros ->; apply Hnotin. change k with (fst (k, m)). apply in_map; auto. }
        simpl. apply key_eqb_neq in Hne; rewrite Hne; simpl. apply Hinv; right; auto.
    + intros k0 m [E0 | Hin].
      * inversion E0; subst. simpl. rewrite E; simpl. apply Hinv; left; reflexivity.
      * apply (IH k done); auto. intros ? ? ?; apply Hinv; right; auto.
Qed.

Lemma a_fold_inv : forall cols n ks ast done,
  NoDup (map fst ast) -> NoDup ks -> (forall k, In k ks -> ~ In k done) -> a_inv done cols n ast ->
  a_inv (rev ks ++ done) cols n (fold_left (a_upsert cols n) ks ast).
Proof.
  induction ks as [|k ks IH]; intros ast done Hnd Hks Hdis Hinv; simpl; auto.
  inversion Hks; subst.
  replace ((rev ks ++ [k]) ++ done) with (rev ks ++ (k :: done)) by (rewrite <- app_assoc; reflexivity).
  apply IH; auto using a_upsert_nodup.
  - intros k0 Hin [-> | Hd]; auto. apply (Hdis k0); auto. right; auto.
  - apply a_upsert_inv; auto. apply Hdis; left; reflexivity.
Qed.

(* one pass of the repaired variant keeps all rows aligned *)
Lemma a_pass_aligned : forall cols n ks ast,
  NoDup (map fst ast) -> NoDup ks -> (forall k m, In (k, m) ast -> m = cols) ->
  forall k m, In (k, m) (a_pad n ks (fold_left (a_upsert cols n) ks ast)) -> m = (cols + n)%nat.
Proof.
  intros cols n ks ast Hnd Hks Hall k m Hin.
  assert (Hinv : a_inv (rev ks ++ []) cols n (fold_left (a_upsert cols n) ks ast)).
  { apply a_fold_inv; try assumption.
    intros k0 Hk0 Hf; exact Hf. }
  rewrite app_nil_r in Hinv.
  unfold a_pad in Hin; apply in_map_iff in Hin; destruct Hin as [[k1 m1] [E Hin1]]; simpl in E.
  specialize (Hinv k1 m1 Hin1).
  assert (X : existsb (key_eqb k1) (rev ks) = existsb (key_eqb k1) ks).
  { destruct (existsb (key_eqb k1) ks) eqn:Y.
    - apply existsb_key_In. apply in_rev. rewrite rev_involutive. apply existsb_key_In; auto.
    - destruct (existsb (key_eqb k1) (rev ks)) eqn:Z0; auto.
      apply existsb_key_In in Z0. apply in_rev in Z0. apply existsb_key_In in Z0; congruence. }
  rewrite X in Hinv. destruct (existsb (key_eqb k1) ks); inversion E; subst; lia.
Qed.

(* a pass that starts from the empty table (the first function group): every row is new, nothing is padded *)
Lemma a_fold_from_nil : forall pre n ks ast done,
  NoDup ks -> (forall k, In k ks -> ~ In k done) ->
  (forall k m, In (k, m) ast -> In k done /\ m = (pre + n)%nat) -> NoDup (map fst ast) ->
  forall k m, In (k, m) (fold_left (a_upsert pre n) ks ast) -> In k (rev ks ++ done) /\ m = (pre + n)%nat.
Proof.
  induction ks as [|k0 ks IH]; intros ast done Hks Hdis Hall Hnd k m Hin; simpl in *; auto.
  inversion Hks; subst.
  replace ((rev ks ++ [k0]) ++ done) with (rev ks ++ (k0 :: done)) by (rewrite <- app_assoc; reflexivity).
  apply (IH (a_upsert pre n ast k0) (k0 :: done)); auto using a_upsert_nodup.
  - intros k1 Hin1 [-> | Hd]; auto. apply (Hdis k1); auto.
  - intros k1 m1 Hin1.
    assert (Hno : ~ In k0 (map fst ast)).
    { intros Hx. apply in_map_iff in Hx. destruct Hx as [[kx mx] [Ex Hx]]; simpl in Ex; subst.
      apply Hall in Hx. destruct Hx as [Hx _]. apply (Hdis k0); auto. }
    clear - Hin1 Hall Hno.
    induction ast as [|[k' m'] t IHt]; simpl in *.
    + destruct Hin1 as [E | []]; inversion E; subst; auto.
    + destruct (key_eqb k' k0) eqn:E.
      * apply key_eqb_eq in E; subst; exfalso; apply Hno; auto.
      * destruct Hin1 as [E1 | Hin1].
        -- inversion E1; subst. destruct (Hall k1 m1 (or_introl eq_refl)) as [Ha Hb]. split; [right; exact Ha | exact Hb].
        -- apply IHt; auto.
Qed.
