(* C25 — executable model of internal/api/table.go: getTableFromLODs, limitQueries, inRange, of
   handler.go: lessThan, queryTableRows.Less, and of promql.go: getHandlerWhat / appendRowValues.

   Conventions
   * a storage row (tsSelectRow) is [row]; its key (tableRowKey = time + tsTags) is [key_of]:
     the tag array and the stag array are sparse association lists in canonical form
     (sorted by index, no zero / empty entries, see [wf_row]) so list equality = array equality.
   * Go strings are byte lists, compared lexicographically ([lex_ltb]) as Go does.
   * Float64 values: exact integers only ([Some z]); NaN is [None].
   * h.getRichTagValue (tag value mapping, a foreign function) is an input: [r_rich].
   * the model is DUAL, one switch per recorded defect ([fixes]): all switches off = the code as it is
     ([fx_all false]), a switch on = that defect repaired the way work/C25/fix_<id>.diff repairs it:
       f_pad   (F-C25a) one NaN per function instead of one per function group;
       f_panic (F-C25b) no out-of-range index into tsWhat;
       f_more  (F-C25c) has-more only when a further row *inside the window* is met;
       f_skip  (F-C25d) the ends-only test that skips a time slot is gone;
       f_tags  (F-C25e) rowRepr.Tags is a fresh slice per row;
       f_skey  (F-C25f) rowRepr.SKey is reset per row.
   No proofs in this file. *)
From Coq Require Import ZArith List Bool.
Import ListNotations.
Open Scope Z_scope.

Definition bytes := list Z.

Record marker := mkMarker { m_time : Z; m_tags : list (Z * Z); m_skey : bytes }.
Record lod := mkLod { l_from : Z; l_to : Z; l_step : Z }.
Record row := mkRow {
  r_time : Z; r_tag : list (Z * Z); r_stag : list (Z * bytes); r_shard : Z; r_stagc : Z;
  r_rich : bytes;                         (* emptyToUnspecified (getRichTagValue meta "_s" tag[47]) *)
  r_cnt : Z; r_sum : Z; r_min : Z; r_max : Z; r_pct : Z; r_card : Z }.

Definition max_int : Z := 9223372036854775807.
Definition stop_ix : Z := 47.           (* format.StringTopTagIndexV3 *)
Definition ts_value_count : nat := 7.   (* tsValueCount = len(tsWhat) *)

Record fixes := mkFx { f_pad : bool; f_panic : bool; f_more : bool; f_skip : bool; f_tags : bool; f_skey : bool }.
Definition fx_all (b : bool) : fixes := mkFx b b b b b b.

Definition is_nil {A} (l : list A) : bool := match l with [] => true | _ => false end.

Fixpoint tag_at (ts : list (Z * Z)) (i : Z) : Z :=
  match ts with [] => 0 | (j, v) :: ts' => if j =? i then v else tag_at ts' i end.
Fixpoint stag_at (ts : list (Z * bytes)) (i : Z) : bytes :=
  match ts with [] => [] | (j, v) :: ts' => if j =? i then v else stag_at ts' i end.

(* Go string comparison a < b *)
Fixpoint lex_ltb (a b : list Z) : bool :=
  match a, b with
  | [], [] => false
  | [], _ :: _ => true
  | _ :: _, [] => false
  | x :: a', y :: b' => if x =? y then lex_ltb a' b' else x <? y
  end.

(* ---------- keys ---------- *)
Definition key := (Z * list (Z * Z) * list (Z * bytes) * Z * Z)%type.
Definition key_of (r : row) : key := (r_time r, r_tag r, r_stag r, r_shard r, r_stagc r).

Fixpoint list_eqb {A} (e : A -> A -> bool) (a b : list A) : bool :=
  match a, b with
  | [], [] => true
  | x :: a', y :: b' => e x y && list_eqb e a' b'
  | _, _ => false
  end.
Definition zz_eqb (a b : Z * Z) := (fst a =? fst b) && (snd a =? snd b).
Definition zb_eqb (a b : Z * bytes) := (fst a =? fst b) && list_eqb Z.eqb (snd a) (snd b).
Definition key_eqb (a b : key) : bool :=
  let '(t1, g1, s1, h1, c1) := a in let '(t2, g2, s2, h2, c2) := b in
  (t1 =? t2) && list_eqb zz_eqb g1 g2 && list_eqb zb_eqb s1 s2 && (h1 =? h2) && (c1 =? c2).

(* canonical sparse arrays: strictly increasing indices in [0,48), no default values *)
Fixpoint sorted_ix {A} (lo : Z) (l : list (Z * A)) : bool :=
  match l with [] => true | (i, _) :: l' => (lo <=? i) && (i <? 48) && sorted_ix (i + 1) l' end.
Definition wf_row (r : row) : bool :=
  sorted_ix 0 (r_tag r) && forallb (fun p => negb (snd p =? 0)) (r_tag r) &&
  sorted_ix 0 (r_stag r) && forallb (fun p => negb (is_nil (snd p))) (r_stag r).

(* ---------- handler.go: lessThan ---------- *)
Fixpoint lt_tags (gt : bool) (ts : list (Z * Z)) (r : row) (fin : bool) : bool :=
  match ts with
  | [] => fin
  | (i, lv) :: ts' =>
      let rv := tag_at (r_tag r) i in
      if lv =? rv then lt_tags gt ts' r fin else (if gt then rv <? lv else lv <? rv)
  end.

Definition less_than (l : marker) (r : row) (orEq fromEnd : bool) : bool :=
  let skey := stag_at (r_stag r) stop_ix in
  if fromEnd then
    if negb (m_time l =? r_time r) then r_time r <? m_time l
    else lt_tags true (m_tags l) r (if orEq then negb (lex_ltb (m_skey l) skey) else lex_ltb skey (m_skey l))
  else
    if negb (m_time l =? r_time r) then m_time l <? r_time r
    else lt_tags false (m_tags l) r (if orEq then negb (lex_ltb skey (m_skey l)) else lex_ltb (m_skey l) skey).

(* table.go: inRange *)
Definition in_range (from to : marker) (fe : bool) (r : row) : bool :=
  (if m_time from =? 0 then true else less_than from r false fe) &&
  (if m_time to =? 0 then true else negb (less_than to r true fe)).

(* ---------- table.go: limitQueries ---------- *)
Section Limit.
  Variable fixed : fixes.
  Variables from to : marker.
  Variable fe : bool.
  Let inr := in_range from to fe.

  (* the "continue" at the top of the group loop *)
  Definition group_skipped (g : list row) : bool :=
    match g with
    | [] => false
    | r0 :: _ => if f_skip fixed then false else negb (inr r0) && negb (inr (last g r0))
    end.

  (* the rows the inner loop visits, in visiting order *)
  Definition scan_seq (groups : list (list row)) : list row :=
    concat (filter (fun g => negb (group_skipped g)) (if fe then rev groups else groups)).

  Fixpoint scan (s : list row) (need : Z) : list row * bool :=
    match s with
    | [] => ([], false)
    | r :: s' =>
        if need <=? 0 then ([], if f_more fixed then existsb inr s else true)
        else if inr r then let '(a, b) := scan s' (need - 1) in (r :: a, b)
        else scan s' need
    end.

  Definition limit_queries (groups : list (list row)) (limit : Z) : list row * bool :=
    if limit <=? 0 then ([], if f_more fixed then existsb inr (scan_seq groups) else negb (is_nil groups))
    else scan (scan_seq groups) limit.
End Limit.

(* ---------- promql.go: getHandlerWhat ---------- *)
(* DigestWhat.Selector(): (data_model.DigestWhat, argument in 1/1000) *)
Definition selector (d : Z) : Z * Z :=
  if (1 <=? d) && (d <=? 3) then (1, 0)          (* count *)
  else if (4 <=? d) && (d <=? 6) then (4, 0)     (* sum *)
  else if d =? 7 then (7, 0) else if d =? 8 then (8, 0) else if d =? 9 then (9, 0)
  else if (10 <=? d) && (d <=? 20) then (10, d)  (* percentiles: distinct arguments *)
  else if (21 <=? d) && (d <=? 22) then (21, 0)
  else if (23 <=? d) && (d <=? 25) then (23, 0)
  else if (26 <=? d) && (d <=? 27) then (26, 0)
  else (0, 0).

Fixpoint insert_z (x : Z) (l : list Z) : list Z :=
  match l with [] => [x] | y :: l' => if x <=? y then x :: l else y :: insert_z x l' end.
Definition sort_z (l : list Z) : list Z := fold_right insert_z [] l.

(* one handlerWhat = (sel, qry) *)
Fixpoint hw_go (ws : list Z) (sel : list Z) (qry : list (Z * Z)) : list (list Z * list (Z * Z)) :=
  match ws with
  | [] => [(sel, qry)]
  | w :: ws' =>
      if (length qry <? ts_value_count)%nat then
        let v := selector w in
        if zz_eqb v (last qry (0, 0)) then hw_go ws' (sel ++ [w]) qry
        else hw_go ws' (sel ++ [w]) (qry ++ [v])
      else (sel, qry) :: hw_go ws' [w] [selector w]
  end.
Definition handler_whats (whats : list Z) : list (list Z * list (Z * Z)) :=
  match sort_z whats with [] => [] | w :: ws => hw_go ws [w] [selector w] end.

(* tsValues.value on the exact domain (harness: step | queryStep, step | count, count | sum) *)
Definition value (d : Z) (r : row) (q l : Z) : Z :=
  if d =? 1 then r_cnt r * (q / l) else if d =? 2 then r_cnt r / l else if d =? 3 then r_cnt r
  else if d =? 4 then r_sum r * (q / l) else if d =? 5 then r_sum r / l else if d =? 6 then r_sum r
  else if d =? 7 then r_sum r / r_cnt r else if d =? 8 then r_min r else if d =? 9 then r_max r
  else if (10 <=? d) && (d <=? 20) then r_pct r
  else if d =? 23 then r_card r * (q / l) else if d =? 24 then r_card r / l else if d =? 25 then r_card r
  else 0.

(* ---------- handler.go: queryTableRows.Less ---------- *)
Fixpoint vals_less (a b : list (Z * Z)) (fin : bool) : bool :=
  match a, b with
  | (_, lv) :: a', (_, rv) :: b' => if lv =? rv then vals_less a' b' fin else lv <? rv
  | _, _ => fin
  end.
Definition less (l r : marker) : bool :=
  if negb (m_time l =? m_time r) then m_time l <? m_time r
  else if negb (length (m_tags l) =? length (m_tags r))%nat then (length (m_tags l) <? length (m_tags r))%nat
  else vals_less (m_tags l) (m_tags r) (lex_ltb (m_skey l) (m_skey r)).

Record orow := mkO { o_row : row; o_data : list (option Z); o_repr : marker }.

(* sort.Sort(queryRows) / sort.Sort(sort.Reverse(queryRows)) as a stable insertion sort *)
Definition row_le (fe : bool) (a b : orow) : bool :=
  if fe then negb (less (o_repr a) (o_repr b)) else negb (less (o_repr b) (o_repr a)).
Fixpoint insert_o (fe : bool) (x : orow) (l : list orow) : list orow :=
  match l with [] => [x] | y :: l' => if row_le fe x y then x :: l else y :: insert_o fe x l' end.
Definition sort_o (fe : bool) (l : list orow) : list orow := fold_right (insert_o fe) [] l.

(* ---------- table.go: getTableFromLODs ---------- *)
Section Table.
  Variable fixed : fixes.
  Variable whats : list Z.              (* req.what digests *)
  Variable lods : list lod.
  Variable by_ : list Z.                (* indices j with TagID(j) in req.by, ascending *)
  Variable by_s : bool.                 (* "_s" in req.by *)
  Variables from to : marker.
  Variable fe : bool.
  Variables num desired : Z.
  Variable store : nat -> nat -> list (list row).   (* loadPoints: function group -> lod index -> rows by time *)

  Definition from_time : Z := if fe then m_time to else m_time from.
  Definition to_time : Z :=
    let t := if fe then m_time from else m_time to in if t =? 0 then max_int else t.
  Definition time_ok (r : row) : bool := negb ((to_time <? r_time r) || (r_time r <? from_time)).

  Definition lod_order : list (nat * lod) :=
    let il := combine (seq 0 (length lods)) lods in if fe then rev il else il.

  (* phase A: the rows one function group inserts, in order, one chunk per visited LOD, and whether its LOD loop
     broke with has-more *)
  Fixpoint scan_lods (p : nat) (ls : list (nat * lod)) (cnt : Z) : list (list (row * lod)) * bool :=
    match ls with
    | [] => ([], false)
    | (k, l) :: ls' =>
        if (to_time <? l_from l) || (l_to l <? from_time) then scan_lods p ls' cnt
        else
          let '(rows, hm) := limit_queries fixed from to fe (store p k) (num - cnt) in
          let kept := map (fun r => (r, l)) (filter time_ok rows) in
          if hm then ([kept], true)
          else let '(rest, hm') := scan_lods p ls' (cnt + Z.of_nat (length kept)) in (kept :: rest, hm')
    end.
  Definition pass_rows (p : nat) : list (list (row * lod)) * bool := scan_lods p lod_order 0.
  Definition pass_flat (p : nat) : list (row * lod) := concat (fst (pass_rows p)).

  (* rowRepr. In the code as it is, rowRepr.Tags is re-sliced to [:0] and refilled for every row of one LOD visit,
     so all rows created during that visit share one backing array and end up showing the group-by tag values of
     the LAST row the visit processed ([chunk_tags]); the repaired variant copies. *)
  Definition by_tags (r : row) : list (Z * Z) := map (fun j => (j, tag_at (r_tag r) j)) by_.
  (* rowRepr.SKey is only assigned when the row has a string key or a non-zero tag 47; rowRepr is declared outside
     the row loop, so in the code as it is a row without either keeps the SKey of the previously processed row of
     the same LOD visit ([cur]); the repaired variant resets it. *)
  Definition next_skey (cur : bytes) (r : row) : bytes :=
    let s := stag_at (r_stag r) stop_ix in
    if negb (is_nil s) then (if by_s then s else [])
    else if negb (tag_at (r_tag r) stop_ix =? 0) then r_rich r
    else if f_skey fixed then [] else cur.
  Definition repr_skey (r : row) : bytes :=
    let s := stag_at (r_stag r) stop_ix in
    if negb (is_nil s) then (if by_s then s else [])
    else if negb (tag_at (r_tag r) stop_ix =? 0) then r_rich r else [].
  (* the marker that describes a row *)
  Definition repr_of (r : row) : marker := mkMarker (r_time r) (by_tags r) (repr_skey r).
  Definition chunk_tags (c : list (row * lod)) (r : row) : list (Z * Z) :=
    if f_tags fixed then by_tags r else by_tags (fst (last c (r, mkLod 0 0 0))).

  Definition row_values (sel : list Z) (rl : row * lod) : list (option Z) :=
    let '(r, l) := rl in
    let q := if desired =? 0 then l_step l else desired in
    map (fun d => Some (value d r q (l_step l))) sel.

  (* phase B: rowsIdx lookup / append *)
  Fixpoint upsert (pre : nat) (sel : list Z) (tags : list (Z * Z)) (sk : bytes) (st : list orow) (rl : row * lod) : list orow :=
    match st with
    | [] => [mkO (fst rl) (repeat None pre ++ row_values sel rl) (mkMarker (r_time (fst rl)) tags sk)]
    | o :: st' =>
        if key_eqb (key_of (o_row o)) (key_of (fst rl))
        then mkO (o_row o) (o_data o ++ row_values sel rl) (o_repr o) :: st'
        else o :: upsert pre sel tags sk st' rl
    end.
  Definition chunk_step (pre : nat) (sel : list Z) (c : list (row * lod)) (acc : list orow * bytes) (rl : row * lod) : list orow * bytes :=
    let sk := next_skey (snd acc) (fst rl) in
    (upsert pre sel (chunk_tags c (fst rl)) sk (fst acc) rl, sk).
  Definition do_chunk (pre : nat) (sel : list Z) (st : list orow) (c : list (row * lod)) : list orow :=
    fst (fold_left (chunk_step pre sel c) c (st, [])).

  Definition pad_unused (sel : list Z) (prs : list (row * lod)) (st : list orow) : list orow :=
    map (fun o =>
      if existsb (fun rl => key_eqb (key_of (o_row o)) (key_of (fst rl))) prs then o
      else mkO (o_row o) (o_data o ++ (if f_pad fixed then repeat None (length sel) else [None])) (o_repr o)) st.

  (* one iteration of "for qIndex, q := range what"; cols = number of functions of the earlier groups *)
  Definition do_pass (acc : list orow * bool * nat * nat) (hw : list Z * list (Z * Z)) : list orow * bool * nat * nat :=
    let '(st, hm, qi, cols) := acc in
    let sel := fst hw in
    let '(chunks, hmp) := pass_rows qi in
    let st1 := fold_left (do_chunk (if f_pad fixed then cols else qi) sel) chunks st in
    (pad_unused sel (concat chunks) st1, hm || hmp, S qi, (cols + length sel)%nat).

  Definition assemble : list orow * bool * nat * nat :=
    fold_left do_pass (handler_whats whats) ([], false, O, O).

  (* w.qry[i] with i >= len(tsWhat): run-time panic as soon as a row of that group is appended *)
  Fixpoint panics_from (qi : nat) (hws : list (list Z * list (Z * Z))) : bool :=
    match hws with
    | [] => false
    | hw :: hws' =>
        ((ts_value_count <? length (fst hw))%nat && negb (is_nil (pass_flat qi))) || panics_from (S qi) hws'
    end.
  Definition panics : bool := if f_panic fixed then false else panics_from O (handler_whats whats).

  Definition table_rows : list orow := let '(st, _, _, _) := assemble in sort_o fe st.
  Definition table_more : bool := let '(_, hm, _, _) := assemble in hm.
  Definition table : option (list orow * bool) :=
    if panics then None else Some (table_rows, table_more).
End Table.
