(* C25 — table level: every returned row lies in the requested window and comes from the storage answer,
   every function group contributes at most [limit] rows, has-more is the disjunction over the function groups. *)
From Coq Require Import ZArith List Bool Lia Permutation.
From SH Require Import Table.Model Table.Proofs Table.ProofsTable Table.ProofsLimit.
Import ListNotations.
Open Scope Z_scope.

Section W.
  Variable fixed : fixes.
  Variable lods : list lod.
  Variable by_ : list Z.
  Variable by_s : bool.
  Variables from to : marker.
  Variable fe : bool.
  Variables num desired : Z.
  Variable store : nat -> nat -> list (list row).

  Notation inr := (in_range from to fe).
  Notation tok := (time_ok from to fe).
  Notation scan_lods' := (scan_lods fixed from to fe num store).
  Notation pass_flat' := (pass_flat fixed lods from to fe num store).
  Notation pass_rows' := (pass_rows fixed lods from to fe num store).
  Notation do_pass' := (do_pass fixed lods by_ by_s from to fe num desired store).

  Definition from_window (p : nat) (r : row) : Prop :=
    inr r = true /\ tok r = true /\ exists k, In r (concat (store p k)).

  (* ---------- the rows a function group inserts ---------- *)
  Lemma kept_sound : forall p k c (l : lod) (rl : row * lod),
    In rl (map (fun r => (r, l)) (filter tok (fst (limit_queries fixed from to fe (store p k) (num - c))))) ->
    from_window p (fst rl).
  Proof.
    intros p k c l rl H. apply in_map_iff in H. destruct H as [r [E H]]. subst rl; simpl.
    apply filter_In in H. destruct H as [H1 H2].
    destruct (limit_queries_sound from to fe fixed (store p k) (num - c) r H1) as [A B].
    split; auto. split; auto. exists k; auto.
  Qed.

  Lemma scan_lods_sound : forall p ls c rl, In rl (concat (fst (scan_lods' p ls c))) -> from_window p (fst rl).
  Proof.
    induction ls as [|[k l] ls IH]; intros c rl H; simpl in H; [contradiction|].
    destruct ((to_time from to fe <? l_from l) || (l_to l <? from_time from to fe)); [eapply IH; eauto|].
    pose proof (kept_sound p k c l) as K.
    destruct (limit_queries fixed from to fe (store p k) (num - c)) as [rows hm]. simpl in K.
    destruct hm.
    - simpl in H. rewrite app_nil_r in H. auto.
    - destruct (scan_lods' p ls (c + Z.of_nat (length (map (fun r => (r, l)) (filter tok rows))))) as [rest hm'] eqn:E.
      simpl in H. apply in_app_or in H. destruct H as [H | H]; auto.
      apply (IH (c + Z.of_nat (length (map (fun r => (r, l)) (filter tok rows)))) rl). rewrite E; exact H.
  Qed.

  Lemma filter_len {A} (f : A -> bool) l : (length (filter f l) <= length l)%nat.
  Proof. induction l; simpl; auto. destruct (f a); simpl; lia. Qed.

  Lemma scan_lods_limit : forall p ls c, 0 <= c ->
    Z.of_nat (length (concat (fst (scan_lods' p ls c)))) <= Z.max 0 (num - c).
  Proof.
    induction ls as [|[k l] ls IH]; intros c Hc; simpl; [lia|].
    destruct ((to_time from to fe <? l_from l) || (l_to l <? from_time from to fe)); [apply IH; auto|].
    pose proof (limit_queries_limit from to fe fixed (store p k) (num - c)) as L.
    destruct (limit_queries fixed from to fe (store p k) (num - c)) as [rows hm]. simpl in L.
    pose proof (filter_len tok rows) as F.
    remember (map (fun r => (r, l)) (filter tok rows)) as kept.
    assert (Hk : length kept = length (filter tok rows)) by (subst; apply map_length).
    destruct hm.
    - simpl. rewrite app_nil_r. lia.
    - specialize (IH (c + Z.of_nat (length kept)) ltac:(lia)).
      destruct (scan_lods' p ls (c + Z.of_nat (length kept))) as [rest hm']. simpl in *.
      rewrite app_length. lia.
  Qed.

  (* limit respected, per function group *)
  Theorem pass_limit : forall p, Z.of_nat (length (pass_flat' p)) <= Z.max 0 num.
  Proof.
    intros p; unfold pass_flat, pass_rows. pose proof (scan_lods_limit p (lod_order lods fe) 0 ltac:(lia)) as H.
    replace (num - 0) with num in H by lia. exact H.
  Qed.

  Theorem pass_sound : forall p rl, In rl (pass_flat' p) -> from_window p (fst rl).
  Proof. intros p rl H; unfold pass_flat, pass_rows in H. eapply scan_lods_sound; eauto. Qed.

  (* ---------- phase B keeps only rows that some function group inserted ---------- *)
  Definition good (o : orow) : Prop := exists p, from_window p (o_row o).

  Lemma upsert_from : forall pre sel tags sk st rl, Forall good st -> good (mkO (fst rl) [] (mkMarker 0 [] [])) ->
    Forall good (upsert desired pre sel tags sk st rl).
  Proof.
    induction st as [|o st IH]; intros rl H G; simpl.
    - constructor; [exact G | constructor].
    - inversion H as [|? ? Ho Hst]; subst. destruct (key_eqb _ _).
      + constructor; [exact Ho | exact Hst].
      + constructor; [exact Ho | apply IH; auto].
  Qed.

  Lemma chunk_fold_from : forall pre sel c0 c acc p, Forall good (fst acc) ->
    (forall rl, In rl c -> from_window p (fst rl)) ->
    Forall good (fst (fold_left (chunk_step fixed by_ by_s desired pre sel c0) c acc)).
  Proof.
    induction c as [|rl c IH]; intros acc p H Hc; simpl; auto.
    apply (IH _ p); [|intros; apply Hc; right; auto].
    unfold chunk_step; simpl. apply upsert_from; auto. exists p; simpl. apply Hc; left; auto.
  Qed.

  Lemma chunks_from : forall pre sel chunks st p, Forall good st ->
    (forall rl, In rl (concat chunks) -> from_window p (fst rl)) ->
    Forall good (fold_left (do_chunk fixed by_ by_s desired pre sel) chunks st).
  Proof.
    induction chunks as [|c cs IH]; intros st p H Hc; simpl; auto.
    apply (IH _ p).
    - unfold do_chunk. apply (chunk_fold_from pre sel c c (st, []) p); auto.
      intros; apply Hc; simpl; apply in_or_app; auto.
    - intros; apply Hc; simpl; apply in_or_app; auto.
  Qed.

  Lemma pad_from : forall sel prs st, Forall good st -> Forall good (pad_unused fixed sel prs st).
  Proof.
    intros sel prs st H; unfold pad_unused. rewrite Forall_forall in *. intros o Ho.
    apply in_map_iff in Ho. destruct Ho as [o' [E Ho']]. specialize (H o' Ho').
    destruct (existsb _ _); subst; auto.
  Qed.

  Lemma fold_pass_from : forall hws a, Forall good (st_of a) -> Forall good (st_of (fold_left do_pass' hws a)).
  Proof.
    induction hws as [|hw hws IH]; intros [[[st hm] qi] cols] H; [exact H | rewrite fl_cons].
    apply IH. unfold do_pass. pose proof (pass_sound qi) as S. unfold pass_flat in S.
    destruct (pass_rows' qi) as [chunks hmp]. simpl in *.
    apply pad_from. apply (chunks_from _ _ _ _ qi); auto.
  Qed.

  (* window respected: every returned row is inside the window and was returned by the storage *)
  Theorem window_respected : forall whats o,
    In o (table_rows fixed whats lods by_ by_s from to fe num desired store) ->
    inr (o_row o) = true /\ tok (o_row o) = true /\ exists p k, In (o_row o) (concat (store p k)).
  Proof.
    intros whats o Hin. unfold table_rows in Hin.
    pose proof (fold_pass_from (handler_whats whats) ([], false, O, O) (Forall_nil _)) as H.
    fold (assemble fixed whats lods by_ by_s from to fe num desired store) in H.
    destruct (assemble fixed whats lods by_ by_s from to fe num desired store) as [[[st hm] qi] cols].
    simpl in H. apply (Permutation_in _ (sort_o_perm fe st)) in Hin.
    rewrite Forall_forall in H. destruct (H o Hin) as [p [A [B [k C]]]]. repeat split; auto. exists p, k; auto.
  Qed.

  (* ---------- number of rows ---------- *)
  Lemma a_upsert_length : forall pre n ast k, (length (a_upsert pre n ast k) <= S (length ast))%nat.
  Proof.
    induction ast as [|[k' m] t IH]; intros k; simpl; auto.
    destruct (key_eqb k' k); simpl; [lia | specialize (IH k); lia].
  Qed.
  Lemma a_fold_length : forall pre n ks ast, (length (fold_left (a_upsert pre n) ks ast) <= length ast + length ks)%nat.
  Proof.
    induction ks as [|k ks IH]; intros ast; simpl; [lia|].
    specialize (IH (a_upsert pre n ast k)). pose proof (a_upsert_length pre n ast k). lia.
  Qed.

  Lemma fold_pass_length : forall hws a,
    Z.of_nat (length (st_of (fold_left do_pass' hws a))) <=
    Z.of_nat (length (st_of a)) + Z.of_nat (length hws) * Z.max 0 num.
  Proof.
    induction hws as [|hw hws IH]; intros [[[st hm] qi] cols]; [simpl; lia | rewrite fl_cons].
    specialize (IH (do_pass' (st, hm, qi, cols) hw)).
    destruct (do_pass_spec fixed lods by_ by_s from to fe num desired store st hm qi cols hw) as [E _].
    assert (L : length (st_of (do_pass' (st, hm, qi, cols) hw)) = length (abs (st_of (do_pass' (st, hm, qi, cols) hw))))
      by (unfold abs; rewrite map_length; reflexivity).
    rewrite E in L. unfold a_pad in L. rewrite map_length in L.
    pose proof (a_fold_length (if f_pad fixed then cols else qi) (length (fst hw)) (map rkey (pass_flat' qi)) (abs st)) as F.
    rewrite map_length in F. unfold abs in F at 2. rewrite map_length in F.
    pose proof (pass_limit qi) as P. simpl st_of at 2.
    replace (Z.of_nat (length (hw :: hws))) with (1 + Z.of_nat (length hws)) by (simpl length; lia). lia.
  Qed.

  (* limit respected by the whole table: at most [limit] rows per function group *)
  Theorem table_limit : forall whats,
    Z.of_nat (length (table_rows fixed whats lods by_ by_s from to fe num desired store)) <=
    Z.of_nat (length (handler_whats whats)) * Z.max 0 num.
  Proof.
    intros whats. unfold table_rows.
    pose proof (fold_pass_length (handler_whats whats) ([], false, O, O)) as H.
    fold (assemble fixed whats lods by_ by_s from to fe num desired store) in H.
    destruct (assemble fixed whats lods by_ by_s from to fe num desired store) as [[[st hm] qi] cols].
    simpl in H. rewrite (Permutation_length (sort_o_perm fe st)). lia.
  Qed.

  (* ---------- has-more = some function group's LOD loop broke with has-more ---------- *)
  Lemma fold_pass_more : forall hws a,
    hm_of (fold_left do_pass' hws a) = hm_of a || existsb (fun p => snd (pass_rows' p)) (seq (qi_of a) (length hws)).
  Proof.
    induction hws as [|hw hws IH]; intros [[[st hm] qi] cols]; [simpl; rewrite orb_false_r; reflexivity | rewrite fl_cons].
    rewrite IH. destruct (do_pass_spec fixed lods by_ by_s from to fe num desired store st hm qi cols hw) as [_ [Eh [Eq _]]].
    rewrite Eh, Eq. simpl. rewrite orb_assoc. reflexivity.
  Qed.

  Theorem table_more_spec : forall whats,
    table_more fixed whats lods by_ by_s from to fe num desired store =
    existsb (fun p => snd (pass_rows' p)) (seq 0 (length (handler_whats whats))).
  Proof.
    intros whats. unfold table_more.
    pose proof (fold_pass_more (handler_whats whats) ([], false, O, O)) as H.
    fold (assemble fixed whats lods by_ by_s from to fe num desired store) in H.
    destruct (assemble fixed whats lods by_ by_s from to fe num desired store) as [[[st hm] qi] cols].
    simpl in H. exact H.
  Qed.
End W.
