(* C02 — row aggregates on their way from the agent to the aggregator.
   Model of: internal/data_model/transfer.go (TagSlice, STagSlice, TLMultiItemFromKey, KeyFromStatshouseMultiItem,
             MultiValueToTL, MergeWithTLItem2, MergeWithTL2, MergeWithTLMultiItem),
             internal/data_model/bucket.go (ApplyValues, ApplyUnique, AddValueCounterHost, AddCounterHost,
             MultiValue.Merge, MapStringTopBytes on a fresh item),
             internal/agent/agent_shard_send.go (sampleBucket.keepF: row assembly),
             internal/aggregator/aggregator_handlers.go (the copy of the string tags into the key),
             internal/format/format.go (ValidateCounter, ValidateValue).
   The wire between the two sides is the TL *structure* statshouse.multiItem (fields + fields mask as the
   generated setters build it; bit numbers come from Gen/TransferConsts.v); its bytes are C14's codec.
   ItemValue/ItemCounter/ChUnique are the models of C04 (Agg/Model.v).
   Floats are exact rationals (Q). Strings are interned: 0 is the empty string, every other id a non-empty one.
   A TagUnion{I,S} is one integer: 0 = empty, 2*I = the int tag I<>0, 2*sid+1 = the string tag sid>0
   (I has priority over S, as TagUnion.Normalize says).
   A TDigest is abstract: on the agent it is the list Centroids() returns when the row is sent (an input), on the
   aggregator it is the sequence of Add calls it accepted (the library's compression uses sin/asin).
   [fx] selects the variant of the code: false = the code as it is, true = repaired (finding F-C02).
   Executable definitions only. *)
From Coq Require Import ZArith QArith Qround List Bool.
From SH Require Import Common.Wrap Gen.TransferConsts Gen.AggConsts Agg.Model.
Import ListNotations.
Open Scope Z_scope.

(* ------------------------------------------------------------------------------------------ *)
(* 1. TagUnion                                                                                  *)

Definition h_int (h : Z) : Z := if Z.even h then h / 2 else 0.            (* TagUnion.I *)
Definition h_str (h : Z) : Z := if Z.even h then 0 else (h - 1) / 2.      (* TagUnion.S (string id) *)
Definition mk_host (i s : Z) : Z := if negb (i =? 0) then 2 * i else if negb (s =? 0) then 2 * s + 1 else 0.

(* ------------------------------------------------------------------------------------------ *)
(* 2. MultiValue on either side                                                                 *)

Record centroid := { ce_mean : Q; ce_w : Q }.

Record mvalue := {
  mv_v : ivalue;
  mv_dig : option (list centroid);   (* ValueTDigest: None = nil *)
  mv_hll : tsk
}.
Definition mvalue0 : mvalue := {| mv_v := ivalue0; mv_dig := None; mv_hll := tsk_nil |}.

Definition with_value (s : mvalue) (v : ivalue) : mvalue := {| mv_v := v; mv_dig := mv_dig s; mv_hll := mv_hll s |}.

(* ---- the agent-side operations that build a row (bucket.go) ---- *)

Definition scale_sums (t : ivalue) (count total : Q) : ivalue :=
  if Qeq_bool count total then t
  else {| v_c := v_c t; v_min := v_min t; v_max := v_max t;
          v_sum := (v_sum t * count / total)%Q; v_sumsq := (v_sumsq t * count / total)%Q;
          v_minh := v_minh t; v_maxh := v_maxh t; v_set := v_set t |}.

(* the temporary ItemValue of ApplyValues / ApplyUnique: SimpleItemCounter(count, host), then addOnlyValue of
   every value (weight 1) and every histogram pair, then the sums scaled by count/totalCount *)
Definition tmp_value (hist : list (Q * Q)) (vals : list Q) (count total : Q) (h : Z) : ivalue :=
  let t0 := with_counter ivalue0 {| c_cnt := count; c_host := h |} in
  let t1 := fold_left (fun t v => add_only_value t v 1 h) vals t0 in
  let t2 := fold_left (fun t kv => add_only_value t (fst kv) (snd kv) h) hist t1 in
  scale_sums t2 count total.

Inductive op :=
| OCount (count : Q) (h : Z)                                   (* MultiValue.AddCounterHost *)
| OValue (value count : Q) (h : Z)                             (* MultiValue.AddValueCounterHost[Percentile] *)
| OValues (hist : list (Q * Q)) (vals : list Q) (count total : Q) (h : Z)   (* MultiValue.ApplyValues *)
| OUnique (hashes : list Z) (count : Q) (h : Z)                (* MultiValue.ApplyUnique *)
| OMerge (o : mvalue).                                         (* MultiValue.Merge(o) (FinishStringTop, resample) *)

Definition zlen {A} (l : list A) : Z := Z.of_nat (length l).

(* [ufix] = C04's switch for ChUnique.Merge; the digest after an operation is not computed (see above) *)
Definition apply_op (ufix : bool) (s : mvalue) (o : op) (ds : list Z) : mvalue * list Z :=
  match o with
  | OCount c h => let '(v, ds') := apply_event (mv_v s) (ECount c h) ds in (with_value s v, ds')
  | OValue x c h => let '(v, ds') := apply_event (mv_v s) (EValue x c h) ds in (with_value s v, ds')
  | OValues hist vals count total h =>
      if Qle_bool total 0 then (s, ds)
      else let '(v, ds') := merge_value (mv_v s) (tmp_value hist vals count total h) ds in (with_value s v, ds')
  | OUnique hashes count h =>
      let total := inject_Z (zlen hashes) in
      if Qle_bool total 0 then (s, ds)
      else
        let hll := fold_left (fun t x => t_insert t (u64 x)) hashes (mv_hll s) in
        let '(v, ds') := merge_value (mv_v s) (tmp_value [] (map inject_Z hashes) count total h) ds in
        ({| mv_v := v; mv_dig := mv_dig s; mv_hll := hll |}, ds')
  | OMerge o =>
      let '(v, ds') := merge_value (mv_v s) (mv_v o) ds in
      ({| mv_v := v; mv_dig := mv_dig s; mv_hll := t_merge ufix (mv_hll s) (mv_hll o) |}, ds')
  end.

Fixpoint apply_ops (ufix : bool) (s : mvalue) (os : list op) (ds : list Z) : mvalue * list Z :=
  match os with
  | [] => (s, ds)
  | o :: os' => let '(s', ds') := apply_op ufix s o ds in apply_ops ufix s' os' ds'
  end.

(* ------------------------------------------------------------------------------------------ *)
(* 3. statshouse.multiValue as a TL structure                                                   *)

Record tlval := {
  tl_counter : Q; tl_min : Q; tl_max : Q; tl_sum : Q; tl_sumsq : Q;
  tl_uniques : option (Z * Z * list Z);  (* None = empty string; Some = (skip byte, itemsCount, items) of Marshall *)
  tl_centroids : list centroid;
  tl_maxh : Z; tl_minh : Z; tl_mch : Z;        (* max_host_tag, min_host_tag, max_counter_host_tag *)
  tl_maxhs : Z; tl_minhs : Z; tl_mchs : Z      (* ..._stag (string ids) *)
}.
Definition tlval0 : tlval :=
  {| tl_counter := 0; tl_min := 0; tl_max := 0; tl_sum := 0; tl_sumsq := 0; tl_uniques := None; tl_centroids := [];
     tl_maxh := 0; tl_minh := 0; tl_mch := 0; tl_maxhs := 0; tl_minhs := 0; tl_mchs := 0 |}.

(* SetX(v, &mask): *mask |= 1 << bit *)
Definition setb (c : bool) (b : Z) (m : Z) : Z := if c then Z.setbit m b else m.
Definition isset (m b : Z) : bool := Z.testbit m b.

Definition is_nil {A} (l : list A) : bool := match l with [] => true | _ => false end.
Definition is_none {A} (o : option A) : bool := match o with None => true | _ => false end.

(* MultiValue.MultiValueToTL(metricInfo, item, sampleFactor, fieldsMask, scratch); hasp = metricInfo.HasPercentiles.
   The function is a sequence of conditional SetX calls: [value_bits] lists (condition, bit) of each of them,
   [value_fields] the field values they store.
   [fx] (repair of F-C02a): max/sum/sumsq are also sent when min = max but sum <> min*count. *)
Definition mask_of (l : list (bool * Z)) (m : Z) : Z := fold_right (fun cb m => setb (fst cb) (snd cb) m) m l.

Definition cou_of (s : mvalue) (sf : Q) : Q := (c_cnt (v_c (mv_v s)) * sf)%Q.
Definition consistent (v : ivalue) : bool := Qeq_bool (v_sum v) (v_min v * c_cnt (v_c v)).
Definition sent_centroids (hasp : bool) (s : mvalue) (sf : Q) : list centroid :=
  match mv_dig s with
  | Some cs => if hasp then map (fun c => {| ce_mean := ce_mean c; ce_w := (ce_w c * sf)%Q |}) cs else []
  | None => []
  end.
Definition send_max (fx : bool) (v : ivalue) : bool :=
  negb (Qeq_bool (v_min v) (v_max v)) || (fx && negb (consistent v)).

(* host fields: the int field if I <> 0, else the string field if S is not empty, else nothing *)
Definition h_has_i (h : Z) : bool := negb (h_int h =? 0).
Definition h_has_s (h : Z) : bool := (h_int h =? 0) && negb (h_str h =? 0).

Definition value_bits (fx hasp : bool) (s : mvalue) (sf : Q) : list (bool * Z) :=
  let v := mv_v s in
  let maxh := v_maxh v in let minh := v_minh v in let mch := c_host (v_c v) in
  let dmin := negb (minh =? maxh) in
  let dmc := negb (mch =? maxh) in
  let eq1 := Qeq_bool (cou_of s sf) 1 in
  let set := v_set v in
  [ (h_has_i maxh, bit_max_host_tag); (h_has_s maxh, bit_max_host_stag);
    (dmin && h_has_i minh, bit_min_host_tag); (dmin && h_has_s minh, bit_min_host_stag);
    (dmc && h_has_i mch, bit_max_counter_host_tag); (dmc && h_has_s mch, bit_max_counter_host_stag);
    (negb (t_cnt (mv_hll s) =? 0), bit_uniques);
    (eq1, bit_counter_eq_1); (negb eq1, bit_counter);
    (set && negb (is_nil (sent_centroids hasp s sf)), bit_centroids);
    (set && hasp && is_none (mv_dig s), bit_implicit_centroid);
    (set, bit_value_set);
    (set && negb (Qeq_bool (v_min v) 0), bit_value_min);
    (set && send_max fx v, bit_value_max) ].

Definition value_fields (fx hasp : bool) (s : mvalue) (sf : Q) : tlval :=
  let v := mv_v s in
  let maxh := v_maxh v in let minh := v_minh v in let mch := c_host (v_c v) in
  let dmin := negb (minh =? maxh) in
  let dmc := negb (mch =? maxh) in
  let set := v_set v in
  let smax := set && send_max fx v in
  {| tl_counter := if Qeq_bool (cou_of s sf) 1 then 0 else cou_of s sf;
     tl_min := if set then v_min v else 0;    (* SetValueMin is skipped exactly when the value is 0 *)
     tl_max := if smax then v_max v else 0;
     tl_sum := if smax then (v_sum v * sf)%Q else 0;
     tl_sumsq := if smax then (v_sumsq v * sf)%Q else 0;
     tl_uniques := if t_cnt (mv_hll s) =? 0 then None else Some (t_wire (mv_hll s));
     tl_centroids := if set then sent_centroids hasp s sf else [];
     tl_maxh := if h_has_i maxh then h_int maxh else 0;
     tl_minh := if dmin && h_has_i minh then h_int minh else 0;
     tl_mch := if dmc && h_has_i mch then h_int mch else 0;
     tl_maxhs := if h_has_s maxh then h_str maxh else 0;
     tl_minhs := if dmin && h_has_s minh then h_str minh else 0;
     tl_mchs := if dmc && h_has_s mch then h_str mch else 0 |}.

Definition mv_to_tl (fx : bool) (hasp : bool) (s : mvalue) (sf : Q) (mask : Z) : tlval * Z :=
  if Qle_bool (cou_of s sf) 0 then (tlval0, mask)
  else (value_fields fx hasp s sf, mask_of (value_bits fx hasp s sf) mask).

(* ------------------------------------------------------------------------------------------ *)
(* 4. the aggregator: MergeWithTL2 / MergeWithTLItem2                                           *)

Definition qmaxf : Q := inject_Z max_float32.
(* format.ValidateCounter / ValidateValue (NaN does not exist in Q) *)
Definition validate_counter (f : Q) : Z :=
  if Qltb f 0 then err_negative_counter else if Qltb qmaxf f then err_too_big_counter else 0.
Definition validate_value (f : Q) : Z :=
  if Qltb qmaxf f then err_too_big_value else if Qltb f (- qmaxf) then err_too_big_value else 0.

(* TDigest.Add(x, w): AddCentroid ignores w <= 0 *)
Definition dig_add (d : list centroid) (x w : Q) : list centroid :=
  if Qle_bool w 0 then d else d ++ [{| ce_mean := x; ce_w := w |}].
Definition dig_get (d : option (list centroid)) : list centroid := match d with Some l => l | None => [] end.

(* the loop over s2.Centroids: stops at the first invalid centroid, keeping what it added *)
Fixpoint add_centroids (d : list centroid) (cs : list centroid) : list centroid * Z :=
  match cs with
  | [] => (d, 0)
  | c :: cs' =>
      if Qeq_bool (ce_w c) 0 then add_centroids d cs'
      else if negb (validate_counter (ce_w c) =? 0) then (d, validate_counter (ce_w c))
      else if negb (validate_value (ce_mean c) =? 0) then (d, validate_value (ce_mean c))
      else add_centroids (dig_add d (ce_mean c) (ce_w c)) cs'
  end.

(* MultiValue.MergeWithTL2(rng, s2, fields_mask, hostTag, compression) -> (receiver, ingestionError, draws left) *)
Definition merge_with_tl2 (ufix : bool) (s : mvalue) (t : tlval) (mask : Z) (ah : Z) (ds : list Z) : mvalue * Z * list Z :=
  let counter := if isset mask bit_counter_eq_1 then 1%Q else tl_counter t in
  if Qeq_bool counter 0 then (s, 0, ds)
  else if negb (validate_counter counter =? 0) then (s, validate_counter counter, ds)
  else
    let has_max := isset mask bit_max_host_tag || isset mask bit_max_host_stag in
    let maxh_i := if has_max then tl_maxh t else h_int ah in
    let maxh_s := if has_max then tl_maxhs t else h_str ah in
    let has_min := isset mask bit_min_host_tag || isset mask bit_min_host_stag in
    let minh_i := if has_min then tl_minh t else maxh_i in
    let minh_s := if has_min then tl_minhs t else maxh_s in
    let has_mc := isset mask bit_max_counter_host_tag || isset mask bit_max_counter_host_stag in
    let mch_i := if has_mc then tl_mch t else maxh_i in
    let mch_s := if has_mc then tl_mchs t else maxh_s in
    let '(cn, ds') := add_counter_host (v_c (mv_v s)) counter (mk_host mch_i mch_s) ds in
    let hll := match tl_uniques t with Some w => t_merge_read ufix (mv_hll s) w | None => mv_hll s end in
    let s1 := {| mv_v := with_counter (mv_v s) cn; mv_dig := mv_dig s; mv_hll := hll |} in
    if negb (isset mask bit_value_set) then (s1, 0, ds')
    else if negb (validate_value (tl_min t) =? 0) then (s1, validate_value (tl_min t), ds')
    else if negb (validate_value (tl_max t) =? 0) then (s1, validate_value (tl_max t), ds')
    else if negb (validate_value (tl_sum t) =? 0) then (s1, validate_value (tl_sum t), ds')
    else
      (* MergeWithTLItem2 *)
      let hm := isset mask bit_value_max in
      let sm := if hm then tl_sum t else (tl_min t * counter)%Q in
      let sq := if hm then tl_sumsq t else (sm * tl_min t)%Q in
      let mx := if hm then tl_max t else tl_min t in
      let v := mv_v s1 in
      let lo := negb (v_set v) || Qltb (tl_min t) (v_min v) in
      let hi := negb (v_set v) || Qltb (v_max v) mx in
      let v' := {| v_c := v_c v;
                   v_min := if lo then tl_min t else v_min v;
                   v_max := if hi then mx else v_max v;
                   v_sum := (v_sum v + sm)%Q; v_sumsq := (v_sumsq v + sq)%Q;
                   v_minh := if lo then mk_host minh_i minh_s else v_minh v;
                   v_maxh := if hi then mk_host maxh_i maxh_s else v_maxh v;
                   v_set := true |} in
      let '(d1, e) :=
          if is_nil (tl_centroids t) then (mv_dig s1, 0)
          else let '(d, e) := add_centroids (dig_get (mv_dig s1)) (tl_centroids t) in (Some d, e) in
      if negb (e =? 0) then ({| mv_v := v'; mv_dig := d1; mv_hll := hll |}, e, ds')
      else
        let d2 := if isset mask bit_implicit_centroid then Some (dig_add (dig_get d1) (tl_min t) counter) else d1 in
        ({| mv_v := v'; mv_dig := d2; mv_hll := hll |}, 0, ds').

(* ------------------------------------------------------------------------------------------ *)
(* 5. keys                                                                                      *)

Record key := { k_ts : Z; k_metric : Z; k_tags : list Z; k_stags : list Z }.

(* TagSlice / STagSlice: everything up to the last non-zero tag / non-empty string *)
Fixpoint trim0 (l : list Z) : list Z :=
  match l with
  | [] => []
  | x :: r => let r' := trim0 r in if (x =? 0) && is_nil r' then [] else x :: r'
  end.

Record tltop := { tt_stag : Z; tt_mask : Z; tt_tag : Z; tt_val : tlval }.
Record tlitem := {
  ti_mask : Z; ti_metric : Z; ti_keys : list Z; ti_skeys : list Z; ti_t : Z; ti_tail : tlval; ti_top : list tltop
}.

(* Key.TLMultiItemFromKey(defaultTimestamp): (mask, keys, skeys, t) *)
Definition tl_from_key (k : key) (dts : Z) : Z * list Z * list Z * Z :=
  let sk := trim0 (k_stags k) in
  let m := setb (negb (is_nil sk)) bit_item_skeys 0 in
  let st := negb (k_ts k =? 0) && negb (k_ts k =? dts) in
  (setb st bit_item_t m, trim0 (k_tags k), sk, if st then k_ts k else 0).

(* copy(key.Tags[:], keys) into the zeroed array *)
Definition to_array (l : list Z) : list Z := firstn (Z.to_nat max_tags) (l ++ repeat 0 (Z.to_nat max_tags)).

(* KeyFromStatshouseMultiItem(item, bucketTimestamp), followed by the handler's copy of the string tags
   (no string is mapped to an int here: the mapping storage of the aggregator is outside the model) *)
Definition key_from (t : tlitem) (bt : Z) : key * Z :=
  let '(ts, warn) :=
      if isset (ti_mask t) bit_item_t then
        if bt <? ti_t t then (bt, warn_clamped_future_agg)
        else if ti_t t <? bt - believe_window then (bt, warn_clamped_past)
        else (ti_t t, 0)
      else (bt, 0) in
  ({| k_ts := ts; k_metric := ti_metric t; k_tags := to_array (ti_keys t); k_stags := to_array (ti_skeys t) |}, warn).

(* ------------------------------------------------------------------------------------------ *)
(* 6. rows                                                                                      *)

(* MultiItem on the agent: the Top map is listed in the order the range loop of keepF visits it *)
Record mitem := { mi_key : key; mi_tail : mvalue; mi_top : list (Z * mvalue); mi_sf : Q; mi_hasp : bool }.

(* sampleBucket.keepF *)
Definition keep_f (fx : bool) (it : mitem) (bt : Z) : tlitem :=
  let '(m0, keys, skeys, t) := tl_from_key (mi_key it) bt in
  let '(tail, m1) := mv_to_tl fx (mi_hasp it) (mi_tail it) (mi_sf it) m0 in
  let top := map (fun kv =>
                    let '(v, em) := mv_to_tl fx (mi_hasp it) (snd kv) (mi_sf it)
                                             (setb (negb (h_int (fst kv) =? 0)) bit_top_tag 0) in
                    {| tt_stag := h_str (fst kv); tt_mask := em; tt_tag := h_int (fst kv); tt_val := v |})
                 (mi_top it) in
  {| ti_mask := setb (negb (is_nil top)) bit_item_top m1; ti_metric := k_metric (mi_key it);
     ti_keys := keys; ti_skeys := skeys; ti_t := t; ti_tail := tail; ti_top := top |}.

(* MultiItem on the aggregator: Tail and the Top map as an association list *)
Record aitem := { ai_tail : mvalue; ai_top : list (Z * mvalue) }.
Definition aitem0 : aitem := {| ai_tail := mvalue0; ai_top := [] |}.

Fixpoint top_find (k : Z) (l : list (Z * mvalue)) : option mvalue :=
  match l with [] => None | (k', v) :: r => if k =? k' then Some v else top_find k r end.
Fixpoint top_set (k : Z) (v : mvalue) (l : list (Z * mvalue)) : list (Z * mvalue) :=
  match l with [] => [(k, v)] | (k', v') :: r => if k =? k' then (k, v) :: r else (k', v') :: top_set k v r end.

(* MultiItem.MergeWithTLMultiItem(rng, capacity, s2, hostTag) into an item whose sampleFactorLog2 is 0;
   None = the string top is full (MapStringTopBytes would resample at random: outside the model) *)
Fixpoint merge_tops (ufix : bool) (capacity : Z) (s : aitem) (tops : list tltop) (ah : Z) (ds : list Z)
  : option (aitem * Z * list Z) :=
  match tops with
  | [] => Some (s, 0, ds)
  | t :: tops' =>
      let k := mk_host (tt_tag t) (tt_stag t) in
      if k =? 0 then   (* tag.Empty(): the Tail *)
        let '(v, e, ds') := merge_with_tl2 ufix (ai_tail s) (tt_val t) (tt_mask t) ah ds in
        let s' := {| ai_tail := v; ai_top := ai_top s |} in
        if negb (e =? 0) then Some (s', e, ds') else merge_tops ufix capacity s' tops' ah ds'
      else
        match top_find k (ai_top s) with
        | None =>
            if (if capacity <? 1 then 100 else capacity) <=? zlen (ai_top s) then None
            else
              let '(v, e, ds') := merge_with_tl2 ufix mvalue0 (tt_val t) (tt_mask t) ah ds in
              let s' := {| ai_tail := ai_tail s; ai_top := top_set k v (ai_top s) |} in
              if negb (e =? 0) then Some (s', e, ds') else merge_tops ufix capacity s' tops' ah ds'
        | Some cur =>
            let '(v, e, ds') := merge_with_tl2 ufix cur (tt_val t) (tt_mask t) ah ds in
            let s' := {| ai_tail := ai_tail s; ai_top := top_set k v (ai_top s) |} in
            if negb (e =? 0) then Some (s', e, ds') else merge_tops ufix capacity s' tops' ah ds'
        end
  end.

Definition merge_item (ufix : bool) (capacity : Z) (s : aitem) (t : tlitem) (ah : Z) (ds : list Z)
  : option (aitem * Z * list Z) :=
  match merge_tops ufix capacity s (ti_top t) ah ds with
  | None => None
  | Some (s', e, ds') =>
      if negb (e =? 0) then Some (s', e, ds')
      else let '(v, e', ds'') := merge_with_tl2 ufix (ai_tail s') (ti_tail t) (ti_mask t) ah ds' in
           Some ({| ai_tail := v; ai_top := ai_top s' |}, e', ds'')
  end.

(* one row from the agent into an empty aggregator item *)
Definition transfer (fx ufix : bool) (it : mitem) (bt ah : Z) : tlitem * (key * Z) * option (aitem * Z * list Z) :=
  let t := keep_f fx it bt in
  (t, key_from t bt, merge_item ufix agg_string_top_capacity aitem0 t ah []).

(* ------------------------------------------------------------------------------------------ *)
(* 7. row identity on the aggregator: Key.MarshalAppend (bucket.go)                             *)
(* handleSendSourceBucket keys the rows of a second by k.XXHash (= MarshalAppend + hash of the bytes after the
   timestamp) and GetOrCreateMultiItem(&k, nil, keyBytes): the map key of a row IS the marshalled key.
   Here string tags are byte strings. Layout as the code produces it: ts (4, LE), metric (4), number of tags up to
   the last non-zero one (1 byte), the tags (4 each), then every string tag up to the last non-empty one followed
   by a zero byte, then one more zero byte (the "number of string tags" byte is written first at the position
   where the strings start and is overwritten by them; the buffer is one byte longer than what is written). *)

Record bkey := { b_ts : Z; b_metric : Z; b_tags : list Z; b_stags : list (list Z) }.

(* everything up to the last element that is not "zero" *)
Fixpoint trimp {A} (e : A -> bool) (l : list A) : list A :=
  match l with
  | [] => []
  | x :: r => let r' := trimp e r in if e x && is_nil r' then [] else x :: r'
  end.

Definition le4 (z : Z) : list Z := [z mod 256; (z / 256) mod 256; (z / 256 / 256) mod 256; (z / 256 / 256 / 256) mod 256].

Definition marshal_key (k : bkey) : list Z :=
  let tags := trimp (Z.eqb 0) (b_tags k) in
  let stags := trimp is_nil (b_stags k) in
  le4 (b_ts k) ++ le4 (u32 (b_metric k)) ++ [zlen tags] ++ flat_map (fun t => le4 (u32 t)) tags ++
  flat_map (fun s => s ++ [0]) stags ++ [0].

(* the per-second map of the aggregator seen through its keys: row i is filed under the first row with the same bytes *)
Fixpoint first_index (bs : list Z) (seen : list (list Z)) (i : Z) : Z :=
  match seen with
  | [] => i
  | b :: r => if (fix eqb (x y : list Z) : bool :=
                    match x, y with [], [] => true | a :: x', c :: y' => (a =? c) && eqb x' y' | _, _ => false end) bs b
              then i else first_index bs r (i + 1)
  end.
Fixpoint file_rows (ks : list bkey) (seen : list (list Z)) : list Z :=
  match ks with
  | [] => []
  | k :: ks' => let b := marshal_key k in first_index b seen 0 :: file_rows ks' (seen ++ [b])
  end.
