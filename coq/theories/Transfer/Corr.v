(* Correspondence cases for C02: what the Go code did on generated rows, replayed through Transfer.Model.
   The model is dual (finding F-C02a): a case is accepted when the observation agrees with the code as it
   is or with the repaired sender. *)
From Coq Require Import ZArith QArith List Bool.
From SH Require Import Common.Wrap Common.Corr Gen.TransferConsts Gen.AggConsts Agg.Model Agg.Corr Transfer.Model.
Import ListNotations.
Open Scope Z_scope.

(* ---------- compact inputs ---------- *)

(* rationals are printed as (q num den) *)
Definition q (n : Z) (d : positive) : Q := Qmake n d.
(* observation constructors of C04, under names visible to the generated case files *)
Definition z0 : Q := 0.
Definition qi (n : Z) : Q := inject_Z n.
Definition VO := VObs.
Definition UG := UD.
Definition UN := UD true 0 0 false 0 0 0 0 0.   (* the nil sketch *)

(* a ChUnique as the harness dumps it: the open-addressing table itself, non-zero slots as (index, hash) *)
Inductive hs := HNil | H (skip sd cnt : Z) (zero : bool) (buf : list (Z * Z)).
Definition of_hs (h : hs) : tsk :=
  match h with
  | HNil => tsk_nil
  | H skip sd cnt zero buf =>
      {| t_nil := false; t_buf := fold_left (fun b p => bset b (fst p) (snd p)) buf (PM.empty Z);
         t_cnt := cnt; t_sd := sd; t_skip := skip; t_zero := zero |}
  end.

(* a MultiValue as the harness dumps it: ItemValue fields, Centroids() (None = nil digest), the HLL table *)
Inductive mvs := MV (cnt : Q) (mch : Z) (mn mx sm sq : Q) (minh maxh : Z) (set : bool)
                    (dig : option (list (Q * Q))) (hll : hs).

Definition cents_of (l : list (Q * Q)) : list centroid := map (fun p => {| ce_mean := fst p; ce_w := snd p |}) l.

Definition of_mvs (m : mvs) : mvalue :=
  let 'MV cnt mch mn mx sm sq minh maxh set dig hll := m in
  {| mv_v := {| v_c := {| c_cnt := cnt; c_host := mch |}; v_min := mn; v_max := mx; v_sum := sm; v_sumsq := sq;
                v_minh := minh; v_maxh := maxh; v_set := set |};
     mv_dig := option_map cents_of dig;
     mv_hll := of_hs hll |}.

(* sparse [MaxTags]int32 / [MaxTags]string arrays: (index, value) pairs *)
Definition arr_of (l : list (Z * Z)) : list Z :=
  map (fun i => match find (fun p => fst p =? Z.of_nat i) l with Some p => snd p | None => 0 end)
      (seq 0 (Z.to_nat max_tags)).

Fixpoint list_eqb {A} (e : A -> A -> bool) (a b : list A) : bool :=
  match a, b with
  | [], [] => true
  | x :: a', y :: b' => e x y && list_eqb e a' b'
  | _, _ => false
  end.

(* a key with byte-string string tags: (timestamp, metric, sparse tags, sparse string tags) *)
Definition sarr_of (l : list (Z * list Z)) : list (list Z) :=
  map (fun i => match find (fun p => fst p =? Z.of_nat i) l with Some p => snd p | None => [] end)
      (seq 0 (Z.to_nat max_tags)).
Inductive brow := BK (ts metric : Z) (tags : list (Z * Z)) (stags : list (Z * list Z)).
Definition bkey_of (r : brow) : bkey :=
  let 'BK ts metric tags stags := r in
  {| b_ts := ts; b_metric := metric; b_tags := arr_of tags; b_stags := sarr_of stags |}.

(* ---------- observations ---------- *)

(* a MultiValue on the aggregator: ItemValue, the Add calls its digest holds unprocessed (None = nil), HLL digest *)
Inductive aobs := AV (o : vobs) (dig : option (list (Q * Q))) (u : udig).

Definition cent_eqb (c : centroid) (p : Q * Q) : bool := Qeq_bool (ce_mean c) (fst p) && Qeq_bool (ce_w c) (snd p).
Fixpoint cents_eqb (a : list centroid) (b : list (Q * Q)) : bool :=
  match a, b with
  | [], [] => true
  | x :: a', y :: b' => cent_eqb x y && cents_eqb a' b'
  | _, _ => false
  end.

Definition aobs_ok (s : mvalue) (a : aobs) : bool :=
  let 'AV o dig u := a in
  vobs_ok (mv_v s) o &&
  match mv_dig s, dig with
  | None, None => true
  | Some d, Some d' => cents_eqb d d'
  | _, _ => false
  end && udig_eqb (t_digest (mv_hll s)) u.

(* operations of a row-building history; the operand of a merge is itself built by plain operations *)
Inductive bop := BOp (o : op) | BMerge (os : list op).

Fixpoint run_bops (s : mvalue) (bs : list bop) (ds : list Z) : mvalue * list Z :=
  match bs with
  | [] => (s, ds)
  | BOp o :: bs' => let '(s', ds') := apply_op false s o ds in run_bops s' bs' ds'
  | BMerge os :: bs' =>
      let '(x, ds1) := apply_ops false mvalue0 os ds in
      let '(s', ds2) := apply_op false s (OMerge x) ds1 in run_bops s' bs' ds2
  end.

Inductive case :=
(* a row value built from events by the real AddCounterHost / AddValueCounterHost / ApplyValues / ApplyUnique /
   Merge; ds = the draws of rng in consumption order (all consumed); observed ItemValue and HLL *)
| CBuild (bs : list bop) (ds : list Z) (o : vobs) (u : udig)
(* one row through keepF -> WriteTL1 -> ReadTL1 -> KeyFromStatshouseMultiItem + MergeWithTLMultiItem(empty item).
   Inputs: key (timestamp, metric, sparse tags, sparse string tags), Tail, Top in the order keepF visited it, SF,
   HasPercentiles, bucket time, the agent's host tag on the aggregator.
   Observed: fields masks of the item and of every top element as read back; the key, its warning; the error and
   the aggregator item (Top sorted by the harness; here looked up by key) *)
| CXfer (ts metric : Z) (tags stags : list (Z * Z)) (tail : mvs) (top : list (Z * mvs)) (sf : Q) (hasp : bool) (bt ah : Z)
        (o_mask : Z) (o_topmasks : list Z)
        (o_ts o_warn : Z) (o_tags o_stags : option (list (Z * Z)))  (* None = as sent *)
        (o_err : Z) (o_tail : aobs) (o_top : list (Z * aobs))
(* the rows of one second as the aggregator files them: keys in arrival order; observed: the bytes of the real
   Key.MarshalAppend of every key, and for every row the index of the first row that got the same *MultiItem from
   MultiItemMap.GetOrCreateMultiItem(&k, nil, keyBytes of k.XXHash) *)
(* a row whose unique sketch sits at the thinning threshold: the sender's sketch holds the hashes a + k*step
   (k < n, inserted in this order by insertHash), the receiver already holds the hashes [pre] ([] = a fresh item:
   the UmMarshall path; otherwise MergeRead). Observed: digest of the sender's sketch and of the receiver's after
   MultiValueToTL -> bytes -> MergeWithTL2 *)
| CBigU (a step n : Z) (pre : list Z) (o_src o_dst : udig)
| CBucket (rows : list brow) (o_bytes : list (list Z)) (o_first : list Z).

Definition ok_with (fx : bool) (c : case) : bool :=
  match c with
  | CBuild bs ds o u =>
      let '(s, ds') := run_bops mvalue0 bs ds in
      vobs_ok (mv_v s) o && is_nil ds' && udig_eqb (t_digest (mv_hll s)) u
  | CXfer ts metric tags stags tail top sf hasp bt ah o_mask o_topmasks o_ts o_warn o_tags o_stags o_err o_tail o_top =>
      let it := {| mi_key := {| k_ts := ts; k_metric := metric; k_tags := arr_of tags; k_stags := arr_of stags |};
                   mi_tail := of_mvs tail; mi_top := map (fun kv => (fst kv, of_mvs (snd kv))) top;
                   mi_sf := sf; mi_hasp := hasp |} in
      let '(t, (k, w), r) := transfer fx false it bt ah in
      (ti_mask t =? o_mask) && list_eqb Z.eqb (map tt_mask (ti_top t)) o_topmasks &&
      (k_ts k =? o_ts) && (w =? o_warn) && (k_metric k =? metric) &&
      list_eqb Z.eqb (k_tags k) (arr_of (match o_tags with Some l => l | None => tags end)) &&
      list_eqb Z.eqb (k_stags k) (arr_of (match o_stags with Some l => l | None => stags end)) &&
      match r with
      | None => false
      | Some (a, e, ds) =>
          (e =? o_err) && is_nil ds && aobs_ok (ai_tail a) o_tail &&
          (zlen (ai_top a) =? zlen o_top) &&
          forallb (fun ko => match top_find (fst ko) (ai_top a) with
                             | Some v => aobs_ok v (snd ko)
                             | None => false
                             end) o_top
      end
  | CBucket _ _ _ => false
  | CBigU _ _ _ _ _ _ => false
  end.

(* placeholder for rows that are checked by the Go-side oracles only *)
Definition CSkip : case := CBuild [] [] (VObs 0 0 0 0 0 0 0 0 false) UN.

(* observed bytes are printed with runs of zero bytes folded: a negative number -n stands for n zero bytes *)
Definition expand (l : list Z) : list Z := flat_map (fun x => if x <? 0 then repeat 0 (Z.to_nat (- x)) else [x]) l.

Definition ok_bucket (c : case) : bool :=
  match c with
  | CBucket rows o_bytes o_first =>
      let ks := map bkey_of rows in
      list_eqb (list_eqb Z.eqb) (map marshal_key ks) (map expand o_bytes) && list_eqb Z.eqb (file_rows ks []) o_first
  | _ => false
  end.

Definition ok_bigu (ufix : bool) (c : case) : bool :=
  match c with
  | CBigU a step n pre o_src o_dst =>
      let src := fold_left t_insert_hash (rev' (range_hashes a step n)) (t_reset tsk_nil) in
      let s := {| mv_v := with_counter ivalue0 {| c_cnt := inject_Z n; c_host := 0 |}; mv_dig := None; mv_hll := src |} in
      let recv := match pre with
                  | [] => mvalue0
                  | _ => {| mv_v := with_counter ivalue0 {| c_cnt := 1; c_host := 0 |}; mv_dig := None;
                            mv_hll := fold_left t_insert_hash pre (t_reset tsk_nil) |}
                  end in
      let '(t, m) := mv_to_tl false false s 1 0 in
      let '(r, e, _) := merge_with_tl2 ufix recv t m 154 [0] in
      udig_eqb (t_digest src) o_src && (e =? 0) && udig_eqb (t_digest (mv_hll r)) o_dst
  | _ => false
  end.

Definition ok (c : case) : bool := if ok_bucket c then true else if ok_bigu true c then true else if ok_bigu false c then true else if ok_with false c then true else ok_with true c.

Definition mism := mismatches ok.
