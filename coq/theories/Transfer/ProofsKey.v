(* C02 — row identity: Key.MarshalAppend is injective on keys whose string tags carry no zero byte, hence the
   per-second map of the aggregator files rows with different keys under different entries. *)
From Coq Require Import ZArith List Bool Lia.
From SH Require Import Common.Wrap Gen.TransferConsts Transfer.Model.
Import ListNotations.
Open Scope Z_scope.

(* ---------- lists ---------- *)

Lemma app_inj_len {A} (a c b d : list A) : length a = length c -> a ++ b = c ++ d -> a = c /\ b = d.
Proof.
  revert c. induction a as [|x a IH]; intros [|y c] Hl H; try discriminate; cbn in *.
  - split; [reflexivity|assumption].
  - injection H as -> H. injection Hl as Hl. destruct (IH c Hl H) as [-> ->]. split; reflexivity.
Qed.

(* trimp cuts a tail of "zero" elements *)
Lemma trimp_pad {A} (e : A -> bool) (z : A) (Hz : forall x, e x = true -> x = z) l :
  exists n, l = trimp e l ++ repeat z n /\ (length l = length (trimp e l) + n)%nat.
Proof.
  induction l as [|x r [n [IH IHl]]]; [exists 0%nat; split; reflexivity|].
  cbn [trimp]. destruct (e x && is_nil (trimp e r)) eqn:E.
  - apply andb_true_iff in E as [Ex En]. apply Hz in Ex. subst x.
    destruct (trimp e r); [|discriminate]. cbn [app] in IH. exists (S n). cbn. rewrite IH at 1. split; [reflexivity|].
    cbn in IHl. rewrite IHl. reflexivity.
  - exists n. cbn. rewrite <- IH. split; [reflexivity|]. rewrite IHl. reflexivity.
Qed.

Lemma trimp_inj {A} (e : A -> bool) (z : A) (Hz : forall x, e x = true -> x = z) l1 l2 :
  length l1 = length l2 -> trimp e l1 = trimp e l2 -> l1 = l2.
Proof.
  intros Hl Ht. destruct (trimp_pad e z Hz l1) as [n1 [E1 L1]]. destruct (trimp_pad e z Hz l2) as [n2 [E2 L2]].
  rewrite E1, E2, Ht. f_equal. f_equal. rewrite Ht in L1. lia.
Qed.

(* ---------- fixed-width integers ---------- *)

Lemma le4_length z : length (le4 z) = 4%nat.
Proof. reflexivity. Qed.

Lemma le4_inj a b : 0 <= a < two32 -> 0 <= b < two32 -> le4 a = le4 b -> a = b.
Proof.
  unfold le4, two32. intros Ha Hb H. injection H as H0 H1 H2 H3.
  pose proof (Z.div_mod a 256 ltac:(lia)). pose proof (Z.div_mod (a / 256) 256 ltac:(lia)).
  pose proof (Z.div_mod (a / 256 / 256) 256 ltac:(lia)). pose proof (Z.div_mod (a / 256 / 256 / 256) 256 ltac:(lia)).
  pose proof (Z.div_mod b 256 ltac:(lia)). pose proof (Z.div_mod (b / 256) 256 ltac:(lia)).
  pose proof (Z.div_mod (b / 256 / 256) 256 ltac:(lia)). pose proof (Z.div_mod (b / 256 / 256 / 256) 256 ltac:(lia)).
  pose proof (Z.mod_pos_bound a 256 ltac:(lia)). pose proof (Z.mod_pos_bound (a / 256) 256 ltac:(lia)).
  pose proof (Z.mod_pos_bound (a / 256 / 256) 256 ltac:(lia)). pose proof (Z.mod_pos_bound (a / 256 / 256 / 256) 256 ltac:(lia)).
  pose proof (Z.mod_pos_bound b 256 ltac:(lia)). pose proof (Z.mod_pos_bound (b / 256) 256 ltac:(lia)).
  pose proof (Z.mod_pos_bound (b / 256 / 256) 256 ltac:(lia)). pose proof (Z.mod_pos_bound (b / 256 / 256 / 256) 256 ltac:(lia)).
  assert (a / 256 / 256 / 256 / 256 = 0) by (apply Z.div_small; lia).
  assert (b / 256 / 256 / 256 / 256 = 0) by (apply Z.div_small; lia).
  lia.
Qed.

Definition is_i32 (z : Z) : Prop := - two31 <= z < two31.

Lemma u32_range z : 0 <= u32 z < two32.
Proof. unfold u32, two32. apply Z.mod_pos_bound. lia. Qed.

Lemma u32_inj a b : is_i32 a -> is_i32 b -> u32 a = u32 b -> a = b.
Proof.
  unfold is_i32, u32, two31, two32. intros Ha Hb H.
  pose proof (Z.div_mod a 4294967296 ltac:(lia)). pose proof (Z.div_mod b 4294967296 ltac:(lia)). lia.
Qed.

Lemma tags_inj l1 l2 r1 r2 :
  Forall is_i32 l1 -> Forall is_i32 l2 -> length l1 = length l2 ->
  flat_map (fun t => le4 (u32 t)) l1 ++ r1 = flat_map (fun t => le4 (u32 t)) l2 ++ r2 -> l1 = l2 /\ r1 = r2.
Proof.
  intros H1. revert l2. induction H1 as [|x l1 Hx _ IH]; intros [|y l2] H2 Hl H; try discriminate.
  - split; [reflexivity|exact H].
  - inversion H2 as [|? ? Hy H2']; subst. cbn [flat_map] in H. rewrite <- !app_assoc in H.
    apply app_inj_len in H as [Hh Ht]; [|reflexivity].
    apply le4_inj in Hh; try apply u32_range. apply u32_inj in Hh; try assumption. subst y.
    injection Hl as Hl. destruct (IH l2 H2' Hl Ht) as [-> ->]. split; reflexivity.
Qed.

(* ---------- zero-terminated strings ---------- *)

Definition nul_free (s : list Z) : Prop := Forall (fun b => b <> 0) s.

Lemma split0 s1 s2 r1 r2 : nul_free s1 -> nul_free s2 -> s1 ++ 0 :: r1 = s2 ++ 0 :: r2 -> s1 = s2 /\ r1 = r2.
Proof.
  intros H1. revert s2. induction H1 as [|x s1 Hx _ IH]; intros s2 H2 H.
  - destruct H2 as [|y s2 Hy _]; cbn in H.
    + injection H as ->. split; reflexivity.
    + injection H as H _. congruence.
  - destruct H2 as [|y s2 Hy H2]; cbn in H.
    + injection H as H _. congruence.
    + injection H as -> H. destruct (IH s2 H2 H) as [-> ->]. split; reflexivity.
Qed.

Definition zstrings (l : list (list Z)) : list Z := flat_map (fun s => s ++ [0]) l ++ [0].
Lemma zstrings_cons s l : zstrings (s :: l) = s ++ 0 :: zstrings l.
Proof. unfold zstrings. cbn [flat_map]. rewrite <- !app_assoc. reflexivity. Qed.

Lemma strings_inj l1 l2 :
  Forall nul_free l1 -> Forall nul_free l2 -> zstrings l1 = zstrings l2 -> l1 = l2.
Proof.
  intros H1. revert l2. induction H1 as [|s1 l1 Hs1 _ IH]; intros l2 H2 H.
  - destruct H2 as [|s2 l2 Hs2 _]; [reflexivity|]. rewrite zstrings_cons in H.
    apply (split0 [] s2 [] (zstrings l2)) in H as [_ H]; [|constructor|assumption].
    unfold zstrings in H. destruct (flat_map _ l2); discriminate.
  - destruct H2 as [|s2 l2 Hs2 H2]; rewrite zstrings_cons in H.
    + apply (split0 s1 [] (zstrings l1) []) in H as [_ H]; [|assumption|constructor].
      unfold zstrings in H. destruct (flat_map _ l1); discriminate.
    + rewrite zstrings_cons in H. apply split0 in H as [-> H]; try assumption. rewrite (IH l2 H2 H). reflexivity.
Qed.

(* ---------- keys ---------- *)

(* a Key as the Go type allows it, with string tags the aggregator accepts (format.ValidStringValue accepts only
   printable characters, so no zero byte) *)
Definition wf_bkey (k : bkey) : Prop :=
  0 <= b_ts k < two32 /\ is_i32 (b_metric k) /\
  length (b_tags k) = Z.to_nat max_tags /\ Forall is_i32 (b_tags k) /\
  length (b_stags k) = Z.to_nat max_tags /\ Forall nul_free (b_stags k).

Lemma trimp_forall {A} (P : A -> Prop) e l : Forall P l -> Forall P (trimp e l).
Proof.
  induction 1 as [|x l Hx _ IH]; cbn [trimp]; [constructor|].
  destruct (e x && is_nil (trimp e l)); constructor; assumption.
Qed.

Lemma trimp_length {A} (e : A -> bool) l : (length (trimp e l) <= length l)%nat.
Proof. induction l as [|x l IH]; cbn [trimp]; [lia|]. destruct (e x && is_nil (trimp e l)); cbn; lia. Qed.

Theorem marshal_key_injective k1 k2 :
  wf_bkey k1 -> wf_bkey k2 -> marshal_key k1 = marshal_key k2 -> k1 = k2.
Proof.
  intros (T1 & M1 & LT1 & FT1 & LS1 & FS1) (T2 & M2 & LT2 & FT2 & LS2 & FS2) H. unfold marshal_key in H.
  apply app_inj_len in H as [Hts H]; [|reflexivity]. apply le4_inj in Hts; try assumption.
  apply app_inj_len in H as [Hm H]; [|reflexivity]. apply le4_inj in Hm; try apply u32_range. apply u32_inj in Hm; try assumption.
  cbn [app] in H. injection H as Hc H. unfold zlen in Hc. apply Nat2Z.inj in Hc.
  apply tags_inj in H as [Htags H]; try (apply trimp_forall; assumption); try assumption.
  apply (strings_inj _ _ (trimp_forall _ _ _ FS1) (trimp_forall _ _ _ FS2)) in H.
  apply (trimp_inj (Z.eqb 0) 0) in Htags; [| intros x Hx; apply Z.eqb_eq in Hx; congruence | congruence].
  apply (trimp_inj is_nil []) in H; [| intros [|] Hx; [reflexivity|discriminate] | congruence].
  destruct k1 as [a1 m1 t1 s1], k2 as [a2 m2 t2 s2]; cbn [b_ts b_metric b_tags b_stags] in *; subst; reflexivity.
Qed.

(* the guard is needed: with a zero byte inside a string tag two different keys have the same bytes *)
Definition nul_k1 : bkey := {| b_ts := 1; b_metric := 1; b_tags := repeat 0 48; b_stags := [97; 0; 98] :: repeat [] 47 |}.
Definition nul_k2 : bkey := {| b_ts := 1; b_metric := 1; b_tags := repeat 0 48; b_stags := [97] :: [98] :: repeat [] 46 |}.
Lemma nul_collision : nul_k1 <> nul_k2 /\ marshal_key nul_k1 = marshal_key nul_k2.
Proof.
  split; [|vm_compute; reflexivity].
  intros H. apply (f_equal (fun k => length (hd [] (b_stags k)))) in H. vm_compute in H. discriminate.
Qed.

(* ---------- the per-second map ---------- *)

Fixpoint bytes_eqb (x y : list Z) : bool :=
  match x, y with [], [] => true | a :: x', c :: y' => (a =? c) && bytes_eqb x' y' | _, _ => false end.
Lemma bytes_eqb_eq x y : bytes_eqb x y = true <-> x = y.
Proof.
  revert y. induction x as [|a x IH]; intros [|c y]; cbn; split; intros H; try discriminate; try reflexivity.
  - apply andb_true_iff in H as [H1 H2]. apply Z.eqb_eq in H1. apply IH in H2. subst. reflexivity.
  - injection H as -> ->. rewrite Z.eqb_refl. apply IH. reflexivity.
Qed.

Lemma first_index_spec b seen i :
  first_index b seen i = i + zlen seen /\ ~ In b seen \/
  exists j, (j < length seen)%nat /\ first_index b seen i = i + Z.of_nat j /\ nth j seen [] = b.
Proof.
  revert i. induction seen as [|c r IH]; intros i; cbn [first_index].
  - left. unfold zlen. cbn. split; [lia|tauto].
  - change ((fix eqb (x y : list Z) : bool := match x, y with [] , [] => true | a :: x', c0 :: y' => (a =? c0) && eqb x' y' | _, _ => false end) b c)
      with (bytes_eqb b c).
    destruct (bytes_eqb b c) eqn:E.
    + apply bytes_eqb_eq in E. subst c. right. exists 0%nat. cbn. split; [lia|]. split; [lia|reflexivity].
    + destruct (IH (i + 1)) as [[H1 H2]|[j [Hj [H1 H2]]]].
      * left. unfold zlen in *. cbn [length]. split; [lia|]. intros [->|Hin]; [|tauto].
        assert (bytes_eqb b b = true) by (apply bytes_eqb_eq; reflexivity). congruence.
      * right. exists (S j). cbn [length nth]. split; [lia|]. split; [lia|assumption].
Qed.

(* rows with pairwise different well-formed keys are filed each under its own entry: row i gets index i *)
Theorem rows_keep_their_identity ks :
  Forall wf_bkey ks -> NoDup ks ->
  forall seen_keys, Forall wf_bkey seen_keys -> NoDup (seen_keys ++ ks) ->
  file_rows ks (map marshal_key seen_keys) = map (fun i => zlen seen_keys + Z.of_nat i) (seq 0 (length ks)).
Proof.
  induction ks as [|k ks IH]; intros Hwf Hnd seen Hs Hall; [reflexivity|].
  inversion Hwf as [|? ? Hk Hwf']; subst. inversion Hnd as [|? ? Hnk Hnd']; subst.
  cbn [file_rows length seq map]. f_equal.
  - destruct (first_index_spec (marshal_key k) (map marshal_key seen) 0) as [[H1 _]|[j [Hj [_ H2]]]].
    + rewrite H1. unfold zlen. rewrite map_length. lia.
    + exfalso. rewrite map_length in Hj.
      rewrite (nth_indep _ [] (marshal_key k)) in H2 by (rewrite map_length; assumption).
      rewrite map_nth in H2. apply marshal_key_injective in H2; try assumption.
      * apply NoDup_remove_2 in Hall. apply Hall. apply in_or_app. left. rewrite <- H2. apply nth_In. assumption.
      * rewrite Forall_forall in Hs. apply Hs. apply nth_In. assumption.
  - replace (map marshal_key seen ++ [marshal_key k]) with (map marshal_key (seen ++ [k])) by (rewrite map_app; reflexivity).
    rewrite IH; try assumption.
    + rewrite <- seq_shift, map_map. apply map_ext. intros i. unfold zlen. rewrite app_length. cbn [length]. lia.
    + apply Forall_app. split; [assumption|constructor; [assumption|constructor]].
    + rewrite <- app_assoc. exact Hall.
Qed.
