(* C02 — proofs about Transfer.Model: fields-mask algebra, the key round trip, the value round trip
   (faithful: partial + refuted; repaired sender: full), host attributions, uniques and centroids. *)
From Coq Require Import ZArith QArith Qround List Bool Lia Lqa.
From SH Require Import Common.Wrap Gen.TransferConsts Gen.AggConsts Agg.Model Agg.ProofsValue Transfer.Model.
Import ListNotations.
Open Scope Z_scope.

(* ------------------------------------------------------------------------------------------ *)
(* 1. fields masks                                                                              *)

Lemma testbit_setb c b m n : 0 <= b -> Z.testbit (setb c b m) n = (c && (b =? n)) || Z.testbit m n.
Proof.
  intros Hb. unfold setb. destruct c; simpl; [|reflexivity].
  apply Z.setbit_eqb; assumption.
Qed.

Lemma isset_mask_of l m n :
  Forall (fun cb => 0 <= snd cb) l ->
  isset (mask_of l m) n = existsb (fun cb => fst cb && (snd cb =? n)) l || isset m n.
Proof.
  unfold isset. induction 1 as [|cb l Hb Hl IH]; simpl; [reflexivity|].
  rewrite testbit_setb by assumption. rewrite IH. rewrite orb_assoc. reflexivity.
Qed.

(* the bits MultiValueToTL may set *)
Definition value_bit_list : list Z :=
  [bit_max_host_tag; bit_max_host_stag; bit_min_host_tag; bit_min_host_stag; bit_max_counter_host_tag;
   bit_max_counter_host_stag; bit_uniques; bit_counter_eq_1; bit_counter; bit_centroids; bit_implicit_centroid;
   bit_value_set; bit_value_min; bit_value_max].
Definition no_value_bits (m : Z) : Prop := forallb (fun b => negb (isset m b)) value_bit_list = true.

Section Table.
  Variables c1 c2 c3 c4 c5 c6 c7 c8 c9 c10 c11 c12 c13 c14 : bool.
  Let l : list (bool * Z) :=
    [ (c1, bit_max_host_tag); (c2, bit_max_host_stag); (c3, bit_min_host_tag); (c4, bit_min_host_stag);
      (c5, bit_max_counter_host_tag); (c6, bit_max_counter_host_stag); (c7, bit_uniques);
      (c8, bit_counter_eq_1); (c9, bit_counter); (c10, bit_centroids); (c11, bit_implicit_centroid);
      (c12, bit_value_set); (c13, bit_value_min); (c14, bit_value_max) ].
  Lemma bits_table m0 : no_value_bits m0 ->
    let m := mask_of l m0 in
    isset m bit_max_host_tag = c1 /\ isset m bit_max_host_stag = c2 /\ isset m bit_min_host_tag = c3 /\
    isset m bit_min_host_stag = c4 /\ isset m bit_max_counter_host_tag = c5 /\ isset m bit_max_counter_host_stag = c6 /\
    isset m bit_uniques = c7 /\ isset m bit_counter_eq_1 = c8 /\ isset m bit_counter = c9 /\ isset m bit_centroids = c10 /\
    isset m bit_implicit_centroid = c11 /\ isset m bit_value_set = c12 /\ isset m bit_value_min = c13 /\
    isset m bit_value_max = c14.
  Proof.
    intros H0 m. unfold no_value_bits in H0. cbn [forallb value_bit_list] in H0.
    repeat (apply andb_true_iff in H0; destruct H0 as [? H0]).
    repeat match goal with H : negb _ = true |- _ => apply negb_true_iff in H end.
    assert (Hl : Forall (fun cb : bool * Z => 0 <= snd cb) l) by (subst l; repeat constructor; vm_compute; discriminate).
    subst m. repeat split; rewrite (isset_mask_of _ _ _ Hl); subst l; cbn [existsb fst snd];
      repeat match goal with |- context [(?a =? ?b)] => let r := eval vm_compute in (a =? b) in change (a =? b) with r end;
      rewrite ?andb_false_r, ?andb_true_r, ?orb_false_r, ?orb_false_l;
      match goal with H : isset m0 _ = false |- _ => try (rewrite H; rewrite orb_false_r; reflexivity) end;
      try (rewrite H0; rewrite orb_false_r; reflexivity);
      repeat match goal with H : isset m0 ?b = false |- context [isset m0 ?b] => rewrite H end;
      rewrite ?orb_false_r; reflexivity.
  Qed.
End Table.

(* the masks MultiValueToTL starts from: the key bits of the item, the tag bit of a top element *)
Lemma no_value_bits_key c1 c2 : no_value_bits (setb c1 bit_item_t (setb c2 bit_item_skeys 0)).
Proof. destruct c1, c2; vm_compute; reflexivity. Qed.
Lemma no_value_bits_top c : no_value_bits (setb c bit_top_tag 0).
Proof. destruct c; vm_compute; reflexivity. Qed.

(* MultiValueToTL leaves the key bits of the item alone *)
Lemma mv_to_tl_keeps_item_bits fx hasp s sf m0 b :
  In b [bit_item_t; bit_item_skeys; bit_item_top; bit_top_tag] ->
  isset (snd (mv_to_tl fx hasp s sf m0)) b = isset m0 b.
Proof.
  intros Hb. unfold mv_to_tl. destruct (Qle_bool (cou_of s sf) 0); [reflexivity|]. cbn [snd].
  rewrite isset_mask_of.
  - replace (existsb _ _) with false; [reflexivity|]. symmetry. apply not_true_is_false. intros He.
    apply existsb_exists in He as [cb [Hin He]]. apply andb_true_iff in He as [_ He]. apply Z.eqb_eq in He.
    unfold value_bits in Hin. cbn [In] in Hin.
    repeat (destruct Hin as [<-|Hin]; [cbn [snd] in He; cbn [In] in Hb;
      repeat (destruct Hb as [<-|Hb]; [vm_compute in He; discriminate|]); contradiction|]).
    contradiction.
  - unfold value_bits. repeat constructor; vm_compute; discriminate.
Qed.

(* ------------------------------------------------------------------------------------------ *)
(* 2. keys                                                                                      *)

Lemma trim0_pad l : exists n, l = trim0 l ++ repeat 0 n /\ (length l = length (trim0 l) + n)%nat.
Proof.
  induction l as [|x r [n [IH IHl]]]; [exists 0%nat; split; reflexivity|].
  cbn [trim0]. destruct ((x =? 0) && is_nil (trim0 r)) eqn:E.
  - apply andb_true_iff in E as [Ex En]. apply Z.eqb_eq in Ex. subst x.
    destruct (trim0 r); [|discriminate]. cbn [app] in IH. exists (S n). cbn. rewrite IH at 1. split; [reflexivity|].
    cbn in IHl. rewrite IHl. reflexivity.
  - exists n. cbn. rewrite <- IH. split; [reflexivity|]. rewrite IHl. reflexivity.
Qed.

Lemma to_array_trim0 l : length l = Z.to_nat max_tags -> to_array (trim0 l) = l.
Proof.
  intros Hl. destruct (trim0_pad l) as [n [E En]]. unfold to_array. rewrite <- Hl.
  set (t := trim0 l) in *. rewrite En.
  replace (repeat 0 (length t + n)) with (repeat 0 n ++ repeat 0 (length t)).
  2:{ rewrite <- repeat_app. f_equal. lia. }
  rewrite app_assoc, <- E. rewrite <- En.
  rewrite firstn_app, firstn_all, Nat.sub_diag. cbn. apply app_nil_r.
Qed.

Definition wf_key (k : key) : Prop :=
  length (k_tags k) = Z.to_nat max_tags /\ length (k_stags k) = Z.to_nat max_tags.

Definition key_eq (a b : key) : Prop :=
  k_ts a = k_ts b /\ k_metric a = k_metric b /\ k_tags a = k_tags b /\ k_stags a = k_stags b.

(* what the aggregator makes of the row's key: the item bits survive the value bits and the top bit *)
Lemma keep_f_key fx it bt :
  let t := keep_f fx it bt in
  let '(m0, keys, skeys, ts) := tl_from_key (mi_key it) bt in
  isset (ti_mask t) bit_item_t = isset m0 bit_item_t /\
  ti_metric t = k_metric (mi_key it) /\ ti_keys t = keys /\ ti_skeys t = skeys /\ ti_t t = ts.
Proof.
  unfold keep_f. destruct (tl_from_key (mi_key it) bt) as [[[m0 keys] skeys] ts] eqn:E.
  destruct (mv_to_tl fx (mi_hasp it) (mi_tail it) (mi_sf it) m0) as [tail m1] eqn:E1.
  cbn [ti_mask ti_metric ti_keys ti_skeys ti_t]. split; [|repeat split; reflexivity]. unfold isset. rewrite testbit_setb by (vm_compute; discriminate).
  replace (bit_item_top =? bit_item_t) with false by reflexivity. rewrite andb_false_r. cbn [orb].
  change (Z.testbit m1 bit_item_t) with (isset m1 bit_item_t).
  replace m1 with (snd (mv_to_tl fx (mi_hasp it) (mi_tail it) (mi_sf it) m0)) by (rewrite E1; reflexivity).
  apply mv_to_tl_keeps_item_bits. cbn. auto.
Qed.

Lemma isset_key_t k bt :
  let '(m0, _, _, _) := tl_from_key k bt in
  isset m0 bit_item_t = negb (k_ts k =? 0) && negb (k_ts k =? bt).
Proof.
  unfold tl_from_key. unfold isset. rewrite testbit_setb by (vm_compute; discriminate).
  rewrite Z.eqb_refl, andb_true_r. rewrite testbit_setb by (vm_compute; discriminate).
  replace (bit_item_skeys =? bit_item_t) with false by reflexivity.
  rewrite andb_false_r, Z.testbit_0_l, orb_false_r. reflexivity.
Qed.

(* the key the aggregator reconstructs, in all four situations *)
Theorem key_transfer fx it bt :
  wf_key (mi_key it) ->
  let k := mi_key it in
  let '(k', w) := key_from (keep_f fx it bt) bt in
  k_metric k' = k_metric k /\ k_tags k' = k_tags k /\ k_stags k' = k_stags k /\
  (* timestamp not set (0) or equal to the bucket's: the field is elided and restored as the bucket time *)
  ((k_ts k = 0 \/ k_ts k = bt) -> k_ts k' = bt /\ w = 0) /\
  (* inside [bt - window, bt]: unchanged, no warning *)
  (k_ts k <> 0 -> bt - believe_window <= k_ts k <= bt -> k_ts k' = k_ts k /\ w = 0) /\
  (* in the future: clamped to the bucket time with the future warning *)
  (k_ts k <> 0 -> bt < k_ts k -> k_ts k' = bt /\ w = warn_clamped_future_agg) /\
  (* too old: clamped to the bucket time with the past warning *)
  (k_ts k <> 0 -> k_ts k < bt - believe_window -> k_ts k' = bt /\ w = warn_clamped_past).
Proof.
  intros [Ht Hs] k. assert (Hw : 0 <= believe_window) by (vm_compute; discriminate).
  pose proof (keep_f_key fx it bt) as H. pose proof (isset_key_t (mi_key it) bt) as Hb.
  cbv zeta in H. unfold tl_from_key in *. cbn [fst snd] in *.
  destruct H as [Hm [Hme [Hk [Hsk Hts]]]]. rewrite Hb in Hm. clear Hb.
  unfold key_from. rewrite Hm, Hme, Hk, Hsk, Hts. fold k.
  destruct (negb (k_ts k =? 0) && negb (k_ts k =? bt)) eqn:E.
  - apply andb_true_iff in E as [E1 E2]. apply negb_true_iff in E1, E2. apply Z.eqb_neq in E1, E2.
    destruct (bt <? k_ts k) eqn:F; [|destruct (k_ts k <? bt - believe_window) eqn:G];
      cbn [k_metric k_tags k_stags k_ts]; rewrite !to_array_trim0 by assumption;
      rewrite ?Z.ltb_lt, ?Z.ltb_ge in *;
      repeat split; try reflexivity; intros; try lia.
  - cbn [k_metric k_tags k_stags k_ts]. rewrite !to_array_trim0 by assumption.
    apply andb_false_iff in E. repeat split; try reflexivity; intros;
      destruct E as [E|E]; apply negb_false_iff in E; apply Z.eqb_eq in E; try lia.
Qed.

(* ------------------------------------------------------------------------------------------ *)
(* 3. one MultiValue through MultiValueToTL and MergeWithTL2 into an empty receiver              *)

Definition cnt_of (s : mvalue) : Q := c_cnt (v_c (mv_v s)).
Definition subst (ah h : Z) : Z := if h =? 0 then ah else h.

(* hosts are valid encodings of a normalised TagUnion (1 would be "the empty string as a string tag") *)
Definition hvalid (h : Z) : Prop := h <> 1.

Lemma mk_host_inv h : hvalid h -> mk_host (h_int h) (h_str h) = h.
Proof.
  unfold hvalid, mk_host, h_int, h_str. intros Hh. destruct (Z.even h) eqn:E.
  - apply Z.even_spec in E as [k ->]. replace (2 * k / 2) with k by (rewrite Z.mul_comm, Z.div_mul; lia).
    destruct (k =? 0) eqn:K; [apply Z.eqb_eq in K; subst k; reflexivity|reflexivity].
  - assert (O : Z.odd h = true) by (rewrite <- Z.negb_even, E; reflexivity).
    apply Z.odd_spec in O as [k ->]. replace ((2 * k + 1 - 1) / 2) with k by (replace (2 * k + 1 - 1) with (k * 2) by lia; rewrite Z.div_mul; lia).
    destruct (k =? 0) eqn:K; [apply Z.eqb_eq in K; subst k; exfalso; apply Hh; reflexivity|reflexivity].
Qed.

Lemma h_has_none h : hvalid h -> h_has_i h = false -> h_has_s h = false -> h = 0.
Proof.
  intros Hv Hi Hs. rewrite <- (mk_host_inv h Hv). unfold h_has_i, h_has_s in *.
  apply negb_false_iff in Hi. rewrite Hi in Hs. cbn in Hs. apply negb_false_iff in Hs.
  apply Z.eqb_eq in Hi, Hs. rewrite Hi, Hs. reflexivity.
Qed.

Lemma h_has_zero : h_has_i 0 = false /\ h_has_s 0 = false.
Proof. split; reflexivity. Qed.

(* the aggregator's reconstruction of one host from the two fields and the "is set" test *)
Lemma host_field h (send : bool) (dflt : Z) : hvalid h ->
  mk_host (if (send && h_has_i h) || (send && h_has_s h) then (if send && h_has_i h then h_int h else 0) else h_int dflt)
          (if (send && h_has_i h) || (send && h_has_s h) then (if send && h_has_s h then h_str h else 0) else h_str dflt)
  = if send && negb (h =? 0) then h else mk_host (h_int dflt) (h_str dflt).
Proof.
  intros Hv. destruct send; cbn [andb]; [|reflexivity].
  destruct (h_has_i h) eqn:Hi; cbn [orb].
  - assert (Hn : h <> 0) by (intros ->; discriminate Hi). apply Z.eqb_neq in Hn. rewrite Hn. cbn [negb].
    assert (Hs : h_has_s h = false) by (unfold h_has_i, h_has_s in *; apply negb_true_iff in Hi; rewrite Hi; reflexivity).
    rewrite Hs. transitivity (mk_host (h_int h) (h_str h)); [|apply mk_host_inv; assumption].
    unfold mk_host. unfold h_has_i in Hi. rewrite Hi. reflexivity.
  - destruct (h_has_s h) eqn:Hs.
    + assert (Hn : h <> 0) by (intros ->; discriminate Hs). apply Z.eqb_neq in Hn. rewrite Hn. cbn [negb].
      transitivity (mk_host (h_int h) (h_str h)); [|apply mk_host_inv; assumption].
      unfold h_has_i in Hi. apply negb_false_iff in Hi. apply Z.eqb_eq in Hi. rewrite Hi. reflexivity.
    + rewrite (h_has_none h Hv Hi Hs). reflexivity.
Qed.

Definition in_range (s : mvalue) (sf : Q) : Prop :=
  let v := mv_v s in
  (cnt_of s * sf <= qmaxf)%Q /\
  (v_set v = true -> (- qmaxf <= v_min v <= qmaxf)%Q /\ (- qmaxf <= v_max v <= qmaxf)%Q /\
                     (- qmaxf <= v_sum v * sf <= qmaxf)%Q).

Lemma validate_counter_ok f : (0 <= f)%Q -> (f <= qmaxf)%Q -> validate_counter f = 0.
Proof.
  intros H0 H1. unfold validate_counter.
  destruct (Qltb f 0) eqn:A; [apply Qltb_true in A; lra|].
  destruct (Qltb qmaxf f) eqn:B; [apply Qltb_true in B; apply Qlt_not_le in B; contradiction|]. reflexivity.
Qed.
Lemma validate_value_ok f : (- qmaxf <= f <= qmaxf)%Q -> validate_value f = 0.
Proof.
  intros [H0 H1]. unfold validate_value.
  destruct (Qltb qmaxf f) eqn:A; [apply Qltb_true in A; apply Qlt_not_le in A; contradiction|].
  destruct (Qltb f (- qmaxf)) eqn:B; [apply Qltb_true in B; apply Qlt_not_le in B; contradiction|]. reflexivity.
Qed.
Lemma qmaxf_pos : (0 < qmaxf)%Q.
Proof. unfold qmaxf, max_float32. reflexivity. Qed.

(* the centroid loop on valid centroids appends them all *)
Definition cent_ok (c : centroid) : Prop := (0 < ce_w c)%Q /\ (ce_w c <= qmaxf)%Q /\ (- qmaxf <= ce_mean c <= qmaxf)%Q.
Lemma add_centroids_ok cs : Forall cent_ok cs -> forall d, add_centroids d cs = (d ++ cs, 0).
Proof.
  induction 1 as [|c cs [Hw [Hm Hv]] _ IH]; intros d; cbn [add_centroids]; [rewrite app_nil_r; reflexivity|].
  destruct (Qeq_bool (ce_w c) 0) eqn:E; [apply Qeq_bool_iff in E; lra|].
  rewrite validate_counter_ok by lra. rewrite validate_value_ok by assumption. cbn [Z.eqb negb].
  rewrite IH. unfold dig_add. destruct (Qle_bool (ce_w c) 0) eqn:F; [apply Qle_bool_iff in F; lra|].
  rewrite <- app_assoc. destruct c; reflexivity.
Qed.

(* what the property expects on the aggregator *)
Record arrives (s : mvalue) (sf : Q) (ah : Z) (r : mvalue) : Prop := {
  ar_count : (c_cnt (v_c (mv_v r)) == cnt_of s * sf)%Q;
  ar_set : v_set (mv_v r) = v_set (mv_v s);
  ar_min : v_set (mv_v s) = true -> (v_min (mv_v r) == v_min (mv_v s))%Q;
  ar_max : v_set (mv_v s) = true -> (v_max (mv_v r) == v_max (mv_v s))%Q;
  ar_sum : v_set (mv_v s) = true -> (v_sum (mv_v r) == v_sum (mv_v s) * sf)%Q;
  ar_sumsq : v_set (mv_v s) = true -> (v_sumsq (mv_v r) == v_sumsq (mv_v s) * sf)%Q
}.
Record hosts_arrive (s : mvalue) (ah : Z) (r : mvalue) : Prop := {
  ah_mc : c_host (v_c (mv_v r)) = subst ah (c_host (v_c (mv_v s)));
  ah_min : v_set (mv_v s) = true -> v_minh (mv_v r) = subst ah (v_minh (mv_v s));
  ah_max : v_set (mv_v s) = true -> v_maxh (mv_v r) = subst ah (v_maxh (mv_v s))
}.

(* premises *)
Definition sums_consistent (v : ivalue) : Prop := ~ (v_min v == v_max v)%Q \/ (v_sum v == v_min v * c_cnt (v_c v))%Q.
Definition single_value_sumsq (v : ivalue) : Prop := (v_min v == v_max v)%Q -> (v_sumsq v == v_min v * v_sum v)%Q.
Definition hosts_valid (s : mvalue) (ah : Z) : Prop :=
  hvalid ah /\ hvalid (c_host (v_c (mv_v s))) /\ hvalid (v_minh (mv_v s)) /\ hvalid (v_maxh (mv_v s)).
Definition no_empty_next_to_max (s : mvalue) : Prop :=
  (c_host (v_c (mv_v s)) = 0 -> v_maxh (mv_v s) = 0) /\ (v_minh (mv_v s) = 0 -> v_maxh (mv_v s) = 0).

Definition sent_ok (fx : bool) (v : ivalue) : Prop := if fx then True else sums_consistent v.

(* the digest the aggregator ends with: the sender's centroids with weights*sf, or the implicit centroid *)
Definition expected_digest (hasp : bool) (s : mvalue) (sf : Q) : option (list centroid) :=
  if v_set (mv_v s) && hasp then
    match mv_dig s with
    | Some cs => if is_nil cs then None else Some (sent_centroids hasp s sf)
    | None => Some [{| ce_mean := v_min (mv_v s); ce_w := (cnt_of s * sf)%Q |}]
    end
  else None.
Definition expected_hll (s : mvalue) : tsk :=
  if t_cnt (mv_hll s) =? 0 then tsk_nil else t_unmarshal (t_wire (mv_hll s)).

Definition cent_eq (a b : centroid) : Prop := (ce_mean a == ce_mean b)%Q /\ (ce_w a == ce_w b)%Q.
Definition dig_eq (a b : option (list centroid)) : Prop :=
  match a, b with
  | None, None => True
  | Some x, Some y => Forall2 cent_eq x y
  | _, _ => False
  end.
Lemma cents_eq_refl l : Forall2 cent_eq l l.
Proof. induction l; constructor; [split; reflexivity|assumption]. Qed.
Lemma dig_eq_refl d : dig_eq d d.
Proof. destruct d; cbn; [apply cents_eq_refl|exact I]. Qed.

Lemma qeqb_false a b : Qeq_bool a b = false -> ~ (a == b)%Q.
Proof. intros H E. apply Qeq_bool_iff in E. congruence. Qed.

Theorem value_transfer fx ufix hasp s sf ah ds m0 :
  (0 < cnt_of s)%Q -> (1 <= sf)%Q -> in_range s sf -> hosts_valid s ah -> no_value_bits m0 ->
  (v_set (mv_v s) = true -> sent_ok fx (mv_v s)) ->
  (v_set (mv_v s) = true -> single_value_sumsq (mv_v s)) ->
  Forall cent_ok (sent_centroids hasp s sf) ->
  let '(t, m) := mv_to_tl fx hasp s sf m0 in
  exists r, merge_with_tl2 ufix mvalue0 t m ah ds = (r, 0, ds) /\
    arrives s sf ah r /\
    (no_empty_next_to_max s -> hosts_arrive s ah r) /\
    mv_hll r = expected_hll s /\
    dig_eq (mv_dig r) (expected_digest hasp s sf).
Proof.
  intros Hc Hsf [Hr1 Hr2] [Hva [Hvc [Hvmin Hvmax]]] Hm0 Hcons Hsq Hcent.
  unfold mv_to_tl. assert (Hcou : (0 < cou_of s sf)%Q) by (unfold cou_of; fold (cnt_of s); nra).
  destruct (Qle_bool (cou_of s sf) 0) eqn:E0; [apply Qle_bool_iff in E0; lra|].
  pose proof (bits_table _ _ _ _ _ _ _ _ _ _ _ _ _ _ m0 Hm0 : let m := mask_of (value_bits fx hasp s sf) m0 in _) as HB.
  cbv zeta in HB. set (m := mask_of (value_bits fx hasp s sf) m0) in *.
  destruct HB as (B1 & B2 & B3 & B4 & B5 & B6 & B7 & B8 & B9 & B10 & B11 & B12 & B13 & B14).
  unfold merge_with_tl2.
  rewrite B1, B2, B3, B4, B5, B6, B8, B11, B12, B14. clear B1 B2 B3 B4 B5 B6 B7 B8 B9 B10 B11 B12 B13 B14.
  set (v := mv_v s) in *.
  (* the counter *)
  set (counter := if Qeq_bool (cou_of s sf) 1 then 1%Q else tl_counter (value_fields fx hasp s sf)).
  assert (Hcounter : (counter == cou_of s sf)%Q).
  { unfold counter. cbn [tl_counter value_fields]. destruct (Qeq_bool (cou_of s sf) 1) eqn:E1.
    - apply Qeq_bool_iff in E1. rewrite E1. reflexivity.
    - reflexivity. }
  destruct (Qeq_bool counter 0) eqn:Ez; [apply Qeq_bool_iff in Ez; lra|].
  rewrite validate_counter_ok by (unfold cou_of in *; fold (cnt_of s) in *; lra). cbn [Z.eqb negb].
  (* hosts *)
  cbn [tl_maxh tl_maxhs tl_minh tl_minhs tl_mch tl_mchs value_fields]. fold v.
  pose proof (host_field (v_maxh v) true ah Hvmax) as Hmaxh. cbn [andb] in Hmaxh.
  set (maxh_i := if h_has_i (v_maxh v) || h_has_s (v_maxh v) then _ else h_int ah) in *.
  set (maxh_s := if h_has_i (v_maxh v) || h_has_s (v_maxh v) then _ else h_str ah) in *.
  rewrite (mk_host_inv ah Hva) in Hmaxh.
  assert (Hmaxh' : mk_host maxh_i maxh_s = subst ah (v_maxh v)).
  { rewrite Hmaxh. unfold subst. destruct (v_maxh v =? 0); reflexivity. }
  set (dmin := negb (v_minh v =? v_maxh v)) in *. set (dmc := negb (c_host (v_c v) =? v_maxh v)) in *.
  assert (Hminh : mk_host (if dmin && h_has_i (v_minh v) || dmin && h_has_s (v_minh v) then (if dmin && h_has_i (v_minh v) then h_int (v_minh v) else 0) else maxh_i)
                          (if dmin && h_has_i (v_minh v) || dmin && h_has_s (v_minh v) then (if dmin && h_has_s (v_minh v) then h_str (v_minh v) else 0) else maxh_s)
                  = if dmin && negb (v_minh v =? 0) then v_minh v else subst ah (v_maxh v)).
  { rewrite <- Hmaxh'. destruct (dmin && h_has_i (v_minh v) || dmin && h_has_s (v_minh v)) eqn:D.
    - pose proof (host_field (v_minh v) dmin 0 Hvmin) as H. rewrite D in H. rewrite H. clear H.
      destruct dmin; cbn [andb] in *; [|discriminate].
      destruct (v_minh v =? 0) eqn:Z0; [apply Z.eqb_eq in Z0; rewrite Z0 in D; discriminate|reflexivity].
    - destruct dmin; cbn [andb] in *; [|reflexivity].
      apply orb_false_iff in D as [D1 D2]. rewrite (h_has_none _ Hvmin D1 D2). reflexivity. }
  assert (Hmch : mk_host (if dmc && h_has_i (c_host (v_c v)) || dmc && h_has_s (c_host (v_c v)) then (if dmc && h_has_i (c_host (v_c v)) then h_int (c_host (v_c v)) else 0) else maxh_i)
                         (if dmc && h_has_i (c_host (v_c v)) || dmc && h_has_s (c_host (v_c v)) then (if dmc && h_has_s (c_host (v_c v)) then h_str (c_host (v_c v)) else 0) else maxh_s)
                  = if dmc && negb (c_host (v_c v) =? 0) then c_host (v_c v) else subst ah (v_maxh v)).
  { rewrite <- Hmaxh'. destruct (dmc && h_has_i (c_host (v_c v)) || dmc && h_has_s (c_host (v_c v))) eqn:D.
    - pose proof (host_field (c_host (v_c v)) dmc 0 Hvc) as H. rewrite D in H. rewrite H. clear H.
      destruct dmc; cbn [andb] in *; [|discriminate].
      destruct (c_host (v_c v) =? 0) eqn:Z0; [apply Z.eqb_eq in Z0; rewrite Z0 in D; discriminate|reflexivity].
    - destruct dmc; cbn [andb] in *; [|reflexivity].
      apply orb_false_iff in D as [D1 D2]. rewrite (h_has_none _ Hvc D1 D2). reflexivity. }
  rewrite Hminh, Hmch, Hmaxh'. clear Hminh Hmch Hmaxh Hmaxh'.
  (* the counter merge into the empty receiver *)
  unfold add_counter_host, merge_counter. cbn [mv_v mvalue0 ivalue0 v_c counter0 c_cnt c_host].
  replace (Qleb0 counter) with false by (symmetry; unfold Qleb0; destruct (Qle_bool counter 0) eqn:Q0; [apply Qle_bool_iff in Q0; lra|reflexivity]).
  replace (Qleb0 0) with true by reflexivity.
  (* host facts used below *)
  assert (Hmc_final : no_empty_next_to_max s ->
            (if dmc && negb (c_host (v_c v) =? 0) then c_host (v_c v) else subst ah (v_maxh v)) = subst ah (c_host (v_c v))).
  { intros [N1 _]. fold v in N1. unfold dmc, subst. destruct (c_host (v_c v) =? 0) eqn:Z0.
    - apply Z.eqb_eq in Z0. rewrite (N1 Z0). rewrite andb_false_r. reflexivity.
    - rewrite andb_true_r. destruct (c_host (v_c v) =? v_maxh v) eqn:Z1; cbn [negb]; [|reflexivity].
      apply Z.eqb_eq in Z1. rewrite <- Z1, Z0. reflexivity. }
  assert (Hmin_final : no_empty_next_to_max s ->
            (if dmin && negb (v_minh v =? 0) then v_minh v else subst ah (v_maxh v)) = subst ah (v_minh v)).
  { intros [_ N2]. fold v in N2. unfold dmin, subst. destruct (v_minh v =? 0) eqn:Z0.
    - apply Z.eqb_eq in Z0. rewrite (N2 Z0). rewrite andb_false_r. reflexivity.
    - rewrite andb_true_r. destruct (v_minh v =? v_maxh v) eqn:Z1; cbn [negb]; [|reflexivity].
      apply Z.eqb_eq in Z1. rewrite <- Z1, Z0. reflexivity. }
  (* uniques *)
  assert (Hhll : match tl_uniques (value_fields fx hasp s sf) with
                 | Some w => t_merge_read ufix (mv_hll mvalue0) w | None => mv_hll mvalue0 end = expected_hll s).
  { cbn [tl_uniques value_fields]. unfold expected_hll. destruct (t_cnt (mv_hll s) =? 0); reflexivity. }
  rewrite Hhll. clear Hhll.
  destruct (v_set v) eqn:Hset.
  2:{ (* counter-only row *)
    cbn [negb]. eexists. split; [reflexivity|]. split; [|split; [|split]].
    - constructor; cbn [mv_v mv_hll mv_dig with_counter v_c c_cnt c_host v_set v_min v_max v_sum v_sumsq v_minh v_maxh mvalue0 ivalue0];
        fold v; rewrite ?Hset; try (intros; discriminate); [exact Hcounter|reflexivity].
    - intros N. constructor; cbn [mv_v with_counter v_c c_host]; fold v; rewrite ?Hset; try (intros; discriminate).
      apply (Hmc_final N).
    - reflexivity.
    - unfold expected_digest. fold v. rewrite Hset. exact I. }
  cbn [negb]. specialize (Hr2 eq_refl). destruct Hr2 as [Rmin [Rmax Rsum]]. fold v in Rmin, Rmax, Rsum.
  specialize (Hcons eq_refl). specialize (Hsq eq_refl).
  cbn [tl_min tl_max tl_sum tl_sumsq tl_centroids value_fields]. fold v. rewrite Hset. cbn [andb].
  rewrite validate_value_ok by assumption. cbn [Z.eqb negb].
  rewrite validate_value_ok by (destruct (send_max fx v); [assumption|pose proof qmaxf_pos; lra]). cbn [Z.eqb negb].
  rewrite validate_value_ok by (destruct (send_max fx v); [assumption|pose proof qmaxf_pos; lra]). cbn [Z.eqb negb].
  cbn [mv_v mv_dig mv_hll with_counter v_set v_min v_max v_sum v_sumsq v_minh v_maxh v_c ivalue0 mvalue0 negb orb].
  (* centroids *)
  assert (Hdig : (let '(d1, e) := if is_nil (sent_centroids hasp s sf) then (None, 0)
                                  else let '(d, e) := add_centroids (dig_get None) (sent_centroids hasp s sf) in (Some d, e) in
                  (d1, e)) = (if is_nil (sent_centroids hasp s sf) then None else Some (sent_centroids hasp s sf), 0)).
  { destruct (is_nil (sent_centroids hasp s sf)); [reflexivity|]. rewrite add_centroids_ok by assumption. reflexivity. }
  destruct (if is_nil (sent_centroids hasp s sf) then (None, 0)
            else let '(d, e) := add_centroids (dig_get None) (sent_centroids hasp s sf) in (Some d, e)) as [d1 e] eqn:Ed.
  injection Hdig as -> ->. cbn [Z.eqb negb].
  eexists. split; [reflexivity|].
  cbn [mv_v mv_hll mv_dig v_c c_cnt c_host v_set v_min v_max v_sum v_sumsq v_minh v_maxh].
  assert (Hsums : ((if send_max fx v then v_max v else v_min v) == v_max v /\
                  (0 + (if send_max fx v then v_sum v * sf else v_min v * counter) == v_sum v * sf) /\
                  (0 + (if send_max fx v then v_sumsq v * sf else (if send_max fx v then v_sum v * sf else v_min v * counter) * v_min v) == v_sumsq v * sf))%Q).
  { destruct (send_max fx v) eqn:SM; [repeat split; lra|].
    unfold send_max in SM. apply orb_false_iff in SM as [SM1 SM2]. apply negb_false_iff in SM1. apply Qeq_bool_iff in SM1.
    assert (Hs : (v_sum v == v_min v * c_cnt (v_c v))%Q).
    { destruct fx; cbn [andb] in SM2.
      - apply negb_false_iff in SM2. apply Qeq_bool_iff in SM2. exact SM2.
      - destruct Hcons as [Hne|Hs]; [contradiction|exact Hs]. }
    specialize (Hsq SM1). rewrite Hcounter. unfold cou_of. fold v. split; [lra|]. rewrite Hs, Hsq, Hs. split; ring. }
  destruct Hsums as [S1 [S2 S3]].
  split; [|split; [|split]].
  1: destruct (send_max fx v) eqn:SM.
  1,2: constructor; cbn [mv_v mv_hll mv_dig v_c c_cnt c_host v_set v_min v_max v_sum v_sumsq v_minh v_maxh]; fold v; rewrite ?Hset; intros;
      [exact Hcounter|reflexivity|reflexivity|exact S1|exact S2|exact S3].
  - intros N. constructor; cbn [mv_v v_c c_host v_minh v_maxh]; fold v; intros; [apply (Hmc_final N)|apply (Hmin_final N)|reflexivity].
  - reflexivity.
  - unfold expected_digest. fold v. rewrite Hset. cbn [andb].
    unfold sent_centroids at 1 3. destruct hasp; cbn [andb].
    + destruct (mv_dig s) as [cs|] eqn:Dg; cbn [is_none].
      * destruct cs; cbn [is_nil map]; [exact I|apply cents_eq_refl].
      * cbn [is_nil dig_get]. unfold dig_add.
        destruct (Qle_bool counter 0) eqn:Q0; [apply Qle_bool_iff in Q0; lra|]. cbn [app dig_eq].
        (* the implicit centroid: (min, count*sf) *)
        constructor; [|constructor]. split; cbn [ce_mean ce_w]; [reflexivity|]. rewrite Hcounter. reflexivity.
    + rewrite ?andb_false_r. destruct (mv_dig s); cbn; exact I.
Qed.

(* ------------------------------------------------------------------------------------------ *)
(* 4. packaging                                                                                 *)

(* one MultiValue sent with the fields mask m0 accumulated so far and merged into an empty receiver *)
Definition transfer_value (fx ufix hasp : bool) (s : mvalue) (sf : Q) (ah : Z) (ds : list Z) (m0 : Z) : mvalue * Z * list Z :=
  let '(t, m) := mv_to_tl fx hasp s sf m0 in merge_with_tl2 ufix mvalue0 t m ah ds.

(* the guards of the statement: a row with a positive count (the agent never keeps others), sf >= 1, numbers inside the
   aggregator's validation bounds, hosts that are normalised TagUnions, centroids with positive weights in bounds
   (the digest library never holds others), and, for rows whose values are all equal, sumsq = min*sum
   (sum of w*x*x = x * sum of w*x when every x is the same) *)
Definition row_ok (hasp : bool) (s : mvalue) (sf : Q) (ah : Z) : Prop :=
  (0 < cnt_of s)%Q /\ (1 <= sf)%Q /\ in_range s sf /\ hosts_valid s ah /\
  (v_set (mv_v s) = true -> single_value_sumsq (mv_v s)) /\
  Forall cent_ok (sent_centroids hasp s sf).

Theorem value_transfer' fx ufix hasp s sf ah ds m0 :
  row_ok hasp s sf ah -> no_value_bits m0 ->
  (v_set (mv_v s) = true -> sent_ok fx (mv_v s)) ->
  exists r, transfer_value fx ufix hasp s sf ah ds m0 = (r, 0, ds) /\
    arrives s sf ah r /\
    (no_empty_next_to_max s -> hosts_arrive s ah r) /\
    mv_hll r = expected_hll s /\
    dig_eq (mv_dig r) (expected_digest hasp s sf).
Proof.
  intros (H1 & H2 & H3 & H4 & H5 & H6) Hm Hs. unfold transfer_value.
  pose proof (value_transfer fx ufix hasp s sf ah ds m0 H1 H2 H3 H4 Hm Hs H5 H6) as H.
  destruct (mv_to_tl fx hasp s sf m0). exact H.
Qed.

Theorem value_roundtrip_faithful ufix hasp s sf ah ds m0 :
  row_ok hasp s sf ah -> no_value_bits m0 ->
  (v_set (mv_v s) = true -> sums_consistent (mv_v s)) ->
  exists r, transfer_value false ufix hasp s sf ah ds m0 = (r, 0, ds) /\
    arrives s sf ah r /\ (no_empty_next_to_max s -> hosts_arrive s ah r) /\
    mv_hll r = expected_hll s /\ dig_eq (mv_dig r) (expected_digest hasp s sf).
Proof. intros. apply value_transfer'; assumption. Qed.

Theorem value_roundtrip_repaired ufix hasp s sf ah ds m0 :
  row_ok hasp s sf ah -> no_value_bits m0 ->
  exists r, transfer_value true ufix hasp s sf ah ds m0 = (r, 0, ds) /\
    arrives s sf ah r /\ (no_empty_next_to_max s -> hosts_arrive s ah r) /\
    mv_hll r = expected_hll s /\ dig_eq (mv_dig r) (expected_digest hasp s sf).
Proof. intros. apply value_transfer'; try assumption. intros _. exact I. Qed.

(* a row without string top: the whole pipeline keepF -> KeyFrom + MergeWithTLMultiItem *)
Theorem row_transfer_no_top fx ufix it bt ah :
  mi_top it = [] ->
  let '(t, _, r) := transfer fx ufix it bt ah in
  r = (let '(v, e, ds) := transfer_value fx ufix (mi_hasp it) (mi_tail it) (mi_sf it) ah []
                            (fst (fst (fst (tl_from_key (mi_key it) bt)))) in
       Some ({| ai_tail := v; ai_top := [] |}, e, ds)).
Proof.
  intros Ht. unfold transfer, keep_f, transfer_value. rewrite Ht.
  destruct (tl_from_key (mi_key it) bt) as [[[m0 keys] skeys] ts]. cbn [fst map is_nil negb setb].
  destruct (mv_to_tl fx (mi_hasp it) (mi_tail it) (mi_sf it) m0) as [tail m1].
  unfold merge_item. cbn [ti_top merge_tops ti_tail ti_mask Z.eqb negb aitem0 ai_tail ai_top].
  destruct (merge_with_tl2 ufix mvalue0 tail m1 ah []) as [[v e] ds]. reflexivity.
Qed.

(* ---- the witnesses of the findings, on the faithful model ---- *)

(* F-C02a: {counter event 1; value 7}, sf = 1: the sum 7 arrives as 14 *)
Definition wit_a : mvalue := fst (apply_ops false mvalue0 [OCount 1 0; OValue 7 1 0] []).
Lemma wit_a_refutes :
  row_ok false wit_a 1 154 /\ no_empty_next_to_max wit_a /\
  exists r, transfer_value false false false wit_a 1 154 [] 0 = (r, 0, []) /\
            (v_sum (mv_v wit_a) == 7)%Q /\ (v_sum (mv_v r) == 14)%Q /\ ~ (v_sum (mv_v r) == v_sum (mv_v wit_a) * 1)%Q.
Proof.
  split; [|split].
  - unfold row_ok, in_range, hosts_valid, hvalid, single_value_sumsq. cbn. repeat split; try discriminate; try reflexivity; constructor.
  - split; reflexivity.
  - eexists. split; [vm_compute; reflexivity|]. repeat split; try reflexivity. intros H. vm_compute in H. discriminate.
Qed.

(* F-C02b: {value 1 without host; value 5 from host 5 (encoded 10)}: the min host (empty = the agent, 154) arrives as 10 *)
Definition wit_b : mvalue := fst (apply_ops false mvalue0 [OValue 1 1 0; OValue 5 1 10] []).
Lemma wit_b_refutes :
  row_ok false wit_b 1 154 /\ sums_consistent (mv_v wit_b) /\
  exists r, transfer_value false false false wit_b 1 154 [] 0 = (r, 0, []) /\
            v_minh (mv_v wit_b) = 0 /\ v_minh (mv_v r) = 10 /\ v_minh (mv_v r) <> subst 154 (v_minh (mv_v wit_b)).
Proof.
  split; [|split].
  - unfold row_ok, in_range, hosts_valid, hvalid, single_value_sumsq. cbn.
    repeat split; try discriminate; try reflexivity; try (constructor; fail);
      exfalso; match goal with H : (_ == _)%Q |- _ => vm_compute in H; discriminate H end.
  - left. intros H. vm_compute in H. discriminate.
  - eexists. split; [vm_compute; reflexivity|]. repeat split; try reflexivity. vm_compute. discriminate.
Qed.
