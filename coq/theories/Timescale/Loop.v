(* C22 — the LOD-selection loops of GetTimescale (inner: steps of one level, outer: levels): arithmetic of endOfLOD's
   closed form and the loop invariants (fixed, non-monthly steps). *)
From Coq Require Import ZArith List Bool Lia Sorted.
From SH Require Import Gen.TimescaleLod Timescale.Model Timescale.Proofs.
Import ListNotations.
Open Scope Z_scope.

(* number of steps endOfLOD(start, step, e, false) makes *)
Definition cnt (start step e : Z) : Z := snd (end_of_lod_closed start step e false).

Lemma eolc_false start step e :
  end_of_lod_closed start step e false = (start + cnt start step e * step, cnt start step e).
Proof. unfold cnt, end_of_lod_closed. destruct (start <? e); simpl; f_equal; lia. Qed.

Lemma cnt_spec start step e : 0 < step ->
  (e <= start /\ cnt start step e = 0) \/
  (start < e /\ 0 < cnt start step e /\ e <= start + cnt start step e * step < e + step).
Proof.
  intros Hs. unfold cnt, end_of_lod_closed. destruct (start <? e) eqn:E; simpl.
  - apply Z.ltb_lt in E. right. split; [assumption|].
    pose proof (Z.div_mod (e - start + step - 1) step ltac:(lia)) as Hd.
    pose proof (Z.mod_pos_bound (e - start + step - 1) step Hs) as Hm.
    set (q := (e - start + step - 1) / step) in *.
    assert (0 < q) by nia. split; [assumption|]. nia.
  - apply Z.ltb_ge in E. left. split; [assumption|reflexivity].
Qed.

Lemma cnt_unique start step e k : 0 < step -> start < e -> e <= start + k * step < e + step -> k = cnt start step e.
Proof.
  intros Hs Hlt Hk. destruct (cnt_spec start step e Hs) as [[H _]|[_ [Hp Hc]]]; [lia|].
  set (c := cnt start step e) in *. assert (k < c + 1) by nia. assert (c < k + 1) by nia. lia.
Qed.

Lemma cnt_nonneg start step e : 0 < step -> 0 <= cnt start step e.
Proof. intros Hs. destruct (cnt_spec start step e Hs) as [[_ H]|[_ [H _]]]; lia. Qed.
Lemma cnt_zero start step e : 0 < step -> e <= start -> cnt start step e = 0.
Proof. intros Hs H. destruct (cnt_spec start step e Hs) as [[_ H1]|[H1 _]]; lia. Qed.
Lemma cnt_pos start step e : 0 < step -> start < e -> 0 < cnt start step e.
Proof. intros Hs H. destruct (cnt_spec start step e Hs) as [[H1 _]|[_ [H1 _]]]; lia. Qed.
Lemma cnt_end_ge start step e : 0 < step -> e <= start + cnt start step e * step.
Proof. intros Hs. destruct (cnt_spec start step e Hs) as [[H1 H2]|[_ [_ H1]]]; [rewrite H2|]; lia. Qed.
Lemma cnt_last_lt start step e : 0 < step -> 0 < cnt start step e -> start + cnt start step e * step - step < e.
Proof. intros Hs Hp. destruct (cnt_spec start step e Hs) as [[H1 H2]|[_ [_ H1]]]; lia. Qed.

(* counting up to an intermediate edge and then on to the end is counting to the end *)
Lemma cnt_split start step edge e : 0 < step -> edge <= e ->
  cnt start step edge + cnt (start + cnt start step edge * step) step e = cnt start step e.
Proof.
  intros Hs He.
  destruct (Z_lt_dec start e) as [Hlt|Hge].
  2:{ assert (A1 : cnt start step edge = 0) by (apply cnt_zero; lia). assert (A2 : cnt start step e = 0) by (apply cnt_zero; lia).
      rewrite A1, A2. rewrite cnt_zero; [reflexivity | assumption | lia]. }
  set (k1 := cnt start step edge). set (x1 := start + k1 * step).
  pose proof (cnt_nonneg start step edge Hs) as Hk1. fold k1 in Hk1.
  pose proof (cnt_end_ge start step edge Hs) as Hx1. fold k1 in Hx1. fold x1 in Hx1.
  destruct (Z_lt_dec x1 e) as [Hx|Hx].
  - destruct (cnt_spec x1 step e Hs) as [[H _]|[_ [Hp Hc]]]; [lia|].
    apply cnt_unique; try assumption. unfold x1 in *. clearbody k1.
    set (c2 := cnt (start + k1 * step) step e) in *. clearbody c2. lia.
  - rewrite (cnt_zero x1 step e) by lia. rewrite Z.add_0_r. apply cnt_unique; try assumption.
    fold x1. destruct (cnt_spec start step edge Hs) as [[H1 H2]|[_ [_ H1]]].
    + fold k1 in H2. unfold x1 in Hx. rewrite H2 in Hx. lia.
    + fold k1 in H1. fold x1 in H1. lia.
Qed.

(* alignment in the UTC offset *)
Definition aligned (utc x s : Z) : Prop := (x + utc) mod s = 0.

Lemma round_time_eq t s utc : 0 < s -> round_time t s utc = (t + utc) / s * s - utc.
Proof. intros H. unfold round_time. rewrite math_div_floor by assumption. reflexivity. Qed.
Lemma fl_aligned utc t s : 0 < s -> aligned utc (round_time t s utc) s.
Proof. intros H. apply round_time_spec. assumption. Qed.
Lemma fl_bounds utc t s : 0 < s -> round_time t s utc <= t < round_time t s utc + s.
Proof. intros H. apply round_time_spec. assumption. Qed.
Lemma fl_id utc t s : 0 < s -> aligned utc t s -> round_time t s utc = t.
Proof.
  intros H A. rewrite round_time_eq by assumption. unfold aligned in A.
  pose proof (Z.div_mod (t + utc) s ltac:(lia)). lia.
Qed.
Lemma aligned_add utc t s k : 0 < s -> aligned utc t s -> aligned utc (t + k * s) s.
Proof. unfold aligned. intros H A. replace (t + k * s + utc) with (t + utc + k * s) by lia. rewrite Z.mod_add by lia. assumption. Qed.
Lemma aligned_divide utc t s : 0 < s -> (aligned utc t s <-> (s | t + utc)).
Proof. intros H. unfold aligned. split; intros A; [apply Z.mod_divide; [lia|assumption] | apply Z.mod_divide in A; [assumption|lia]]. Qed.
Lemma aligned_finer utc t s s' : 0 < s -> 0 < s' -> (s' | s) -> aligned utc t s -> aligned utc t s'.
Proof. intros H H' D A. apply aligned_divide; [assumption|]. apply aligned_divide in A; [|assumption]. eapply Z.divide_trans; eassumption. Qed.
Lemma fl_shift utc t s m : 0 < s -> (s | m) -> round_time (t - m) s utc = round_time t s utc - m.
Proof.
  intros H [k Hk]. subst m. rewrite !round_time_eq by assumption.
  replace (t - k * s + utc) with (t + utc + (- k) * s) by lia. rewrite Z.div_add by lia. lia.
Qed.
Lemma fl_pred utc t s : 0 < s -> aligned utc t s -> round_time (t - 1) s utc = t - s.
Proof.
  intros H A. rewrite round_time_eq by assumption. unfold aligned in A.
  pose proof (Z.div_mod (t + utc) s ltac:(lia)) as Hd. rewrite A in Hd.
  assert (E : (t - 1 + utc) / s = (t + utc) / s - 1).
  { symmetry. apply Z.div_unique with (r := s - 1); lia. }
  rewrite E. lia.
Qed.


Lemma eol_fixed c x step y : step <> month_step ->
  end_of_lod c x step y false = (x + cnt x step y * step, cnt x step y).
Proof. intros H. unfold end_of_lod. apply Z.eqb_neq in H. rewrite H. apply eolc_false. Qed.
Lemma sol_fixed c x step utc : step <> month_step -> start_of_lod c x step utc = round_time x step utc.
Proof. intros H. unfold start_of_lod. apply Z.eqb_neq in H. rewrite H. reflexivity. Qed.

Definition fixed_step (a : Z) : Prop := 0 < a /\ a <> month_step.

Section InnerSpec.
  Variable c : cal.
  Variables (utc e minstep width : Z) (point : bool).
  Variables (start edge reslen : Z) (nolods : bool).
  Hypothesis Hse : start < e.
  Hypothesis Hedge : start <= edge <= e.

  (* lodStart for a step *)
  Definition LS (s : Z) : Z := if nolods then round_time start s utc else start.
  (* points from lodStart to the end / to the edge at step s *)
  Definition T (s : Z) : Z := cnt (LS s) s e.
  Definition K (s : Z) : Z := cnt (LS s) s edge.
  Definition bnd (x : Z) : Prop := point = false -> x <= max_points.

  Lemma LS_le s : 0 < s -> LS s <= start.
  Proof. intros H. unfold LS. destruct nolods; [apply (fl_bounds utc start s H) | lia]. Qed.
  Lemma T_pos s : 0 < s -> 0 < T s.
  Proof. intros H. apply cnt_pos; [assumption|]. pose proof (LS_le s H). lia. Qed.
  Lemma K_T s : 0 < s -> K s + cnt (LS s + K s * s) s e = T s.
  Proof. intros H. apply cnt_split; [assumption|lia]. Qed.

  Notation inner' := (inner c utc e minstep width point start edge reslen nolods).

  Lemma inner_cons a rest ls ll le : fixed_step a -> ls <> month_step ->
    inner' (a :: rest) ls ll le =
    if (0 <? ls) && (ls <? a) then inner' rest ls ll le
    else
      let n := if point then 0 else reslen + T a in
      if negb point && (max_points <? n) then
        if ls =? 0 then IErr else IDone ls (T ls) (LS ls + T ls * ls)
      else if (a <=? minstep) || (negb (width =? 0) && (width <? n)) then
        IDone a (T a) (LS a + T a * a)
      else inner' rest a (K a) (LS a + K a * a).
  Proof.
    intros [Ha Hm] Hls. cbn [inner]. destruct ((0 <? ls) && (ls <? a)); [reflexivity|].
    rewrite !sol_fixed by assumption. fold (LS a). fold (LS ls).
    rewrite (eol_fixed c (LS a) a edge Hm). fold (K a).
    rewrite (eol_fixed c (LS a + K a * a) a e Hm). cbn [snd].
    rewrite <- (K_T a Ha).
    set (m := cnt (LS a + K a * a) a e).
    destruct (negb point && (max_points <? (if point then 0 else reslen + (K a + m)))) eqn:B1.
    - replace (reslen + K a + m) with (reslen + (K a + m)) by lia. rewrite B1.
      destruct (ls =? 0); [reflexivity|].
      assert (E : (if nolods then round_time start ls utc else LS a) = LS ls) by (unfold LS; destruct nolods; reflexivity).
      rewrite E.
      rewrite (eol_fixed c (LS ls) ls e Hls). reflexivity.
    - replace (reslen + K a + m) with (reslen + (K a + m)) by lia. rewrite B1.
      destruct ((a <=? minstep) || (negb (width =? 0) && (width <? (if point then 0 else reslen + (K a + m))))); [|reflexivity].
      cbv iota beta. f_equal. lia.
  Qed.

  Definition ToEnd (s l en : Z) : Prop := 0 < s /\ l = T s /\ en = LS s + l * s /\ bnd (reslen + l).
  Definition Proc (s l en : Z) : Prop := 0 < s /\ minstep < s /\ l = K s /\ en = LS s + l * s /\ bnd (reslen + T s).

  Lemma inner_spec steps : Forall fixed_step steps -> forall ls ll le s l en,
    ls <> month_step ->
    (ls = 0 \/ (0 < ls /\ bnd (reslen + T ls))) ->
    inner' steps ls ll le = IDone s l en ->
    (ToEnd s l en /\ (s = ls \/ In s steps) /\ (ls = 0 \/ s <= ls)) \/
    (Proc s l en /\ In s steps /\ (forall a, In a steps -> s <= a) /\ (ls = 0 \/ s <= ls)) \/
    (s = ls /\ l = ll /\ en = le /\ forall a, In a steps -> 0 < ls < a).
  Proof.
    induction steps as [|a rest IH]; intros HF ls ll le s l en Hm Pre H.
    - simpl in H. inversion H; subst. right; right. split; [reflexivity|]. split; [reflexivity|]. split; [reflexivity|]. intros a' [].
    - inversion HF as [|x y Ha Hrest]; subst. rewrite inner_cons in H by assumption.
      destruct Ha as [Ha HaM].
      destruct ((0 <? ls) && (ls <? a)) eqn:Hskip.
      + apply andb_true_iff in Hskip. destruct Hskip as [S1 S2]. apply Z.ltb_lt in S1. apply Z.ltb_lt in S2.
        destruct (IH Hrest _ _ _ _ _ _ Hm Pre H) as [[R [M1 M2]]|[[P [I [A L]]]|[E1 [E2 [E3 A]]]]].
        * left. split; [exact R|]. split; [destruct M1; [left; assumption | right; right; assumption] | exact M2].
        * right; left. split; [exact P|]. split; [right; exact I|]. split; [|exact L].
          intros a' [Ea|Ia]; [subst a'; destruct L; lia | apply A; exact Ia].
        * right; right. repeat split; try assumption; destruct H0 as [Ea|Ia]; try (subst a0; lia); apply A in Ia; lia.
      + assert (Hle : ls = 0 \/ (0 < ls /\ a <= ls)).
        { destruct Pre as [P|[P _]]; [left; exact P|right]. split; [exact P|].
          apply andb_false_iff in Hskip. destruct Hskip as [S|S]; [apply Z.ltb_ge in S; lia | apply Z.ltb_ge in S; exact S]. }
        cbv zeta in H.
        destruct (negb point && (max_points <? (if point then 0 else reslen + T a))) eqn:B1.
        * destruct (ls =? 0) eqn:E0; [discriminate|]. apply Z.eqb_neq in E0. inversion H; subst.
          left. destruct Pre as [P|[P B]]; [contradiction|]. split; [unfold ToEnd; repeat split; try assumption; reflexivity|].
          split; [left; reflexivity | right; lia].
        * assert (Hb : bnd (reslen + T a)).
          { intros Hp. rewrite Hp in B1. simpl in B1. apply Z.ltb_ge in B1. exact B1. }
          destruct ((a <=? minstep) || (negb (width =? 0) && (width <? (if point then 0 else reslen + T a)))) eqn:B2.
          -- inversion H; subst. left. split; [unfold ToEnd; repeat split; try assumption; reflexivity|].
             split; [right; left; reflexivity | destruct Hle as [Z0|[_ Z1]]; [left; exact Z0 | right; exact Z1]].
          -- apply orb_false_iff in B2. destruct B2 as [B2 _]. apply Z.leb_gt in B2.
             assert (Pre' : a = 0 \/ (0 < a /\ bnd (reslen + T a))) by (right; split; assumption).
             destruct (IH Hrest _ _ _ _ _ _ HaM Pre' H) as [[R [M1 M2]]|[[P [I [A L]]]|[E1 [E2 [E3 A]]]]].
             ++ left. split; [exact R|]. split; [destruct M1; [right; left; symmetry; assumption | right; right; assumption]|].
                assert (s <= a) by (destruct M2; lia). destruct Hle as [Z0|[_ Z1]]; [left; exact Z0 | right; lia].
             ++ right; left. split; [exact P|]. split; [right; exact I|].
                assert (s <= a) by (destruct L; lia).
                split; [intros a' [Ea|Ia]; [subst a'; assumption | apply A; exact Ia] | destruct Hle as [Z0|[_ Z1]]; [left; exact Z0 | right; lia]].
             ++ subst s l en. right; left. split; [unfold Proc; repeat split; try assumption; reflexivity|].
                split; [left; reflexivity|].
                split; [intros a' [Ea|Ia]; [subst a'; lia | apply A in Ia; lia] | destruct Hle as [Z0|[_ Z1]]; [left; exact Z0 | right; lia]].
  Qed.

  Lemma inner_noerr steps : Forall fixed_step steps -> forall ls ll le, ls <> month_step -> 0 < ls ->
    inner' steps ls ll le <> IErr.
  Proof.
    induction steps as [|a rest IH]; intros HF ls ll le Hm Hp.
    - simpl. discriminate.
    - inversion HF as [|x y Ha Hrest]; subst. rewrite inner_cons by assumption. destruct Ha as [Ha HaM].
      destruct ((0 <? ls) && (ls <? a)); [apply IH; assumption|]. cbv zeta.
      destruct (negb point && (max_points <? (if point then 0 else reslen + T a))).
      + destruct (ls =? 0) eqn:E0; [apply Z.eqb_eq in E0; lia | discriminate].
      + destruct ((a <=? minstep) || (negb (width =? 0) && (width <? (if point then 0 else reslen + T a)))); [discriminate|].
        apply IH; assumption.
  Qed.

  (* the only way to the "exceeded maximum resolution" error: at the very first (coarsest) step *)
  Lemma inner_err a rest ll le : Forall fixed_step (a :: rest) ->
    inner' (a :: rest) 0 ll le = IErr -> point = false /\ max_points < reslen + T a.
  Proof.
    intros HF H. inversion HF as [|x y Ha Hrest]; subst. rewrite inner_cons in H; [|assumption|unfold month_step; lia].
    destruct Ha as [Ha HaM]. simpl ((0 <? 0) && _) in H. cbv zeta in H.
    destruct (negb point && (max_points <? (if point then 0 else reslen + T a))) eqn:B1.
    - apply andb_true_iff in B1. destruct B1 as [B0 B1]. destruct point; [discriminate|]. split; [reflexivity|]. apply Z.ltb_lt in B1. exact B1.
    - destruct ((a <=? minstep) || (negb (width =? 0) && (width <? (if point then 0 else reslen + T a)))); [discriminate|].
      exfalso. eapply inner_noerr; [exact Hrest | exact HaM | exact Ha | exact H].
  Qed.
End InnerSpec.


Definition sumlen (rl : list (Z * Z)) : Z := fold_right (fun sl acc => snd sl + acc) 0 rl.
Definition sumspan (rl : list (Z * Z)) : Z := fold_right (fun sl acc => snd sl * fst sl + acc) 0 rl.
Definition first_step (rl : list (Z * Z)) : Z := fst (last rl (0, 0)).
Definition hd_step (rl : list (Z * Z)) : Z := fst (hd (0, 0) rl).
Definition desc (rl : list (Z * Z)) : Prop := StronglySorted (fun x y : Z * Z => fst x < fst y) rl.

Lemma append_lod_facts all rl s l :
  Forall (lod_ok all) rl -> desc rl -> lod_ok all (s, l) -> (rl <> [] -> s <= hd_step rl) ->
  let rl' := append_lod rl s l in
  Forall (lod_ok all) rl' /\ desc rl' /\ rl' <> [] /\
  sumlen rl' = sumlen rl + l /\ sumspan rl' = sumspan rl + l * s /\ hd_step rl' = s /\
  first_step rl' = (match rl with [] => s | _ => first_step rl end).
Proof.
  intros HF HD Hok Hle. destruct rl as [|[s0 l0] r]; simpl.
  - repeat split; try (simpl; lia); try discriminate. constructor; [exact Hok|constructor]. constructor; constructor.
  - destruct (s0 =? s) eqn:E.
    + apply Z.eqb_eq in E. subst s0. inversion HF as [|x y Hx Hr]; subst. inversion HD as [|x y Dr Dx]; subst.
      repeat split; try (simpl; lia); try discriminate.
      * constructor; [|assumption]. unfold lod_ok in *. simpl in *. intuition lia.
      * constructor; assumption.
      * unfold first_step. destruct r; reflexivity.
    + apply Z.eqb_neq in E. specialize (Hle ltac:(discriminate)). unfold hd_step in Hle. simpl in Hle.
      inversion HD as [|x y Dr Dx]; subst.
      repeat split; try (simpl; lia); try discriminate.
      * constructor; assumption.
      * constructor; [assumption|]. constructor; [simpl; lia|]. eapply Forall_impl; [|exact Dx]. simpl. intros; lia.
Qed.

Section Outer.
  Variable c : cal.
  Variables (utc e minstep width : Z) (point : bool) (now : Z) (strict : bool).
  Variable start0 : Z.
  Variable all : list Z.
  Hypothesis Hmin : 1 <= minstep.
  Hypothesis Hdiv : forall a b, In a all -> In b all -> b <= a -> (b | a).
  Hypothesis Hall_fixed : forall a, In a all -> 0 < a < month_step.
  Hypothesis Hstrict : strict = false.

  Fixpoint lv_wf (levels : list (Z * list Z)) : Prop :=
    match levels with
    | [] => True
    | (rel, steps) :: rest =>
      Forall fixed_step steps /\ steps <> [] /\ incl steps all /\
      (forall lv, In lv rest -> incl steps (snd lv)) /\
      match rest with [] => In 1 steps | (rel', _) :: _ => exists a, In a steps /\ a <= rel - rel' end /\
      lv_wf rest
    end.

  Record Inv (levels : list (Z * list Z)) (start ls reslen : Z) (rl : list (Z * Z)) : Prop := {
    i_ls : ls = 0 \/ 0 < ls;
    i_nil : ls = 0 -> rl = [];
    i_start0 : rl = [] -> start = start0 /\ reslen = 0;
    i_in : 0 < ls -> In ls all /\ (forall lv, In lv levels -> In ls (snd lv)) /\ aligned utc start ls /\
                     bnd point (reslen + cnt start ls e);
    i_pos : rl <> [] -> start = round_time start0 (first_step rl) utc + sumspan rl /\ ls <= hd_step rl /\
                        start - hd_step rl < e;
    i_len : reslen = sumlen rl;
    i_ok : Forall (lod_ok all) rl;
    i_desc : desc rl;
    i_gap : 0 < ls -> e <= start \/ match levels with (rel, _) :: _ => start <= now - rel | [] => False end
  }.

  Lemma sumlen_nonneg rl : Forall (lod_ok all) rl -> 0 <= sumlen rl.
  Proof. induction 1; simpl; [lia|]. destruct H as [_ [_ H]]. lia. Qed.

  (* one entered level *)
  Lemma level_step rel steps rest start ls reslen rl s l lend :
    lv_wf ((rel, steps) :: rest) -> Inv ((rel, steps) :: rest) start ls reslen rl ->
    start < e -> start <= now - rel ->
    inner c utc e minstep width point start (if (e <? now - rel) || point then e else now - rel) reslen
          (match rl with [] => true | _ => false end) steps ls 0 0 = IDone s l lend ->
    ((s <=? 0) || (month_step <? s) || (if strict then l <=? 0 else l <? 0) || negb (point || (l <=? max_points))) = false /\
    Inv rest lend s (reslen + l) (if l =? 0 then rl else append_lod rl s l).
  Proof.
    intros [Hfix [Hne [Hincl [Hnext [Hgapwf Hwf]]]]] I Hse Hent HI.
    set (edge := if (e <? now - rel) || point then e else now - rel) in *.
    set (nolods := match rl with [] => true | _ => false end) in *.
    assert (Hedge : start <= edge <= e).
    { unfold edge. destruct ((e <? now - rel) || point) eqn:B; [lia|].
      apply orb_false_iff in B. destruct B as [B _]. apply Z.ltb_ge in B. lia. }
    assert (HlsM : ls <> month_step).
    { destruct (i_ls _ _ _ _ _ I) as [Z0|P]; [subst ls; unfold month_step; lia|].
      destruct (i_in _ _ _ _ _ I P) as [A _]. apply Hall_fixed in A. lia. }
    assert (HLSls : 0 < ls -> LS utc start nolods ls = start).
    { intros P. unfold LS. destruct nolods; [|reflexivity].
      apply fl_id; [assumption|]. apply (i_in _ _ _ _ _ I P). }
    assert (Pre : ls = 0 \/ (0 < ls /\ bnd point (reslen + T utc e start nolods ls))).
    { destruct (i_ls _ _ _ _ _ I) as [Z0|P]; [left; exact Z0|right]. split; [exact P|].
      unfold T. rewrite (HLSls P). apply (i_in _ _ _ _ _ I P). }
    pose proof (inner_spec c utc e minstep width point start edge reslen nolods Hedge steps Hfix ls 0 0 s l lend HlsM Pre HI) as Spec.
    (* the "nothing processed" case is impossible *)
    assert (Spec' : (ToEnd utc e point start reslen nolods s l lend /\ (s = ls \/ In s steps) /\ (ls = 0 \/ s <= ls)) \/
                    (Proc utc e minstep point start edge reslen nolods s l lend /\ In s steps /\
                     (forall a, In a steps -> s <= a) /\ (ls = 0 \/ s <= ls))).
    { destruct Spec as [S|[S|[_ [_ [_ A]]]]]; [left; exact S | right; exact S | exfalso].
      destruct steps as [|a0 r0]; [contradiction|]. destruct (A a0 (or_introl eq_refl)) as [P _].
      destruct (i_in _ _ _ _ _ I P) as [_ [M _]]. specialize (M (rel, a0 :: r0) (or_introl eq_refl)). simpl in M.
      apply A in M. lia. }
    clear Spec.
    (* facts common to both cases *)
    assert (Common : 0 < s /\ (s = ls \/ In s steps) /\ (ls = 0 \/ s <= ls) /\
                     0 <= l /\ lend = LS utc start nolods s + l * s /\
                     bnd point (reslen + l + cnt lend s e) /\ bnd point (reslen + l) /\
                     (0 < l -> lend - s < e) /\
                     (l = 0 -> lend = start) /\
                     (e <= lend \/ match rest with (rel', _) :: _ => lend <= now - rel' | [] => False end)).
    { destruct Spec' as [[[Ps [El [Ee B]]] [M1 M2]]|[[Ps [Pm [El [Ee B]]]] [M1 [A M2]]]].
      - pose proof (T_pos utc e start nolods Hse s Ps) as Tp. fold (T utc e start nolods s) in *.
        assert (e <= lend). { subst lend l. apply cnt_end_ge. assumption. }
        repeat split; try assumption; try lia.
        + rewrite cnt_zero by lia. intros Hp. specialize (B Hp). lia.
        + intros _. subst lend l. unfold T. apply cnt_last_lt; [assumption|]. exact Tp.
      - pose proof (cnt_nonneg (LS utc start nolods s) s edge Ps) as Kn. fold (K utc start edge nolods s) in Kn.
        pose proof (K_T utc e start edge nolods Hedge s Ps) as KT.
        pose proof (LS_le utc start nolods s Ps) as LSle.
        assert (Hl0 : l = 0 -> lend = start).
        { intros L0. subst l. rewrite L0 in Ee. destruct (cnt_spec (LS utc start nolods s) s edge Ps) as [[C1 _]|[_ [C2 _]]].
          - lia. - unfold K in L0. lia. }
        repeat split; try assumption; try lia.
        + right; assumption.
        + subst l lend. rewrite <- KT in B. intros Hp. specialize (B Hp). lia.
        + subst l. rewrite <- KT in B. pose proof (cnt_nonneg (LS utc start nolods s + K utc start edge nolods s * s) s e Ps).
          intros Hp. specialize (B Hp). lia.
        + intros Lp. subst l lend. pose proof (cnt_last_lt (LS utc start nolods s) s edge Ps Lp). unfold K. lia.
        + (* gap to the next level *)
          destruct ((e <? now - rel) || point) eqn:Bc.
          * left. assert (Ee' : edge = e) by (unfold edge; try rewrite Bc; reflexivity).
            subst l lend. unfold K. rewrite Ee'. apply cnt_end_ge. assumption.
          * assert (Ee' : edge = now - rel) by (unfold edge; try rewrite Bc; reflexivity).
            right. destruct rest as [|[rel' st'] rest'].
            -- specialize (A 1 Hgapwf). lia.
            -- destruct Hgapwf as [a [Ia La]]. specialize (A a Ia).
               destruct (Z.eq_dec l 0) as [L0|L0]; [rewrite (Hl0 L0); lia|].
               assert (Lp : 0 < K utc start edge nolods s) by lia.
               subst l lend. pose proof (cnt_last_lt (LS utc start nolods s) s edge Ps Lp). unfold K. lia. }
    destruct Common as [Ps [M1 [M2 [Ln [Ee [B1 [B2 [Hlast [Hl0 Hgap]]]]]]]]].
    clear Spec'.
    assert (Hin : In s all).
    { destruct M1 as [E1|E1]; [subst s; apply (i_in _ _ _ _ _ I Ps) | apply Hincl; exact E1]. }
    assert (Hrl : rl <> [] -> 0 < ls).
    { intros N. destruct (i_ls _ _ _ _ _ I) as [Z0|P]; [apply (i_nil _ _ _ _ _ I) in Z0; contradiction | exact P]. }
    assert (HnolodsT : rl = [] -> nolods = true) by (intros E0; unfold nolods; rewrite E0; reflexivity).
    assert (HnolodsF : rl <> [] -> nolods = false) by (intros N; unfold nolods; destruct rl; [contradiction|reflexivity]).
    assert (HLSal : aligned utc (LS utc start nolods s) s).
    { unfold LS. destruct nolods eqn:NL; [apply fl_aligned; assumption|].
      assert (N : rl <> []) by (intros E0; specialize (HnolodsT E0); congruence).
      pose proof (Hrl N) as P. destruct (i_in _ _ _ _ _ I P) as [A1 [_ [A3 _]]].
      apply (aligned_finer utc start ls s P Ps); [|exact A3]. apply Hdiv; try assumption. destruct M2; lia. }
    split.
    { (* the "should not happen" check never fires *)
      rewrite Hstrict. apply orb_false_iff. split; [apply orb_false_iff; split; [apply orb_false_iff; split|]|].
      - apply Z.leb_gt. assumption.
      - apply Z.ltb_ge. apply Hall_fixed in Hin. lia.
      - apply Z.ltb_ge. assumption.
      - destruct point eqn:Pt; [reflexivity|]. simpl. apply negb_false_iff. apply Z.leb_le.
        pose proof (sumlen_nonneg rl (i_ok _ _ _ _ _ I)). rewrite (i_len _ _ _ _ _ I) in B2. specialize (B2 eq_refl). lia. }
    (* the invariant for the remaining levels *)
    destruct (l =? 0) eqn:L0.
    - apply Z.eqb_eq in L0. specialize (Hl0 L0). subst l. rewrite Z.add_0_r in *.
      constructor.
      + right; assumption.
      + intros Z0; lia.
      + intros E0. destruct (i_start0 _ _ _ _ _ I E0) as [S0 R0]. split; [lia|assumption].
      + intros _. split; [exact Hin|]. split; [|split].
        * intros lv Hlv. destruct M1 as [E1|E1]; [subst s; apply (i_in _ _ _ _ _ I Ps); right; exact Hlv | apply (Hnext lv Hlv); exact E1].
        * assert (E2 : LS utc start nolods s = start) by lia. rewrite Hl0, <- E2. exact HLSal.
        * exact B1.
      + intros N. destruct (i_pos _ _ _ _ _ I N) as [P1 [P2 P3]]. pose proof (Hrl N) as P. rewrite Hl0.
        split; [exact P1|]. split; [destruct M2; lia | exact P3].
      + apply (i_len _ _ _ _ _ I).
      + apply (i_ok _ _ _ _ _ I).
      + apply (i_desc _ _ _ _ _ I).
      + intros _. exact Hgap.
    - apply Z.eqb_neq in L0. assert (Lp : 0 < l) by lia.
      assert (Hok : lod_ok all (s, l)) by (unfold lod_ok; simpl; repeat split; assumption).
      assert (Hhd : rl <> [] -> s <= hd_step rl).
      { intros N. destruct (i_pos _ _ _ _ _ I N) as [_ [P2 _]]. pose proof (Hrl N). destruct M2; lia. }
      destruct (append_lod_facts all rl s l (i_ok _ _ _ _ _ I) (i_desc _ _ _ _ _ I) Hok Hhd) as [F1 [F2 [F3 [F4 [F5 [F6 F7]]]]]].
      constructor.
      + right; assumption.
      + intros Z0; lia.
      + intros E0. contradiction.
      + intros _. split; [exact Hin|]. split; [|split].
        * intros lv Hlv. destruct M1 as [E1|E1]; [subst s; apply (i_in _ _ _ _ _ I Ps); right; exact Hlv | apply (Hnext lv Hlv); exact E1].
        * rewrite Ee. apply aligned_add; assumption.
        * exact B1.
      + intros _. rewrite F5, F6, F7. split; [|split; [lia | apply Hlast; assumption]].
        destruct rl as [|x r] eqn:Erl.
        * destruct (i_start0 _ _ _ _ _ I eq_refl) as [S0 _]. rewrite Ee. unfold LS. rewrite (HnolodsT eq_refl). rewrite S0. simpl. lia.
        * assert (N : x :: r <> []) by discriminate. destruct (i_pos _ _ _ _ _ I N) as [P1 _].
          rewrite Ee. unfold LS. rewrite (HnolodsF N). rewrite P1. lia.
      + rewrite F4. rewrite (i_len _ _ _ _ _ I). reflexivity.
      + exact F1.
      + exact F2.
      + intros _. exact Hgap.
  Qed.

  Definition Final (rl' : list (Z * Z)) : Prop :=
    Forall (lod_ok all) rl' /\ desc rl' /\ bnd point (sumlen rl') /\
    (rl' <> [] -> e <= round_time start0 (first_step rl') utc + sumspan rl' /\
                  round_time start0 (first_step rl') utc + sumspan rl' - hd_step rl' < e).
  Definition ErrSpec (levels : list (Z * list Z)) (er : err) : Prop :=
    er = EOutOfRange /\ point = false /\
    exists lv, In lv levels /\ max_points < cnt (round_time start0 (hd 0 (snd lv)) utc) (hd 0 (snd lv)) e.

  Lemma inv_final levels start ls reslen rl :
    Inv levels start ls reslen rl -> (e <= start \/ levels = []) -> Final rl.
  Proof.
    intros I Hend. unfold Final. split; [apply (i_ok _ _ _ _ _ I)|]. split; [apply (i_desc _ _ _ _ _ I)|]. split.
    - destruct (i_ls _ _ _ _ _ I) as [Z0|P].
      + rewrite (i_nil _ _ _ _ _ I Z0). simpl. intros _. unfold max_points. lia.
      + destruct (i_in _ _ _ _ _ I P) as [_ [_ [_ B]]]. rewrite <- (i_len _ _ _ _ _ I).
        pose proof (cnt_nonneg start ls e P). intros Hp. specialize (B Hp). lia.
    - intros N. destruct (i_pos _ _ _ _ _ I N) as [P1 [_ P3]]. rewrite <- P1. split; [|exact P3].
      destruct Hend as [H|H]; [exact H|]. subst levels.
      assert (P : 0 < ls). { destruct (i_ls _ _ _ _ _ I) as [Z0|P]; [apply (i_nil _ _ _ _ _ I) in Z0; contradiction | exact P]. }
      destruct (i_gap _ _ _ _ _ I P) as [G|[]]. exact G.
  Qed.

  Lemma inv_skip rel steps rest start ls reslen rl :
    Inv ((rel, steps) :: rest) start ls reslen rl -> start < e -> now - rel < start -> Inv rest start ls reslen rl.
  Proof.
    intros I Hse Hsk. constructor; try apply I.
    - intros P. destruct (i_in _ _ _ _ _ I P) as [A1 [A2 [A3 A4]]]. repeat split; try assumption. intros lv Hlv. apply A2. right; exact Hlv.
    - intros P. destruct (i_gap _ _ _ _ _ I P) as [G|G]; lia.
  Qed.

  Lemma errspec_weaken lv levels er : ErrSpec levels er -> ErrSpec (lv :: levels) er.
  Proof. intros [E1 [E2 [lv' [I1 I2]]]]. repeat split; try assumption. exists lv'. split; [right; exact I1|exact I2]. Qed.

  Lemma outer_spec levels : lv_wf levels -> forall start ls reslen rl, Inv levels start ls reslen rl ->
    match outer c utc e minstep width point now strict levels start ls reslen rl with
    | inr rl' => Final rl'
    | inl er => ErrSpec levels er
    end.
  Proof.
    induction levels as [|[rel steps] rest IH]; intros Hwf start ls reslen rl I.
    - simpl. eapply inv_final; [exact I | right; reflexivity].
    - cbn [outer]. destruct (start <? e) eqn:Hse.
      2:{ apply Z.ltb_ge in Hse. eapply inv_final; [exact I | left; exact Hse]. }
      apply Z.ltb_lt in Hse.
      assert (Hwf' : lv_wf rest) by (simpl in Hwf; tauto).
      destruct (now - rel <? start) eqn:Hsk.
      { apply Z.ltb_lt in Hsk. specialize (IH Hwf' start ls reslen rl (inv_skip _ _ _ _ _ _ _ I Hse Hsk)).
        destruct (outer c utc e minstep width point now strict rest start ls reslen rl); [apply errspec_weaken|]; exact IH. }
      apply Z.ltb_ge in Hsk.
      destruct (inner c utc e minstep width point start (if (e <? now - rel) || point then e else now - rel) reslen
                  (match rl with [] => true | _ => false end) steps ls 0 0) as [|s l lend] eqn:HI.
      + (* "exceeded maximum resolution" *)
        assert (Hfix : Forall fixed_step steps) by (simpl in Hwf; tauto).
        assert (Hedge : start <= (if (e <? now - rel) || point then e else now - rel) <= e).
        { destruct ((e <? now - rel) || point) eqn:B; [lia|].
          apply orb_false_iff in B. destruct B as [B _]. apply Z.ltb_ge in B. lia. }
        destruct (i_ls _ _ _ _ _ I) as [Z0|P].
        * subst ls. pose proof (i_nil _ _ _ _ _ I eq_refl) as Erl. subst rl.
          destruct (i_start0 _ _ _ _ _ I eq_refl) as [S0 R0]. subst start reslen.
          destruct steps as [|a r]; [simpl in HI; discriminate|].
          destruct (inner_err c utc e minstep width point start0 _ 0 true Hedge a r 0 0 Hfix HI) as [Hp Hm].
          unfold ErrSpec. split; [reflexivity|]. split; [exact Hp|]. exists (rel, a :: r). split; [left; reflexivity|].
          simpl. unfold T, LS in Hm. lia.
        * exfalso. destruct (i_in _ _ _ _ _ I P) as [A _]. apply Hall_fixed in A.
          eapply (inner_noerr c utc e minstep width point start _ reslen _ Hedge steps Hfix ls 0 0); [lia | exact P | exact HI].
      + destruct (level_step rel steps rest start ls reslen rl s l lend Hwf I Hse Hsk HI) as [Hchk I'].
        rewrite Hchk. specialize (IH Hwf' lend s (reslen + l) (if l =? 0 then rl else append_lod rl s l) I').
        destruct (l =? 0) eqn:L0.
        * apply Z.eqb_eq in L0. subst l. rewrite Z.add_0_r in IH.
          destruct (outer c utc e minstep width point now strict rest lend s reslen rl); [apply errspec_weaken|]; exact IH.
        * destruct (outer c utc e minstep width point now strict rest lend s (reslen + l) (append_lod rl s l)); [apply errspec_weaken|]; exact IH.
  Qed.

  Lemma inv_init levels : Inv levels start0 0 0 [].
  Proof.
    constructor; try (intros; lia); try (intros; contradiction); try reflexivity; try constructor; auto.
  Qed.
End Outer.

(* the well-formedness conditions of the level tables as a boolean check (run on the generated tables) *)
Definition inb (a : Z) (l : list Z) : bool := existsb (Z.eqb a) l.
Lemma inb_In a l : inb a l = true -> In a l.
Proof. unfold inb. intros H. apply existsb_exists in H. destruct H as [x [Hx E]]. apply Z.eqb_eq in E. subst x. exact Hx. Qed.
Lemma inclb_incl l1 l2 : forallb (fun a => inb a l2) l1 = true -> incl l1 l2.
Proof. intros H a Ha. rewrite forallb_forall in H. apply inb_In. apply H. exact Ha. Qed.

Fixpoint lv_wfb (all : list Z) (levels : list (Z * list Z)) : bool :=
  match levels with
  | [] => true
  | (rel, steps) :: rest =>
    forallb (fun a => (0 <? a) && negb (a =? month_step)) steps &&
    negb (match steps with [] => true | _ => false end) &&
    forallb (fun a => inb a all) steps &&
    forallb (fun lv => forallb (fun a => inb a (snd lv)) steps) rest &&
    (match rest with [] => inb 1 steps | (rel', _) :: _ => existsb (fun a => a <=? rel - rel') steps end) &&
    lv_wfb all rest
  end.

Lemma lv_wfb_ok all levels : lv_wfb all levels = true -> lv_wf all levels.
Proof.
  induction levels as [|[rel steps] rest IH]; intros H; [exact I|].
  cbn [lv_wfb] in H. repeat (apply andb_true_iff in H; destruct H as [H ?]).
  cbn [lv_wf]. split; [|split; [|split; [|split; [|split]]]].
  - apply Forall_forall. intros a Ha. rewrite forallb_forall in H. specialize (H a Ha).
    apply andb_true_iff in H. destruct H as [P N]. apply Z.ltb_lt in P. apply negb_true_iff in N. apply Z.eqb_neq in N. split; assumption.
  - destruct steps; [discriminate|discriminate].
  - apply inclb_incl. assumption.
  - intros lv Hlv. apply inclb_incl. rewrite forallb_forall in H2. apply H2. exact Hlv.
  - destruct rest as [|[rel' st'] r].
    + apply inb_In. assumption.
    + apply existsb_exists in H1. destruct H1 as [a [Ia La]]. exists a. split; [exact Ia|]. apply Z.leb_le. exact La.
  - apply IH. assumption.
Qed.

(* all fixed steps: the steps of the finest level *)
Definition fixed_all : list Z := flat_map snd lod_levels.
Lemma fixed_all_div : forall a b, In a fixed_all -> In b fixed_all -> b <= a -> (b | a).
Proof.
  assert (H : forallb (fun a => forallb (fun b => (a <? b) || ((0 <? b) && (a mod b =? 0))) fixed_all) fixed_all = true) by (vm_compute; reflexivity).
  intros a b Ha Hb Hle. rewrite forallb_forall in H. specialize (H a Ha). rewrite forallb_forall in H. specialize (H b Hb).
  apply orb_true_iff in H. destruct H as [H|H]; [apply Z.ltb_lt in H; lia|].
  apply andb_true_iff in H. destruct H as [P M]. apply Z.ltb_lt in P. apply Z.eqb_eq in M. apply Z.mod_divide; [lia|exact M].
Qed.
Lemma fixed_all_range : forall a, In a fixed_all -> 0 < a < month_step.
Proof.
  assert (H : forallb (fun a => (0 <? a) && (a <? month_step)) fixed_all = true) by (vm_compute; reflexivity).
  intros a Ha. rewrite forallb_forall in H. specialize (H a Ha). apply andb_true_iff in H. destruct H as [P Q].
  apply Z.ltb_lt in P. apply Z.ltb_lt in Q. split; assumption.
Qed.
Lemma lod_levels_wf : lv_wf fixed_all lod_levels.
Proof. apply lv_wfb_ok. vm_compute. reflexivity. Qed.
