(* C22 — query time axes.
   Model of: internal/data_model/timescale.go (GetTimescale, GetLODs, Timescale.GetLODs, appendLOD,
             StepForward, startOfLOD, endOfLOD, roundTime, mathDiv),
             internal/api/lod.go (mathDiv, roundTime, shiftTimestamp, calcUTCOffset).
   The LOD tables and maxPoints come from Gen/TimescaleLod.v (regenerated from the source on every run).
   Calendar arithmetic of package time (first instant of the month of t in the location, AddDate(0,1,0))
   is a parameter [cal] of the model.  int64 values are modelled as unbounded Z (see checks/C22.json,
   assumptions: no int64 overflow for |timestamps| < 2^50).
   Executable definitions only. *)
From Coq Require Import ZArith List Bool.
From SH Require Import Gen.TimescaleLod.
Import ListNotations.
Open Scope Z_scope.

(* time.Unix(t).In(loc) -> first instant of that month / AddDate(0,1,0) *)
Record cal := { month_start : Z -> Z; month_next : Z -> Z }.

(* mathDiv: Go's / and % truncate toward zero *)
Definition math_div (a b : Z) : Z :=
  let quo := Z.quot a b in
  if Bool.eqb (0 <=? a) (0 <=? b) || (Z.rem a b =? 0) then quo else quo - 1.

Definition round_time (t step utc : Z) : Z := math_div (t + utc) step * step - utc.

Definition step_forward (c : cal) (t step : Z) : Z :=
  if step =? month_step then month_next c t else t + step.

Definition start_of_lod (c : cal) (t step utc : Z) : Z :=
  if step =? month_step then month_start c t else round_time t step utc.

(* endOfLOD as written (loop), fuel-bounded *)
Fixpoint end_of_lod_loop (c : cal) (fuel : nat) (start step e : Z) (le : bool) (n : Z) : Z * Z :=
  match fuel with
  | O => (start, n)
  | S f =>
    if start <? e then
      let t := step_forward c start step in
      if le && (e <? t) then (start, n) else end_of_lod_loop c f t step e le (n + 1)
    else (start, n)
  end.

(* closed form of the loop for fixed steps (proved equal to the loop in Proofs.v) *)
Definition end_of_lod_closed (start step e : Z) (le : bool) : Z * Z :=
  if start <? e then
    let k := if le then (e - start) / step else (e - start + step - 1) / step in
    (start + k * step, k)
  else (start, 0).

(* what the model runs: the loop for calendar months (one iteration per month, a month is at least a day),
   the closed form otherwise *)
Definition end_of_lod (c : cal) (start step e : Z) (le : bool) : Z * Z :=
  if step =? month_step then end_of_lod_loop c (Z.to_nat ((e - start) / 86400 + 2)) start step e le 0
  else end_of_lod_closed start step e le.

Inductive mode := MRange | MInstant | MPoint | MTags.
Definition is_point (m : mode) : bool := match m with MPoint => true | _ => false end.

Record args := {
  a_start : Z; a_end : Z; a_step : Z; a_now : Z; a_width : Z;
  a_mode : mode; a_extend : bool;
  a_metrics : list (Z * Z);   (* QueryStat.MetricOffset: (offset, metric resolution) per metric *)
  a_utc : Z }.

Inductive err := EOutOfRange | ELod | EOffset.

Record timescale := {
  ts_time : list Z;
  ts_lods : list (Z * Z);     (* (Step, Len) *)
  ts_startx : Z; ts_vstartx : Z; ts_vendx : Z }.

Inductive result := RErr (e : err) | ROk (t : timescale).

Definition empty_ts : timescale :=
  {| ts_time := []; ts_lods := []; ts_startx := 0; ts_vstartx := 0; ts_vendx := 0 |}.

Definition max_offset (ms : list (Z * Z)) : Z := fold_right (fun m acc => Z.max (fst m) acc) 0 ms.
Definition max_res (ms : list (Z * Z)) : Z := fold_right (fun m acc => Z.max (snd m) acc) 1 ms.

(* appendLOD on the reversed LOD list (head = last LOD); Version is the constant "6" *)
Definition append_lod (rl : list (Z * Z)) (s l : Z) : list (Z * Z) :=
  match rl with
  | (s0, l0) :: r => if s0 =? s then (s0, l0 + l) :: r else (s, l) :: rl
  | [] => [(s, l)]
  end.

Inductive inner_out := IErr | IDone (lod_step lod_len lod_end : Z).

Section Loop.
  Variable c : cal.
  Variables (utc e minstep width : Z) (point : bool).

  Section Inner.
    Variables (start edge reslen : Z) (nolods : bool).
    (* the loop "for _, step := range levels[i].levels" with its continue/break/return *)
    Fixpoint inner (steps : list Z) (lodstep lodlen lodend : Z) : inner_out :=
      match steps with
      | [] => IDone lodstep lodlen lodend
      | step :: rest =>
        if (0 <? lodstep) && (lodstep <? step) then inner rest lodstep lodlen lodend
        else
          let lod_start := if nolods then start_of_lod c start step utc else start in
          let '(lod_end, lod_len) := end_of_lod c lod_start step edge false in
          let m := snd (end_of_lod c lod_end step e false) in
          let n := if point then 0 else reslen + lod_len + m in
          if negb point && (max_points <? n) then
            if lodstep =? 0 then IErr
            else
              let lod_start' := if nolods then start_of_lod c start lodstep utc else lod_start in
              let '(e', l') := end_of_lod c lod_start' lodstep e false in
              IDone lodstep l' e'
          else if (step <=? minstep) || (negb (width =? 0) && (width <? n)) then
            let '(e2, l2) := end_of_lod c lod_end step e false in
            IDone step (lod_len + l2) e2
          else inner rest step lod_len lod_end
      end.
  End Inner.

  Variable now : Z.
  (* strict = true: the code as written ("lod.Len <= 0" is an error);
     strict = false: repaired variant (an empty level is skipped), see finding F-C22a *)
  Variable strict : bool.

  (* the loop over lodSwitch levels; rl = reversed res.LODs; None = error *)
  Fixpoint outer (levels : list (Z * list Z)) (start lodstep reslen : Z) (rl : list (Z * Z))
    : err + list (Z * Z) :=
    match levels with
    | [] => inr rl
    | (rel, steps) :: rest =>
      if start <? e then
        let edge := now - rel in
        if edge <? start then outer rest start lodstep reslen rl
        else
          let edge := if (e <? edge) || point then e else edge in
          match inner start edge reslen (match rl with [] => true | _ => false end) steps lodstep 0 0 with
          | IErr => inl EOutOfRange
          | IDone s l lend =>
            if (s <=? 0) || (month_step <? s) || (if strict then l <=? 0 else l <? 0)
               || negb (point || (l <=? max_points)) then inl ELod
            else if l =? 0 then outer rest lend s reslen rl
            else outer rest lend s (reslen + l) (append_lod rl s l)
          end
      else inr rl
    end.
End Loop.

Fixpoint iter_fwd (c : cal) (n : nat) (t step : Z) : Z :=
  match n with O => t | S k => iter_fwd c k (step_forward c t step) step end.

(* "for j := 0; j < p.Len; j++ { append(t); t = StepForward(t) }" *)
Fixpoint prog (c : cal) (n : nat) (t step : Z) : list Z :=
  match n with O => [] | S k => t :: prog c k (step_forward c t step) step end.

Fixpoint gen_time (c : cal) (t : Z) (lods : list (Z * Z)) : list Z * Z :=
  match lods with
  | [] => ([], t)
  | (s, l) :: r =>
    let '(b, t2) := gen_time c (iter_fwd c (Z.to_nat l) t s) r in
    (prog c (Z.to_nat l) t s ++ b, t2)
  end.

Definition bump_first (lods : list (Z * Z)) (d : Z) : list (Z * Z) :=
  match lods with (s, l) :: r => (s, l + d) :: r | [] => [] end.
Definition bump_last (lods : list (Z * Z)) (d : Z) : list (Z * Z) := rev (bump_first (rev lods) d).

Definition zlen {A} (l : list A) : Z := Z.of_nat (length l).

Definition get_timescale (strict : bool) (c : cal) (a : args) : result :=
  if (a_end a <=? a_start a) || (a_step a <? 0) then ROk empty_ts
  else
    let moff := max_offset (a_metrics a) in
    let mres := max_res (a_metrics a) in
    let levels := if a_step a =? month_step then lod_levels_monthly else lod_levels in
    let point := is_point (a_mode a) in
    let minstep := if point || (a_step a <? mres) then mres else a_step a in
    let utc := a_utc a in
    match outer c utc (a_end a - moff) minstep (a_width a) point (a_now a) strict levels (a_start a - moff) 0 0 [] with
    | inl er => RErr er
    | inr rl =>
      let lods := rev rl in
      match lods with
      | [] => ROk empty_ts
      | (s0, _) :: _ =>
        if existsb (fun m => negb (Z.rem (fst m) s0 =? 0)) (a_metrics a) then RErr EOffset
        else
          let t := start_of_lod c (a_start a) s0 utc in
          if point then
            let t := if (t <? a_start a) && negb (a_extend a) then step_forward c t s0 else t in
            let t1 := fst (end_of_lod c t s0 (a_end a) (negb (a_extend a))) in
            if t =? t1 then ROk empty_ts
            else ROk {| ts_time := [t; t1]; ts_lods := lods; ts_startx := 0; ts_vstartx := 0; ts_vendx := 1 |}
          else
            (* (t, number of points prepended to LODs[0], StartX, ViewStartX) *)
            let '(t, d, sx, vsx) :=
              if t <? a_start a then (t, 0, (if a_extend a then 0 else 1), 1)
              else if a_extend a then (start_of_lod c (t - 1) s0 utc, 1, 0, 1)
              else (t, 0, 0, 0) in
            let '(t, d, sx, vsx) :=
              if sx =? 0 then (start_of_lod c (t - 1) s0 utc, d + 1, sx + 1, vsx + 1) else (t, d, sx, vsx) in
            let lods1 := bump_first lods d in
            let '(tm, tlast) := gen_time c t lods1 in
            let vex := if vsx <? zlen tm then zlen tm else vsx in
            if a_extend a then
              ROk {| ts_time := tm ++ [tlast]; ts_lods := bump_last lods1 1; ts_startx := sx; ts_vstartx := vsx; ts_vendx := vex |}
            else
              ROk {| ts_time := tm; ts_lods := lods1; ts_startx := sx; ts_vstartx := vsx; ts_vendx := vex |}
      end
    end.

(* Timescale.GetLODs: (FromSec, ToSec, StepSec) per LOD *)
Fixpoint lods_from (c : cal) (start : Z) (lods : list (Z * Z)) : list (Z * Z * Z) :=
  match lods with
  | [] => []
  | (s, l) :: r => let en := iter_fwd c (Z.to_nat l) start s in (start, en, s) :: lods_from c en r
  end.

Definition ts_get_lods (c : cal) (utc : Z) (ts : timescale) (offset : Z) : list (Z * Z * Z) :=
  match ts_time ts, ts_lods ts with
  | t0 :: _, (s0, _) :: _ =>
    let start := if offset =? 0 then t0 else start_of_lod c (t0 - offset) s0 utc in
    lods_from c start (ts_lods ts)
  | _, _ => []
  end.

(* data_model.GetLODs for one metric (QueryStat.Add on an empty QueryStat, then GetTimescale, then Timescale.GetLODs) *)
Definition get_lods (strict : bool) (c : cal) (a : args) (offset res : Z) : err + list (Z * Z * Z) :=
  match get_timescale strict c
          {| a_start := a_start a; a_end := a_end a; a_step := a_step a; a_now := a_now a; a_width := a_width a;
             a_mode := a_mode a; a_extend := a_extend a; a_metrics := [(offset, res)]; a_utc := a_utc a |} with
  | RErr er => inl er
  | ROk ts => inr (ts_get_lods c (a_utc a) ts offset)
  end.

(* internal/api/lod.go *)
(* calcUTCOffset: 1970-01-01 is a Thursday (weekday 4, never Sunday, so the "Sunday = 7" branch is dead);
   zone_off = offset of the location east of UTC at the epoch *)
Definition calc_utc_offset (zone_off week_start : Z) : Z := (4 - week_start) * 24 * 3600 + zone_off.

(* shiftTimestamp for fixed steps; for the monthly step the calendar function is a parameter *)
Definition shift_timestamp (add_months : Z -> Z -> Z) (ts step shift : Z) : Z :=
  if step =? month_step then add_months ts (Z.quot shift month_step) else ts + shift.

(* calendar given as a finite table of (month start, AddDate(0,1,0) of it), ascending — used by the
   correspondence check, where the table is dumped from Go's own time package *)
Fixpoint table_month_start (tbl : list (Z * Z)) (t : Z) (best : Z) : Z :=
  match tbl with
  | [] => best
  | (m, _) :: r => if m <=? t then table_month_start r t m else best
  end.
Fixpoint table_lookup (tbl : list (Z * Z)) (t : Z) : option Z :=
  match tbl with
  | [] => None
  | (m, nx) :: r => if m =? t then Some nx else table_lookup r t
  end.
(* AddDate(0,1,0) of an instant that is not a month start keeps the local clock reading: modelled as the same
   distance from the next month start (exact when the zone offset is the same at both instants) *)
Definition table_month_next (tbl : list (Z * Z)) (t : Z) : Z :=
  match table_lookup tbl t with
  | Some nx => nx
  | None => let m := table_month_start tbl t t in
            match table_lookup tbl m with Some nx => nx + (t - m) | None => t + month_step end
  end.
Definition table_cal (tbl : list (Z * Z)) : cal :=
  {| month_start := fun t => table_month_start tbl t t; month_next := table_month_next tbl |}.
