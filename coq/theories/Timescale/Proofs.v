(* C22 — lemmas about the time helpers (mathDiv, roundTime, endOfLOD). *)
From Coq Require Import ZArith List Bool Lia Sorted.
From SH Require Import Gen.TimescaleLod Timescale.Model.
Import ListNotations.
Open Scope Z_scope.

Lemma math_div_floor a b : 0 < b -> math_div a b = a / b.
Proof.
  intros Hb. unfold math_div.
  assert (Hb' : (0 <=? b) = true) by (apply Z.leb_le; lia). rewrite Hb'.
  destruct (0 <=? a) eqn:Ha; simpl.
  - apply Z.leb_le in Ha. rewrite Z.quot_div_nonneg by lia. reflexivity.
  - apply Z.leb_gt in Ha.
    assert (Hq : Z.quot a b = - ((- a) / b)).
    { rewrite <- (Z.opp_involutive a) at 1. rewrite Z.quot_opp_l by lia. rewrite Z.quot_div_nonneg by lia. reflexivity. }
    assert (Hr : Z.rem a b = - ((- a) mod b)).
    { rewrite <- (Z.opp_involutive a) at 1. rewrite Z.rem_opp_l by lia. rewrite Z.rem_mod_nonneg by lia. reflexivity. }
    pose proof (Z.div_mod (- a) b ltac:(lia)) as Hd. pose proof (Z.mod_pos_bound (- a) b Hb) as Hm.
    rewrite Hq, Hr.
    destruct (- (- a mod b) =? 0) eqn:Hz.
    + apply Z.eqb_eq in Hz. apply Z.div_unique with (r := 0); lia.
    + apply Z.eqb_neq in Hz. apply Z.div_unique with (r := b - (- a) mod b); lia.
Qed.

Lemma round_time_spec t step utc : 0 < step ->
  (round_time t step utc + utc) mod step = 0 /\ round_time t step utc <= t < round_time t step utc + step.
Proof.
  intros Hs. unfold round_time. rewrite math_div_floor by lia.
  replace ((t + utc) / step * step - utc + utc) with ((t + utc) / step * step) by lia.
  split. apply Z.mod_mul; lia.
  pose proof (Z.div_mod (t + utc) step ltac:(lia)). pose proof (Z.mod_pos_bound (t + utc) step Hs). lia.
Qed.

Lemma step_forward_fixed c t step : step <> month_step -> step_forward c t step = t + step.
Proof. intros H. unfold step_forward. destruct (step =? month_step) eqn:E; [apply Z.eqb_eq in E; contradiction | reflexivity]. Qed.

Lemma div_sub_step x step : 0 < step -> (x - step) / step = x / step - 1.
Proof. intros H. replace (x - step) with (x + (-1) * step) by lia. rewrite Z.div_add by lia. lia. Qed.

(* endOfLOD: the loop equals its closed form (fixed steps) *)
Lemma eol_loop_closed c le step e : step <> month_step -> 0 < step ->
  forall fuel start n, e - start < Z.of_nat fuel ->
  end_of_lod_loop c fuel start step e le n =
  (fst (end_of_lod_closed start step e le), n + snd (end_of_lod_closed start step e le)).
Proof.
  intros Hm Hs. induction fuel as [|f IH]; intros start n Hf.
  - simpl. unfold end_of_lod_closed. destruct (start <? e) eqn:E; [apply Z.ltb_lt in E; simpl in Hf; lia|]. simpl. f_equal. lia.
  - cbn [end_of_lod_loop]. unfold end_of_lod_closed at 1 2. destruct (start <? e) eqn:E.
    2:{ simpl. f_equal. lia. }
    apply Z.ltb_lt in E. rewrite step_forward_fixed by assumption.
    destruct (le && (e <? start + step)) eqn:B.
    + apply andb_true_iff in B. destruct B as [Hle B]. subst le. apply Z.ltb_lt in B.
      rewrite (Z.div_small (e - start) step) by lia. simpl. f_equal; lia.
    + rewrite IH by lia. unfold end_of_lod_closed.
      destruct (start + step <? e) eqn:E2.
      * apply Z.ltb_lt in E2. destruct le; simpl.
        -- assert (Hd : (e - (start + step)) / step = (e - start) / step - 1) by (rewrite <- div_sub_step by lia; f_equal; lia).
           rewrite Hd. f_equal; lia.
        -- assert (Hd : (e - (start + step) + step - 1) / step = (e - start + step - 1) / step - 1).
           { replace (e - (start + step) + step - 1) with ((e - start + step - 1) - step) by lia. apply div_sub_step; lia. }
           rewrite Hd. f_equal; lia.
      * apply Z.ltb_ge in E2. destruct le; simpl.
        -- simpl in B. apply Z.ltb_ge in B. assert (e - start = step) by lia.
           replace ((e - start) / step) with 1 by (apply Z.div_unique with (r := 0); lia). f_equal; lia.
        -- replace ((e - start + step - 1) / step) with 1 by (apply Z.div_unique with (r := e - start - 1); lia). f_equal; lia.
Qed.

(* what the closed form means: the first multiple of step at or after e (le = false), the last one at or before e (le = true) *)
Lemma eol_closed_spec start step e le : 0 < step -> start < e ->
  let '(x, k) := end_of_lod_closed start step e le in
  x = start + k * step /\ 0 <= k /\
  (le = false -> e <= x < e + step /\ 0 < k) /\ (le = true -> x <= e < x + step).
Proof.
  intros Hs Hlt. unfold end_of_lod_closed. apply Z.ltb_lt in Hlt. rewrite Hlt. apply Z.ltb_lt in Hlt.
  destruct le.
  - pose proof (Z.div_mod (e - start) step ltac:(lia)). pose proof (Z.mod_pos_bound (e - start) step Hs).
    pose proof (Z.div_pos (e - start) step ltac:(lia) Hs).
    split; [reflexivity|]. split; [lia|]. split; [discriminate|]. intros _. lia.
  - pose proof (Z.div_mod (e - start + step - 1) step ltac:(lia)). pose proof (Z.mod_pos_bound (e - start + step - 1) step Hs).
    pose proof (Z.div_pos (e - start + step - 1) step ltac:(lia) Hs).
    split; [reflexivity|]. split; [lia|]. split; [|discriminate]. intros _.
    assert (0 < (e - start + step - 1) / step). { apply Z.div_str_pos. lia. } lia.
Qed.

(* calcUTCOffset: an instant aligned to the 7-day step is local midnight (in the zone's offset at the epoch) of the
   configured first day of the week; weekday of local day number d is (4 + d) mod 7 since 1970-01-01 is a Thursday *)
Lemma week_aligned_is_week_start zo ws t : 0 <= ws <= 6 ->
  (t + calc_utc_offset zo ws) mod 604800 = 0 ->
  (t + zo) mod 86400 = 0 /\ ((t + zo) / 86400 + 4) mod 7 = ws.
Proof.
  intros Hws H. unfold calc_utc_offset in H.
  apply Z.div_exact in H; [|lia]. set (k := (t + ((4 - ws) * 24 * 3600 + zo)) / 604800) in *.
  assert (E : t + zo = (7 * k - 4 + ws) * 86400) by lia.
  rewrite E. split.
  - apply Z.mod_mul. lia.
  - rewrite Z.div_mul by lia. replace (7 * k - 4 + ws + 4) with (ws + k * 7) by lia.
    rewrite Z.mod_add by lia. apply Z.mod_small. lia.
Qed.

(* F-C22a: the code as written answers "LOD out of range" on a 10-hour query whose start lies exactly on the
   second LOD switch (52h - 2s before now) and is aligned to a minute; the repaired variant returns 7201 points *)
Definition fc22a_args : args :=
  {| a_start := 1700006400; a_end := 1700042400; a_step := 1; a_now := 1700006400 + 187198; a_width := 0;
     a_mode := MRange; a_extend := false; a_metrics := []; a_utc := 259200 |}.
Lemma lod_error_refuted :
  exists a, a_start a < a_end a /\ 0 <= a_step a /\ a_end a - a_start a <= 36000 /\ a_start a <= a_now a /\
  get_timescale true (table_cal []) a = RErr ELod /\
  exists ts, get_timescale false (table_cal []) a = ROk ts /\ zlen (ts_time ts) = 7201.
Proof.
  exists fc22a_args. repeat split; try (vm_compute; congruence).
  eexists. split; vm_compute; reflexivity.
Qed.


(* F-C22c: monthly step with an offset of one "month" (_1M seconds): [Feb 1, Mar 2) 2023 UTC *)
Definition fc22c_table : list (Z * Z) :=
  [(1667260800, 1669852800); (1669852800, 1672531200); (1672531200, 1675209600); (1675209600, 1677628800);
   (1677628800, 1680307200); (1680307200, 1682899200); (1682899200, 1685577600)].
Definition fc22c_args : args :=
  {| a_start := 1675209600; a_end := 1677715200; a_step := month_step; a_now := 1680000000; a_width := 0;
     a_mode := MRange; a_extend := false; a_metrics := [(month_step, 1)]; a_utc := 259200 |}.
Lemma monthly_offset_refuted :
  exists a tbl ts p, a_step a = month_step /\ a_start a <= p < a_end a /\ month_start (table_cal tbl) p = p /\
  get_timescale true (table_cal tbl) a = ROk ts /\ ts_time ts <> [] /\ ~ In p (ts_time ts).
Proof.
  exists fc22c_args, fc22c_table. eexists. exists 1677628800.
  split; [reflexivity|]. split; [vm_compute; split; congruence|]. split; [vm_compute; reflexivity|].
  split; [vm_compute; reflexivity|]. split; [vm_compute; congruence|].
  vm_compute. intros H. repeat (destruct H as [H|H]; [discriminate H|]). exact H.
Qed.

(* the time array of a range query is a chain: it starts at t and every next point is the previous one plus the
   step of the LOD the previous point belongs to; tl is the value of t after the last StepForward *)
Inductive chain : Z -> list Z -> list Z -> Z -> Prop :=
| chain_nil t : chain t [] [] t
| chain_cons t s pts sts tl : chain (t + s) pts sts tl -> chain t (t :: pts) (s :: sts) tl.

Lemma chain_app t a sa m b sb tl : chain t a sa m -> chain m b sb tl -> chain t (a ++ b) (sa ++ sb) tl.
Proof. induction 1; simpl; intros; auto. constructor. auto. Qed.

Lemma prog_chain c n : forall t s, s <> month_step -> chain t (prog c n t s) (repeat s n) (iter_fwd c n t s).
Proof.
  induction n; intros t s Hs; simpl. constructor.
  rewrite step_forward_fixed by assumption. constructor. apply IHn. assumption.
Qed.

Definition steps_of (lods : list (Z * Z)) : list Z :=
  flat_map (fun sl => repeat (fst sl) (Z.to_nat (snd sl))) lods.

Lemma gen_time_chain c lods : Forall (fun sl => fst sl <> month_step) lods ->
  forall t, chain t (fst (gen_time c t lods)) (steps_of lods) (snd (gen_time c t lods)).
Proof.
  induction lods as [|[s l] r IH]; intros HF t; simpl. constructor.
  inversion HF as [|x y Hx Hr]; subst. simpl in Hx.
  specialize (IH Hr (iter_fwd c (Z.to_nat l) t s)).
  destruct (gen_time c (iter_fwd c (Z.to_nat l) t s) r) as [b t2]. simpl in *.
  eapply chain_app. apply prog_chain; assumption. exact IH.
Qed.

Lemma chain_lb t pts sts tl : chain t pts sts tl -> Forall (fun s => 0 < s) sts ->
  Forall (fun p => t <= p) pts /\ t <= tl.
Proof.
  induction 1; intros HF. split; [constructor | lia].
  inversion HF; subst. destruct (IHchain H3) as [A B]. split; [|lia].
  constructor; [lia|]. eapply Forall_impl; [|exact A]. simpl. intros; lia.
Qed.

Lemma chain_sorted t pts sts tl : chain t pts sts tl -> Forall (fun s => 0 < s) sts ->
  StronglySorted Z.lt (pts ++ [tl]).
Proof.
  induction 1; intros HF; simpl. constructor; constructor.
  inversion HF; subst. constructor. apply IHchain; assumption.
  destruct (chain_lb _ _ _ _ H H3) as [A B]. apply Forall_app. split.
  eapply Forall_impl; [|exact A]. simpl. intros; lia. constructor; [lia|constructor].
Qed.

Inductive dchain : list Z -> Prop :=
| dchain_nil : dchain []
| dchain_one s : dchain [s]
| dchain_cons s s' r : (s' | s) -> dchain (s' :: r) -> dchain (s :: s' :: r).

Lemma chain_aligned utc t pts sts tl : chain t pts sts tl -> dchain sts ->
  match sts with s :: _ => (s | t + utc) | [] => True end ->
  Forall2 (fun p s => (s | p + utc)) pts sts.
Proof.
  induction 1; intros HD HA. constructor.
  constructor. exact HA. apply IHchain.
  - inversion HD; subst; [constructor | assumption].
  - destruct sts as [|s' r]; [exact I|]. inversion HD; subst.
    replace (t + s + utc) with ((t + utc) + s) by lia.
    apply Z.divide_add_r. eapply Z.divide_trans; eassumption. assumption.
Qed.


(* every step chosen by the loop over one level is the carried step or one of that level's steps *)
Lemma inner_step_in c utc e minstep width point start edge reslen nolods steps :
  forall ls ll le s l en,
  inner c utc e minstep width point start edge reslen nolods steps ls ll le = IDone s l en ->
  s = ls \/ In s steps.
Proof.
  induction steps as [|a rest IH]; intros ls ll le s l en H.
  - simpl in H. inversion H; subst. auto.
  - cbn [inner] in H.
    destruct ((0 <? ls) && (ls <? a)) eqn:Hskip.
    + apply IH in H. destruct H as [H|H]; auto. right; right; exact H.
    + destruct (end_of_lod c (if nolods then start_of_lod c start a utc else start) a edge false) as [lod_end lod_len].
      destruct (negb point && (max_points <? (if point then 0 else reslen + lod_len + snd (end_of_lod c lod_end a e false)))).
      * destruct (ls =? 0); [discriminate|].
        destruct (end_of_lod c (if nolods then start_of_lod c start ls utc else (if nolods then start_of_lod c start a utc else start)) ls e false).
        inversion H; subst. auto.
      * destruct ((a <=? minstep) || (negb (width =? 0) && (width <? (if point then 0 else reslen + lod_len + snd (end_of_lod c lod_end a e false))))).
        -- destruct (end_of_lod c lod_end a e false). inversion H; subst. right; left; reflexivity.
        -- apply IH in H. destruct H as [H|H]; [right; left; symmetry; exact H | right; right; exact H].
Qed.

Definition lod_ok (all : list Z) (sl : Z * Z) : Prop := In (fst sl) all /\ 0 < fst sl /\ 0 < snd sl.

Lemma append_lod_ok all rl s l : Forall (lod_ok all) rl -> lod_ok all (s, l) -> Forall (lod_ok all) (append_lod rl s l).
Proof.
  intros HF H. unfold append_lod. destruct rl as [|[s0 l0] r]. constructor; [exact H|constructor].
  destruct (s0 =? s) eqn:E.
  - inversion HF; subst. constructor; [|assumption]. unfold lod_ok in *. simpl in *. intuition lia.
  - constructor; assumption.
Qed.

(* every LOD produced by the loop over the levels has a step from the level tables, a positive step and a positive length *)
Lemma outer_lods_ok c utc e minstep width point now strict all levels :
  (forall lv, In lv levels -> incl (snd lv) all) ->
  forall start ls reslen rl rl',
  (ls = 0 \/ In ls all) -> Forall (lod_ok all) rl ->
  outer c utc e minstep width point now strict levels start ls reslen rl = inr rl' ->
  Forall (lod_ok all) rl'.
Proof.
  induction levels as [|[rel steps] rest IH]; intros Hall start ls reslen rl rl' Hls HF H.
  - simpl in H. inversion H; subst. exact HF.
  - cbn [outer] in H. destruct (start <? e); [|inversion H; subst; exact HF].
    assert (Hrest : forall lv, In lv rest -> incl (snd lv) all) by (intros; apply Hall; right; assumption).
    destruct (now - rel <? start). { eapply IH; eauto. }
    destruct (inner c utc e minstep width point start (if (e <? now - rel) || point then e else now - rel) reslen
                (match rl with [] => true | _ => false end) steps ls 0 0) as [|s l lend] eqn:HI; [discriminate|].
    apply inner_step_in in HI.
    destruct ((s <=? 0) || (month_step <? s) || (if strict then l <=? 0 else l <? 0) || negb (point || (l <=? max_points))) eqn:Hc; [discriminate|].
    apply orb_false_iff in Hc. destruct Hc as [Hc _]. apply orb_false_iff in Hc. destruct Hc as [Hc Hl].
    apply orb_false_iff in Hc. destruct Hc as [Hs _]. apply Z.leb_gt in Hs.
    assert (Hin : In s all).
    { destruct HI as [HI|HI]. subst s. destruct Hls; [lia|assumption]. apply (Hall (rel, steps)); [left; reflexivity | exact HI]. }
    destruct (l =? 0) eqn:Hl0.
    + eapply IH; [exact Hrest | right; exact Hin | exact HF | exact H].
    + apply Z.eqb_neq in Hl0. eapply IH; [exact Hrest | right; exact Hin | | exact H].
      apply append_lod_ok; [assumption|]. unfold lod_ok; simpl. repeat split; try assumption.
      destruct strict; [apply Z.leb_gt in Hl; lia | apply Z.ltb_ge in Hl; lia].
Qed.

(* side conditions on the generated tables (Gen/TimescaleLod.v): every level step is a key of LODTables, and inside a
   level every step divides the one before it (so a point aligned to a coarser step is aligned to the finer ones) *)
Lemma levels_in_table : forall lv, In lv (lod_levels ++ lod_levels_monthly) -> incl (snd lv) lod_table_steps.
Proof.
  assert (H : forallb (fun lv => forallb (fun s => existsb (Z.eqb s) lod_table_steps) (snd lv)) (lod_levels ++ lod_levels_monthly) = true)
    by (vm_compute; reflexivity).
  intros lv Hlv s Hs. rewrite forallb_forall in H. specialize (H lv Hlv). rewrite forallb_forall in H. specialize (H s Hs).
  apply existsb_exists in H. destruct H as [x [Hx E]]. apply Z.eqb_eq in E. subst x. exact Hx.
Qed.

Fixpoint dchainb (l : list Z) : bool :=
  match l with
  | s :: ((s' :: _) as r) => (0 <? s') && (s mod s' =? 0) && (s' <? s) && dchainb r
  | _ => true
  end.
Lemma dchainb_dchain l : dchainb l = true -> dchain l.
Proof.
  induction l as [|s r IH]; intros H. constructor.
  destruct r as [|s' r']. constructor.
  cbn [dchainb] in H. repeat (apply andb_true_iff in H; destruct H as [H ?]).
  constructor. apply Z.mod_divide. apply Z.ltb_lt in H. lia. apply Z.eqb_eq. assumption. apply IH. assumption.
Qed.
Lemma levels_divide : forall lv, In lv lod_levels -> dchain (snd lv).
Proof.
  assert (H : forallb (fun lv => dchainb (snd lv)) lod_levels = true) by (vm_compute; reflexivity).
  intros lv Hlv. rewrite forallb_forall in H. apply dchainb_dchain. apply H. exact Hlv.
Qed.

Lemma lods_ok_fixed_tables c utc e minstep width point now strict start rl :
  (outer c utc e minstep width point now strict lod_levels start 0 0 [] = inr rl \/
   outer c utc e minstep width point now strict lod_levels_monthly start 0 0 [] = inr rl) ->
  Forall (lod_ok lod_table_steps) rl.
Proof.
  intros [H|H]; (eapply outer_lods_ok; [ | left; reflexivity | constructor | exact H]);
  intros lv Hlv; apply levels_in_table; apply in_or_app; [left | right]; exact Hlv.
Qed.
