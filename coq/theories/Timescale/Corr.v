(* Correspondence cases for C22: inputs given to the Go implementation with what it returned. *)
From Coq Require Import ZArith List Bool.
From SH Require Import Common.Corr Gen.TimescaleLod Timescale.Model.
Import ListNotations.
Open Scope Z_scope.

Fixpoint list_eqb {A} (e : A -> A -> bool) (a b : list A) : bool :=
  match a, b with
  | [], [] => true
  | x :: a', y :: b' => e x y && list_eqb e a' b'
  | _, _ => false
  end.
Definition pair_eqb (a b : Z * Z) : bool := (fst a =? fst b) && (snd a =? snd b).
Definition triple_eqb (a b : Z * Z * Z) : bool :=
  (fst (fst a) =? fst (fst b)) && (snd (fst a) =? snd (fst b)) && (snd a =? snd b).
Definition err_eqb (a b : err) : bool :=
  match a, b with EOutOfRange, EOutOfRange | ELod, ELod | EOffset, EOffset => true | _, _ => false end.

(* the harness prints Timescale.Time run-length encoded: (first, delta, count) *)
Fixpoint seg_points (n : nat) (t d : Z) : list Z :=
  match n with O => [] | S k => t :: seg_points k (t + d) d end.
Definition expand (segs : list (Z * Z * Z)) : list Z :=
  flat_map (fun s => seg_points (Z.to_nat (snd s)) (fst (fst s)) (snd (fst s))) segs.

Inductive obs :=
| OErr (e : err)
| OOk (segs : list (Z * Z * Z)) (lods : list (Z * Z)) (sx vsx vex : Z).

Inductive lobs := LErr (e : err) | LOk (l : list (Z * Z * Z)).

Inductive case :=
(* GetTimescale(a) = o with the calendar table [months]; wrapper = true: olods = GetLODs(a, Offset = lod_off, metric
   resolution = lod_res) on an empty QueryStat (a_metrics = [(lod_off, lod_res)]); otherwise olods = Timescale.GetLODs(_, lod_off) *)
| CTs (a : args) (months : list (Z * Z)) (o : obs) (wrapper : bool) (lod_off lod_res : Z) (olods : lobs)
| CRound (t step utc r_dm r_api : Z)
| CDiv (a b q_dm q_api : Z)
| CEol (start step e : Z) (le : bool) (months : list (Z * Z)) (o_end o_n : Z)
| CStartOf (t step utc : Z) (months : list (Z * Z)) (r : Z)
| CUtc (zone_off week_start r : Z)
| CShift (ts step shift r : Z).

Definition res_matches (r : result) (o : obs) : bool :=
  match r, o with
  | RErr e1, OErr e2 => err_eqb e1 e2
  | ROk ts, OOk segs lods sx vsx vex =>
      list_eqb Z.eqb (ts_time ts) (expand segs) && list_eqb pair_eqb (ts_lods ts) lods &&
      (ts_startx ts =? sx) && (ts_vstartx ts =? vsx) && (ts_vendx ts =? vex)
  | _, _ => false
  end.

Definition lods_match (r : err + list (Z * Z * Z)) (o : lobs) : bool :=
  match r, o with
  | inl e1, LErr e2 => err_eqb e1 e2
  | inr l1, LOk l2 => list_eqb triple_eqb l1 l2
  | _, _ => false
  end.

Definition ok_ts (strict : bool) (a : args) (months : list (Z * Z)) (o : obs) (wrapper : bool) (lod_off lod_res : Z) (olods : lobs) : bool :=
  let c := table_cal months in
  let r := get_timescale strict c a in
  res_matches r o &&
  (if wrapper then lods_match (get_lods strict c a lod_off lod_res) olods
   else match r with
        | ROk ts => lods_match (inr (ts_get_lods c (a_utc a) ts lod_off)) olods
        | RErr e => lods_match (inl e) olods
        end).

(* the model is dual (strict = code as written, non-strict = repaired, finding F-C22a): either is accepted *)
Definition ok (cs : case) : bool :=
  match cs with
  | CTs a months o w lo lr ol => if ok_ts true a months o w lo lr ol then true else ok_ts false a months o w lo lr ol
  | CRound t step utc r1 r2 => (round_time t step utc =? r1) && (r1 =? r2)
  | CDiv a b q1 q2 => (math_div a b =? q1) && (q1 =? q2)
  | CEol start step e le months oe on =>
      let c := table_cal months in
      pair_eqb (end_of_lod c start step e le) (oe, on) &&
      (* the loop itself, when short enough to run *)
      (if (e - start) <? 5000 then pair_eqb (end_of_lod_loop c (Z.to_nat (e - start + 1)) start step e le 0) (oe, on) else true)
  | CStartOf t step utc months r => start_of_lod (table_cal months) t step utc =? r
  | CUtc zo ws r => calc_utc_offset zo ws =? r
  | CShift ts step shift r => shift_timestamp (fun t _ => t) ts step shift =? r
  end.

Definition mism := mismatches ok.
