(* C22 — lifting the loop invariants to the result of the model's GetTimescale (fixed, non-monthly steps). *)
From Coq Require Import ZArith List Bool Lia Sorted.
From SH Require Import Gen.TimescaleLod Timescale.Model Timescale.Proofs Timescale.Loop.
Import ListNotations.
Open Scope Z_scope.

(* closed forms: arithmetic progression of n points, the concatenation of the per-LOD progressions, the time spanned
   by a LOD list, and the per-LOD storage ranges *)
Fixpoint seg (n : nat) (t s : Z) : list Z := match n with O => [] | S k => t :: seg k (t + s) s end.
Fixpoint span (lods : list (Z * Z)) : Z := match lods with [] => 0 | (s, l) :: r => l * s + span r end.
Fixpoint progs (t : Z) (lods : list (Z * Z)) : list Z :=
  match lods with [] => [] | (s, l) :: r => seg (Z.to_nat l) t s ++ progs (t + l * s) r end.
Fixpoint ranges (t : Z) (lods : list (Z * Z)) : list (Z * Z * Z) :=
  match lods with [] => [] | (s, l) :: r => (t, t + l * s, s) :: ranges (t + l * s) r end.
Definition lsum (lods : list (Z * Z)) : Z := fold_right (fun sl acc => snd sl + acc) 0 lods.

Definition fixed_lod (sl : Z * Z) : Prop := fst sl <> month_step /\ 0 < fst sl /\ 0 <= snd sl.

Lemma prog_seg c n : forall t s, s <> month_step -> prog c n t s = seg n t s.
Proof. induction n; intros t s H; simpl; [reflexivity|]. rewrite step_forward_fixed by assumption. f_equal. apply IHn. assumption. Qed.
Lemma iter_fwd_fixed c n : forall t s, s <> month_step -> iter_fwd c n t s = t + Z.of_nat n * s.
Proof.
  induction n; intros t s H. simpl; lia.
  cbn [iter_fwd]. rewrite step_forward_fixed by assumption. rewrite IHn by assumption. lia.
Qed.

Lemma gen_time_progs c lods : Forall fixed_lod lods -> forall t, gen_time c t lods = (progs t lods, t + span lods).
Proof.
  induction lods as [|[s l] r IH]; intros HF t; simpl. f_equal; lia.
  inversion HF as [|x y [H1 [H2 H3]] Hr]; subst. simpl in *.
  rewrite iter_fwd_fixed by assumption. rewrite Z2Nat.id by assumption. rewrite (IH Hr).
  rewrite prog_seg by assumption. f_equal. lia.
Qed.

Lemma lods_from_ranges c lods : Forall fixed_lod lods -> forall t, lods_from c t lods = ranges t lods.
Proof.
  induction lods as [|[s l] r IH]; intros HF t; simpl. reflexivity.
  inversion HF as [|x y [H1 [H2 H3]] Hr]; subst. simpl in *.
  rewrite iter_fwd_fixed by assumption. rewrite Z2Nat.id by assumption. rewrite (IH Hr). reflexivity.
Qed.

Lemma seg_length n t s : length (seg n t s) = n.
Proof. revert t. induction n; intros; simpl; [reflexivity|]. rewrite IHn. reflexivity. Qed.
Lemma seg_snoc n : forall t s, seg (S n) t s = seg n t s ++ [t + Z.of_nat n * s].
Proof.
  induction n; intros t s. simpl. f_equal. lia.
  change (seg (S (S n)) t s) with (t :: seg (S n) (t + s) s). rewrite IHn. rewrite (Nat2Z.inj_succ n).
  change (seg (S n) t s) with (t :: seg n (t + s) s). rewrite <- app_comm_cons. f_equal. f_equal. f_equal. lia.
Qed.
Lemma seg_chain n : forall t s, chain t (seg n t s) (repeat s n) (t + Z.of_nat n * s).
Proof.
  induction n; intros t s. replace (t + Z.of_nat 0 * s) with t by (simpl; lia). constructor.
  cbn [seg repeat]. constructor. replace (t + Z.of_nat (S n) * s) with (t + s + Z.of_nat n * s) by lia. apply IHn.
Qed.

Lemma progs_chain lods : Forall fixed_lod lods -> forall t, chain t (progs t lods) (steps_of lods) (t + span lods).
Proof.
  induction lods as [|[s l] r IH]; intros HF t; simpl. replace (t + 0) with t by lia. constructor.
  inversion HF as [|x y [H1 [H2 H3]] Hr]; subst. simpl in *.
  eapply chain_app. apply seg_chain. rewrite Z2Nat.id by assumption.
  replace (t + (l * s + span r)) with (t + l * s + span r) by lia. apply IH. assumption.
Qed.

Lemma chain_length t pts sts tl : chain t pts sts tl -> length pts = length sts.
Proof. induction 1; simpl; congruence. Qed.

Lemma steps_of_length lods : Forall fixed_lod lods -> Z.of_nat (length (steps_of lods)) = lsum lods.
Proof.
  induction 1 as [|[s l] r [H1 [H2 H3]] Hr IH]; simpl. reflexivity.
  rewrite app_length, repeat_length, Nat2Z.inj_add, IH. simpl in H3. rewrite Z2Nat.id by assumption. reflexivity.
Qed.

Lemma progs_length lods : Forall fixed_lod lods -> forall t, zlen (progs t lods) = lsum lods.
Proof.
  intros HF t. unfold zlen. rewrite (chain_length _ _ _ _ (progs_chain lods HF t)). apply steps_of_length. assumption.
Qed.

Lemma progs_app a : forall t b, progs t (a ++ b) = progs t a ++ progs (t + span a) b.
Proof.
  induction a as [|[s l] r IH]; intros t b; simpl. replace (t + 0) with t by lia. reflexivity.
  rewrite IH. rewrite app_assoc. f_equal. f_equal. lia.
Qed.
Lemma span_app a b : span (a ++ b) = span a + span b.
Proof. induction a as [|[s l] r IH]; simpl; [reflexivity|]. rewrite IH. lia. Qed.
Lemma lsum_app a b : lsum (a ++ b) = lsum a + lsum b.
Proof. induction a as [|[s l] r IH]; simpl; [reflexivity|]. unfold lsum in *. simpl. rewrite IH. lia. Qed.

(* first LOD: point i is t + i*s *)
Lemma seg_nth n : forall t s i, (i < n)%nat -> nth i (seg n t s) 0 = t + Z.of_nat i * s.
Proof.
  induction n; intros t s i Hi. lia. destruct i. simpl; lia. cbn [seg nth]. rewrite IHn by lia. rewrite Nat2Z.inj_succ. lia.
Qed.
Lemma progs_nth_first t s l r i : 0 <= i < l ->
  nth (Z.to_nat i) (progs t ((s, l) :: r)) 0 = t + i * s.
Proof.
  intros Hi. simpl. rewrite app_nth1 by (rewrite seg_length; lia). rewrite seg_nth by lia. rewrite Z2Nat.id by lia. reflexivity.
Qed.

(* last point of a LOD list whose last LOD is non-empty *)
Lemma progs_last t p s l : 0 < l -> last (progs t (p ++ [(s, l)])) 0 = t + span (p ++ [(s, l)]) - s.
Proof.
  intros Hl. rewrite progs_app, span_app. simpl.
  destruct (Z.to_nat l) as [|n] eqn:En; [lia|]. rewrite seg_snoc. rewrite app_nil_r, app_assoc. rewrite last_last.
  assert (Z.of_nat n = l - 1) by lia. lia.
Qed.

(* appending one point to the last LOD *)
Lemma bump_last_snoc p s l d : bump_last (p ++ [(s, l)]) d = p ++ [(s, l + d)].
Proof. unfold bump_last. rewrite rev_app_distr. simpl. rewrite rev_involutive. reflexivity. Qed.
Lemma progs_bump_last t p s l : 0 <= l ->
  progs t (p ++ [(s, l + 1)]) = progs t (p ++ [(s, l)]) ++ [t + span (p ++ [(s, l)])].
Proof.
  intros Hl. rewrite !progs_app, span_app. simpl. rewrite !app_nil_r.
  replace (Z.to_nat (l + 1)) with (S (Z.to_nat l)) by lia. rewrite seg_snoc. rewrite app_assoc. f_equal. f_equal.
  rewrite Z2Nat.id by assumption. lia.
Qed.

(* ranges are contiguous and start where the progressions start *)
Inductive contig : Z -> list (Z * Z * Z) -> Z -> Prop :=
| contig_nil t : contig t [] t
| contig_cons from to s r en : contig to r en -> contig from ((from, to, s) :: r) en.
Lemma ranges_contig lods : forall t, contig t (ranges t lods) (t + span lods).
Proof.
  induction lods as [|[s l] r IH]; intros t; simpl. replace (t + 0) with t by lia. constructor.
  constructor. replace (t + (l * s + span r)) with (t + l * s + span r) by lia. apply IH.
Qed.
Lemma ranges_progs lods : forall t,
  progs t lods = flat_map (fun x => seg (Z.to_nat (snd (snd x))) (fst (fst (fst x))) (fst (snd x))) (combine (ranges t lods) lods)
  /\ Forall2 (fun rg sl => snd rg = fst sl /\ snd (fst rg) = fst (fst rg) + snd sl * fst sl) (ranges t lods) lods.
Proof.
  induction lods as [|[s l] r IH]; intros t; simpl. split; [reflexivity|constructor].
  destruct (IH (t + l * s)) as [E F]. split. rewrite <- E. reflexivity. constructor; [simpl; auto|exact F].
Qed.
Lemma ranges_shift lods : forall t off, ranges (t - off) lods = map (fun rg => (fst (fst rg) - off, snd (fst rg) - off, snd rg)) (ranges t lods).
Proof.
  induction lods as [|[s l] r IH]; intros t off; simpl. reflexivity.
  f_equal. f_equal. f_equal. lia. replace (t - off + l * s) with (t + l * s - off) by lia. apply IH.
Qed.

(* alignment of every point to the step of its LOD *)
Fixpoint lods_div (lods : list (Z * Z)) : Prop :=
  match lods with
  | (s, _) :: (((s', _) :: _) as r) => (s' | s) /\ lods_div r
  | _ => True
  end.
Lemma seg_aligned utc n : forall t s, 0 < s -> aligned utc t s -> Forall2 (fun p s' => aligned utc p s') (seg n t s) (repeat s n).
Proof.
  induction n; intros t s Hs A; simpl. constructor. constructor. exact A. apply IHn. assumption.
  replace (t + s) with (t + 1 * s) by lia. apply aligned_add; assumption.
Qed.
Lemma progs_aligned utc lods : Forall fixed_lod lods -> lods_div lods -> forall t,
  match lods with (s, _) :: _ => aligned utc t s | [] => True end ->
  Forall2 (fun p s => aligned utc p s) (progs t lods) (steps_of lods).
Proof.
  induction lods as [|[s l] r IH]; intros HF HD t A; simpl. constructor.
  inversion HF as [|x y [H1 [H2 H3]] Hr]; subst. simpl in *.
  apply Forall2_app. apply seg_aligned; assumption.
  apply IH; [assumption | destruct r as [|[s' l'] r']; [exact I | apply HD] |].
  destruct r as [|[s' l'] r']; [exact I|]. destruct HD as [D _].
  inversion Hr as [|x y [G1 [G2 G3]] _]; subst. simpl in *.
  apply (aligned_finer utc (t + l * s) s s' H2 G2 D). apply aligned_add; assumption.
Qed.
