(* C22 — lifting the loop invariants to the result of the model's GetTimescale (fixed, non-monthly steps). *)
From Coq Require Import ZArith List Bool Lia Sorted.
From SH Require Import Gen.TimescaleLod Timescale.Model Timescale.Proofs Timescale.Loop.
Import ListNotations.
Open Scope Z_scope.

(* closed forms: arithmetic progression of n points, the concatenation of the per-LOD progressions, the time spanned
   by a LOD list, and the per-LOD storage ranges *)
Fixpoint seg (n : nat) (t s : Z) : list Z := match n with O => [] | S k => t :: seg k (t + s) s end.
Fixpoint span (lods : list (Z * Z)) : Z := match lods with [] => 0 | (s, l) :: r => l * s + span r end.
Fixpoint progs (t : Z) (lods : list (Z * Z)) : list Z :=
  match lods with [] => [] | (s, l) :: r => seg (Z.to_nat l) t s ++ progs (t + l * s) r end.
Fixpoint ranges (t : Z) (lods : list (Z * Z)) : list (Z * Z * Z) :=
  match lods with [] => [] | (s, l) :: r => (t, t + l * s, s) :: ranges (t + l * s) r end.
Definition lsum (lods : list (Z * Z)) : Z := fold_right (fun sl acc => snd sl + acc) 0 lods.

Definition fixed_lod (sl : Z * Z) : Prop := fst sl <> month_step /\ 0 < fst sl /\ 0 <= snd sl.

Lemma prog_seg c n : forall t s, s <> month_step -> prog c n t s = seg n t s.
Proof. induction n; intros t s H; simpl; [reflexivity|]. rewrite step_forward_fixed by assumption. f_equal. apply IHn. assumption. Qed.
Lemma iter_fwd_fixed c n : forall t s, s <> month_step -> iter_fwd c n t s = t + Z.of_nat n * s.
Proof.
  induction n; intros t s H. simpl; lia.
  cbn [iter_fwd]. rewrite step_forward_fixed by assumption. rewrite IHn by assumption. lia.
Qed.

Lemma gen_time_progs c lods : Forall fixed_lod lods -> forall t, gen_time c t lods = (progs t lods, t + span lods).
Proof.
  induction lods as [|[s l] r IH]; intros HF t; simpl. f_equal; lia.
  inversion HF as [|x y [H1 [H2 H3]] Hr]; subst. simpl in *.
  rewrite iter_fwd_fixed by assumption. rewrite Z2Nat.id by assumption. rewrite (IH Hr).
  rewrite prog_seg by assumption. f_equal. lia.
Qed.

Lemma lods_from_ranges c lods : Forall fixed_lod lods -> forall t, lods_from c t lods = ranges t lods.
Proof.
  induction lods as [|[s l] r IH]; intros HF t; simpl. reflexivity.
  inversion HF as [|x y [H1 [H2 H3]] Hr]; subst. simpl in *.
  rewrite iter_fwd_fixed by assumption. rewrite Z2Nat.id by assumption. rewrite (IH Hr). reflexivity.
Qed.

Lemma seg_length n t s : length (seg n t s) = n.
Proof. revert t. induction n; intros; simpl; [reflexivity|]. rewrite IHn. reflexivity. Qed.
Lemma seg_snoc n : forall t s, seg (S n) t s = seg n t s ++ [t + Z.of_nat n * s].
Proof.
  induction n; intros t s. simpl. f_equal. lia.
  change (seg (S (S n)) t s) with (t :: seg (S n) (t + s) s). rewrite IHn. rewrite (Nat2Z.inj_succ n).
  change (seg (S n) t s) with (t :: seg n (t + s) s). rewrite <- app_comm_cons. f_equal. f_equal. f_equal. lia.
Qed.
Lemma seg_chain n : forall t s, chain t (seg n t s) (repeat s n) (t + Z.of_nat n * s).
Proof.
  induction n; intros t s. replace (t + Z.of_nat 0 * s) with t by (simpl; lia). constructor.
  cbn [seg repeat]. constructor. replace (t + Z.of_nat (S n) * s) with (t + s + Z.of_nat n * s) by lia. apply IHn.
Qed.

Lemma progs_chain lods : Forall fixed_lod lods -> forall t, chain t (progs t lods) (steps_of lods) (t + span lods).
Proof.
  induction lods as [|[s l] r IH]; intros HF t; simpl. replace (t + 0) with t by lia. constructor.
  inversion HF as [|x y [H1 [H2 H3]] Hr]; subst. simpl in *.
  eapply chain_app. apply seg_chain. rewrite Z2Nat.id by assumption.
  replace (t + (l * s + span r)) with (t + l * s + span r) by lia. apply IH. assumption.
Qed.

Lemma chain_length t pts sts tl : chain t pts sts tl -> length pts = length sts.
Proof. induction 1; simpl; congruence. Qed.

Lemma steps_of_length lods : Forall fixed_lod lods -> Z.of_nat (length (steps_of lods)) = lsum lods.
Proof.
  induction 1 as [|[s l] r [H1 [H2 H3]] Hr IH]; simpl. reflexivity.
  rewrite app_length, repeat_length, Nat2Z.inj_add, IH. simpl in H3. rewrite Z2Nat.id by assumption. reflexivity.
Qed.

Lemma progs_length lods : Forall fixed_lod lods -> forall t, zlen (progs t lods) = lsum lods.
Proof.
  intros HF t. unfold zlen. rewrite (chain_length _ _ _ _ (progs_chain lods HF t)). apply steps_of_length. assumption.
Qed.

Lemma progs_app a : forall t b, progs t (a ++ b) = progs t a ++ progs (t + span a) b.
Proof.
  induction a as [|[s l] r IH]; intros t b; simpl. replace (t + 0) with t by lia. reflexivity.
  rewrite IH. rewrite app_assoc. f_equal. f_equal. lia.
Qed.
Lemma span_app a b : span (a ++ b) = span a + span b.
Proof. induction a as [|[s l] r IH]; simpl; [reflexivity|]. rewrite IH. lia. Qed.
Lemma lsum_app a b : lsum (a ++ b) = lsum a + lsum b.
Proof. induction a as [|[s l] r IH]; simpl; [reflexivity|]. unfold lsum in *. simpl. rewrite IH. lia. Qed.

(* first LOD: point i is t + i*s *)
Lemma seg_nth n : forall t s i, (i < n)%nat -> nth i (seg n t s) 0 = t + Z.of_nat i * s.
Proof.
  induction n; intros t s i Hi. lia. destruct i. simpl; lia. cbn [seg nth]. rewrite IHn by lia. rewrite Nat2Z.inj_succ. lia.
Qed.
Lemma progs_nth_first t s l r i : 0 <= i < l ->
  nth (Z.to_nat i) (progs t ((s, l) :: r)) 0 = t + i * s.
Proof.
  intros Hi. simpl. rewrite app_nth1 by (rewrite seg_length; lia). rewrite seg_nth by lia. rewrite Z2Nat.id by lia. reflexivity.
Qed.

(* last point of a LOD list whose last LOD is non-empty *)
Lemma progs_last t p s l : 0 < l -> last (progs t (p ++ [(s, l)])) 0 = t + span (p ++ [(s, l)]) - s.
Proof.
  intros Hl. rewrite progs_app, span_app. simpl.
  destruct (Z.to_nat l) as [|n] eqn:En; [lia|]. rewrite seg_snoc. rewrite app_nil_r, app_assoc. rewrite last_last.
  assert (Z.of_nat n = l - 1) by lia. lia.
Qed.

(* appending one point to the last LOD *)
Lemma bump_last_snoc p s l d : bump_last (p ++ [(s, l)]) d = p ++ [(s, l + d)].
Proof. unfold bump_last. rewrite rev_app_distr. simpl. rewrite rev_involutive. reflexivity. Qed.
Lemma progs_bump_last t p s l : 0 <= l ->
  progs t (p ++ [(s, l + 1)]) = progs t (p ++ [(s, l)]) ++ [t + span (p ++ [(s, l)])].
Proof.
  intros Hl. rewrite !progs_app, span_app. simpl. rewrite !app_nil_r.
  replace (Z.to_nat (l + 1)) with (S (Z.to_nat l)) by lia. rewrite seg_snoc. rewrite app_assoc. f_equal. f_equal.
  rewrite Z2Nat.id by assumption. lia.
Qed.

(* ranges are contiguous and start where the progressions start *)
Inductive contig : Z -> list (Z * Z * Z) -> Z -> Prop :=
| contig_nil t : contig t [] t
| contig_cons from to s r en : contig to r en -> contig from ((from, to, s) :: r) en.
Lemma ranges_contig lods : forall t, contig t (ranges t lods) (t + span lods).
Proof.
  induction lods as [|[s l] r IH]; intros t; simpl. replace (t + 0) with t by lia. constructor.
  constructor. replace (t + (l * s + span r)) with (t + l * s + span r) by lia. apply IH.
Qed.
Lemma ranges_progs lods : forall t,
  progs t lods = flat_map (fun x => seg (Z.to_nat (snd (snd x))) (fst (fst (fst x))) (fst (snd x))) (combine (ranges t lods) lods)
  /\ Forall2 (fun rg sl => snd rg = fst sl /\ snd (fst rg) = fst (fst rg) + snd sl * fst sl) (ranges t lods) lods.
Proof.
  induction lods as [|[s l] r IH]; intros t; simpl. split; [reflexivity|constructor].
  destruct (IH (t + l * s)) as [E F]. split. rewrite <- E. reflexivity. constructor; [simpl; auto|exact F].
Qed.
Lemma ranges_shift lods : forall t off, ranges (t - off) lods = map (fun rg => (fst (fst rg) - off, snd (fst rg) - off, snd rg)) (ranges t lods).
Proof.
  induction lods as [|[s l] r IH]; intros t off; simpl. reflexivity.
  f_equal. f_equal. f_equal. lia. replace (t - off + l * s) with (t + l * s - off) by lia. apply IH.
Qed.

(* alignment of every point to the step of its LOD *)
Fixpoint lods_div (lods : list (Z * Z)) : Prop :=
  match lods with
  | (s, _) :: (((s', _) :: _) as r) => (s' | s) /\ lods_div r
  | _ => True
  end.
Lemma seg_aligned utc n : forall t s, 0 < s -> aligned utc t s -> Forall2 (fun p s' => aligned utc p s') (seg n t s) (repeat s n).
Proof.
  induction n; intros t s Hs A; simpl. constructor. constructor. exact A. apply IHn. assumption.
  replace (t + s) with (t + 1 * s) by lia. apply aligned_add; assumption.
Qed.
Lemma progs_aligned utc lods : Forall fixed_lod lods -> lods_div lods -> forall t,
  match lods with (s, _) :: _ => aligned utc t s | [] => True end ->
  Forall2 (fun p s => aligned utc p s) (progs t lods) (steps_of lods).
Proof.
  induction lods as [|[s l] r IH]; intros HF HD t A; simpl. constructor.
  inversion HF as [|x y [H1 [H2 H3]] Hr]; subst. simpl in *.
  apply Forall2_app. apply seg_aligned; assumption.
  apply IH; [assumption | destruct r as [|[s' l'] r']; [exact I | apply HD] |].
  destruct r as [|[s' l'] r']; [exact I|]. destruct HD as [D _].
  inversion Hr as [|x y [G1 [G2 G3]] _]; subst. simpl in *.
  apply (aligned_finer utc (t + l * s) s s' H2 G2 D). apply aligned_add; assumption.
Qed.


(* the part of GetTimescale after the LOD loop (verbatim from Model.get_timescale) *)
Definition ts_tail (c : cal) (a : args) (lods : list (Z * Z)) : result :=
  let utc := a_utc a in
  let point := is_point (a_mode a) in
  match lods with
  | [] => ROk empty_ts
  | (s0, _) :: _ =>
    if existsb (fun m => negb (Z.rem (fst m) s0 =? 0)) (a_metrics a) then RErr EOffset
    else
      let t := start_of_lod c (a_start a) s0 utc in
      if point then
        let t := if (t <? a_start a) && negb (a_extend a) then step_forward c t s0 else t in
        let t1 := fst (end_of_lod c t s0 (a_end a) (negb (a_extend a))) in
        if t =? t1 then ROk empty_ts
        else ROk {| ts_time := [t; t1]; ts_lods := lods; ts_startx := 0; ts_vstartx := 0; ts_vendx := 1 |}
      else
        let '(t, d, sx, vsx) :=
          if t <? a_start a then (t, 0, (if a_extend a then 0 else 1), 1)
          else if a_extend a then (start_of_lod c (t - 1) s0 utc, 1, 0, 1)
          else (t, 0, 0, 0) in
        let '(t, d, sx, vsx) :=
          if sx =? 0 then (start_of_lod c (t - 1) s0 utc, d + 1, sx + 1, vsx + 1) else (t, d, sx, vsx) in
        let lods1 := bump_first lods d in
        let '(tm, tlast) := gen_time c t lods1 in
        let vex := if vsx <? zlen tm then zlen tm else vsx in
        if a_extend a then
          ROk {| ts_time := tm ++ [tlast]; ts_lods := bump_last lods1 1; ts_startx := sx; ts_vstartx := vsx; ts_vendx := vex |}
        else
          ROk {| ts_time := tm; ts_lods := lods1; ts_startx := sx; ts_vstartx := vsx; ts_vendx := vex |}
  end.

Definition q_moff (a : args) := max_offset (a_metrics a).
Definition q_minstep (a : args) :=
  if is_point (a_mode a) || (a_step a <? max_res (a_metrics a)) then max_res (a_metrics a) else a_step a.
Definition q_levels (a : args) := if a_step a =? month_step then lod_levels_monthly else lod_levels.

Lemma get_timescale_eq strict c a :
  get_timescale strict c a =
  if (a_end a <=? a_start a) || (a_step a <? 0) then ROk empty_ts
  else match outer c (a_utc a) (a_end a - q_moff a) (q_minstep a) (a_width a) (is_point (a_mode a)) (a_now a) strict
                   (q_levels a) (a_start a - q_moff a) 0 0 [] with
       | inl er => RErr er
       | inr rl => ts_tail c a (rev rl)
       end.
Proof. reflexivity. Qed.

Lemma max_res_ge1 ms : 1 <= max_res ms.
Proof. unfold max_res. induction ms; simpl; lia. Qed.
Lemma q_minstep_ge1 a : 0 <= a_step a -> 1 <= q_minstep a.
Proof.
  intros H. unfold q_minstep. pose proof (max_res_ge1 (a_metrics a)).
  destruct (is_point (a_mode a) || (a_step a <? max_res (a_metrics a))) eqn:B; [assumption|].
  apply orb_false_iff in B. destruct B as [_ B]. apply Z.ltb_ge in B. lia.
Qed.

(* the range-query tail in closed form *)
Lemma ts_tail_range c a s0 l0 r :
  is_point (a_mode a) = false -> 0 < s0 -> s0 <> month_step -> Forall fixed_lod ((s0, l0) :: r) ->
  existsb (fun m => negb (Z.rem (fst m) s0 =? 0)) (a_metrics a) = false ->
  let t := round_time (a_start a) s0 (a_utc a) in
  let ext := if a_extend a then 1 else 0 in
  let d := (if t <? a_start a then 0 else 1) + ext in
  let lods1 := (s0, l0 + d) :: r in
  exists vex,
  ts_tail c a ((s0, l0) :: r) =
  ROk {| ts_time := if a_extend a then progs (t - d * s0) lods1 ++ [t - d * s0 + span lods1] else progs (t - d * s0) lods1;
         ts_lods := if a_extend a then bump_last lods1 1 else lods1;
         ts_startx := 1; ts_vstartx := 1 + ext; ts_vendx := vex |}.
Proof.
  intros Hp Hs HM HF Hoff t ext d lods1.
  assert (HF1 : Forall fixed_lod lods1).
  { inversion HF as [|x y [H1 [H2 H3]] Hr]; subst. constructor; [|assumption]. unfold fixed_lod in *. simpl in *.
    repeat split; try assumption. unfold d, ext. destruct (t <? a_start a); destruct (a_extend a); lia. }
  assert (At : aligned (a_utc a) t s0) by (apply fl_aligned; assumption).
  assert (At1 : aligned (a_utc a) (t - s0) s0).
  { replace (t - s0) with (t + (-1) * s0) by lia. apply aligned_add; assumption. }
  unfold ts_tail. rewrite Hoff, Hp. rewrite !sol_fixed by assumption. fold t.
  destruct (t <? a_start a) eqn:Hlt; destruct (a_extend a) eqn:Hext; cbv iota beta; simpl (_ =? 0); cbv iota beta;
    rewrite ?sol_fixed by assumption; rewrite ?(fl_pred (a_utc a) t s0 Hs At);
    rewrite ?(fl_pred (a_utc a) (t - s0) s0 Hs At1); unfold bump_first.
  - assert (Ed : d = 1) by (unfold d, ext; rewrite ?Hlt, ?Hext; reflexivity).
    unfold lods1 in *. rewrite Ed in *. rewrite Z.mul_1_l. change (0 + 1) with 1.
    rewrite (gen_time_progs c _ HF1). eexists. reflexivity.
  - assert (Ed : d = 0) by (unfold d, ext; rewrite ?Hlt, ?Hext; reflexivity).
    unfold lods1 in *. rewrite Ed in *. rewrite Z.mul_0_l, Z.sub_0_r.
    rewrite (gen_time_progs c _ HF1). eexists. reflexivity.
  - assert (Ed : d = 2) by (unfold d, ext; rewrite ?Hlt, ?Hext; reflexivity).
    unfold lods1 in *. rewrite Ed in *. replace (t - 2 * s0) with (t - s0 - s0) by lia. change (1 + 1) with 2.
    rewrite (gen_time_progs c _ HF1). eexists. reflexivity.
  - assert (Ed : d = 1) by (unfold d, ext; rewrite ?Hlt, ?Hext; reflexivity).
    unfold lods1 in *. rewrite Ed in *. rewrite Z.mul_1_l. change (0 + 1) with 1.
    rewrite (gen_time_progs c _ HF1). eexists. reflexivity.
Qed.


Lemma span_rev rl : sumspan rl = span (rev rl).
Proof. induction rl as [|[s l] r IH]; simpl. reflexivity. rewrite span_app. simpl. unfold sumspan in *. simpl. rewrite IH. lia. Qed.
Lemma lsum_rev rl : sumlen rl = lsum (rev rl).
Proof. induction rl as [|[s l] r IH]; simpl. reflexivity. rewrite lsum_app. unfold sumlen, lsum in *. simpl. rewrite IH. lia. Qed.
Lemma hd_rev_last {A} (l : list A) d : hd d (rev l) = last l d.
Proof.
  induction l as [|x r IH]; simpl. reflexivity.
  destruct r as [|y r']. reflexivity. rewrite <- IH. simpl. destruct (rev r' ++ [y]) eqn:E; [destruct (rev r'); discriminate|]. reflexivity.
Qed.
Lemma last_rev_hd {A} (l : list A) d : last (rev l) d = hd d l.
Proof. rewrite <- hd_rev_last. rewrite rev_involutive. reflexivity. Qed.

Lemma ss_snoc {A} (R : A -> A -> Prop) l x : StronglySorted R l -> Forall (fun y => R y x) l -> StronglySorted R (l ++ [x]).
Proof.
  induction 1 as [|a l Hs IH Ha]; intros HF; simpl. constructor; constructor.
  inversion HF; subst. constructor. apply IH; assumption. apply Forall_app. split; [assumption|constructor; [assumption|constructor]].
Qed.
Lemma ss_rev {A} (R : A -> A -> Prop) l : StronglySorted R l -> StronglySorted (fun x y => R y x) (rev l).
Proof.
  induction 1 as [|a l Hs IH Ha]; simpl. constructor.
  apply ss_snoc. assumption. apply Forall_rev. assumption.
Qed.
Lemma ss_app_l {A} (R : A -> A -> Prop) l1 l2 : StronglySorted R (l1 ++ l2) -> StronglySorted R l1.
Proof.
  induction l1 as [|a l IH]; simpl; intros H. constructor.
  inversion H; subst. constructor. apply IH; assumption. apply Forall_app in H3. tauto.
Qed.

Lemma max_offset_multiple s0 ms : 0 < s0 ->
  existsb (fun m => negb (Z.rem (fst m) s0 =? 0)) ms = false ->
  (s0 | max_offset ms) /\ forall m, In m ms -> (s0 | fst m).
Proof.
  intros Hs. induction ms as [|m r IH]; simpl; intros H. split; [apply Z.divide_0_r | intros m []].
  apply orb_false_iff in H. destruct H as [H1 H2]. destruct (IH H2) as [D1 D2].
  apply negb_false_iff in H1. apply Z.eqb_eq in H1. apply Z.rem_divide in H1; [|lia].
  split. unfold max_offset in *. simpl. destruct (Z.max_spec (fst m) (fold_right (fun m0 acc => Z.max (fst m0) acc) 0 r)) as [[_ E]|[_ E]]; rewrite E; assumption.
  intros m' [E|I]; [subst; assumption | apply D2; assumption].
Qed.

Lemma lod_ok_fixed sl : lod_ok fixed_all sl -> fixed_lod sl.
Proof. intros [H1 [H2 H3]]. pose proof (fixed_all_range _ H1). unfold fixed_lod. repeat split; lia. Qed.

Lemma sorted_lods_div lods : Forall (lod_ok fixed_all) lods -> StronglySorted (fun x y : Z * Z => fst y < fst x) lods -> lods_div lods.
Proof.
  induction lods as [|[s l] r IH]; intros HF HS. exact I.
  inversion HF as [|x y Hx Hr]; subst. inversion HS as [|x y Sr Sx]; subst.
  destruct r as [|[s' l'] r']. exact I. split; [|apply IH; assumption].
  inversion Sx; subst. simpl in *. inversion Hr as [|x y Hx' _]; subst.
  apply fixed_all_div; [apply Hx | apply Hx' | lia].
Qed.

Definition gt_fst (x y : Z * Z) : Prop := fst y < fst x.

(* structure of a successful range query with fixed steps (repaired variant = the current code) *)
Lemma range_structure c a ts :
  a_step a <> month_step -> is_point (a_mode a) = false ->
  get_timescale false c a = ROk ts ->
  ts = empty_ts \/
  exists s0 l0 r,
    let lods := (s0, l0) :: r in
    let t := round_time (a_start a) s0 (a_utc a) in
    let ext := if a_extend a then 1 else 0 in
    let d := (if t <? a_start a then 0 else 1) + ext in
    let lods1 := (s0, l0 + d) :: r in
    Forall (lod_ok fixed_all) lods /\ StronglySorted gt_fst lods /\
    lsum lods <= max_points /\
    a_end a <= t + span lods /\ t + span lods - fst (last lods (0, 0)) < a_end a /\
    (forall m, In m (a_metrics a) -> (s0 | fst m)) /\
    ts_time ts = (if a_extend a then progs (t - d * s0) lods1 ++ [t - d * s0 + span lods1] else progs (t - d * s0) lods1) /\
    ts_lods ts = (if a_extend a then bump_last lods1 1 else lods1) /\
    ts_startx ts = 1 /\ ts_vstartx ts = 1 + ext.
Proof.
  intros Hm Hp H. rewrite get_timescale_eq in H.
  destruct ((a_end a <=? a_start a) || (a_step a <? 0)) eqn:G.
  { left. inversion H. reflexivity. }
  apply orb_false_iff in G. destruct G as [G1 G2]. apply Z.leb_gt in G1. apply Z.ltb_ge in G2.
  assert (Elv : q_levels a = lod_levels). { unfold q_levels. apply Z.eqb_neq in Hm. rewrite Hm. reflexivity. }
  rewrite Elv, Hp in H.
  pose proof (outer_spec c (a_utc a) (a_end a - q_moff a) (q_minstep a) (a_width a) false (a_now a) false
               (a_start a - q_moff a) fixed_all (q_minstep_ge1 a G2) fixed_all_div fixed_all_range eq_refl
               lod_levels lod_levels_wf _ _ _ _ (inv_init (a_utc a) (a_end a - q_moff a) false (a_now a) (a_start a - q_moff a) fixed_all lod_levels)) as S.
  destruct (outer c (a_utc a) (a_end a - q_moff a) (q_minstep a) (a_width a) false (a_now a) false lod_levels (a_start a - q_moff a) 0 0 []) as [er|rl];
    [discriminate|].
  destruct S as [F1 [F2 [F3 F4]]].
  destruct (rev rl) as [|[s0 l0] r] eqn:Erev.
  { left. simpl in H. inversion H. reflexivity. }
  right. exists s0, l0, r. cbv zeta.
  assert (Hlods : Forall (lod_ok fixed_all) ((s0, l0) :: r)) by (rewrite <- Erev; apply Forall_rev; assumption).
  assert (Hfix : Forall fixed_lod ((s0, l0) :: r)) by (eapply Forall_impl; [|exact Hlods]; apply lod_ok_fixed).
  inversion Hfix as [|x y [S1 [S2 S3]] _]; subst. simpl in S1, S2, S3.
  destruct (existsb (fun m => negb (Z.rem (fst m) s0 =? 0)) (a_metrics a)) eqn:Hoff.
  { unfold ts_tail in H. rewrite Hoff in H. discriminate. }
  destruct (ts_tail_range c a s0 l0 r Hp S2 S1 Hfix Hoff) as [vex Ht]. cbv zeta in Ht. rewrite Ht in H. inversion H; subst ts; clear H.
  destruct (max_offset_multiple s0 (a_metrics a) S2 Hoff) as [Dm Dall]. fold (q_moff a) in Dm.
  assert (Nrl : rl <> []) by (intros E0; subst rl; discriminate).
  specialize (F4 Nrl). rewrite span_rev, Erev in F4.
  assert (Efs : first_step rl = s0). { unfold first_step. rewrite <- hd_rev_last. rewrite Erev. reflexivity. }
  assert (Ehd : hd_step rl = fst (last ((s0, l0) :: r) (0, 0))). { unfold hd_step. rewrite <- Erev. rewrite last_rev_hd. reflexivity. }
  rewrite Efs, Ehd in F4.
  assert (Et : round_time (a_start a) s0 (a_utc a) = round_time (a_start a - q_moff a) s0 (a_utc a) + q_moff a).
  { rewrite (fl_shift (a_utc a) (a_start a) s0 (q_moff a) S2 Dm). lia. }
  split; [exact Hlods|]. split.
  { rewrite <- Erev. unfold gt_fst. apply (ss_rev (fun x y : Z * Z => fst x < fst y)). exact F2. }
  split. { specialize (F3 eq_refl). rewrite lsum_rev, Erev in F3. exact F3. }
  split; [lia|]. split; [lia|]. split; [exact Dall|]. simpl. repeat split; reflexivity.
Qed.


Lemma snoc_form {A} (x : A) (l : list A) : exists p y, x :: l = p ++ [y].
Proof. destruct (exists_last (l := x :: l) ltac:(discriminate)) as [p [y E]]. exists p, y. exact E. Qed.

Lemma ss_change_last p : forall s l l', StronglySorted gt_fst (p ++ [(s, l)]) -> StronglySorted gt_fst (p ++ [(s, l')]).
Proof.
  induction p as [|a p IH]; intros s l l' H; simpl in *. constructor; constructor.
  inversion H; subst. constructor. eapply IH; eassumption.
  apply Forall_app in H3. destruct H3 as [F1 F2]. apply Forall_app. split; [assumption|].
  inversion F2; subst. constructor; [|constructor]. unfold gt_fst in *. simpl in *. assumption.
Qed.
Lemma lod_ok_change_last all p s l l' : 0 < l' -> Forall (lod_ok all) (p ++ [(s, l)]) -> Forall (lod_ok all) (p ++ [(s, l')]).
Proof.
  intros Hl H. apply Forall_app in H. destruct H as [F1 F2]. apply Forall_app. split; [assumption|].
  inversion F2; subst. constructor; [|constructor]. unfold lod_ok in *. simpl in *. tauto.
Qed.

Lemma lod_ok_hd all s l r : Forall (lod_ok all) ((s, l) :: r) -> In s all /\ 0 < s /\ 0 < l.
Proof. intros H. apply Forall_inv in H. exact H. Qed.

(* facts about the LOD list of the result, given the LOD list of the loop *)
Lemma result_lods_facts s0 l0 r d (ext : bool) :
  Forall (lod_ok fixed_all) ((s0, l0) :: r) -> StronglySorted gt_fst ((s0, l0) :: r) -> 0 <= d ->
  let lods := (s0, l0) :: r in
  let lods1 := (s0, l0 + d) :: r in
  let L := if ext then bump_last lods1 1 else lods1 in
  Forall (lod_ok fixed_all) L /\ StronglySorted gt_fst L /\
  lsum L = lsum lods + d + (if ext then 1 else 0) /\
  fst (last L (0, 0)) = fst (last lods (0, 0)) /\
  (exists lh r', L = (s0, lh) :: r' /\ l0 + d <= lh) /\
  (forall t, (if ext then progs t lods1 ++ [t + span lods1] else progs t lods1) = progs t L) /\
  span lods1 = span lods + d * s0 /\
  (exists p sk lk, lods1 = p ++ [(sk, lk)] /\ 0 < lk /\ sk = fst (last lods (0, 0))).
Proof.
  intros HF HS Hd lods lods1 L.
  assert (HF1 : Forall (lod_ok fixed_all) lods1).
  { pose proof (Forall_inv HF) as Hx. pose proof (Forall_inv_tail HF) as Hr. constructor; [|assumption]. unfold lod_ok in *. simpl in *. intuition lia. }
  assert (HS1 : StronglySorted gt_fst lods1).
  { apply StronglySorted_inv in HS. destruct HS as [Sr Sx]. constructor; [assumption|]. eapply Forall_impl; [|exact Sx]. unfold gt_fst. simpl. auto. }
  assert (Hsp : span lods1 = span lods + d * s0) by (unfold lods1, lods; simpl; lia).
  assert (Hls : lsum lods1 = lsum lods + d) by (unfold lods1, lods, lsum; simpl; lia).
  assert (Hlast : fst (last lods1 (0, 0)) = fst (last lods (0, 0))).
  { unfold lods1, lods. destruct r; reflexivity. }
  destruct (snoc_form (s0, l0 + d) r) as [p [[sk lk] Ep]]. fold lods1 in Ep.
  assert (Hlk : 0 < lk /\ sk = fst (last lods (0, 0))).
  { rewrite <- Hlast. rewrite Ep. rewrite last_last. simpl. split; [|reflexivity].
    rewrite Ep in HF1. apply Forall_app in HF1. destruct HF1 as [_ F]. apply Forall_inv in F. destruct F as [_ [_ H1]]. exact H1. }
  destruct Hlk as [Hlk Hsk].
  destruct ext.
  - unfold L. rewrite Ep. rewrite bump_last_snoc.
    split. { apply (lod_ok_change_last fixed_all p sk lk (lk + 1)); [lia|]. rewrite <- Ep. exact HF1. }
    split. { apply (ss_change_last p sk lk (lk + 1)). rewrite <- Ep. exact HS1. }
    split. { rewrite lsum_app. rewrite Ep, lsum_app in Hls. unfold lsum in *. simpl in *. lia. }
    split. { rewrite last_last. simpl. exact Hsk. }
    split. { destruct p as [|x p']; simpl in Ep; unfold lods1 in Ep.
             - injection Ep as E1 E2 E3. exists (lk + 1), []. split; [rewrite E1; reflexivity|lia].
             - injection Ep as E1 E2. exists (l0 + d), (p' ++ [(sk, lk + 1)]). split; [simpl; rewrite <- E1; reflexivity|lia]. }
    split. { intros t. rewrite (progs_bump_last t p sk lk ltac:(lia)). reflexivity. }
    split; [rewrite <- Ep; exact Hsp|]. exists p, sk, lk. repeat split; try assumption; reflexivity.
  - unfold L. split; [exact HF1|]. split; [exact HS1|]. split; [lia|]. split; [exact Hlast|].
    split. { exists (l0 + d), r. split; [reflexivity|lia]. }
    split; [reflexivity|]. split; [exact Hsp|]. exists p, sk, lk. repeat split; assumption.
Qed.

Section RangeTheorems.
  Variables (c : cal) (a : args) (ts : timescale).
  Hypothesis Hm : a_step a <> month_step.
  Hypothesis Hp : is_point (a_mode a) = false.
  Hypothesis Hok : get_timescale false c a = ROk ts.

  (* (1) the time array is the concatenation of the per-LOD arithmetic progressions, the LODs have table steps that
     strictly decrease (each dividing the previous) and positive lengths, and the first point is aligned *)
  Theorem range_time_is_progressions :
    exists t0,
      ts_time ts = progs t0 (ts_lods ts) /\
      Forall (lod_ok fixed_all) (ts_lods ts) /\ StronglySorted gt_fst (ts_lods ts) /\ lods_div (ts_lods ts) /\
      match ts_lods ts with (s, _) :: _ => aligned (a_utc a) t0 s | [] => True end /\
      zlen (ts_time ts) = lsum (ts_lods ts).
  Proof.
    destruct (range_structure c a ts Hm Hp Hok) as [E|[s0 [l0 [r S]]]].
    - subst ts. exists 0. simpl. repeat split; constructor.
    - cbv zeta in S. destruct S as [HF [HS [_ [_ [_ [_ [Et [El _]]]]]]]].
      set (t := round_time (a_start a) s0 (a_utc a)) in *.
      set (d := (if t <? a_start a then 0 else 1) + (if a_extend a then 1 else 0)) in *.
      assert (Hd : 0 <= d) by (unfold d; destruct (t <? a_start a); destruct (a_extend a); lia).
      destruct (result_lods_facts s0 l0 r d (a_extend a) HF HS Hd) as [F1 [F2 [F3 [F4 [[lh [r' [F5 F5']]] [F6 _]]]]]].
      cbv zeta in *. rewrite <- El in *. exists (t - d * s0).
      assert (Hs0 : 0 < s0) by (apply (lod_ok_hd _ _ _ _ HF)).
      assert (Hfix : Forall fixed_lod (ts_lods ts)) by (eapply Forall_impl; [|exact F1]; apply lod_ok_fixed).
      split; [rewrite Et; apply F6|]. split; [exact F1|]. split; [exact F2|].
      split; [apply sorted_lods_div; assumption|]. split.
      + rewrite F5. replace (t - d * s0) with (t + (- d) * s0) by lia. apply aligned_add; [assumption|]. apply fl_aligned. assumption.
      + rewrite Et, F6. apply progs_length. exact Hfix.
  Qed.

  (* (3) the number of points stays within maxPoints + 3 *)
  Theorem range_point_count_bounded : zlen (ts_time ts) <= max_points + 3.
  Proof.
    destruct (range_structure c a ts Hm Hp Hok) as [E|[s0 [l0 [r S]]]].
    - subst ts. unfold zlen, empty_ts, max_points. cbn [ts_time length]. lia.
    - cbv zeta in S. destruct S as [HF [HS [Hb [_ [_ [_ [Et [El _]]]]]]]].
      set (t := round_time (a_start a) s0 (a_utc a)) in *.
      set (d := (if t <? a_start a then 0 else 1) + (if a_extend a then 1 else 0)) in *.
      assert (Hd : 0 <= d <= 1 + (if a_extend a then 1 else 0)) by (unfold d; destruct (t <? a_start a); destruct (a_extend a); lia).
      destruct (result_lods_facts s0 l0 r d (a_extend a) HF HS ltac:(lia)) as [F1 [F2 [F3 [F4 [_ [F6 _]]]]]].
      cbv zeta in *. rewrite <- El in *.
      assert (Hfix : Forall fixed_lod (ts_lods ts)) by (eapply Forall_impl; [|exact F1]; apply lod_ok_fixed).
      rewrite Et, F6. rewrite (progs_length _ Hfix). rewrite F3. destruct (a_extend a); lia.
  Qed.

  (* (4) coverage: StartX = 1, ViewStartX = 1 + Extend; the point before ViewStartX lies before the requested start and
     the next aligned instant does not (so no aligned point of the range is missing at the front); at the back the
     last point is the last aligned instant before the end (followed by one more point when Extend is set) *)
  Theorem range_covered :
    ts_time ts <> [] ->
    let s0 := fst (hd (0, 0) (ts_lods ts)) in
    let sk := fst (last (ts_lods ts) (0, 0)) in
    let p := nth (Z.to_nat (ts_vstartx ts - 1)) (ts_time ts) 0 in
    let q := last (ts_time ts) 0 in
    ts_startx ts = 1 /\ ts_vstartx ts = 1 + (if a_extend a then 1 else 0) /\
    p < a_start a <= p + s0 /\
    (if a_extend a then q - sk < a_end a <= q else q < a_end a <= q + sk).
  Proof.
    intros Hne. destruct (range_structure c a ts Hm Hp Hok) as [E|[s0 [l0 [r S]]]].
    - subst ts. simpl in Hne. contradiction.
    - cbv zeta in S. destruct S as [HF [HS [_ [He1 [He2 [_ [Et [El [Esx Evx]]]]]]]]].
      set (t := round_time (a_start a) s0 (a_utc a)) in *.
      set (d := (if t <? a_start a then 0 else 1) + (if a_extend a then 1 else 0)) in *.
      assert (Hd : 0 <= d) by (unfold d; destruct (t <? a_start a); destruct (a_extend a); lia).
      destruct (result_lods_facts s0 l0 r d (a_extend a) HF HS Hd) as [F1 [F2 [F3 [F4 [[lh [r' [F5 F5']]] [F6 [F7 [p [sk [lk [Ep [Hlk Hsk]]]]]]]]]]]].
      cbv zeta in *. rewrite <- El in *.
      assert (Hs0 : 0 < s0) by (apply (lod_ok_hd _ _ _ _ HF)).
      assert (Hl0 : 0 < l0) by (apply (lod_ok_hd _ _ _ _ HF)).
      pose proof (fl_bounds (a_utc a) (a_start a) s0 Hs0) as Hb. fold t in Hb.
      split; [exact Esx|]. split; [exact Evx|]. rewrite Evx. rewrite F5 at 1. simpl (fst (hd _ _)).
      split.
      + (* front *)
        set (e1 := if a_extend a then 1 else 0) in *.
        replace (1 + e1 - 1) with e1 by lia.
        assert (He1r : 0 <= e1 < l0 + d) by (unfold d, e1; destruct (t <? a_start a); destruct (a_extend a); lia).
        assert (Hn : nth (Z.to_nat e1) (ts_time ts) 0 = t - d * s0 + e1 * s0).
        { rewrite Et. assert (Hin : nth (Z.to_nat e1) (progs (t - d * s0) ((s0, l0 + d) :: r)) 0 = t - d * s0 + e1 * s0)
            by (apply progs_nth_first; exact He1r).
          destruct (a_extend a); [|exact Hin]. rewrite app_nth1; [exact Hin|].
          simpl. rewrite app_length, seg_length. lia. }
        rewrite Hn. unfold d. fold e1. destruct (t <? a_start a) eqn:Hlt.
        * apply Z.ltb_lt in Hlt. lia.
        * apply Z.ltb_ge in Hlt. lia.
      + (* back *)
        rewrite F4. rewrite <- Hsk.
        assert (Hlast : last (progs (t - d * s0) ((s0, l0 + d) :: r)) 0 = t + span ((s0, l0) :: r) - sk).
        { rewrite Ep. rewrite (progs_last _ p sk lk Hlk). rewrite <- Ep. rewrite F7. lia. }
        rewrite Et. destruct (a_extend a).
        * rewrite last_last. rewrite F7. rewrite Hsk. lia.
        * rewrite Hlast. rewrite Hsk. lia.
  Qed.

  (* (2) storage ranges: Timescale.GetLODs returns, for every offset that passed the multiple-of-step check (and 0),
     the contiguous ranges of the per-LOD progressions shifted by the offset *)
  Theorem range_get_lods off :
    ts_time ts <> [] -> (off = 0 \/ In off (map fst (a_metrics a))) ->
    exists t0, ts_time ts = progs t0 (ts_lods ts) /\
               ts_get_lods c (a_utc a) ts off = ranges (t0 - off) (ts_lods ts).
  Proof.
    intros Hne Hoff. destruct (range_structure c a ts Hm Hp Hok) as [E|[s0 [l0 [r S]]]].
    - subst ts. simpl in Hne. contradiction.
    - cbv zeta in S. destruct S as [HF [HS [_ [_ [_ [Hdiv [Et [El _]]]]]]]].
      set (t := round_time (a_start a) s0 (a_utc a)) in *.
      set (d := (if t <? a_start a then 0 else 1) + (if a_extend a then 1 else 0)) in *.
      assert (Hd : 0 <= d) by (unfold d; destruct (t <? a_start a); destruct (a_extend a); lia).
      destruct (result_lods_facts s0 l0 r d (a_extend a) HF HS Hd) as [F1 [F2 [F3 [F4 [[lh [r' [F5 F5']]] [F6 _]]]]]].
      cbv zeta in *. rewrite <- El in *.
      assert (Hs0 : 0 < s0) by (apply (lod_ok_hd _ _ _ _ HF)).
      assert (Hl0 : 0 < l0) by (apply (lod_ok_hd _ _ _ _ HF)).
      assert (HsM : s0 <> month_step). { destruct (lod_ok_hd _ _ _ _ HF) as [H1 _]. apply fixed_all_range in H1. lia. }
      assert (Hfix : Forall fixed_lod (ts_lods ts)) by (eapply Forall_impl; [|exact F1]; apply lod_ok_fixed).
      exists (t - d * s0). assert (Etime : ts_time ts = progs (t - d * s0) (ts_lods ts)) by (rewrite Et; apply F6).
      split; [exact Etime|].
      assert (Hdo : (s0 | off)).
      { destruct Hoff as [Z0|I]; [subst off; apply Z.divide_0_r|]. apply in_map_iff in I. destruct I as [m [Em Im]]. subst off. apply Hdiv. exact Im. }
      assert (Hal : aligned (a_utc a) (t - d * s0) s0).
      { replace (t - d * s0) with (t + (- d) * s0) by lia. apply aligned_add; [assumption|]. apply fl_aligned. assumption. }
      unfold ts_get_lods. rewrite Etime. rewrite F5.
      assert (Hlh : Z.to_nat lh = S (Z.to_nat (lh - 1))) by lia.
      cbn [progs]. rewrite Hlh. cbn [seg app].
      rewrite <- F5. rewrite (lods_from_ranges c _ Hfix).
      destruct (off =? 0) eqn:E0.
      + apply Z.eqb_eq in E0. subst off. rewrite Z.sub_0_r. reflexivity.
      + rewrite sol_fixed by assumption. rewrite (fl_shift (a_utc a) _ s0 off Hs0 Hdo). rewrite (fl_id (a_utc a) _ s0 Hs0 Hal). reflexivity.
  Qed.
End RangeTheorems.

(* (5) errors only when out of range: for every mode, an error of the current code is either "exceeded maximum
   resolution" — not a point query and even the coarsest step needs more than maxPoints points — or an offset that is
   not a multiple of the first LOD step; "LOD out of range" never happens *)
Theorem errors_only_when_out_of_range c a er :
  a_step a <> month_step -> get_timescale false c a = RErr er ->
  (er = EOutOfRange /\ is_point (a_mode a) = false /\
   exists lv, In lv lod_levels /\
     max_points < cnt (round_time (a_start a - q_moff a) (hd 0 (snd lv)) (a_utc a)) (hd 0 (snd lv)) (a_end a - q_moff a)) \/
  (er = EOffset /\ exists s0 m, In s0 fixed_all /\ In m (a_metrics a) /\ Z.rem (fst m) s0 <> 0).
Proof.
  intros Hm H. rewrite get_timescale_eq in H.
  destruct ((a_end a <=? a_start a) || (a_step a <? 0)) eqn:G; [discriminate|].
  apply orb_false_iff in G. destruct G as [G1 G2]. apply Z.leb_gt in G1. apply Z.ltb_ge in G2.
  assert (Elv : q_levels a = lod_levels). { unfold q_levels. apply Z.eqb_neq in Hm. rewrite Hm. reflexivity. }
  rewrite Elv in H.
  pose proof (outer_spec c (a_utc a) (a_end a - q_moff a) (q_minstep a) (a_width a) (is_point (a_mode a)) (a_now a) false
               (a_start a - q_moff a) fixed_all (q_minstep_ge1 a G2) fixed_all_div fixed_all_range eq_refl
               lod_levels lod_levels_wf _ _ _ _ (inv_init (a_utc a) (a_end a - q_moff a) (is_point (a_mode a)) (a_now a) (a_start a - q_moff a) fixed_all lod_levels)) as S.
  destruct (outer c (a_utc a) (a_end a - q_moff a) (q_minstep a) (a_width a) (is_point (a_mode a)) (a_now a) false lod_levels (a_start a - q_moff a) 0 0 []) as [er'|rl].
  - inversion H; subst er'. left. exact S.
  - destruct S as [F1 _]. right. unfold ts_tail in H.
    destruct (rev rl) as [|[s0 l0] r] eqn:Erev; [discriminate|].
    assert (Hin : In s0 fixed_all).
    { assert (HF : Forall (lod_ok fixed_all) (rev rl)) by (apply Forall_rev; assumption). rewrite Erev in HF. apply (lod_ok_hd _ _ _ _ HF). }
    destruct (existsb (fun m => negb (Z.rem (fst m) s0 =? 0)) (a_metrics a)) eqn:Hoff.
    + inversion H; subst. split; [reflexivity|]. apply existsb_exists in Hoff. destruct Hoff as [m [Im Nm]].
      exists s0, m. split; [exact Hin|]. split; [exact Im|]. apply negb_true_iff in Nm. apply Z.eqb_neq in Nm. exact Nm.
    + exfalso. destruct (is_point (a_mode a)).
      * destruct (_ =? _) in H; discriminate.
      * revert H. cbv zeta.
        destruct (if start_of_lod c (a_start a) s0 (a_utc a) <? a_start a then _ else _) as [[[t1 d1] sx1] vsx1].
        destruct (if sx1 =? 0 then _ else _) as [[[t2 d2] sx2] vsx2].
        destruct (gen_time c t2 (bump_first ((s0, l0) :: r) d2)). destruct (a_extend a); discriminate.
Qed.

(* corollaries of (1): strictly increasing, consecutive differences are the LOD steps, every point aligned to its step *)
Lemma steps_of_pos lods : Forall fixed_lod lods -> Forall (fun s => 0 < s) (steps_of lods).
Proof.
  induction 1 as [|[s l] r [H1 [H2 H3]] Hr IH]; simpl. constructor.
  apply Forall_app. split; [|assumption]. simpl in H2. clear -H2. induction (Z.to_nat l); simpl; constructor; assumption.
Qed.
Lemma progs_sorted lods t : Forall fixed_lod lods -> StronglySorted Z.lt (progs t lods).
Proof.
  intros HF. eapply ss_app_l. eapply chain_sorted. apply progs_chain. exact HF. apply steps_of_pos. exact HF.
Qed.

Theorem range_time_increasing_gapfree_aligned c a ts :
  a_step a <> month_step -> is_point (a_mode a) = false -> get_timescale false c a = ROk ts ->
  StronglySorted Z.lt (ts_time ts) /\
  (exists t0 tl, chain t0 (ts_time ts) (steps_of (ts_lods ts)) tl) /\
  Forall2 (fun p s => (p + a_utc a) mod s = 0) (ts_time ts) (steps_of (ts_lods ts)).
Proof.
  intros Hm Hp Hok. destruct (range_time_is_progressions c a ts Hm Hp Hok) as [t0 [Et [F1 [F2 [F3 [F4 _]]]]]].
  assert (Hfix : Forall fixed_lod (ts_lods ts)) by (eapply Forall_impl; [|exact F1]; apply lod_ok_fixed).
  rewrite Et. split; [apply progs_sorted; exact Hfix|]. split.
  - exists t0, (t0 + span (ts_lods ts)). apply progs_chain. exact Hfix.
  - apply (progs_aligned (a_utc a) (ts_lods ts) Hfix F3 t0). destruct (ts_lods ts) as [|[s l] r]; [exact I|exact F4].
Qed.

Lemma fixed_all_in_table : incl fixed_all lod_table_steps.
Proof. apply inclb_incl. vm_compute. reflexivity. Qed.
Lemma coarsest_step : forall lv, In lv lod_levels -> hd 0 (snd lv) = hd 0 fixed_all.
Proof.
  assert (H : forallb (fun lv => hd 0 (snd lv) =? hd 0 fixed_all) lod_levels = true) by (vm_compute; reflexivity).
  intros lv Hlv. rewrite forallb_forall in H. apply Z.eqb_eq. apply H. exact Hlv.
Qed.
