(* C07, conservation: for every history of a string-top row (events, capacities, resample rounds with any map
   iteration order, finalisations with any order, any rng stream) the parts of the row (Tail and the Top values)
   add up to the events written: counts, sums, sums of squares; and the min / max over the parts that hold values
   is the min / max of the event values. *)
From Coq Require Import ZArith QArith List Bool Lqa Permutation.
From SH Require Import Agg.Model Agg.ProofsValue StringTop.Model.
Import ListNotations.
Open Scope Q_scope.

(* ---------- tags ---------- *)
Lemma tag_eqb_eq a b : tag_eqb a b = true <-> a = b.
Proof.
  unfold tag_eqb. destruct a as [a1 a2], b as [b1 b2]; simpl. rewrite andb_true_iff, !Z.eqb_eq.
  split; [intros [-> ->]; reflexivity | intros H; inversion H; auto].
Qed.
Lemma tag_eqb_refl a : tag_eqb a a = true.
Proof. apply tag_eqb_eq. reflexivity. Qed.
Lemma tag_eqb_neq a b : tag_eqb a b = false <-> a <> b.
Proof.
  split; intros H.
  - intros E. apply tag_eqb_eq in E. congruence.
  - destruct (tag_eqb a b) eqn:E; auto. apply tag_eqb_eq in E. contradiction.
Qed.

(* ---------- the association list ---------- *)
Lemma top_remove_perm k l v :
  top_find k l = Some v -> Permutation (map snd l) (v :: map snd (top_remove k l)).
Proof.
  induction l as [|[k' v'] l IH]; simpl; [discriminate|].
  destruct (tag_eqb k k'); intros H.
  - inversion H; subst. apply Permutation_refl.
  - simpl. eapply perm_trans; [apply perm_skip, IH, H | apply perm_swap].
Qed.

Lemma top_set_perm k l v0 v :
  top_find k l = Some v0 -> Permutation (map snd (top_set k v l)) (v :: map snd (top_remove k l)).
Proof.
  induction l as [|[k' v'] l IH]; simpl; [discriminate|].
  destruct (tag_eqb k k'); intros H; simpl.
  - apply Permutation_refl.
  - eapply perm_trans; [apply perm_skip, IH, H | apply perm_swap].
Qed.

Lemma top_find_app k l1 l2 :
  top_find k (l1 ++ l2) = match top_find k l1 with Some v => Some v | None => top_find k l2 end.
Proof.
  induction l1 as [|[k' v'] l1 IH]; simpl; [reflexivity|]. destruct (tag_eqb k k'); auto.
Qed.

(* ---------- the raw-stream wrappers run the functions of Agg.Model on some draw list ---------- *)
Lemma with_raw_some {A} total (f : list Z -> A * list Z) rs r rs' :
  with_raw total f rs = (r, rs') -> exists ds ds', f ds = (r, ds').
Proof.
  unfold with_raw. destruct (uint64n total rs) as [d rs1]. destruct (f [d]) as [r0 rest] eqn:E.
  intros H. inversion H; subst. eauto.
Qed.

(* ---------- events ---------- *)
Definition ev_sum (e : event) : Q := match e with ECount _ _ => 0 | EValue v c _ => v * c end.
Definition ev_sumsq (e : event) : Q := match e with ECount _ _ => 0 | EValue v c _ => v * v * c end.
Definition ev_value (e : event) : list Q := match e with ECount _ _ => [] | EValue v _ _ => [v] end.
Definition ev_values (es : list event) : list Q := flat_map ev_value es.

Lemma ev_values_app a b : ev_values (a ++ b) = ev_values a ++ ev_values b.
Proof. unfold ev_values. apply flat_map_app. Qed.

(* ---------- the invariant: a list of parts accounts for a list of events ---------- *)
Definition accounts (ps : list ivalue) (es : list event) : Prop :=
  Forall wfv ps /\
  sumQ cnt ps == sumQ ev_count es /\ sumQ v_sum ps == sumQ ev_sum es /\ sumQ v_sumsq ps == sumQ ev_sumsq es /\
  (forall p, In p ps -> v_set p = true ->
     (exists x, In x (ev_values es) /\ x == v_min p) /\ (exists x, In x (ev_values es) /\ x == v_max p)) /\
  (forall x, In x (ev_values es) -> exists p, In p ps /\ v_set p = true /\ v_min p <= x /\ x <= v_max p).

Lemma wfv0 : wfv ivalue0.
Proof. split; unfold cnt; simpl; [lra | intros _; split; reflexivity]. Qed.

Lemma accounts_nil : accounts [ivalue0] [].
Proof.
  split; [constructor; [apply wfv0 | constructor]|]. unfold cnt; simpl.
  split; [lra|]. split; [lra|]. split; [lra|]. split.
  - intros p [<-|[]] T; discriminate.
  - intros x [].
Qed.

Lemma Forall_perm {A} (P : A -> Prop) l l' : Permutation l l' -> Forall P l -> Forall P l'.
Proof.
  intros H F. rewrite Forall_forall in *. intros x I. apply F.
  eapply Permutation_in; [apply Permutation_sym; exact H | exact I].
Qed.

Lemma accounts_perm ps ps' es : Permutation ps ps' -> accounts ps es -> accounts ps' es.
Proof.
  intros P (W & C & S & Q2 & A & B).
  split; [eapply Forall_perm; eauto|].
  rewrite <- !(sumQ_perm _ _ _ P). repeat split; auto.
  - apply A; auto. eapply Permutation_in; [apply Permutation_sym|]; eauto.
  - apply A; auto. eapply Permutation_in; [apply Permutation_sym|]; eauto.
  - intros x I. destruct (B x I) as (p & Ip & R). exists p. split; auto. eapply Permutation_in; eauto.
Qed.

Lemma accounts_new ps es : accounts ps es -> accounts (ivalue0 :: ps) es.
Proof.
  intros (W & C & S & Q2 & A & B).
  split; [constructor; [apply wfv0 | auto]|]. unfold cnt in *; simpl.
  repeat split; try lra.
  - destruct H as [<-|I]; [discriminate | apply A; auto].
  - destruct H as [<-|I]; [discriminate | apply A; auto].
  - intros x I. destruct (B x I) as (p & Ip & R). exists p. split; [right|]; auto.
Qed.

(* one merge of two parts: s.Tail.Merge(rng, v) *)
Lemma merge_two a b ds r ds' :
  wfv a -> wfv b -> merge_value a b ds = (r, ds') ->
  wfv r /\ cnt r == cnt a + cnt b /\ v_sum r == v_sum a + v_sum b /\ v_sumsq r == v_sumsq a + v_sumsq b /\
  v_set r = v_set a || v_set b /\
  (v_set r = true ->
     (exists l, In l [a; b] /\ v_set l = true /\ v_min l == v_min r) /\
     (exists l, In l [a; b] /\ v_set l = true /\ v_max l == v_max r) /\
     (forall l, In l [a; b] -> v_set l = true -> v_min r <= v_min l /\ v_max l <= v_max r)).
Proof.
  intros Wa Wb H.
  assert (E : eval_value (Node (Leaf a) (Leaf b)) ds = (r, ds')) by (simpl; exact H).
  assert (F : Forall wfv (leaves (Node (Leaf a) (Leaf b)))) by (simpl; constructor; [exact Wa | constructor; [exact Wb | constructor]]).
  destruct (eval_value_sums _ _ _ _ E F) as (Wr & C & S & Q2 & St).
  destruct (eval_value_min _ _ _ _ E) as (_ & Mn).
  destruct (eval_value_max _ _ _ _ E) as (_ & Mx).
  simpl in *. split; [exact Wr|]. split; [lra|]. split; [lra|]. split; [lra|].
  split; [rewrite St, orb_false_r; reflexivity|].
  intros T. destruct (Mn T) as ((l1 & I1 & S1 & E1 & _) & L1). destruct (Mx T) as ((l2 & I2 & S2 & E2 & _) & L2).
  split; [exists l1; auto|]. split; [exists l2; auto|]. intros l I Sl. split; [apply L1 | apply L2]; auto.
Qed.

Lemma accounts_move a b rest es ds r ds' :
  accounts (a :: b :: rest) es -> merge_value a b ds = (r, ds') -> accounts (r :: rest) es.
Proof.
  intros (W & C & S & Q2 & A & B) H.
  inversion W as [|? ? Wa W1]; subst. inversion W1 as [|? ? Wb Wr]; subst.
  destruct (merge_two _ _ _ _ _ Wa Wb H) as (Wm & Cm & Sm & Qm & St & MM).
  split; [constructor; auto|]. simpl in *.
  split; [lra|]. split; [lra|]. split; [lra|]. split.
  - intros p [<-|I] T.
    + destruct (MM T) as ((l1 & I1 & S1 & E1) & (l2 & I2 & S2 & E2) & _).
      assert (J1 : In l1 (a :: b :: rest)) by (destruct I1 as [<-|[<-|[]]]; simpl; auto).
      assert (J2 : In l2 (a :: b :: rest)) by (destruct I2 as [<-|[<-|[]]]; simpl; auto).
      destruct (A l1 J1 S1) as ((x & Ix & Ex) & _). destruct (A l2 J2 S2) as (_ & (y & Iy & Ey)).
      split; [exists x | exists y]; split; auto; lra.
    + apply A; simpl; auto.
  - intros x I. destruct (B x I) as (p & Ip & Sp & Lo & Hi).
    destruct Ip as [<-|[<-|Ip]].
    + assert (T : v_set r = true) by (rewrite St, Sp; reflexivity).
      destruct (MM T) as (_ & _ & L). destruct (L a (or_introl eq_refl) Sp).
      exists r. split; [left; auto|]. split; auto. split; lra.
    + assert (T : v_set r = true) by (rewrite St, Sp, orb_true_r; reflexivity).
      destruct (MM T) as (_ & _ & L). destruct (L b (or_intror (or_introl eq_refl)) Sp).
      exists r. split; [left; auto|]. split; auto. split; lra.
    + exists p. split; [right; auto|]. auto.
Qed.

(* one event written into a part: AddCounterHost / AddValueCounterHost *)
Lemma apply_event_spec p e ds p' ds' :
  wfv p -> 0 <= ev_count e -> apply_event p e ds = (p', ds') ->
  wfv p' /\ cnt p' == cnt p + ev_count e /\ v_sum p' == v_sum p + ev_sum e /\ v_sumsq p' == v_sumsq p + ev_sumsq e /\
  match e with
  | ECount _ _ => v_set p' = v_set p /\ v_min p' = v_min p /\ v_max p' = v_max p
  | EValue v _ _ =>
      v_set p' = true /\ v_min p' <= v /\ v <= v_max p' /\
      (v_min p' = v \/ (v_set p = true /\ v_min p' = v_min p)) /\
      (v_max p' = v \/ (v_set p = true /\ v_max p' = v_max p)) /\
      (v_set p = true -> v_min p' <= v_min p /\ v_max p <= v_max p')
  end.
Proof.
  intros [W0 W1] He H. unfold apply_event, add_counter_host in H.
  destruct e as [c h | v c h]; simpl in *;
  destruct (merge_counter (v_c p) {| c_cnt := c; c_host := h |} ds) as [cn ds1] eqn:Ec;
  apply merge_counter_spec in Ec; simpl; auto; destruct Ec as [Ec _]; simpl in *;
  inversion H; subst; clear H; unfold wfv, cnt in *; simpl.
  - repeat split; try lra; try apply W1; auto.
  - split; [split; [lra | intros; discriminate]|]. split; [lra|]. split; [lra|]. split; [lra|].
    split; [reflexivity|].
    destruct (v_set p) eqn:Sp; simpl.
    + destruct (Qltb v (v_min p)) eqn:E1; destruct (Qltb (v_max p) v) eqn:E2;
        try apply Qltb_true in E1; try apply Qltb_true in E2; try apply Qltb_false in E1; try apply Qltb_false in E2;
        (split; [lra|]); (split; [lra|]); (split; [auto|]); (split; [auto|]); intros _; split; lra.
    + split; [lra|]. split; [lra|]. split; [auto|]. split; [auto|]. intros; discriminate.
Qed.

Lemma accounts_event p rest es e ds p' ds' :
  accounts (p :: rest) es -> 0 <= ev_count e -> apply_event p e ds = (p', ds') ->
  accounts (p' :: rest) (es ++ [e]).
Proof.
  intros (W & C & S & Q2 & A & B) He H.
  inversion W as [|? ? Wp Wr]; subst.
  destruct (apply_event_spec _ _ _ _ _ Wp He H) as (Wp' & Cp & Sp & Qp & M).
  split; [constructor; auto|]. rewrite !sumQ_app, ev_values_app. simpl in *.
  split; [lra|]. split; [lra|]. split; [lra|].
  destruct e as [c h | v c h]; simpl in *.
  - destruct M as (M1 & M2 & M3). rewrite app_nil_r. split.
    + intros q [<-|I] T; [rewrite M2, M3; apply A; simpl; auto; congruence | apply A; simpl; auto].
    + intros x I. destruct (B x I) as (q & [<-|Iq] & Sq & Lo & Hi).
      * exists p'. split; [left; auto|]. split; [congruence|]. rewrite M2, M3. auto.
      * exists q. split; [right; auto|]. auto.
  - destruct M as (M1 & Lo & Hi & Mn & Mx & Mono). split.
    + intros q [<-|I] T.
      * split.
        -- destruct Mn as [E|[Sq E]]; [exists v; split; [apply in_or_app; right; simpl; auto | rewrite E; reflexivity]|].
           destruct (A p (or_introl eq_refl) Sq) as ((x & Ix & Ex) & _). exists x. split; [apply in_or_app; auto | rewrite E; auto].
        -- destruct Mx as [E|[Sq E]]; [exists v; split; [apply in_or_app; right; simpl; auto | rewrite E; reflexivity]|].
           destruct (A p (or_introl eq_refl) Sq) as (_ & (x & Ix & Ex)). exists x. split; [apply in_or_app; auto | rewrite E; auto].
      * destruct (A q (or_intror I) T) as ((x & Ix & Ex) & (y & Iy & Ey)).
        split; [exists x | exists y]; split; auto; apply in_or_app; auto.
    + intros x I. apply in_app_or in I. destruct I as [I|[<-|[]]].
      * destruct (B x I) as (q & [<-|Iq] & Sq & L1 & H1).
        -- destruct (Mono Sq). exists p'. split; [left; auto|]. split; auto. split; lra.
        -- exists q. split; [right; auto|]. auto.
      * exists p'. split; [left; auto|]. auto.
Qed.

(* ---------- the row ---------- *)
Definition parts (m : mitem) : list ivalue := m_tail m :: map snd (m_top m).
Definition row_accounts (m : mitem) (es : list event) : Prop := accounts (parts m) es.

Lemma fold_tail_accounts m k v rs t' rs1 es :
  row_accounts m es -> top_find k (m_top m) = Some v -> merge_value_raw (m_tail m) v rs = (t', rs1) ->
  row_accounts {| m_top := top_remove k (m_top m); m_tail := t'; m_sfl := m_sfl m |} es.
Proof.
  unfold row_accounts, parts. intros A F H. simpl.
  apply with_raw_some in H. destruct H as (ds & ds' & H).
  eapply accounts_move; [|exact H].
  eapply accounts_perm; [|exact A]. apply perm_skip. apply top_remove_perm. exact F.
Qed.

Lemma resample_visit_accounts sf es k : forall m rs m' rs',
  row_accounts m es -> resample_visit sf (m, rs) k = (m', rs') -> row_accounts m' es.
Proof.
  intros m rs m' rs' A H. unfold resample_visit in H.
  destruct (top_find k (m_top m)) as [v|] eqn:F; [|inversion H; subst; auto].
  destruct (Qle_bool (inject_Z sf) (vcnt v)); [inversion H; subst; auto|].
  destruct (uint64n sf rs) as [rv rs1]. destruct (Qltb (inject_Z rv) (vcnt v)); [inversion H; subst; auto|].
  destruct (merge_value_raw (m_tail m) v rs1) as [t' rs2] eqn:E. inversion H; subst.
  eapply fold_tail_accounts; eauto.
Qed.

Lemma fold_visit_accounts sf es ord : forall m rs m' rs',
  row_accounts m es -> fold_left (resample_visit sf) ord (m, rs) = (m', rs') -> row_accounts m' es.
Proof.
  induction ord as [|k ord IH]; intros m rs m' rs' A H; cbn [fold_left] in H.
  - inversion H; subst; auto.
  - destruct (resample_visit sf (m, rs) k) as [m1 rs1] eqn:E. eapply IH; [|exact H]. eapply resample_visit_accounts; eauto.
Qed.

Lemma resample_accounts m ord rs m' rs' es :
  row_accounts m es -> resample m ord rs = (m', rs') -> row_accounts m' es.
Proof. unfold resample. intros A H. eapply fold_visit_accounts; [|exact H]. exact A. Qed.

Lemma resample_loop_accounts cap es ords : forall m rs m' rs',
  row_accounts m es -> resample_loop cap m ords rs = Some (m', rs') -> row_accounts m' es.
Proof.
  induction ords as [|o ords IH]; intros m rs m' rs' A H; simpl in H.
  - destruct (top_len m <? cap)%Z; inversion H; subst; auto.
  - destruct (top_len m <? cap)%Z; [discriminate|].
    destruct (resample m o rs) as [m1 rs1] eqn:E. eapply IH; [|exact H]. eapply resample_accounts; eauto.
Qed.

(* MapStringTop keeps the totals and points the caller to a part that exists *)
Definition slot_ok (m : mitem) (s : slot) : Prop :=
  match s with STail => True | STop k => exists v, top_find k (m_top m) = Some v end.

Lemma map_string_top_accounts m cap t count ords rs s m' rs' es :
  row_accounts m es -> map_string_top m cap t count ords rs = Some (s, m', rs') ->
  row_accounts m' es /\ slot_ok m' s.
Proof.
  intros A H. unfold map_string_top in H.
  destruct (tag_empty t); [inversion H; subst; simpl; auto|].
  destruct (top_find (tag_norm t) (m_top m)) as [v|] eqn:F; [inversion H; subst; simpl; eauto|].
  destruct (if (m_sfl m =? 0)%Z then (false, rs) else
            let '(f, rs1) := float64 rs in (Qle_bool count (f * inject_Z (sf_of (m_sfl m))), rs1)) as [totail rs1].
  destruct totail; [inversion H; subst; simpl; auto|].
  destruct (resample_loop (if (cap <? 1)%Z then default_capacity else cap) m ords rs1) as [[m2 rs2]|] eqn:L; [|discriminate].
  inversion H; subst; clear H. apply resample_loop_accounts with (es := es) in L; auto. split.
  - unfold row_accounts, parts in *; simpl. rewrite map_app; simpl.
    eapply accounts_perm; [|apply accounts_new; exact L].
    eapply perm_trans; [apply perm_swap|]. apply perm_skip. apply Permutation_cons_append.
  - simpl. rewrite top_find_app. destruct (top_find (tag_norm t) (m_top m2)); eauto.
    simpl. rewrite tag_eqb_refl. eauto.
Qed.

Lemma write_slot_accounts m s e rs m' rs' es :
  row_accounts m es -> slot_ok m s -> 0 <= ev_count e -> write_slot m s e rs = (m', rs') ->
  row_accounts m' (es ++ [e]).
Proof.
  intros A S He H. unfold write_slot in H. destruct s as [|k].
  - destruct (apply_event_raw (m_tail m) e rs) as [v rs1] eqn:E. inversion H; subst.
    apply with_raw_some in E. destruct E as (ds & ds' & E).
    unfold row_accounts, parts in *; simpl. eapply accounts_event; eauto.
  - destruct S as [v0 F]. rewrite F in H.
    destruct (apply_event_raw v0 e rs) as [v rs1] eqn:E. inversion H; subst.
    apply with_raw_some in E. destruct E as (ds & ds' & E).
    unfold row_accounts, parts in *; simpl.
    assert (P0 : Permutation (m_tail m :: map snd (m_top m)) (v0 :: m_tail m :: map snd (top_remove k (m_top m)))).
    { eapply perm_trans; [apply perm_skip, top_remove_perm; exact F | apply perm_swap]. }
    assert (P1 : Permutation (v :: m_tail m :: map snd (top_remove k (m_top m))) (m_tail m :: map snd (top_set k v (m_top m)))).
    { eapply perm_trans; [apply perm_swap|]. apply perm_skip. apply Permutation_sym. eapply top_set_perm; eauto. }
    eapply accounts_perm; [exact P1|]. eapply accounts_event; eauto. eapply accounts_perm; eauto.
Qed.

Lemma fold_into_tail_accounts es ord : forall m rs m' rs',
  row_accounts m es -> fold_left fold_into_tail ord (m, rs) = (m', rs') -> row_accounts m' es.
Proof.
  induction ord as [|k ord IH]; intros m rs m' rs' A H; cbn [fold_left] in H.
  - inversion H; subst; auto.
  - destruct (fold_into_tail (m, rs) k) as [m1 rs1] eqn:E. eapply IH; [|exact H].
    unfold fold_into_tail in E.
    destruct (top_find k (m_top m)) as [v|] eqn:F; [|inversion E; subst; auto].
    destruct (merge_value_raw (m_tail m) v rs) as [t' rs2] eqn:E2. inversion E; subst.
    eapply fold_tail_accounts; eauto.
Qed.

Lemma finish_accounts m cap ord rs m' rs' es :
  row_accounts m es -> finish m cap ord rs = (m', rs') -> row_accounts m' es.
Proof.
  unfold finish. intros A H. destruct (m_top m) eqn:T; [inversion H; subst; auto|].
  eapply fold_into_tail_accounts; eauto.
Qed.

Definition ev_nonneg (e : event) : Prop := 0 <= ev_count e.

Lemma step_accounts m rs o m' rs' es :
  row_accounts m es -> Forall ev_nonneg (op_events o) -> step (m, rs) o = Some (m', rs') ->
  row_accounts m' (es ++ op_events o).
Proof.
  intros A N H. destruct o as [cap t e ords | cap ord]; simpl in *.
  - unfold add_event in H. destruct (map_string_top m cap t (ev_cnt e) ords rs) as [[[s m1] rs1]|] eqn:M; [|discriminate].
    destruct (write_slot m1 s e rs1) as [m2 rs2] eqn:Wr. inversion H; subst.
    destruct (map_string_top_accounts _ _ _ _ _ _ _ _ _ _ A M) as [A1 S1].
    inversion N; subst. eapply write_slot_accounts; eauto.
  - rewrite app_nil_r. inversion H. eapply finish_accounts; eauto.
Qed.

Lemma run_accounts ops : forall m rs m' rs' es,
  row_accounts m es -> Forall ev_nonneg (events_of ops) -> run (m, rs) ops = Some (m', rs') ->
  row_accounts m' (es ++ events_of ops).
Proof.
  induction ops as [|o ops IH]; intros m rs m' rs' es A N H.
  - simpl in *. inversion H; subst. rewrite app_nil_r. auto.
  - change (events_of (o :: ops)) with (op_events o ++ events_of ops) in *. cbn [run] in H.
    apply Forall_app in N. destruct N as [N1 N2].
    destruct (step (m, rs) o) as [[m1 rs1]|] eqn:S; [|discriminate].
    rewrite app_assoc. eapply IH; eauto. eapply step_accounts; eauto.
Qed.

(* ---------- the statement of the property ---------- *)
Definition is_min (x : Q) (l : list Q) : Prop := (exists y, In y l /\ y == x) /\ forall y, In y l -> x <= y.
Definition is_max (x : Q) (l : list Q) : Prop := (exists y, In y l /\ y == x) /\ forall y, In y l -> y <= x.
Definition set_parts (m : mitem) : list ivalue := filter v_set (parts m).

Definition conserved (m : mitem) (es : list event) : Prop :=
  sumQ cnt (parts m) == sumQ ev_count es /\
  sumQ v_sum (parts m) == sumQ ev_sum es /\
  sumQ v_sumsq (parts m) == sumQ ev_sumsq es /\
  (set_parts m = [] <-> ev_values es = []) /\
  (forall x, is_min x (map v_min (set_parts m)) <-> is_min x (ev_values es)) /\
  (forall x, is_max x (map v_max (set_parts m)) <-> is_max x (ev_values es)).

Lemma in_set_parts m p : In p (set_parts m) <-> In p (parts m) /\ v_set p = true.
Proof. unfold set_parts. apply filter_In. Qed.

Lemma accounts_conserved m es : row_accounts m es -> conserved m es.
Proof.
  intros (W & C & S & Q2 & A & B). split; [auto|]. split; [auto|]. split; [auto|]. split; [|split].
  - split; intros H.
    + destruct (ev_values es) as [|x l] eqn:E; auto.
      destruct (B x (or_introl eq_refl)) as (p & Ip & Sp & _).
      assert (I : In p (set_parts m)) by (apply in_set_parts; auto). rewrite H in I. destruct I.
    + destruct (set_parts m) as [|p l] eqn:E; auto.
      assert (I : In p (set_parts m)) by (rewrite E; left; auto). apply in_set_parts in I. destruct I as [Ip Sp].
      destruct (A p Ip Sp) as ((x & Ix & _) & _). rewrite H in Ix. destruct Ix.
  - intros x. split; intros [(y & Iy & Ey) L].
    + apply in_map_iff in Iy. destruct Iy as (p & <- & Ip). apply in_set_parts in Ip. destruct Ip as [Ip Sp].
      destruct (A p Ip Sp) as ((z & Iz & Ez) & _). split; [exists z; split; auto; lra|].
      intros w Iw. destruct (B w Iw) as (q & Iq & Sq & Lo & _).
      assert (x <= v_min q) by (apply L; apply in_map; apply in_set_parts; auto). lra.
    + destruct (B y Iy) as (p & Ip & Sp & Lo & _). destruct (A p Ip Sp) as ((z & Iz & Ez) & _).
      assert (x <= z) by (apply L; auto). split.
      * exists (v_min p). split; [apply in_map; apply in_set_parts; auto | lra].
      * intros w Iw. apply in_map_iff in Iw. destruct Iw as (q & <- & Iq). apply in_set_parts in Iq. destruct Iq as [Iq Sq].
        destruct (A q Iq Sq) as ((u & Iu & Eu) & _). assert (x <= u) by (apply L; auto). lra.
  - intros x. split; intros [(y & Iy & Ey) L].
    + apply in_map_iff in Iy. destruct Iy as (p & <- & Ip). apply in_set_parts in Ip. destruct Ip as [Ip Sp].
      destruct (A p Ip Sp) as (_ & (z & Iz & Ez)). split; [exists z; split; auto; lra|].
      intros w Iw. destruct (B w Iw) as (q & Iq & Sq & _ & Hi).
      assert (v_max q <= x) by (apply L; apply in_map; apply in_set_parts; auto). lra.
    + destruct (B y Iy) as (p & Ip & Sp & _ & Hi). destruct (A p Ip Sp) as (_ & (z & Iz & Ez)).
      assert (z <= x) by (apply L; auto). split.
      * exists (v_max p). split; [apply in_map; apply in_set_parts; auto | lra].
      * intros w Iw. apply in_map_iff in Iw. destruct Iw as (q & <- & Iq). apply in_set_parts in Iq. destruct Iq as [Iq Sq].
        destruct (A q Iq Sq) as (_ & (u & Iu & Eu)). assert (u <= x) by (apply L; auto). lra.
Qed.

(* for every event sequence, every capacity (they may even change between events), every resample/finalisation
   order and every rng stream: whatever is in Top and Tail adds up to the events written *)
Theorem top_conserves ops rs m' rs' :
  Forall ev_nonneg (events_of ops) -> run (mitem0, rs) ops = Some (m', rs') -> conserved m' (events_of ops).
Proof.
  intros N H. apply accounts_conserved.
  change (events_of ops) with ([] ++ events_of ops). eapply run_accounts; eauto.
  unfold row_accounts, parts. simpl. apply accounts_nil.
Qed.

(* eviction only moves weight into the tail: one resample round / one finalisation leaves the totals alone,
   from any row that accounts for its events *)
Theorem resample_conserves m ord rs m' rs' es :
  row_accounts m es -> resample m ord rs = (m', rs') -> row_accounts m' es /\ conserved m' es.
Proof. intros A H. pose proof (resample_accounts _ _ _ _ _ _ A H). split; auto. apply accounts_conserved; auto. Qed.

Theorem finish_conserves m cap ord rs m' rs' es :
  row_accounts m es -> finish m cap ord rs = (m', rs') -> row_accounts m' es /\ conserved m' es.
Proof. intros A H. pose proof (finish_accounts _ _ _ _ _ _ _ A H). split; auto. apply accounts_conserved; auto. Qed.

(* the whale weight FinishStringTop returns is the count of all events written *)
Lemma sumcnt_sumQ l : sumcnt l == sumQ cnt (map snd l).
Proof. induction l as [|[k v] l IH]; simpl; [reflexivity|]. unfold vcnt, cnt in *. rewrite IH. reflexivity. Qed.

Theorem finish_weight_is_total m es : row_accounts m es -> finish_weight m == sumQ ev_count es.
Proof.
  intros (_ & C & _). unfold finish_weight. rewrite sumcnt_sumQ. unfold parts in C. simpl in C. unfold vcnt, cnt in *. lra.
Qed.

(* every row reached by a history accounts for its events *)
Theorem reachable_accounts ops rs m' rs' :
  Forall ev_nonneg (events_of ops) -> run (mitem0, rs) ops = Some (m', rs') -> row_accounts m' (events_of ops).
Proof.
  intros N H. change (events_of ops) with ([] ++ events_of ops). eapply run_accounts; eauto.
  unfold row_accounts, parts. simpl. apply accounts_nil.
Qed.
