(* C07, finalisation: FinishStringTop leaves at most [capacity] top values, the retained values are untouched and
   each of them is at least as heavy as every value folded into the tail — for every order sort.Slice may leave
   (any permutation of the keys with non-increasing counts) and every rng stream. Also: the keys of Top stay
   distinct along every history (Top is a map). *)
From Coq Require Import ZArith QArith List Bool Lqa Lia Permutation.
From SH Require Import Agg.Model Agg.ProofsValue StringTop.Model StringTop.Proofs.
Import ListNotations.

Definition keys (m : mitem) : list tag := map fst (m_top m).

Lemma tag_eq_dec (a b : tag) : {a = b} + {a <> b}.
Proof. decide equality; apply Z.eq_dec. Qed.

(* ---------- association list facts ---------- *)
Lemma top_find_in_keys k l : In k (map fst l) <-> top_find k l <> None.
Proof.
  induction l as [|[k' v'] l IH]; simpl; [split; [intros [] | intros H; congruence]|].
  destruct (tag_eqb k k') eqn:E.
  - apply tag_eqb_eq in E. subst. split; [discriminate | auto].
  - apply tag_eqb_neq in E. rewrite <- IH. split; [intros [H|H]; [congruence | auto] | auto].
Qed.

Lemma top_find_In k l v : top_find k l = Some v -> In (k, v) l.
Proof.
  induction l as [|[k' v'] l IH]; simpl; [discriminate|].
  destruct (tag_eqb k k') eqn:E; intros H.
  - apply tag_eqb_eq in E. inversion H; subst. auto.
  - auto.
Qed.

Lemma In_top_find k l v : NoDup (map fst l) -> In (k, v) l -> top_find k l = Some v.
Proof.
  induction l as [|[k' v'] l IH]; simpl; [intros _ []|]. intros N [H|H].
  - inversion H; subst. rewrite tag_eqb_refl. reflexivity.
  - inversion N; subst. destruct (tag_eqb k k') eqn:E; [|auto].
    apply tag_eqb_eq in E. subst. exfalso. apply H2. apply in_map_iff. exists (k', v). auto.
Qed.

Lemma top_remove_length k l v : top_find k l = Some v -> S (length (top_remove k l)) = length l.
Proof.
  induction l as [|[k' v'] l IH]; simpl; [discriminate|].
  destruct (tag_eqb k k'); intros H; simpl; auto.
Qed.

Lemma top_find_remove_other k k' l : k <> k' -> top_find k (top_remove k' l) = top_find k l.
Proof.
  intros D. induction l as [|[k2 v2] l IH]; simpl; [reflexivity|].
  destruct (tag_eqb k' k2) eqn:E.
  - apply tag_eqb_eq in E. subst. destruct (tag_eqb k k2) eqn:E2; [apply tag_eqb_eq in E2; congruence | reflexivity].
  - simpl. rewrite IH. reflexivity.
Qed.

Lemma top_remove_incl k l x : In x (top_remove k l) -> In x l.
Proof.
  induction l as [|[k' v'] l IH]; simpl; [auto|].
  destruct (tag_eqb k k'); simpl; [auto | intros [H|H]; auto].
Qed.

Lemma top_remove_nodup k l : NoDup (map fst l) -> NoDup (map fst (top_remove k l)).
Proof.
  induction l as [|[k' v'] l IH]; simpl; [auto|]. intros N. inversion N; subst.
  destruct (tag_eqb k k'); simpl; [auto|]. constructor; [|auto].
  intros I. apply H1. apply in_map_iff in I. destruct I as ([k2 v2] & E & I). simpl in E. subst.
  apply in_map_iff. exists (k', v2). split; auto. eapply top_remove_incl; eauto.
Qed.

Lemma top_find_remove_same k l : NoDup (map fst l) -> top_find k (top_remove k l) = None.
Proof.
  induction l as [|[k' v'] l IH]; simpl; [auto|]. intros N. inversion N; subst.
  destruct (tag_eqb k k') eqn:E.
  - apply tag_eqb_eq in E. subst. destruct (top_find k' l) eqn:F; [|reflexivity].
    exfalso. apply H1. apply top_find_in_keys. congruence.
  - simpl. rewrite E. auto.
Qed.

Lemma top_find_remove_none k k' l : top_find k l = None -> top_find k (top_remove k' l) = None.
Proof.
  induction l as [|[k2 v2] l IH]; simpl; [auto|].
  destruct (tag_eqb k k2) eqn:E; [discriminate|]. intros H.
  destruct (tag_eqb k' k2); [exact H|]. simpl. rewrite E. auto.
Qed.

Lemma top_set_keys k v l : top_find k l <> None -> map fst (top_set k v l) = map fst l.
Proof.
  induction l as [|[k' v'] l IH]; simpl; [congruence|].
  destruct (tag_eqb k k') eqn:E; intros H; simpl.
  - apply tag_eqb_eq in E. subst. reflexivity.
  - rewrite IH; auto.
Qed.

(* ---------- folding a list of distinct present keys into the tail ---------- *)
Lemma fold_into_tail_props F : forall m rs m' rs',
  NoDup (keys m) -> NoDup F -> (forall k, In k F -> In k (keys m)) ->
  fold_left fold_into_tail F (m, rs) = (m', rs') ->
  (length (m_top m') + length F = length (m_top m))%nat /\
  NoDup (keys m') /\
  (forall k, In k F -> top_find k (m_top m') = None) /\
  (forall k, ~ In k F -> top_find k (m_top m') = top_find k (m_top m)).
Proof.
  induction F as [|k F IH]; intros m rs m' rs' N NF P H; cbn [fold_left] in H.
  - inversion H; subst. split; [simpl; lia|]. split; [auto|]. split; [intros k []|auto].
  - destruct (fold_into_tail (m, rs) k) as [m1 rs1] eqn:E. unfold fold_into_tail in E.
    assert (Ik : In k (keys m)) by (apply P; left; auto). apply top_find_in_keys in Ik.
    destruct (top_find k (m_top m)) as [v|] eqn:Fk; [|congruence].
    destruct (merge_value_raw (m_tail m) v rs) as [t' rs2]. inversion E; subst; clear E.
    inversion NF; subst.
    assert (N1 : NoDup (keys {| m_top := top_remove k (m_top m); m_tail := t'; m_sfl := m_sfl m |}))
      by (unfold keys; simpl; apply top_remove_nodup; exact N).
    assert (P1 : forall k', In k' F -> In k' (keys {| m_top := top_remove k (m_top m); m_tail := t'; m_sfl := m_sfl m |})).
    { intros k' I. unfold keys; simpl. apply top_find_in_keys. rewrite top_find_remove_other.
      - apply top_find_in_keys. apply P. right; auto.
      - intros ->. contradiction. }
    destruct (IH _ _ _ _ N1 H3 P1 H) as (L & N' & R & K). simpl in L.
    pose proof (top_remove_length _ _ _ Fk) as Lr.
    split; [simpl; lia|]. split; [auto|]. split.
    + intros k' [<-|I]; [|auto].
      rewrite K; [|auto]. simpl. apply top_find_remove_same. exact N.
    + intros k' NI. rewrite K; [|intros I; apply NI; right; auto]. simpl.
      apply top_find_remove_other. intros ->. apply NI. left; auto.
Qed.

Lemma NoDup_app_inv {A} (l1 l2 : list A) :
  NoDup (l1 ++ l2) -> NoDup l1 /\ NoDup l2 /\ (forall x, In x l1 -> In x l2 -> False).
Proof.
  induction l1 as [|a l1 IH]; simpl; intros H.
  - split; [constructor|]. split; [exact H|]. intros x [].
  - inversion H; subst. destruct (IH H3) as (A1 & A2 & A3).
    split; [constructor; [intros I; apply H2; apply in_or_app; auto | exact A1]|]. split; [exact A2|].
    intros x [<-|I] I2; [apply H2; apply in_or_app; auto | eauto].
Qed.

Lemma NoDup_skipn {A} n (l : list A) : NoDup l -> NoDup (skipn n l).
Proof. intros N. rewrite <- (firstn_skipn n l) in N. apply NoDup_app_inv in N. tauto. Qed.

Lemma In_skipn {A} n (l : list A) x : In x (skipn n l) -> In x l.
Proof. intros I. rewrite <- (firstn_skipn n l). apply in_or_app. auto. Qed.

(* "at most the configured number of top values remain" *)
Theorem finish_at_most_capacity m cap ord rs m' rs' :
  NoDup (keys m) -> Permutation ord (keys m) -> finish m cap ord rs = (m', rs') ->
  (top_len m' <= Z.max 0 cap)%Z /\ top_len m' = Z.min (top_len m) (Z.max 0 cap).
Proof.
  intros N P H. unfold finish in H. unfold top_len.
  destruct (m_top m) as [|kv0 l0] eqn:T; [inversion H; subst; rewrite T; simpl; lia|]. rewrite <- T in *.
  assert (No : NoDup ord) by (eapply Permutation_NoDup; [apply Permutation_sym; exact P | exact N]).
  destruct (fold_into_tail_props _ _ _ _ _ N (NoDup_skipn _ _ No)
              (fun k I => Permutation_in _ P (In_skipn _ _ _ I)) H) as (L & _).
  rewrite skipn_length in L. pose proof (Permutation_length P) as PL. unfold keys in PL. rewrite map_length in PL.
  lia.
Qed.

(* ---------- sortedness ---------- *)
Lemma desc_from_all m : forall l c, desc_from m c l = true -> forall y, In y l -> (key_cnt m y <= c)%Q.
Proof.
  induction l as [|k l IH]; simpl; intros c H y I; [destruct I|].
  apply andb_true_iff in H. destruct H as [H1 H2]. apply Qle_bool_iff in H1.
  destruct I as [<-|I]; [exact H1|]. eapply Qle_trans; [eapply IH; eauto | exact H1].
Qed.

Lemma desc_from_app m : forall a c b, desc_from m c (a ++ b) = true ->
  forall x y, In x a -> In y b -> (key_cnt m y <= key_cnt m x)%Q.
Proof.
  induction a as [|k a IH]; simpl; intros c b H x y Ix Iy; [destruct Ix|].
  apply andb_true_iff in H. destruct H as [_ H2]. destruct Ix as [<-|Ix].
  - eapply desc_from_all; eauto. apply in_or_app. auto.
  - eapply IH; eauto.
Qed.

Lemma desc_sorted_app m a b : desc_sorted m (a ++ b) = true ->
  forall x y, In x a -> In y b -> (key_cnt m y <= key_cnt m x)%Q.
Proof.
  destruct a as [|k a]; simpl; intros H x y Ix Iy; [destruct Ix|]. destruct Ix as [<-|Ix].
  - eapply desc_from_all; eauto. apply in_or_app. auto.
  - eapply desc_from_app; eauto.
Qed.

(* "every retained value is at least as heavy as every value folded into the tail" (and is left untouched) *)
Theorem finish_keeps_heaviest m cap ord rs m' rs' :
  NoDup (keys m) -> Permutation ord (keys m) -> desc_sorted m ord = true -> finish m cap ord rs = (m', rs') ->
  forall kr vr, In (kr, vr) (m_top m') ->
    In (kr, vr) (m_top m) /\
    forall kf vf, In (kf, vf) (m_top m) -> top_find kf (m_top m') = None -> (vcnt vf <= vcnt vr)%Q.
Proof.
  intros N P D H kr vr Ir. unfold finish in H.
  destruct (m_top m) as [|kv0 l0] eqn:T; [inversion H; subst; rewrite T in Ir; destruct Ir|]. rewrite <- T in *.
  assert (No : NoDup ord) by (eapply Permutation_NoDup; [apply Permutation_sym; exact P | exact N]).
  set (c := Z.to_nat (Z.max 0 cap)) in *.
  destruct (fold_into_tail_props _ _ _ _ _ N (NoDup_skipn _ _ No)
              (fun k I => Permutation_in _ P (In_skipn _ _ _ I)) H) as (_ & N' & R & K).
  pose proof (In_top_find _ _ _ N' Ir) as Fr.
  assert (NIr : ~ In kr (skipn c ord)) by (intros I; rewrite (R _ I) in Fr; discriminate).
  rewrite (K _ NIr) in Fr. split; [apply top_find_In; exact Fr|].
  intros kf vf If Gone. pose proof (In_top_find _ _ _ N If) as Ff.
  assert (Ikf : In kf (skipn c ord)).
  { destruct (in_dec tag_eq_dec kf (skipn c ord)) as [I|NI]; [exact I|]. rewrite (K _ NI) in Gone. congruence. }
  assert (Ikr : In kr (firstn c ord)).
  { assert (I : In kr ord).
    { eapply Permutation_in; [apply Permutation_sym; exact P|]. apply top_find_in_keys. congruence. }
    rewrite <- (firstn_skipn c ord) in I. apply in_app_or in I. destruct I; [auto | contradiction]. }
  rewrite <- (firstn_skipn c ord) in D.
  pose proof (desc_sorted_app _ _ _ D _ _ Ikr Ikf) as Le. unfold key_cnt in Le. rewrite Fr, Ff in Le. exact Le.
Qed.

(* the keys that stay are the first [capacity] of the sorted order, the others are gone *)
Theorem finish_retains_prefix m cap ord rs m' rs' :
  NoDup (keys m) -> Permutation ord (keys m) -> m_top m <> [] -> finish m cap ord rs = (m', rs') ->
  let c := Z.to_nat (Z.max 0 cap) in
  (forall k, In k (firstn c ord) -> top_find k (m_top m') = top_find k (m_top m)) /\
  (forall k, In k (skipn c ord) -> top_find k (m_top m') = None).
Proof.
  intros N P NE H c. unfold finish in H. destruct (m_top m) as [|kv0 l0] eqn:T; [congruence|]. rewrite <- T in *.
  assert (No : NoDup ord) by (eapply Permutation_NoDup; [apply Permutation_sym; exact P | exact N]).
  destruct (fold_into_tail_props _ _ _ _ _ N (NoDup_skipn _ _ No)
              (fun k I => Permutation_in _ P (In_skipn _ _ _ I)) H) as (_ & _ & R & K).
  split; [|exact R]. intros k I. apply K. intros I2.
  rewrite <- (firstn_skipn c ord) in No. apply NoDup_app_inv in No. destruct No as (_ & _ & Dj). eapply Dj; eauto.
Qed.

(* ---------- Top is a map: keys stay distinct along every history ---------- *)
Lemma visit_keys sf k0 : forall m rs m' rs',
  resample_visit sf (m, rs) k0 = (m', rs') ->
  (NoDup (keys m) -> NoDup (keys m')) /\ (forall k, top_find k (m_top m) = None -> top_find k (m_top m') = None).
Proof.
  intros m rs m' rs' H. unfold resample_visit in H.
  destruct (top_find k0 (m_top m)) as [v|]; [|inversion H; subst; auto].
  destruct (Qle_bool (inject_Z sf) (vcnt v)); [inversion H; subst; auto|].
  destruct (uint64n sf rs) as [rv rs1]. destruct (Qltb (inject_Z rv) (vcnt v)); [inversion H; subst; auto|].
  destruct (merge_value_raw (m_tail m) v rs1) as [t' rs2]. inversion H; subst. unfold keys; simpl. split.
  - apply top_remove_nodup.
  - intros k. apply top_find_remove_none.
Qed.

Lemma fold_visit_keys sf ord : forall m rs m' rs',
  fold_left (resample_visit sf) ord (m, rs) = (m', rs') ->
  (NoDup (keys m) -> NoDup (keys m')) /\ (forall k, top_find k (m_top m) = None -> top_find k (m_top m') = None).
Proof.
  induction ord as [|k0 ord IH]; intros m rs m' rs' H; cbn [fold_left] in H.
  - inversion H; subst; auto.
  - destruct (resample_visit sf (m, rs) k0) as [m1 rs1] eqn:E.
    destruct (visit_keys _ _ _ _ _ _ E) as [A1 B1]. destruct (IH _ _ _ _ H) as [A2 B2]. split; auto.
Qed.

Lemma resample_loop_keys cap ords : forall m rs m' rs',
  resample_loop cap m ords rs = Some (m', rs') ->
  (NoDup (keys m) -> NoDup (keys m')) /\ (forall k, top_find k (m_top m) = None -> top_find k (m_top m') = None) /\
  (top_len m' < cap)%Z.
Proof.
  induction ords as [|o ords IH]; intros m rs m' rs' H; simpl in H.
  - destruct (top_len m <? cap)%Z eqn:E; inversion H; subst. apply Z.ltb_lt in E. auto.
  - destruct (top_len m <? cap)%Z; [discriminate|]. destruct (resample m o rs) as [m1 rs1] eqn:E.
    unfold resample in E. apply fold_visit_keys in E. simpl in E. destruct E as [A1 B1].
    destruct (IH _ _ _ _ H) as (A2 & B2 & C2). split; [|split]; auto.
Qed.

Lemma fold_into_tail_keys F : forall m rs m' rs',
  fold_left fold_into_tail F (m, rs) = (m', rs') -> NoDup (keys m) -> NoDup (keys m').
Proof.
  induction F as [|k F IH]; intros m rs m' rs' H N; cbn [fold_left] in H.
  - inversion H; subst; auto.
  - destruct (fold_into_tail (m, rs) k) as [m1 rs1] eqn:E. eapply IH; [exact H|].
    unfold fold_into_tail in E. destruct (top_find k (m_top m)) as [v|]; [|inversion E; subst; auto].
    destruct (merge_value_raw (m_tail m) v rs) as [t' rs2]. inversion E; subst. unfold keys; simpl.
    apply top_remove_nodup. exact N.
Qed.

Lemma step_keys m rs o m' rs' : NoDup (keys m) -> step (m, rs) o = Some (m', rs') -> NoDup (keys m').
Proof.
  intros N H. destruct o as [cap t e ords | cap ord]; simpl in H.
  - unfold add_event in H. destruct (map_string_top m cap t (ev_cnt e) ords rs) as [[[s m1] rs1]|] eqn:M; [|discriminate].
    destruct (write_slot m1 s e rs1) as [m2 rs2] eqn:Wr. inversion H; subst; clear H.
    assert (N1 : NoDup (keys m1)).
    { unfold map_string_top in M.
      destruct (tag_empty t); [inversion M; subst; auto|].
      destruct (top_find (tag_norm t) (m_top m)) as [v|] eqn:F; [inversion M; subst; auto|].
      destruct (if (m_sfl m =? 0)%Z then (false, rs) else
                let '(f, rs1) := float64 rs in (Qle_bool (ev_cnt e) (f * inject_Z (sf_of (m_sfl m))), rs1)) as [totail rs0].
      destruct totail; [inversion M; subst; auto|].
      destruct (resample_loop (if (cap <? 1)%Z then default_capacity else cap) m ords rs0) as [[m3 rs3]|] eqn:L; [|discriminate].
      inversion M; subst; clear M. destruct (resample_loop_keys _ _ _ _ _ _ L) as (A & B & _).
      unfold keys; simpl. rewrite map_app; simpl.
      apply Permutation_NoDup with (l := tag_norm t :: map fst (m_top m3)); [apply Permutation_cons_append|].
      constructor; [|apply A; exact N]. intros I. apply top_find_in_keys in I. apply I. apply B. exact F. }
    unfold write_slot in Wr. destruct s as [|k].
    + destruct (apply_event_raw (m_tail m1) e rs1). inversion Wr; subst. exact N1.
    + destruct (top_find k (m_top m1)) as [v0|] eqn:F; [|inversion Wr; subst; exact N1].
      destruct (apply_event_raw v0 e rs1). inversion Wr; subst. unfold keys; simpl.
      rewrite top_set_keys; [exact N1 | congruence].
  - inversion H; subst; clear H. unfold finish in H1. destruct (m_top m) eqn:T; [inversion H1; subst; auto|].
    eapply fold_into_tail_keys; eauto.
Qed.

Theorem reachable_keys_distinct ops : forall m rs m' rs',
  NoDup (keys m) -> run (m, rs) ops = Some (m', rs') -> NoDup (keys m').
Proof.
  induction ops as [|o ops IH]; intros m rs m' rs' N H; cbn [run] in H.
  - inversion H; subst; auto.
  - destruct (step (m, rs) o) as [[m1 rs1]|] eqn:S; [|discriminate]. eapply IH; [|exact H]. eapply step_keys; eauto.
Qed.

(* MapStringTop never lets Top grow beyond the capacity in force (default 100 when capacity < 1) *)
Theorem map_string_top_within_capacity m cap t count ords rs s m' rs' :
  map_string_top m cap t count ords rs = Some (s, m', rs') ->
  let cap' := if (cap <? 1)%Z then default_capacity else cap in
  (top_len m' <= Z.max (top_len m) cap')%Z.
Proof.
  intros H cap'. unfold map_string_top in H.
  destruct (tag_empty t); [inversion H; subst; lia|].
  destruct (top_find (tag_norm t) (m_top m)) as [v|]; [inversion H; subst; lia|].
  destruct (if (m_sfl m =? 0)%Z then (false, rs) else
            let '(f, rs1) := float64 rs in (Qle_bool count (f * inject_Z (sf_of (m_sfl m))), rs1)) as [totail rs0].
  destruct totail; [inversion H; subst; lia|]. fold cap' in H.
  destruct (resample_loop cap' m ords rs0) as [[m3 rs3]|] eqn:L; [|discriminate].
  inversion H; subst; clear H. destruct (resample_loop_keys _ _ _ _ _ _ L) as (_ & _ & C).
  unfold top_len in *; simpl. rewrite app_length; simpl. lia.
Qed.

(* the boolean check of Corr.v establishes the premise of the theorems above *)
Lemma mem_tag_In k l : mem_tag k l = true <-> In k l.
Proof.
  induction l as [|k' l IH]; simpl; [split; [discriminate | intros []]|].
  rewrite orb_true_iff, IH, tag_eqb_eq. split; intros [H|H]; auto.
Qed.
Lemma nodup_tags_NoDup l : nodup_tags l = true -> NoDup l.
Proof.
  induction l as [|k l IH]; simpl; intros H; [constructor|]. apply andb_true_iff in H. destruct H as [H1 H2].
  constructor; [|auto]. intros I. apply mem_tag_In in I. rewrite I in H1. discriminate.
Qed.
Theorem is_key_order_perm m ord : NoDup (keys m) -> is_key_order m ord = true -> Permutation ord (keys m).
Proof.
  intros N H. unfold is_key_order in H. apply andb_true_iff in H. destruct H as [H H3].
  apply andb_true_iff in H. destruct H as [H1 H2]. apply Nat.eqb_eq in H1. apply nodup_tags_NoDup in H2.
  apply NoDup_Permutation_bis; auto.
  - unfold keys. rewrite map_length. lia.
  - intros k I. rewrite forallb_forall in H3. specialize (H3 k I). apply top_find_in_keys.
    destruct (top_find k (m_top m)); [discriminate | discriminate].
Qed.

(* ---------- finding F-C07a: the resample loop of MapStringTop need not end ---------- *)
(* [sf := 1 << s.sampleFactorLog2] is a 64-bit int: it is 2^l up to l = 62, MinInt64 at l = 63 and 0 from l = 64 on,
   so it never exceeds 2^62. A value whose count is at least 2^62 therefore passes the test
   [v.Value.Count() >= float64(sf)] in every round and is never evicted: with [capacity] such values in Top the loop
   [for len(s.Top) >= capacity { s.resample(rng) }] has no terminating run, whatever the rng returns. *)
Lemma sf_of_le l : (0 <= l)%Z -> (sf_of l <= 4611686018427387904)%Z.
Proof.
  intros H. unfold sf_of. destruct (l <? 63)%Z eqn:E.
  - apply Z.ltb_lt in E. rewrite Z.shiftl_mul_pow2, Z.mul_1_l by lia.
    change 4611686018427387904%Z with (2 ^ 62)%Z. apply Z.pow_le_mono_r; lia.
  - destruct (l =? 63)%Z; unfold Common.Wrap.two63; lia.
Qed.

Definition whale : ivalue := fst (apply_event ivalue0 (ECount (inject_Z 4611686018427387904) 1) []).
Definition whale_row (l : Z) : mitem := {| m_top := [((1, 0)%Z, whale)]; m_tail := ivalue0; m_sfl := l |}.

Lemma whale_visit l k rs : (0 <= l)%Z -> resample_visit (sf_of l) (whale_row l, rs) k = (whale_row l, rs).
Proof.
  intros H. unfold resample_visit. simpl. destruct (tag_eqb k (1, 0)%Z); [|reflexivity].
  assert (E : Qle_bool (inject_Z (sf_of l)) (vcnt whale) = true).
  { apply Qle_bool_iff. change (vcnt whale) with (inject_Z 4611686018427387904). rewrite <- Zle_Qle. apply sf_of_le. exact H. }
  rewrite E. reflexivity.
Qed.

Lemma whale_resample l ord rs : (0 <= l)%Z -> resample (whale_row l) ord rs = (whale_row (l + 1), rs).
Proof.
  intros H. unfold resample. simpl m_sfl. change {| m_top := m_top (whale_row l); m_tail := m_tail (whale_row l); m_sfl := l + 1 |} with (whale_row (l + 1)).
  induction ord as [|k ord IH]; cbn [fold_left]; [reflexivity|]. rewrite whale_visit by lia. exact IH.
Qed.

Theorem resample_loop_never_ends ords : forall l rs, (0 <= l)%Z -> resample_loop 1 (whale_row l) ords rs = None.
Proof.
  induction ords as [|o ords IH]; intros l rs H; simpl; [reflexivity|].
  rewrite whale_resample by exact H. apply IH. lia.
Qed.

(* hence MapStringTop(capacity 1) of a second value into that row has no outcome, for any witness and any stream *)
Theorem map_string_top_never_returns ords rs count :
  map_string_top (whale_row 0) 1 (2, 0)%Z count ords rs = None.
Proof.
  unfold map_string_top. simpl. rewrite resample_loop_never_ends by lia. reflexivity.
Qed.

(* the row is reachable by one valid event (counters up to MaxFloat32 ~ 3.4e38 pass ingestion) *)
Theorem hang_witness :
  exists ops rs m rs',
    Forall ev_nonneg (events_of ops) /\ run (mitem0, rs) ops = Some (m, rs') /\
    forall count ords rs2, map_string_top m 1 (2, 0)%Z count ords rs2 = None.
Proof.
  exists [OEvent 1 (1, 0)%Z (ECount (inject_Z 4611686018427387904) 1) []], [], (whale_row 0), [].
  split; [|split].
  - repeat constructor. unfold ev_nonneg. simpl. discriminate.
  - vm_compute. reflexivity.
  - intros. apply map_string_top_never_returns.
Qed.
