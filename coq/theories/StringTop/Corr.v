(* Correspondence cases for C07: one case = one history of a MultiItem driven through the real
   MapStringTop / MapStringTopBytes / Add…Host / FinishStringTop, with what was observed after every step.
   Witnesses the model cannot predict are inputs of the case and are validated here:
   the raw rng outputs, the map iteration order of every resample round, the order sort.Slice left. *)
From Coq Require Import ZArith QArith List Bool.
From SH Require Import Common.Wrap Common.Corr Agg.Model StringTop.Model.
Import ListNotations.
Open Scope Z_scope.

(* Compact encodings (Coq parses literals slowly): a tag (i, s) is the number i*1024+s; counts are given in
   halves, values in eighths, sums in sixteenths, sums of squares in 1/128. *)
Definition tg (n : Z) : tag := (n / 1024, n mod 1024).

Inductive cev := EC (c2 host : Z) | EV (v8 c2 host : Z).
Definition ev_of (e : cev) : event :=
  match e with
  | EC c2 h => ECount (c2 # 2) h
  | EV v8 c2 h => EValue (v8 # 8) (c2 # 2) h
  end.

(* ItemValue as observed: counter, max-count host, min, max, sum, sumsq, min host, max host, ValueSet *)
Inductive vobs :=
| VO (cnt : Q) (host : Z) (mn mx sm sq : Q) (minh maxh : Z) (set : bool)   (* general form *)
| VC (c2 host : Z)                                                        (* no value yet: everything else is zero *)
| VS (c2 host mn8 mx8 sm16 sq128 minh maxh : Z).                          (* ValueSet *)

Definition vobs_ok (s : ivalue) (o : vobs) : bool :=
  let chk cnt host mn mx sm sq minh maxh set :=
    Qeq_bool (c_cnt (v_c s)) cnt && (c_host (v_c s) =? host) &&
    Qeq_bool (v_min s) mn && Qeq_bool (v_max s) mx && Qeq_bool (v_sum s) sm && Qeq_bool (v_sumsq s) sq &&
    (v_minh s =? minh) && (v_maxh s =? maxh) && Bool.eqb (v_set s) set in
  match o with
  | VO cnt host mn mx sm sq minh maxh set => chk cnt host mn mx sm sq minh maxh set
  | VC c2 host => chk (c2 # 2) host 0%Q 0%Q 0%Q 0%Q 0 0 false
  | VS c2 host mn8 mx8 sm16 sq128 minh maxh => chk (c2 # 2) host (mn8 # 8) (mx8 # 8) (sm16 # 16) (sq128 # 128) minh maxh true
  end.

Inductive cstep :=
(* MapStringTop(cap, t, count of e) then the event is written; observed: pointed into Top?, sampleFactorLog2, len(Top) *)
| CE (cap : Z) (t : Z) (e : cev) (ords : list (list Z)) (o_top : bool) (o_sfl o_len : Z)
(* FinishStringTop(cap); observed: returned whale weight, len(Top) *)
| CF (cap : Z) (ord : list Z) (o_w2 : Z) (o_len : Z)
(* full snapshot: Top (any order), Tail, sampleFactorLog2 *)
| CS (top : list (Z * vobs)) (tail : vobs) (sfl : Z).

Inductive case := CHist (steps : list cstep) (rs : list Z).

(* every element of [ords] enumerates the keys of the map at the start of its round *)
Fixpoint ords_valid (m : mitem) (ords : list (list tag)) (rs : list Z) : bool :=
  match ords with
  | [] => true
  | o :: ords' => is_key_order m o && (let '(m1, rs1) := resample m o rs in ords_valid m1 ords' rs1)
  end.

(* the stream position at which the resample loop of MapStringTop starts *)
Definition after_float (m : mitem) (rs : list Z) : list Z := if m_sfl m =? 0 then rs else tl rs.

Definition cstep_ok (st : mitem * list Z) (c : cstep) : option (mitem * list Z) :=
  let '(m, rs) := st in
  match c with
  | CE cap t e ords o_top o_sfl o_len =>
      let t := tg t in let e := ev_of e in let ords := map (map tg) ords in
      match add_event m cap t e ords rs with
      | None => None
      | Some (s, m', rs') =>
          if Bool.eqb (match s with STail => false | STop _ => true end) o_top &&
             (m_sfl m' =? o_sfl) && (top_len m' =? o_len) && ords_valid m ords (after_float m rs)
          then Some (m', rs') else None
      end
  | CF cap ord o_w2 o_len =>
      let ord := map tg ord in let o_w := (o_w2 # 2)%Q in
      let good := match m_top m with [] => true | _ => is_key_order m ord && desc_sorted m ord end in
      let '(m', rs') := finish m cap ord rs in
      if good && Qeq_bool (finish_weight m) o_w && (top_len m' =? o_len) then Some (m', rs') else None
  | CS top tail sfl =>
      if (Z.of_nat (length top) =? top_len m) && (m_sfl m =? sfl) && vobs_ok (m_tail m) tail &&
         forallb (fun kv => match top_find (tg (fst kv)) (m_top m) with Some v => vobs_ok v (snd kv) | None => false end) top
      then Some st else None
  end.

Fixpoint crun (st : mitem * list Z) (cs : list cstep) : option (mitem * list Z) :=
  match cs with
  | [] => Some st
  | c :: cs' => match cstep_ok st c with Some st' => crun st' cs' | None => None end
  end.

(* the harness appends one sentinel after the raw outputs the implementation consumed: the model must
   consume exactly the same number *)
Definition ok (c : case) : bool :=
  let 'CHist steps rs := c in
  match crun (mitem0, rs) steps with
  | Some (_, [_]) => true
  | _ => false
  end.

Definition mism := mismatches ok.
