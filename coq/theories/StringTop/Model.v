(* C07 — string-top rows: MultiItem.MapStringTop / MapStringTopBytes / resample / FinishStringTop
   (internal/data_model/bucket.go) and the event writers of internal/agent/agent_shard.go
   (item.MapStringTop(...) followed by mv.AddCounterHost / mv.AddValueCounterHost).

   The aggregates (ItemCounter / ItemValue / MultiValue.Merge) are the model of C04: Agg.Model.
   Floats are exact rationals (Q). The rng is an explicit stream of RAW 64-bit outputs of
   pgregory.net/rand (next64), consumed from the head; Float64, Intn and Uint64n are written as the
   library computes them from the raw outputs. Go map iteration order (resample) and the order
   sort.Slice leaves (FinishStringTop) are explicit inputs of the model.
   Executable definitions only. *)
From Coq Require Import ZArith QArith List Bool.
From SH Require Import Common.Wrap Agg.Model.
Import ListNotations.
Open Scope Z_scope.

(* ------------------------------------------------------------------------------------------ *)
(* 1. TagUnion: (I, S) with S an integer naming a string (0 = the empty string)                 *)

Definition tag := (Z * Z)%type.
Definition tag_eqb (a b : tag) : bool := (fst a =? fst b) && (snd a =? snd b).
(* TagUnion.Empty *)
Definition tag_empty (t : tag) : bool := (fst t =? 0) && (snd t =? 0).
(* TagUnion.Normalize: if t.I != 0 { t.S = "" } *)
Definition tag_norm (t : tag) : tag := if fst t =? 0 then t else (fst t, 0).

(* ------------------------------------------------------------------------------------------ *)
(* 2. pgregory.net/rand v1.0.2 on a stream of raw outputs                                       *)

Definition next64 (rs : list Z) : Z * list Z := (hd 0 rs, tl rs).

(* Rand.Uint64n(n): res, frac := bits.Mul64(n, next64()); if n <= MaxUint32 { return res };
   hi, _ := bits.Mul64(n, next64()); _, carry := bits.Add64(frac, hi, 0); return res + carry *)
Definition uint64n (n : Z) (rs : list Z) : Z * list Z :=
  let '(r1, rs1) := next64 rs in
  let p := n * r1 in
  let res := Z.shiftr p 64 in
  if n <=? 4294967295 then (res, rs1)
  else
    let '(r2, rs2) := next64 rs1 in
    let frac := Z.land p (Z.ones 64) in
    let hi := Z.shiftr (n * r2) 64 in
    (res + (if two64 <=? frac + hi then 1 else 0), rs2).

(* Rand.Float64(): float64(next64() & (1<<53 - 1)) * 2^-53 *)
Definition float64 (rs : list Z) : Q * list Z :=
  let '(r, rs1) := next64 rs in (Z.land r (Z.ones 53) # 9007199254740992, rs1).

(* A function of Agg.Model that takes the RESULT of rng.Uint64n(total) as the head of its draw list and
   consumes it or not: run it on the raw stream. *)
Definition with_raw {A} (total : Z) (f : list Z -> A * list Z) (rs : list Z) : A * list Z :=
  let '(d, rs') := uint64n total rs in
  let '(r, rest) := f [d] in
  (r, match rest with [] => rs' | _ => rs end).

Definition vcnt (v : ivalue) : Q := c_cnt (v_c v).

(* MultiValue.Merge / ItemValue.Merge: totalWeight = CounterHostDistribution(s) + CounterHostDistribution(other) *)
Definition merge_value_raw (s o : ivalue) (rs : list Z) : ivalue * list Z :=
  with_raw (host_dist (vcnt s) + host_dist (vcnt o)) (merge_value s o) rs.

Definition ev_cnt (e : event) : Q := match e with ECount c _ => c | EValue _ c _ => c end.

(* mv.AddCounterHost / mv.AddValueCounterHost *)
Definition apply_event_raw (s : ivalue) (e : event) (rs : list Z) : ivalue * list Z :=
  with_raw (host_dist (vcnt s) + host_dist (ev_cnt e)) (apply_event s e) rs.

(* ------------------------------------------------------------------------------------------ *)
(* 3. MultiItem: Top (a Go map: association list with distinct keys), Tail, sampleFactorLog2     *)

Record mitem := { m_top : list (tag * ivalue); m_tail : ivalue; m_sfl : Z }.

Definition mitem0 : mitem := {| m_top := []; m_tail := ivalue0; m_sfl := 0 |}.

Fixpoint top_find (k : tag) (l : list (tag * ivalue)) : option ivalue :=
  match l with
  | [] => None
  | (k', v) :: l' => if tag_eqb k k' then Some v else top_find k l'
  end.

Fixpoint top_remove (k : tag) (l : list (tag * ivalue)) : list (tag * ivalue) :=
  match l with
  | [] => []
  | (k', v) :: l' => if tag_eqb k k' then l' else (k', v) :: top_remove k l'
  end.

Fixpoint top_set (k : tag) (v : ivalue) (l : list (tag * ivalue)) : list (tag * ivalue) :=
  match l with
  | [] => [(k, v)]
  | (k', v') :: l' => if tag_eqb k k' then (k, v) :: l' else (k', v') :: top_set k v l'
  end.

Definition top_len (m : mitem) : Z := Z.of_nat (length (m_top m)).

(* sf := 1 << s.sampleFactorLog2 on a 64-bit int: wraps to MinInt64 at 63 and is 0 from 64 on *)
Definition sf_of (l : Z) : Z := if l <? 63 then Z.shiftl 1 l else if l =? 63 then - two63 else 0.

(* one iteration of the loop body of resample for the map entry k.
   (rng.Intn panics for sf <= 0; that call is reached only with a negative counter.) *)
Definition resample_visit (sf : Z) (st : mitem * list Z) (k : tag) : mitem * list Z :=
  let '(m, rs) := st in
  match top_find k (m_top m) with
  | None => st
  | Some v =>
      if Qle_bool (inject_Z sf) (vcnt v) then st                 (* v.Value.Count() >= float64(sf) *)
      else
        let '(rv, rs1) := uint64n sf rs in                        (* rv := rng.Intn(sf) *)
        if Qltb (inject_Z rv) (vcnt v) then (m, rs1)              (* v.Value.Count() > float64(rv) *)
        else
          let '(t', rs2) := merge_value_raw (m_tail m) v rs1 in   (* s.Tail.Merge(rng, v); delete(s.Top, k) *)
          ({| m_top := top_remove k (m_top m); m_tail := t'; m_sfl := m_sfl m |}, rs2)
  end.

(* resample; [ord] = the order in which range s.Top produced the keys *)
Definition resample (m : mitem) (ord : list tag) (rs : list Z) : mitem * list Z :=
  let l := m_sfl m + 1 in
  fold_left (resample_visit (sf_of l)) ord ({| m_top := m_top m; m_tail := m_tail m; m_sfl := l |}, rs).

(* for len(s.Top) >= capacity { s.resample(rng) } — one element of [ords] per iteration.
   None: the witness does not describe the loop (it stops earlier or has not stopped yet). *)
Fixpoint resample_loop (cap : Z) (m : mitem) (ords : list (list tag)) (rs : list Z) : option (mitem * list Z) :=
  match ords with
  | [] => if top_len m <? cap then Some (m, rs) else None
  | o :: ords' =>
      if top_len m <? cap then None
      else let '(m1, rs1) := resample m o rs in resample_loop cap m1 ords' rs1
  end.

Definition default_capacity : Z := 100.

(* where MapStringTop points the caller to *)
Inductive slot := STail | STop (k : tag).

(* MapStringTop / MapStringTopBytes (rng, capacity, tag, count) *)
Definition map_string_top (m : mitem) (cap : Z) (t : tag) (count : Q) (ords : list (list tag)) (rs : list Z)
  : option (slot * mitem * list Z) :=
  if tag_empty t then Some (STail, m, rs)
  else
    let k := tag_norm t in
    match top_find k (m_top m) with
    | Some _ => Some (STop k, m, rs)
    | None =>
        (* if s.sampleFactorLog2 != 0 && rng.Float64()*float64(sf) >= count { return &s.Tail } *)
        let '(totail, rs1) :=
          if m_sfl m =? 0 then (false, rs)
          else let '(f, rs1) := float64 rs in (Qle_bool count (f * inject_Z (sf_of (m_sfl m))), rs1) in
        if totail then Some (STail, m, rs1)
        else
          let cap' := if cap <? 1 then default_capacity else cap in
          match resample_loop cap' m ords rs1 with
          | None => None
          | Some (m2, rs2) =>
              Some (STop k, {| m_top := m_top m2 ++ [(k, ivalue0)]; m_tail := m_tail m2; m_sfl := m_sfl m2 |}, rs2)
          end
    end.

(* the caller then writes the event into the MultiValue it was pointed to *)
Definition write_slot (m : mitem) (s : slot) (e : event) (rs : list Z) : mitem * list Z :=
  match s with
  | STail =>
      let '(v, rs1) := apply_event_raw (m_tail m) e rs in
      ({| m_top := m_top m; m_tail := v; m_sfl := m_sfl m |}, rs1)
  | STop k =>
      match top_find k (m_top m) with
      | None => (m, rs)
      | Some v0 =>
          let '(v, rs1) := apply_event_raw v0 e rs in
          ({| m_top := top_set k v (m_top m); m_tail := m_tail m; m_sfl := m_sfl m |}, rs1)
      end
  end.

(* Shard.AddCounterHost / AddValueCounterHost / ApplyCounter for one row:
   mv := item.MapStringTop(rng, capacity, topValue, count); mv.Add…Host(rng, …) *)
Definition add_event (m : mitem) (cap : Z) (t : tag) (e : event) (ords : list (list tag)) (rs : list Z)
  : option (slot * mitem * list Z) :=
  match map_string_top m cap t (ev_cnt e) ords rs with
  | None => None
  | Some (s, m1, rs1) => let '(m2, rs2) := write_slot m1 s e rs1 in Some (s, m2, rs2)
  end.

(* ------------------------------------------------------------------------------------------ *)
(* 4. FinishStringTop(rng, capacity); [ord] = the keys of [result] after sort.Slice              *)

Definition fold_into_tail (st : mitem * list Z) (k : tag) : mitem * list Z :=
  let '(m, rs) := st in
  match top_find k (m_top m) with
  | None => st
  | Some v =>
      let '(t', rs1) := merge_value_raw (m_tail m) v rs in
      ({| m_top := top_remove k (m_top m); m_tail := t'; m_sfl := m_sfl m |}, rs1)
  end.

Definition finish (m : mitem) (cap : Z) (ord : list tag) (rs : list Z) : mitem * list Z :=
  match m_top m with
  | [] => (m, rs)
  | _ => fold_left fold_into_tail (skipn (Z.to_nat (Z.max 0 cap)) ord) (m, rs)
  end.

Fixpoint sumcnt (l : list (tag * ivalue)) : Q :=
  match l with [] => 0%Q | (_, v) :: l' => (vcnt v + sumcnt l')%Q end.
(* the returned whaleWeight: Tail count + the counts of all top values before folding *)
Definition finish_weight (m : mitem) : Q := (vcnt (m_tail m) + sumcnt (m_top m))%Q.

(* what sort.Slice(result, count descending) guarantees about [ord]: a permutation of the keys with
   non-increasing counts *)
Definition key_cnt (m : mitem) (k : tag) : Q := match top_find k (m_top m) with Some v => vcnt v | None => 0%Q end.

Fixpoint desc_from (m : mitem) (c : Q) (ord : list tag) : bool :=
  match ord with
  | [] => true
  | k :: ord' => Qle_bool (key_cnt m k) c && desc_from m (key_cnt m k) ord'
  end.
Definition desc_sorted (m : mitem) (ord : list tag) : bool :=
  match ord with [] => true | k :: ord' => desc_from m (key_cnt m k) ord' end.

Fixpoint mem_tag (k : tag) (l : list tag) : bool :=
  match l with [] => false | k' :: l' => tag_eqb k k' || mem_tag k l' end.
Fixpoint nodup_tags (l : list tag) : bool :=
  match l with [] => true | k :: l' => negb (mem_tag k l') && nodup_tags l' end.
(* [ord] enumerates the keys of the map, each once *)
Definition is_key_order (m : mitem) (ord : list tag) : bool :=
  (length ord =? length (m_top m))%nat && nodup_tags ord &&
  forallb (fun k => match top_find k (m_top m) with Some _ => true | None => false end) ord.

(* ------------------------------------------------------------------------------------------ *)
(* 5. histories of one row                                                                       *)

Inductive op :=
| OEvent (cap : Z) (t : tag) (e : event) (ords : list (list tag))
| OFinish (cap : Z) (ord : list tag).

Definition step (st : mitem * list Z) (o : op) : option (mitem * list Z) :=
  let '(m, rs) := st in
  match o with
  | OEvent cap t e ords =>
      match add_event m cap t e ords rs with Some (_, m', rs') => Some (m', rs') | None => None end
  | OFinish cap ord => Some (finish m cap ord rs)
  end.

Fixpoint run (st : mitem * list Z) (ops : list op) : option (mitem * list Z) :=
  match ops with
  | [] => Some st
  | o :: ops' => match step st o with Some st' => run st' ops' | None => None end
  end.

Definition op_events (o : op) : list event := match o with OEvent _ _ e _ => [e] | OFinish _ _ => [] end.
Definition events_of (ops : list op) : list event := flat_map op_events ops.
