(* C01: the composed system (one agent shard, three aggregator replicas, lossy network, restarts). *)
From Coq Require Import ZArith List Bool Arith Lia.
From SH Require Import Common.Wrap Routing.Model Gen.PipelineConsts Pipeline.Model Pipeline.ProofsAgent Pipeline.ProofsAgg.
Import ListNotations.
Open Scope Z_scope.

(* what the translator read in the aggregator's source, as the agent sees it on the wire: after an insert the answer is
   an acknowledgement iff the INSERT succeeded, and an rpc error otherwise (whatever discard bit accompanies the error);
   a full conveyor answers without discard; stale historic buckets and the early returns discard; shutdown hijacks *)
Lemma gen_answers_tie ok r :
  insert_answer ok r = (if ok then GvAck r else GvError r) /\ full_answer r = GvKeep r /\
  gen_stale_discard ok = true /\
  forallb (fun x => x) gen_undecodable_discard = true /\ gen_old_agent_discard = true /\ gen_wrong_shard_discard = true /\
  gen_shutdown_discard = false /\ gen_shutdown_hijacks = true.
Proof. destruct ok; repeat split. Qed.

(* the discard bit written into a response that is sent together with an rpc error is invisible: whatever the source
   computes for it, a failed insert reaches the agent as an error *)
Lemma failed_insert_is_error_whatever_flag (flag : bool -> bool) r :
  (if negb false && gen_insert_sends_err then GvError r else if flag false then GvAck r else GvKeep r) = GvError r.
Proof. reflexivity. Qed.

Lemma store_of_rev l k : In k (store_of (rev l)) <-> In k (store_of l).
Proof.
  induction l as [|x l IH]; simpl; [tauto|]. rewrite store_of_app, in_app_iff, IH.
  destruct x as [q j|q|q|q|[|] ks]; simpl; rewrite ?app_nil_r, ?in_app_iff; tauto.
Qed.

Lemma acks_in_store evs r : acks_ok [] evs -> In (GvAck r) evs -> In (r_key r) (store_of evs).
Proof.
  intros A Hin. apply in_split in Hin. destruct Hin as (e1 & e2 & He).
  pose proof (acks_ok_split _ _ A _ _ _ He) as H. rewrite app_nil_r in H. apply (proj1 (store_of_rev e1 _)) in H.
  rewrite He, store_of_app. apply in_or_app. left. exact H.
Qed.

Definition sinv (s : sys) : Prop :=
  wf (s_agent s) /\
  (forall k, In (EvAccept k) (s_alog s) -> present (s_agent s) k \/ exits (s_alog s) k) /\
  (forall k, In (EvAck k) (s_alog s) -> answered (s_glog s) k true) /\
  (forall g, In g (s_aggs s) -> ginv g) /\
  acks_ok [] (s_glog s).

Lemma answered_mono gl ev k d : answered gl k d -> answered (gl ++ ev) k d.
Proof.
  intros (r & Hk & H). exists r. split; [exact Hk|]. destruct d.
  - destruct H as [H|(j & H)]; [left|right; exists j]; apply in_or_app; left; exact H.
  - apply in_or_app; left; exact H.
Qed.

Lemma sstep_inv s o s' : sinv s -> sstep s o s' -> sinv s'.
Proof.
  intros (W & A & K & G & S) H. inversion H; subst; clear H.
  - (* agent step *)
    destruct (step_inv _ _ _ _ _ W H1) as (W' & St). unfold sinv; simpl. split; [exact W'|]. split; [|split; [|split; [exact G|exact S]]].
    + intros k Hk. apply in_app_or in Hk.
      assert (C : In k (ikeys (s_agent s)) \/ In k (dkeys (s_agent s)) \/ In (EvAccept k) ev \/ exits (s_alog s) k).
      { destruct Hk as [Hk|Hk]; [|tauto]. destruct (A k Hk) as [Hp|He]; [apply present_iff in Hp; tauto|tauto]. }
      destruct C as [C|[C|[C|C]]]; try (right; apply exits_app_l; exact C).
      * destruct (St k (or_introl C)) as [?|[?|?]]; [left; apply present_iff; auto|left; apply present_iff; auto|right; apply exits_app_r; assumption].
      * destruct (St k (or_intror (or_introl C))) as [?|[?|?]]; [left; apply present_iff; auto|left; apply present_iff; auto|right; apply exits_app_r; assumption].
      * destruct (St k (or_intror (or_intror C))) as [?|[?|?]]; [left; apply present_iff; auto|left; apply present_iff; auto|right; apply exits_app_r; assumption].
    + intros k Hk. apply in_app_or in Hk. destruct Hk as [Hk|Hk]; [apply K; exact Hk|].
      destruct (ack_needs_discard _ _ _ _ _ _ H1 Hk) as [(now & dok & over & ->)|(now & hw & ->)]; simpl in H0; exact H0.
  - (* aggregator step *)
    assert (Gg : ginv g) by (apply G; eapply nth_error_In; eauto).
    destruct (gstep_inv _ _ _ _ Gg H1) as (Gg' & Aev). unfold sinv; simpl.
    split; [exact W|]. split; [exact A|]. split; [|split].
    + intros k Hk. apply answered_mono. apply K; exact Hk.
    + intros x Hx. apply replace_nth_in in Hx. destruct Hx as [->|Hx]; [exact Gg'|apply G; exact Hx].
    + apply acks_ok_app; [exact S|]. intros st' _. apply Aev.
Qed.

Lemma sinv_init d now sw : sinv (sys_init d now sw).
Proof.
  unfold sinv, sys_init; simpl. split; [apply wf_init|]. split; [intros k []|]. split; [intros k []|]. split; [|exact I].
  intros g [<-|[<-|[<-|[]]]]; apply ginv_init.
Qed.

Lemma sreach_inv s0 s : sinv s0 -> sreach s0 s -> sinv s.
Proof. intros H0 R. induction R; [exact H0|eapply sstep_inv; eauto]. Qed.

(* end to end: whatever the interleaving of agent steps, aggregator steps of the three replicas, failed inserts,
   lost responses (AError answers) and restarts of either side, an accepted second is still buffered by the agent,
   or its rows were in the body of a successful INSERT, or an aggregator rejected it for one of the listed reasons,
   or the agent dropped it for one of the listed reasons.  Nothing else. *)
Theorem no_silent_loss :
  forall disk_on now sw s k,
  sreach (sys_init disk_on now sw) s -> In (EvAccept k) (s_alog s) ->
  present (s_agent s) k
  \/ In k (store_of (s_glog s))
  \/ (exists r j, r_key r = k /\ In (GvReject r j) (s_glog s))
  \/ (exists x, In (EvDrop k x) (s_alog s)).
Proof.
  intros d now sw s k R Hk. destruct (sreach_inv _ _ (sinv_init d now sw) R) as (_ & A & K & _ & S).
  destruct (A k Hk) as [Hp|[Ha|Hd]]; [left; exact Hp| |right; right; right; exact Hd].
  destruct (K k Ha) as (r & Hr & [Hack|(j & Hrej)]).
  - right; left. rewrite <- Hr. apply acks_in_store; assumption.
  - right; right; left. exists r, j. split; assumption.
Qed.


(* bounded progress, aggregator side: a request that waits in the bucket at the head of the insert queue is answered
   with discard, and its second is in the store, after ONE insert step whose INSERT succeeds *)
Lemma queue_head_inserted g b q r n hw g' ev :
  g_queue g = b :: q -> In r (b_contrib b) -> binv b -> ginsert g true n hw = (g', ev) ->
  In (r_key r) (store_of ev) /\ In (GvAck r) ev.
Proof.
  intros Hq Hr Hb H. unfold ginsert in H. rewrite Hq in H.
  destruct (take_historic n (g_hist g) (oldest_time g) hw) as [[stale hs] rest]. inversion H; subst; clear H. split.
  - rewrite store_of_app. apply in_or_app. right. cbn [app store_of]. apply in_or_app. left.
    cbn [flat_map]. apply in_or_app. left. apply Hb. exact Hr.
  - apply in_or_app. right. right. cbn [flat_map]. apply in_or_app. left.
    apply in_map_iff. exists r. split; [reflexivity|exact Hr].
Qed.

