(* Correspondence cases for C01: what the real agent Shard / Aggregator did on generated inputs. *)
From Coq Require Import ZArith List Bool Arith.
From SH Require Import Common.Wrap Common.Corr Routing.Model Gen.PipelineConsts Pipeline.Model.
Import ListNotations.
Open Scope Z_scope.

Definition sh (b t : Z) : Z := u32 (b + t).
(* times are printed relative to a per-case base (keeps the literals short); the model sees absolute uint32 values *)
Definition shift_op (b : Z) (o : aop) : aop :=
  match o with
  | OAcceptFull k t d ov => OAcceptFull k (sh b t) d ov
  | ORecentBegin k t s d => ORecentBegin k (sh b t) s d
  | ORecentFinish k now a d ov => ORecentFinish k (sh b now) a d ov
  | OPop now => OPop (sh b now)
  | OHistIter k now hw a => OHistIter k (sh b now) hw a
  | OEraseIter k now hw od ov => OEraseIter k (sh b now) hw od ov
  | ORestart n => ORestart n
  end.

Definition aobs_eqb (b : Z) (m o : aobs) : bool :=
  match m, o with
  | RNone, RNone => true
  | RBool x, RBool y => Bool.eqb x y
  | RSent a1 b1, RSent a2 b2 => Bool.eqb a1 a2 && Bool.eqb b1 b2
  | RPop None, RPop None => true
  | RPop (Some (t1, i1, d1)), RPop (Some (t2, i2, d2)) => (t1 =? sh b t2) && (i1 =? i2) && Bool.eqb d1 d2
  | RIter a1 b1 c1, RIter a2 b2 c2 => Bool.eqb a1 a2 && Bool.eqb b1 b2 && Bool.eqb c1 c2
  | _, _ => false
  end.

Fixpoint run_obs (b : Z) (a : agent) (ops : list aop) (obs : list aobs) : option agent :=
  match ops, obs with
  | [], [] => Some a
  | o :: r, ob :: robs =>
      let '(a1, _, m) := astep a (shift_op b o) in
      if aobs_eqb b m ob then run_obs b a1 r robs else None
  | _, _ => None
  end.

Fixpoint insert_known (x : Z * Z) (l : list (Z * Z)) : list (Z * Z) :=
  match l with
  | [] => [x]
  | y :: r => if fst x <? fst y then x :: l else y :: insert_known x r
  end.
Definition known_of (a : agent) : list (Z * Z) :=
  fold_right insert_known [] (map (fun d => (d_id d, d_time d)) (filter (fun d => negb (d_id d =? 0)) (a_disk a))).

Fixpoint list_eqb {A} (e : A -> A -> bool) (x y : list A) : bool :=
  match x, y with
  | [], [] => true
  | a :: r, b :: s => e a b && list_eqb e r s
  | _, _ => false
  end.

(* answer of the handler as the harness sees it *)
Inductive gres := GRDiscard | GRKeep | GRNone | GRRecent (t : Z) | GRHist (t : Z).
Definition gres_eqb (b : Z) (m o : gres) : bool :=
  match m, o with
  | GRDiscard, GRDiscard | GRKeep, GRKeep | GRNone, GRNone => true
  | GRRecent x, GRRecent y | GRHist x, GRHist y => x =? sh b y
  | _, _ => false
  end.

Definition window (oldest : Z) (n : nat) : list bucket := map (fun i => empty_bucket (u32 (oldest + Z.of_nat i))) (seq 0 n).

Definition the_req (t : Z) (h : bool) : req := {| r_id := O; r_key := O; r_time := t; r_hist := h |}.

Definition recv_result (g g' : agg) (ev : list gev) : gres :=
  match ev with
  | GvReject _ _ :: _ => GRDiscard
  | GvAck _ :: _ => GRDiscard
  | GvKeep _ :: _ => GRKeep
  | _ =>
      match find (fun b => negb (Nat.eqb (length (b_contrib b)) 0)) (g_recent g') with
      | Some b => GRRecent (b_time b)
      | None => match find (fun b => negb (Nat.eqb (length (b_contrib b)) 0)) (g_hist g') with
                | Some b => GRHist (b_time b)
                | None => GRNone
                end
      end
  end.

(* what a long-polled contributor finally got on the wire (real rpc client): which path answered, what arrived *)
Inductive wpath := PFull | PInsert (ok : bool).
Inductive wres := WDiscard | WKeep | WError.
Definition wres_of (e : gev) : wres :=
  match e with GvAck _ | GvReject _ _ => WDiscard | GvKeep _ => WKeep | GvError _ => WError | GvInsert _ _ => WError end.
Definition wres_eqb (a b : wres) : bool :=
  match a, b with WDiscard, WDiscard | WKeep, WKeep | WError, WError => true | _, _ => false end.

Inductive case :=
(* one whole history of one agent shard: ops (times relative to base) with what each returned *)
| CAgent (disk_on : bool) (base : Z) (ops : list aop) (obs : list aobs) (hist : list (Z * Z * bool)) (known : list (Z * Z))
(* real handleSendSourceBucket on an aggregator whose recent window is [oldest, oldest+n) *)
| CRecv (base rk oldest : Z) (n : nat) (h : bool) (t hw : Z) (dec shard_ok old deny down : bool) (o : gres)
(* real advanceRecentBuckets: bucket times before, now, ShortWindow -> ready times, new recent times *)
| CAdvance (base : Z) (times : list Z) (now sw : Z) (ready recent : list Z)
(* real popOldestHistoricBucket: historic bucket times, oldestTime, window -> stale (sorted), popped, rest (sorted) *)
| CPopHist (base : Z) (times : list Z) (oldest hw : Z) (stale : list Z) (popped : option Z) (rest : list Z)
(* real goTicker (+ real goInsert) over a real rpc connection: the answer the client received *)
| CWire (p : wpath) (o : wres).

Fixpoint insert_z (x : Z) (l : list Z) : list Z :=
  match l with [] => [x] | y :: r => if x <? y then x :: l else y :: insert_z x r end.
Definition sort_z (l : list Z) : list Z := fold_right insert_z [] l.

Definition ok (c : case) : bool :=
  match c with
  | CAgent disk_on b ops obs hist known =>
      match run_obs b (agent_init disk_on) ops obs with
      | None => false
      | Some a =>
          list_eqb (fun x y => let '(t1, i1, d1) := x in let '(t2, i2, d2) := y in (t1 =? sh b t2) && (i1 =? i2) && Bool.eqb d1 d2)
                   (map (fun it => (it_time it, it_id it, it_data it)) (a_hist a)) hist
          && list_eqb (fun x y => (fst x =? fst y) && (snd x =? sh b (snd y))) (known_of a) known
      end
  | CRecv b rk oldest n h t hw dec shard_ok old deny down o =>
      let g := {| g_recent := window (sh b oldest) n; g_hist := []; g_queue := []; g_rk := rk; g_down := down |} in
      let '(g', ev) := grecv g (the_req (sh b t) h) {| f_decodable := dec; f_shard_ok := shard_ok; f_old_agent := old |} deny hw in
      gres_eqb b (recv_result g g' ev) o
  | CAdvance b times now sw ready recent =>
      let '(rd, keep) := advance_recent (map (fun t => empty_bucket (sh b t)) times) (sh b now) sw in
      list_eqb Z.eqb (map b_time rd) (map (fun t => sh b t) ready) && list_eqb Z.eqb (map b_time keep) (map (fun t => sh b t) recent)
  | CPopHist b times oldest hw stale popped rest =>
      let '(st, p, rs) := pop_historic (map (fun t => empty_bucket (sh b t)) times) (sh b oldest) hw in
      list_eqb Z.eqb (sort_z (map b_time st)) (map (fun t => sh b t) stale)
      && match p, popped with Some x, Some y => b_time x =? sh b y | None, None => true | _, _ => false end
      && list_eqb Z.eqb (sort_z (map b_time rs)) (map (fun t => sh b t) rest)
  | CWire p o =>
      wres_eqb (wres_of (match p with PFull => full_answer (the_req 0 false) | PInsert k => insert_answer k (the_req 0 false) end)) o
  end.

Definition mism := mismatches ok.
