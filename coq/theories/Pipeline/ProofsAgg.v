(* C01, aggregator side: a discard answer is a deliberate rejection or follows a successful INSERT whose body
   contains the rows of that second. *)
From Coq Require Import ZArith List Bool Arith Lia.
From SH Require Import Common.Wrap Routing.Model Gen.PipelineConsts Pipeline.Model.
Import ListNotations.
Open Scope Z_scope.

(* reading an event list left to right with the store built so far: every GvAck finds its second in the store *)
Fixpoint acks_ok (st : list key) (evs : list gev) : Prop :=
  match evs with
  | [] => True
  | GvInsert true ks :: r => acks_ok (ks ++ st) r
  | GvAck q :: r => In (r_key q) st /\ acks_ok st r
  | _ :: r => acks_ok st r
  end.

Definition is_ack (e : gev) : bool := match e with GvAck _ => true | _ => false end.

Lemma acks_ok_mono evs : forall st st', incl st st' -> acks_ok st evs -> acks_ok st' evs.
Proof.
  induction evs as [|e r IH]; intros st st' Hi H; simpl in *; [exact I|].
  destruct e as [q j|q|q|q|ok ks]; try (eapply IH; eauto; fail).
  - destruct H as [H1 H2]. split; [apply Hi; exact H1|eapply IH; eauto].
  - destruct ok; [|eapply IH; eauto]. eapply IH; [|exact H]. intros x Hx. apply in_or_app. apply in_app_or in Hx. destruct Hx; auto.
Qed.

Lemma acks_ok_app e1 : forall st e2, acks_ok st e1 -> (forall st', incl st st' -> acks_ok st' e2) -> acks_ok st (e1 ++ e2).
Proof.
  induction e1 as [|e r IH]; intros st e2 H1 H2; simpl in *; [apply H2, incl_refl|].
  destruct e as [q j|q|q|q|ok ks]; try (apply IH; auto; fail).
  - destruct H1 as [Ha Hb]. split; [exact Ha|apply IH; auto].
  - destruct ok; [|apply IH; auto]. apply IH; [exact H1|]. intros st' Hi. apply H2. intros x Hx. apply Hi. apply in_or_app. auto.
Qed.

Lemma no_ack_ok evs : forallb (fun e => negb (is_ack e)) evs = true -> forall st, acks_ok st evs.
Proof.
  induction evs as [|e r IH]; intros H st; simpl in *; [exact I|].
  apply andb_true_iff in H. destruct H as [He Hr].
  destruct e as [q j|q|q|q|ok ks]; simpl in He; try discriminate; try (apply IH; exact Hr).
  destruct ok; apply IH; exact Hr.
Qed.

(* the invariant: whoever waits on a bucket has his rows merged into that bucket *)
Definition binv (b : bucket) : Prop := forall r, In r (b_contrib b) -> In (r_key r) (b_merged b).
Definition linv (l : list bucket) : Prop := forall b, In b l -> binv b.
Definition ginv (g : agg) : Prop := linv (g_recent g) /\ linv (g_hist g) /\ linv (g_queue g).

Lemma binv_empty t : binv (empty_bucket t).
Proof. intros r []. Qed.

Lemma binv_add b r : binv b -> binv (add_to_bucket b r).
Proof.
  intros H q Hq. unfold add_to_bucket in *; simpl in *. apply in_app_or in Hq. apply in_or_app.
  destruct Hq as [Hq|[<-|[]]]; [left; apply H; exact Hq|right; left; reflexivity].
Qed.

Lemma linv_file_recent l t r : linv l -> linv (file_recent l t r).
Proof.
  induction l as [|b rest IH]; intros H; simpl; [exact H|].
  destruct (b_time b =? t); intros x [<-|Hx].
  - apply binv_add. apply H. left; reflexivity.
  - apply H. right; exact Hx.
  - apply H. left; reflexivity.
  - apply IH; [intros y Hy; apply H; right; exact Hy|exact Hx].
Qed.

Lemma linv_file_hist l t r : linv l -> linv (file_hist l t r).
Proof.
  induction l as [|b rest IH]; intros H; simpl.
  - intros x [<-|[]]. apply binv_add, binv_empty.
  - destruct (b_time b =? t); intros x [<-|Hx].
    + apply binv_add. apply H. left; reflexivity.
    + apply H. right; exact Hx.
    + apply H. left; reflexivity.
    + apply IH; [intros y Hy; apply H; right; exact Hy|exact Hx].
Qed.

Lemma split_ready_incl l now sw rd keep : split_ready l now sw = (rd, keep) -> incl rd l /\ incl keep l.
Proof.
  revert rd keep; induction l as [|b rest IH]; intros rd keep H; simpl in H.
  - inversion H; subst. split; apply incl_refl.
  - destruct (u32 (b_time b + sw) <? now).
    + destruct (split_ready rest now sw) as [rd0 keep0]. inversion H; subst. destruct (IH _ _ eq_refl) as [I1 I2].
      split; [intros x [<-|Hx]; [left; reflexivity|right; apply I1; exact Hx]|apply incl_tl; exact I2].
    + inversion H; subst. split; [intros x []|apply incl_refl].
Qed.

Lemma linv_extend n : forall l first, linv l -> linv (extend_recent l first n).
Proof.
  induction n as [|n IH]; intros l first H; simpl; [exact H|].
  apply IH. intros b Hb. apply in_app_or in Hb. destruct Hb as [Hb|[<-|[]]]; [apply H; exact Hb|apply binv_empty].
Qed.

Lemma advance_recent_inv l now sw rd keep : linv l -> advance_recent l now sw = (rd, keep) -> linv rd /\ linv keep.
Proof.
  intros H Ha. unfold advance_recent in Ha. destruct (split_ready l now sw) as [rd0 keep0] eqn:Es.
  destruct (split_ready_incl _ _ _ _ _ Es) as [I1 I2]. inversion Ha; subst; clear Ha. split.
  - intros b Hb. apply H, I1, Hb.
  - apply linv_extend. destruct keep0 as [|k0 kr]; [intros x [<-|[]]; apply binv_empty|]. intros x Hx. apply H, I2, Hx.
Qed.

(* the answers as the agent sees them (these hold for the generated flags; they do not depend on the discard bit
   that accompanies an rpc error) *)
Lemma full_answer_not_ack r : is_ack (full_answer r) = false.
Proof. reflexivity. Qed.
Lemma insert_answer_failed r : insert_answer false r = GvError r.
Proof. reflexivity. Qed.
Lemma insert_answer_ok r : insert_answer true r = GvAck r.
Proof. reflexivity. Qed.

Lemma tick_ready_inv rd : forall g room g' ev, ginv g -> linv rd -> tick_ready g rd room = (g', ev) ->
  ginv g' /\ forallb (fun e => negb (is_ack e)) ev = true.
Proof.
  induction rd as [|b rest IH]; intros g room g' ev G L H; simpl in H.
  - inversion H; subst. split; [exact G|reflexivity].
  - assert (Lr : linv rest) by (intros x Hx; apply L; right; exact Hx).
    destruct (negb (ticker_inserts (b_time b) (g_rk g))); [eapply IH; eauto|].
    destruct (g_down g); [inversion H; subst; split; [exact G|reflexivity]|].
    destruct room as [|[|] room'].
    + simpl in H. destruct (tick_ready g rest []) as [g1 ev1] eqn:Et. inversion H; subst.
      destruct (IH _ _ _ _ G Lr Et) as [G1 N1]. split; [exact G1|].
      rewrite forallb_app, N1, andb_true_r. rewrite forallb_forall. intros e He. apply in_map_iff in He.
      destruct He as (q & <- & _). rewrite full_answer_not_ack; reflexivity.
    + eapply IH; [|exact Lr|exact H]. destruct G as (G1 & G2 & G3). split; [exact G1|]. split; [exact G2|].
      simpl. intros x Hx. apply in_app_or in Hx. destruct Hx as [Hx|[<-|[]]]; [apply G3; exact Hx|apply L; left; reflexivity].
    + simpl in H. destruct (tick_ready g rest room') as [g1 ev1] eqn:Et. inversion H; subst.
      destruct (IH _ _ _ _ G Lr Et) as [G1 N1]. split; [exact G1|].
      rewrite forallb_app, N1, andb_true_r. rewrite forallb_forall. intros e He. apply in_map_iff in He.
      destruct He as (q & <- & _). rewrite full_answer_not_ack; reflexivity.
Qed.

Lemma min_bucket_in l : forall best m, min_bucket l best = Some m -> In m l \/ best = Some m.
Proof.
  induction l as [|b r IH]; intros best m H; simpl in H; [right; exact H|].
  destruct best as [x|].
  - destruct (b_time b <? b_time x).
    + destruct (IH _ _ H) as [Hi|He]; [left; right; exact Hi|inversion He; subst; left; left; reflexivity].
    + destruct (IH _ _ H) as [Hi|He]; [left; right; exact Hi|right; exact He].
  - destruct (IH _ _ H) as [Hi|He]; [left; right; exact Hi|inversion He; subst; left; left; reflexivity].
Qed.

Lemma pop_historic_incl h oldest hw stale ob rest :
  pop_historic h oldest hw = (stale, ob, rest) ->
  incl stale h /\ incl rest h /\ (forall m, ob = Some m -> In m h).
Proof.
  unfold pop_historic. intros H.
  assert (F : forall f, incl (filter f h) h) by (intros f x Hx; apply filter_In in Hx; tauto).
  destruct (min_bucket (filter (fun b => negb (is_stale oldest hw b)) h) None) as [m|] eqn:Em; inversion H; subst; clear H.
  - split; [apply F|]. split; [intros x Hx; apply filter_In in Hx; destruct Hx as [Hx _]; eapply F; eauto|].
    intros m0 Hm. inversion Hm; subst. destruct (min_bucket_in _ _ _ Em) as [Hi|He]; [eapply F; eauto|discriminate].
  - split; [apply F|]. split; [apply F|]. intros m0 Hm. discriminate.
Qed.

Lemma take_historic_incl n : forall h oldest hw stale hs rest,
  take_historic n h oldest hw = (stale, hs, rest) -> incl stale h /\ incl hs h /\ incl rest h.
Proof.
  induction n as [|n IH]; intros h oldest hw stale hs rest H; simpl in H.
  - inversion H; subst. split; [intros x []|]. split; [intros x []|apply incl_refl].
  - destruct (pop_historic h oldest hw) as [[st ob] rs] eqn:Ep. destruct (pop_historic_incl _ _ _ _ _ _ Ep) as (P1 & P2 & P3).
    destruct ob as [b|].
    + destruct (take_historic n rs oldest hw) as [[st2 bs] rest2] eqn:Et. inversion H; subst; clear H.
      destruct (IH _ _ _ _ _ _ Et) as (I1 & I2 & I3). split; [|split].
      * intros x Hx. apply in_app_or in Hx. destruct Hx as [Hx|Hx]; [apply P1; exact Hx|apply P2, I1; exact Hx].
      * intros x [<-|Hx]; [apply P3; reflexivity|apply P2, I2; exact Hx].
      * intros x Hx. apply P2, I3; exact Hx.
    + inversion H; subst. split; [exact P1|]. split; [intros x []|exact P2].
Qed.

Lemma in_flat_map_contrib (f : req -> gev) (bs : list bucket) e :
  In e (flat_map (fun x => map f (b_contrib x)) bs) -> exists b r, In b bs /\ In r (b_contrib b) /\ e = f r.
Proof.
  intros H. apply in_flat_map in H. destruct H as (b & Hb & He). apply in_map_iff in He. destruct He as (r & <- & Hr). eauto.
Qed.

Lemma answers_ok ok (batch : list bucket) st :
  linv batch -> incl (flat_map b_merged batch) st ->
  acks_ok st (flat_map (fun x => map (insert_answer ok) (b_contrib x)) batch).
Proof.
  intros L Hi.
  assert (G : forall evs, (forall e, In e evs -> (exists r, e = GvAck r /\ In (r_key r) st) \/ (exists r, e = GvError r)) -> acks_ok st evs).
  { induction evs as [|e r IH]; intros H; simpl; [exact I|].
    destruct (H e (or_introl eq_refl)) as [(q & -> & Hq)|(q & ->)].
    - split; [exact Hq|apply IH; intros e' He'; apply H; right; exact He'].
    - apply IH; intros e' He'; apply H; right; exact He'. }
  apply G. intros e He. apply in_flat_map_contrib in He. destruct He as (b & r & Hb & Hr & ->).
  destruct ok; [rewrite insert_answer_ok; left|rewrite insert_answer_failed; right; eauto]. exists r. split; [reflexivity|].
  apply Hi. apply in_flat_map. exists b. split; [exact Hb|]. apply (L b Hb). exact Hr.
Qed.

Lemma ginv_init now sw rk : ginv (agg_init now sw rk).
Proof.
  unfold agg_init, ginv. cbn [g_recent g_hist g_queue].
  split; [|split; intros x []].
  destruct (advance_recent [] now sw) as [rd keep] eqn:Ea. cbn [snd].
  assert (L0 : linv []) by (intros x []).
  exact (proj2 (advance_recent_inv _ _ _ _ _ L0 Ea)).
Qed.

Lemma gstep_inv g o g' ev : ginv g -> gstep g o = (g', ev) -> ginv g' /\ forall st, acks_ok st ev.
Proof.
  intros G H. destruct G as (G1 & G2 & G3). destruct o as [r f d hw|now sw room|ok n hw|rid| |now sw]; simpl in H.
  - (* GRecv *)
    unfold grecv in H.
    assert (T : forall e, is_ack e = false -> ginv g /\ forall st, acks_ok st [e]).
    { intros e He. split; [repeat split; assumption|]. intros st. apply no_ack_ok. simpl. rewrite He. reflexivity. }
    destruct (negb (f_decodable f)); [inversion H; subst; apply T; destruct (forallb _ _); reflexivity|].
    destruct (d && f_old_agent f); [inversion H; subst; apply T; destruct gen_old_agent_discard; reflexivity|].
    destruct (negb (f_shard_ok f)); [inversion H; subst; apply T; destruct gen_wrong_shard_discard; reflexivity|].
    destruct (g_down g).
    { simpl in H. inversion H; subst. split; [repeat split; assumption|]. intros st; exact I. }
    destruct (file_bucket (r_hist r) (r_time r) (oldest_time g) (newest_time g) hw (g_rk g)) as [[| |t|t]|];
      inversion H; subst; clear H.
    + apply T. reflexivity.
    + apply T. reflexivity.
    + split; [|intros st; exact I]. split; [|split]; simpl; auto. apply linv_file_recent; exact G1.
    + split; [|intros st; exact I]. split; [|split]; simpl; auto. apply linv_file_hist; exact G2.
    + split; [repeat split; assumption|]. intros st; exact I.
  - (* GTick *)
    unfold gtick in H. destruct (advance_recent (g_recent g) now sw) as [rd keep] eqn:Ea.
    destruct (advance_recent_inv _ _ _ _ _ G1 Ea) as [L1 L2].
    assert (Gk : ginv (set_recent g keep)) by (split; [exact L2|split; assumption]).
    destruct (tick_ready_inv _ _ _ _ _ Gk L1 H) as [Gn Nn]. split; [exact Gn|]. intros st. apply no_ack_ok. exact Nn.
  - (* GInsert *)
    unfold ginsert in H. destruct (g_queue g) as [|b q] eqn:Eq.
    { inversion H; subst. split; [split; [exact G1|split; [exact G2|rewrite Eq; exact G3]]|intros st; exact I]. }
    destruct (take_historic n (g_hist g) (oldest_time g) hw) as [[stale hs] rest] eqn:Et.
    destruct (take_historic_incl _ _ _ _ _ _ _ Et) as (I1 & I2 & I3).
    inversion H; subst; clear H. split.
    + split; [exact G1|]. split; simpl.
      * intros x Hx. apply G2, I3, Hx.
      * intros x Hx. apply G3. right; exact Hx.
    + intros st. apply acks_ok_app.
      * apply no_ack_ok. rewrite forallb_forall. intros e He. apply in_flat_map_contrib in He. destruct He as (b0 & r0 & _ & _ & ->).
        destruct (gen_stale_discard ok); reflexivity.
      * intros st' _.
        assert (Lb : linv (b :: hs)).
        { intros x [<-|Hx]; [apply G3; left; reflexivity|apply G2, I2, Hx]. }
        change (acks_ok st' (GvInsert ok (flat_map b_merged (b :: hs)) ::
                 flat_map (fun x => map (insert_answer ok) (b_contrib x)) (b :: hs))).
        destruct ok.
        -- change (acks_ok (flat_map b_merged (b :: hs) ++ st')
                    (flat_map (fun x => map (insert_answer true) (b_contrib x)) (b :: hs))).
           apply answers_ok; [exact Lb|]. intros x Hx. apply in_or_app. left. exact Hx.
        -- change (acks_ok st'
                    (flat_map (fun x => map (insert_answer false) (b_contrib x)) (b :: hs))).
           apply no_ack_ok. rewrite forallb_forall. intros e He. apply in_flat_map_contrib in He.
           destruct He as (b0 & r0 & _ & _ & ->). reflexivity.
  - (* GCancel *)
    inversion H; subst; clear H. split; [|intros st; exact I].
    assert (D : forall l, linv l -> linv (map (drop_contrib rid) l)).
    { intros l L x Hx. apply in_map_iff in Hx. destruct Hx as (b & <- & Hb). intros r Hr. unfold drop_contrib in *; simpl in *.
      apply filter_In in Hr. apply (L b Hb). tauto. }
    split; [|split]; simpl; apply D; assumption.
  - inversion H; subst. split; [split; [exact G1|split; [exact G2|exact G3]]|intros st; exact I].
  - inversion H; subst. split; [apply ginv_init|intros st; exact I].
Qed.

Lemma grun_inv ops : forall g g' ev, ginv g -> grun g ops = (g', ev) -> ginv g' /\ forall st, acks_ok st ev.
Proof.
  induction ops as [|o r IH]; intros g g' ev G H; simpl in H.
  - inversion H; subst. split; [exact G|intros st; exact I].
  - destruct (gstep g o) as [g1 ev1] eqn:Es. destruct (grun g1 r) as [g2 ev2] eqn:Er. inversion H; subst; clear H.
    destruct (gstep_inv _ _ _ _ G Es) as [G1 A1]. destruct (IH _ _ _ G1 Er) as [G2 A2]. split; [exact G2|].
    intros st. apply acks_ok_app; [apply A1|intros st' _; apply A2].
Qed.

(* acks_ok read as a statement about positions in the event list *)
Lemma store_of_app l1 l2 : store_of (l1 ++ l2) = store_of l1 ++ store_of l2.
Proof.
  induction l1 as [|x l1 IH]; simpl; [reflexivity|].
  destruct x as [q j|q|q|q|ok ks]; try exact IH. destruct ok; [|exact IH]. rewrite IH, app_assoc. reflexivity.
Qed.

Lemma acks_ok_split evs : forall st, acks_ok st evs -> forall e1 r e2, evs = e1 ++ GvAck r :: e2 -> In (r_key r) (store_of (rev e1) ++ st).
Proof.
  induction evs as [|e rest IH]; intros st H e1 r e2 He.
  - destruct e1; discriminate.
  - destruct e1 as [|x e1'].
    + simpl in He. inversion He; subst. simpl in H. destruct H as [H _]. simpl. exact H.
    + simpl in He. inversion He; subst. simpl in H.
      assert (K : forall st0, acks_ok st0 (e1' ++ GvAck r :: e2) -> In (r_key r) (store_of (rev e1') ++ st0)) by (intros st0 H0; eapply IH; eauto).
      cbn [rev]. rewrite store_of_app, <- app_assoc.
      destruct x as [q j|q|q|q|ok ks]; cbn [store_of app]; try (apply K; exact H).
      * destruct H as [_ H]. apply K; exact H.
      * destruct ok; cbn [app]; [|apply K; exact H]. rewrite app_nil_r. apply K. exact H.
Qed.

(* the second clause of C01, for every history of one aggregator replica *)
Theorem ack_only_after_insert_or_reject :
  forall now sw rk ops g ev,
  grun (agg_init now sw rk) ops = (g, ev) ->
  forall e1 r e2, ev = e1 ++ GvAck r :: e2 ->
  exists f1 ks f2, e1 = f1 ++ GvInsert true ks :: f2 /\ In (r_key r) ks.
Proof.
  intros now sw rk ops g ev H e1 r e2 He.
  destruct (grun_inv ops _ _ _ (ginv_init now sw rk) H) as [_ A].
  pose proof (acks_ok_split _ _ (A []) _ _ _ He) as Hin. rewrite app_nil_r in Hin.
  clear - Hin. (* a key in the store of a prefix comes from some successful insert in that prefix *)
  assert (G : forall l k, In k (store_of l) -> exists a ks b, l = a ++ GvInsert true ks :: b /\ In k ks).
  { induction l as [|x l IH]; intros k Hk; [destruct Hk|].
    assert (Skip : In k (store_of l) -> exists a ks b, x :: l = a ++ GvInsert true ks :: b /\ In k ks).
    { intros Hk'. destruct (IH _ Hk') as (a & ks0 & b & -> & Hks). exists (x :: a), ks0, b. split; [reflexivity|exact Hks]. }
    destruct x as [q j|q|q|q|[|] ks]; cbn [store_of] in Hk; try (apply Skip; exact Hk).
    apply in_app_or in Hk. destruct Hk as [Hk|Hk]; [|apply Skip; exact Hk].
    exists [], ks, l. split; [reflexivity|exact Hk]. }
  destruct (G _ _ Hin) as (a & ks & b & Hr & Hks).
  exists (rev b), ks, (rev a). split; [|exact Hks].
  rewrite <- (rev_involutive e1), Hr, rev_app_distr. simpl. rewrite <- app_assoc. reflexivity.
Qed.
